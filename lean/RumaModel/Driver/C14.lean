import RumaModel.Driver.HtmlCodec
import RumaModel.Spec.HtmlAllow
import RumaModel.Generated.C14
import RumaModel.Lemmas.HtmlTables
import RumaModel.Lemmas.HtmlSorted
namespace Ruma.Driver.C14
open Ruma Ruma.Proto Ruma.Html Ruma.Driver.Html

/-- The static lists the model runs with: extracted from the implementation on this run (T1);
class patterns are not observable and come from the spec. -/
def implLists : Lists := Lemmas.HtmlTables.implLists

def handle (toks : List String) : String :=
  match toks with
  | "c14.clean" :: rest =>
    match parseVal rest with
    | some (cfgv, _html :: rest') =>
      match parseCfg cfgv, parseForest rest' with
      | some cfg, some (f, []) =>
        -- attribute lists must arrive in the model's order of `Attribute` (= Rust's derived `Ord`)
        if !Lemmas.Html.sortedForestB f then "bad-op"
        else "ok " ++ showForest (clean implLists cfg f)
      | _, _ => "bad-op"
    | _ => "bad-op"
  -- T1 cells: answered by the SPEC
  | ["c14.elem", m, n] =>
    match parseMode m, parseText n with
    | some _, some n => tf (Spec.HtmlAllow.elemAllowed n)
    | _, _ => "bad-op"
  | ["c14.attr", m, el, a] =>
    match parseMode m, parseText el, parseText a with
    | some _, some el, some a => tf (Spec.HtmlAllow.attrAllowed el a)
    | _, _, _ => "bad-op"
  | ["c14.scheme", m, el, a, v] =>
    match parseMode m, parseText el, parseText a, parseText v with
    | some m, some el, some a, some v => tf (Spec.HtmlAllow.valueAllowed m el a v)
    | _, _, _, _ => "bad-op"
  | ["c14.class", m, el, cl] =>
    match parseMode m, parseText el, parseText cl with
    | some _, some el, some cl => tf (Spec.HtmlAllow.classAllowed el cl)
    | _, _, _ => "bad-op"
  | ["c14.depth", m, k] =>
    match parseMode m, k.toNat? with
    | some _, some k => tf (decide (k < Spec.HtmlAllow.maxDepth))
    | _, _ => "bad-op"
  | ["c14.repl", m, el] =>
    match parseMode m, parseText el with
    | some _, some el => "to " ++ textTok (Spec.HtmlAllow.elemReplacement el)
    | _, _ => "bad-op"
  | ["c14.replattr", m, el, a] =>
    match parseMode m, parseText el, parseText a with
    | some _, some el, some a => "to " ++ textTok (Spec.HtmlAllow.attrReplacement el a)
    | _, _, _ => "bad-op"
  | _ => "bad-op"

end Ruma.Driver.C14

def main : IO Unit := Ruma.Proto.runDriver Ruma.Driver.C14.handle
