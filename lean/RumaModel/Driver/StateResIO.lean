/-
  Request decoding / answer encoding shared by the C06 and C07 drivers (executable only).

  Requests (J = one token-encoded JSON value):
    `<p>.topo <ord> J` / `<p>.topospec <ord> J`
        J = [[id, [edge…], power, ts]…]   (graph in the order the harness' HashMap iterated)
        → `ok <n> s<id>…` | `err`
    `<p>.resolve <ver> <ord> J` / `<p>.resolvespec <ver> <ord> J`
        J = [[event…], [[[type, key, id]…]…], [[id…]…]]
        event = [id, room, sender, type, state_key|null, content, [prev…], [auth…], ts]
        → `ok <n> (s<type> s<key> s<id>)…` sorted by (type, key) | `err` | `panic` | `fuel`
    `<p>.hyp <ver> <ord> J` → `wf|nowf` `+f4free|+f4`: do `RoomOk` / `F4Free` hold for the room
  `ord` selects the iteration orders the *model* uses for its hash containers (any value must give
  the same answer — C06); the spec side uses it to permute its inputs.
-/
import RumaModel.Proto
import RumaModel.Model.StateRes
import RumaModel.Model.Auth
import RumaModel.Spec.StateResV2
import RumaModel.Lemmas.StateResHyp
namespace Ruma.Driver.StateResIO
open Ruma Ruma.Proto Ruma.StateRes

def jStr : JVal → Option Str
  | .str s => some s
  | _ => none

def jInt : JVal → Option Int
  | .int i => some i
  | _ => none

def jArr : JVal → Option (List JVal)
  | .arr xs => some xs
  | _ => none

def jStrs (v : JVal) : Option (List Str) := (jArr v).bind (fun xs => xs.mapM jStr)

/-- A family of permutations indexed by a number: rotations, optionally reversed. -/
def shuf (k : Nat) (l : List α) : List α :=
  if k = 0 then l
  else
    let r := l.rotateLeft (k / 2)
    if k % 2 = 1 then r.reverse else r

def mkOrders (k : Nat) : Orders :=
  if k = 0 then Orders.id
  else
    { occ := ⟨shuf k⟩
      occIn := fun key => ⟨shuf (k + key.2.length)⟩
      idCounts := ⟨shuf (k + 1)⟩
      confVals := ⟨shuf (k + 2)⟩
      allConf := ⟨shuf (k + 3)⟩
      graph := ⟨shuf (k + 4)⟩
      edges := fun n => ⟨shuf (k + n.length)⟩
      parents := fun n => ⟨shuf (k + 1 + n.length)⟩
      orderMap := ⟨shuf (k + 5)⟩ }

def mkParams (r : AuthRules) : Params := realParams r

def parseEvent (v : JVal) : Option Event :=
  match v with
  | .arr [id, room, sender, ty, sk, .obj content, prev, auth, ts] => do
    let id ← jStr id
    let room ← jStr room
    let sender ← jStr sender
    let ty ← jStr ty
    let sk ← (match sk with
      | .null => some none
      | .str s => some (some s)
      | _ => none)
    let prev ← jStrs prev
    let auth ← jStrs auth
    let ts ← jInt ts
    some { eventId := id, roomId := room, sender := sender, type := ty, stateKey := sk,
           content := content, prevEvents := prev, authEvents := auth, originServerTs := ts }
  | _ => none

def parseEntry (v : JVal) : Option (SKey × Id) :=
  match v with
  | .arr [.str t, .str k, .str id] => some ((t, k), id)
  | _ => none

def parseResolve (v : JVal) : Option (List Event × List StateMap × List (List Id)) :=
  match v with
  | .arr [.arr evs, .arr sets, .arr chains] => do
    let evs ← evs.mapM parseEvent
    let sets ← sets.mapM (fun s => (jArr s).bind (fun es => es.mapM parseEntry))
    let chains ← chains.mapM jStrs
    some (evs, sets, chains)
  | _ => none

def parseNode (v : JVal) : Option ((Id × List Id) × (Id × (Int × Int))) :=
  match v with
  | .arr [.str id, edges, .int pl, .int ts] => do
    let es ← jStrs edges
    some ((id, es), (id, (pl, ts)))
  | _ => none

def skeyLe (a b : SKey × Id) : Bool :=
  decide (a.1.1 < b.1.1) || (a.1.1 == b.1.1 && decide (a.1.2 ≤ b.1.2))

def showIds (ids : List Id) : String :=
  " ".intercalate (("ok " ++ toString ids.length) :: ids.map strTok)

def showFail : Fail → String
  | .err => "err"
  | .panic => "panic"
  | .fuel => "fuel"

def showState (r : Except Fail StateMap) : String :=
  match r with
  | .error f => showFail f
  | .ok m =>
    let s := m.mergeSort skeyLe
    " ".intercalate (("ok " ++ toString s.length) ::
      (s.map (fun e => [strTok e.1.1, strTok e.1.2, strTok e.2])).flatten)

def parseStructNode (v : JVal) : Option (Id × List Id) :=
  match v with
  | .arr [.str id, edges] => (jStrs edges).map (fun es => (id, es))
  | _ => none

/-- The three-value key domain of the exhaustive enumeration (same table as the harness). -/
def keyDomain : List (Int × Int) := [(0, 0), (0, 1), (1, 1)]

/-- Keys of assignment number `a`: node `i` gets `keyDomain[(a / 3^i) % 3]`. -/
def assignKeys : List Id → Nat → List (Id × (Int × Int))
  | [], _ => []
  | n :: ns, a => (n, keyDomain.getD (a % 3) (0, 0)) :: assignKeys ns (a / 3)

def idText (id : Id) : String := String.ofList ((id.drop 1).map Char.ofNat)

/-- All `3^n` assignments; each answer is the emitted ids without their `$`, then `,`. -/
def topoAll (g : Graph) (sort : List (Id × (Int × Int)) → Option (List Id)) : String :=
  let names := g.map (·.1)
  "ok " ++ String.join ((List.range (3 ^ names.length)).map (fun a =>
    match sort (assignKeys names a) with
    | some ids => String.join (ids.map idText) ++ ","
    | none => "!,"))

/-- `resolvespec` (the specification) and `resolvespec.f4dev` (the specification with the one
documented deviation F4). -/
def specResolve (dev : Bool) (args : List String) : String :=
  match args with
  | ver :: ord :: rest =>
    match ver.toNat?.bind AuthRules.ofVersion?, ord.toNat?, (parseOne rest).bind parseResolve with
    | some r, some k, some (evs, sets, chains) =>
      showState (Spec.StateResV2.resolveWith dev (mkParams r) evs (shuf k (sets.map (shuf (k + 1))))
        (shuf (k + 2) (chains.map (shuf (k + 3)))))
    | _, _, _ => "bad-op"
  | _ => "bad-op"

/-- Answers the `topo`, `topospec`, `resolve`, `resolvespec` operations (`op` without the prefix). -/
def handleOp (op : String) (args : List String) : String :=
  match op, args with
  | "topo", ord :: rest =>
    match ord.toNat?, parseOne rest with
    | some k, some (.arr nodes) =>
      match nodes.mapM parseNode with
      | some ns =>
        let g : Graph := ns.map (·.1)
        let keys := ns.map (·.2)
        match lexTopoSort (fun n => shuf (k + n.length)) (shuf k (g.map (fun ne => (ne.1, shuf (k + 1) ne.2))))
            (fun id => AL.get keys id) with
        | .ok ids => showIds ids
        | .error f => showFail f
      | none => "bad-op"
    | _, _ => "bad-op"
  | "topospec", ord :: rest =>
    match ord.toNat?, parseOne rest with
    | some k, some (.arr nodes) =>
      match nodes.mapM parseNode with
      | some ns =>
        let g : Graph := shuf k (ns.map (·.1))
        let keys := ns.map (·.2)
        if g.all (fun ne => (AL.get keys ne.1).isSome) then
          showIds (Spec.StateResV2.lexTopo g (fun id =>
            match AL.get keys id with
            | some (pl, ts) => ⟨pl, ts, id⟩
            | none => ⟨0, 0, id⟩))
        else "err"
      | none => "bad-op"
    | _, _ => "bad-op"
  | "topoall", ord :: rest =>
    match ord.toNat?, parseOne rest with
    | some k, some (.arr nodes) =>
      match nodes.mapM parseStructNode with
      | some g0 =>
        let g : Graph := shuf k (g0.map (fun ne => (ne.1, shuf (k + 1) ne.2)))
        topoAll g0 (fun keys =>
          match lexTopoSort (fun n => shuf (k + n.length)) g (fun id => AL.get keys id) with
          | .ok ids => some ids
          | .error _ => none)
      | none => "bad-op"
    | _, _ => "bad-op"
  | "topoallspec", ord :: rest =>
    match ord.toNat?, parseOne rest with
    | some k, some (.arr nodes) =>
      match nodes.mapM parseStructNode with
      | some g0 =>
        topoAll g0 (fun keys =>
          some (Spec.StateResV2.lexTopo (shuf k g0) (fun id =>
            match AL.get keys id with
            | some (pl, ts) => ⟨pl, ts, id⟩
            | none => ⟨0, 0, id⟩)))
      | none => "bad-op"
    | _, _ => "bad-op"
  | "resolve", ver :: ord :: rest =>
    match ver.toNat?.bind AuthRules.ofVersion?, ord.toNat?, (parseOne rest).bind parseResolve with
    | some r, some k, some (evs, sets, chains) =>
      showState (resolve (mkParams r) (mkOrders k) evs sets chains)
    | _, _, _ => "bad-op"
  | "hyp", ver :: ord :: rest =>
    -- the hypotheses of the C07 refinement theorems, by the proven-sound checkers of `Lemmas/StateResHyp`
    match ver.toNat?.bind AuthRules.ofVersion?, ord.toNat?, (parseOne rest).bind parseResolve with
    | some r, some _, some (evs, sets, chains) =>
      (if (roomOkB evs sets chains).isSome then "wf" else "nowf") ++
      (if f4FreeB (mkParams r) evs sets chains then "+f4free" else "+f4")
    | _, _, _ => "bad-op"
  | "resolvespec", args => specResolve false args
  | "resolvespec.f4", args => specResolve false args
  | "resolvespec.f4dev", args => specResolve true args
  | _, _ => "bad-op"

/-- `c07.topo …` → `handleOp "topo" …` when the prefix matches. -/
def handleWith (pfx : String) (toks : List String) : String :=
  match toks with
  | op :: args =>
    if op.startsWith (pfx ++ ".") then handleOp (op.drop (pfx.length + 1)).toString args else "bad-op"
  | [] => "bad-op"

end Ruma.Driver.StateResIO
