/-
  C11 driver. Requests (tokens; `<s>` = `s<hex>`):

    c11.to.fmt   <ID> <VIAS>                → ok <s text>
    c11.uri.fmt  <ID> <VIAS> <ACT>          → ok <s text> | panic
    c11.to.rt    <ID> <VIAS>                → ok <ID> <VIAS>          (SPEC: parse∘format = id)
    c11.uri.rt   <ID> <VIAS> <ACT>          → ok <ID> <VIAS> <ACT>    (SPEC)
    c11.to.parse  <s text> <ORACLE>         → ok <ID> <VIAS> | err | panic
    c11.uri.parse <s text> <URL> <ORACLE>   → ok <ID> <VIAS> <ACT> | err | panic
    c11.url <s text>                        → ok <s scheme> <s path> (n | <s query>) | err

    ID     := u <s> | r <s> | a <s> | e <s room-or-alias> <s event>
    VIAS   := v<count> <s>*
    ACT    := n | <s>
    URL    := x | p <s scheme> <s path> (n | <s query>)     what the real `Url::parse` returned
    ORACLE := q<count> (<s> <mask>)*    decisions of the real identifier parsers on the strings
              the parse can ask about; mask bits 1 user, 2 room id, 4 alias, 8 event, 16 server.

  A string the model asks about that is missing from the oracle is never defaulted: the parse is
  evaluated once with "missing = accepted" and once with "missing = rejected"; if the two answers
  differ the request is unreadable (`bad-op`).
-/
import RumaModel.Proto
import RumaModel.Model.MatrixUri
import RumaModel.Spec.MatrixUri
namespace Ruma.Driver.C11
open Ruma Ruma.Proto Ruma.MatrixUri

def parseId : List String → Option (MatrixId × List String)
  | "u" :: s :: r => (parseStrTok s).map (fun x => (.user x, r))
  | "r" :: s :: r => (parseStrTok s).map (fun x => (.room x, r))
  | "a" :: s :: r => (parseStrTok s).map (fun x => (.roomAlias x, r))
  | "e" :: s1 :: s2 :: r =>
    match parseStrTok s1, parseStrTok s2 with
    | some a, some b => some (.event a b, r)
    | _, _ => none
  | _ => none

def parseStrs : Nat → List String → List Str → Option (List Str × List String)
  | 0, r, acc => some (acc.reverse, r)
  | n + 1, s :: r, acc =>
    match parseStrTok s with
    | some x => parseStrs n r (x :: acc)
    | none => none
  | _ + 1, [], _ => none

def counted (c : Char) (t : String) : Option Nat :=
  match t.toList with
  | c' :: ds => if c' = c then (String.ofList ds).toNat? else none
  | [] => none

def parseVias : List String → Option (List Str × List String)
  | t :: r => (counted 'v' t).bind (fun n => parseStrs n r [])
  | [] => none

def parseAct : List String → Option (Option Action × List String)
  | "n" :: r => some (none, r)
  | s :: r => (parseStrTok s).map (fun x => (some (Action.ofStr x), r))
  | [] => none

def parseOptStr : List String → Option (Option Str × List String)
  | "n" :: r => some (none, r)
  | s :: r => (parseStrTok s).map (fun x => (some x, r))
  | [] => none

def parseUrl : List String → Option (Option UrlParts × List String)
  | "x" :: r => some (none, r)
  | "p" :: sc :: pa :: r =>
    match parseStrTok sc, parseStrTok pa, parseOptStr r with
    | some sc, some pa, some (q, r') => some (some ⟨sc, pa, q⟩, r')
    | _, _, _ => none
  | _ => none

def parseEntries : Nat → List String → List (Str × Nat) → Option (List (Str × Nat) × List String)
  | 0, r, acc => some (acc.reverse, r)
  | n + 1, s :: m :: r, acc =>
    match parseStrTok s, m.toNat? with
    | some x, some k => parseEntries n r ((x, k) :: acc)
    | _, _ => none
  | _ + 1, _, _ => none

def parseOracle : List String → Option (List (Str × Nat) × List String)
  | t :: r => (counted 'q' t).bind (fun n => parseEntries n r [])
  | [] => none

def bit (tbl : List (Str × Nat)) (dflt : Bool) (k : Nat) (s : Str) : Bool :=
  match tbl.find? (·.1 = s) with
  | some (_, m) => (m / k) % 2 = 1
  | none => dflt

def oracleV (tbl : List (Str × Nat)) (dflt : Bool) : Validators :=
  ⟨bit tbl dflt 1, bit tbl dflt 2, bit tbl dflt 4, bit tbl dflt 8, bit tbl dflt 16⟩

def showId : MatrixId → String
  | .user x => "u " ++ strTok x
  | .room x => "r " ++ strTok x
  | .roomAlias x => "a " ++ strTok x
  | .event a b => "e " ++ strTok a ++ " " ++ strTok b

def showVias (vs : List Str) : String :=
  "v" ++ toString vs.length ++ String.join (vs.map (fun v => " " ++ strTok v))

def showAct : Option Action → String
  | none => "n"
  | some a => strTok a.asStr

def showOptStr : Option Str → String
  | none => "n"
  | some s => strTok s

def showTo : Res ToUri → String
  | .ok u => "ok " ++ showId u.id ++ " " ++ showVias u.via
  | .err => "err"
  | .panic => "panic"

def showUri : Res Uri → String
  | .ok u => "ok " ++ showId u.id ++ " " ++ showVias u.via ++ " " ++ showAct u.action
  | .err => "err"
  | .panic => "panic"

def showText : Res Str → String
  | .ok t => "ok " ++ strTok t
  | .err => "err"
  | .panic => "panic"

/-- Both defaults must give the same answer, otherwise the oracle lacks a string that matters. -/
def agree (a b : String) : String := if a = b then a else "bad-op"

def handle (toks : List String) : String :=
  match toks with
  | "c11.to.fmt" :: rest =>
    match parseId rest with
    | some (id, r1) =>
      match parseVias r1 with
      | some (via, []) => showText (.ok (formatTo ⟨id, via⟩))
      | _ => "bad-op"
    | none => "bad-op"
  | "c11.uri.fmt" :: rest =>
    match parseId rest with
    | some (id, r1) =>
      match parseVias r1 with
      | some (via, r2) =>
        match parseAct r2 with
        | some (act, []) => showText (formatUri ⟨id, via, act⟩)
        | _ => "bad-op"
      | none => "bad-op"
    | none => "bad-op"
  | "c11.to.rt" :: rest =>
    match parseId rest with
    | some (id, r1) =>
      match parseVias r1 with
      | some (via, []) => showTo (Spec.MatrixUri.expectedRoundTrip (⟨id, via⟩ : ToUri))
      | _ => "bad-op"
    | none => "bad-op"
  | "c11.uri.rt" :: rest =>
    match parseId rest with
    | some (id, r1) =>
      match parseVias r1 with
      | some (via, r2) =>
        match parseAct r2 with
        | some (act, []) => showUri (Spec.MatrixUri.expectedRoundTrip (⟨id, via, act⟩ : Uri))
        | _ => "bad-op"
      | none => "bad-op"
    | none => "bad-op"
  | ["c11.url", t] =>
    match parseStrTok t with
    | some text =>
      match urlParseRef text with
      | some u => "ok " ++ strTok u.scheme ++ " " ++ strTok u.path ++ " " ++ showOptStr u.query
      | none => "err"
    | none => "bad-op"
  | "c11.to.parse" :: t :: rest =>
    match parseStrTok t, parseOracle rest with
    | some text, some (tbl, []) =>
      agree (showTo (parseTo (oracleV tbl true) text)) (showTo (parseTo (oracleV tbl false) text))
    | _, _ => "bad-op"
  | "c11.uri.parse" :: t :: rest =>
    match parseStrTok t, parseUrl rest with
    | some text, some (url, r1) =>
      match parseOracle r1 with
      | some (tbl, []) =>
        agree (showUri (parseUri (fun _ => url) (oracleV tbl true) text))
          (showUri (parseUri (fun _ => url) (oracleV tbl false) text))
      | _ => "bad-op"
    | _, _ => "bad-op"
  | _ => "bad-op"

end Ruma.Driver.C11

def main : IO Unit := Ruma.Proto.runDriver Ruma.Driver.C11.handle
