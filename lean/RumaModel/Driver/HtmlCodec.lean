/-
  Token codec of the HTML drivers (C14, C15): UTF-8 ⇄ code points, configurations, forests.
  Executable only; nothing here is used in a theorem. Unreadable input yields `none` (→ `bad-op`).
-/
import RumaModel.Proto
import RumaModel.Model.Html
namespace Ruma.Driver.Html
open Ruma Ruma.Proto Ruma.Html

/-- UTF-8 bytes → code points (the harness only sends valid UTF-8; anything else is unreadable). -/
partial def utf8Decode : List Nat → List Nat → Option (List Nat)
  | [], acc => some acc.reverse
  | b :: t, acc =>
    if b < 0x80 then utf8Decode t (b :: acc)
    else if 0xC0 ≤ b && b < 0xE0 then
      match t with
      | c1 :: t' => utf8Decode t' (((b - 0xC0) * 64 + (c1 - 0x80)) :: acc)
      | _ => none
    else if 0xE0 ≤ b && b < 0xF0 then
      match t with
      | c1 :: c2 :: t' => utf8Decode t' (((b - 0xE0) * 4096 + (c1 - 0x80) * 64 + (c2 - 0x80)) :: acc)
      | _ => none
    else if 0xF0 ≤ b && b < 0xF8 then
      match t with
      | c1 :: c2 :: c3 :: t' =>
        utf8Decode t' (((b - 0xF0) * 262144 + (c1 - 0x80) * 4096 + (c2 - 0x80) * 64 + (c3 - 0x80)) :: acc)
      | _ => none
    else none

def utf8Encode (cs : List Nat) : List Nat :=
  cs.flatMap (fun c =>
    if c < 0x80 then [c]
    else if c < 0x800 then [0xC0 + c / 64, 0x80 + c % 64]
    else if c < 0x10000 then [0xE0 + c / 4096, 0x80 + (c / 64) % 64, 0x80 + c % 64]
    else [0xF0 + c / 262144, 0x80 + (c / 4096) % 64, 0x80 + (c / 64) % 64, 0x80 + c % 64])

/-- `s<hex utf-8>` → code points. -/
def parseText (t : String) : Option Str := (parseStrTok t).bind (utf8Decode · [])

def textTok (s : Str) : String := strTok (utf8Encode s)

/-! ### configuration (14-field array, see `harness/h-c14/src/common.rs`) -/

def jStr : JVal → Option Str
  | .str s => utf8Decode s []
  | _ => none

def jList {α : Type} (f : JVal → Option α) : JVal → Option (List α)
  | .arr xs => xs.mapM f
  | _ => none

def jPair {α β : Type} (f : JVal → Option α) (g : JVal → Option β) : JVal → Option (α × β)
  | .arr [a, b] => do pure ((← f a), (← g b))
  | _ => none

def jOpt {α : Type} (f : JVal → Option α) : JVal → Option (Option α)
  | .null => some none
  | v => (f v).map some

def jBList {α : Type} (f : JVal → Option α) : JVal → Option (Option (BList α))
  | .null => some none
  | .arr [.bool b, v] => (f v).map (fun x => some ⟨b, x⟩)
  | _ => none

def jNames := jList jStr
def jPairs := jList (jPair jStr jStr)
def jPerElem := jList (jPair jStr jNames)
def jSchemes := jList (jPair jStr jPerElem)

def parseCfg : JVal → Option Cfg
  | .arr [mode, re, rme, rrf, ign, alw, ra, rma, ala, deny, als, rmc, alc, md] => do
    let mode ← match mode with
      | .int 0 => some none
      | .int 1 => some (some Mode.strict)
      | .int 2 => some (some Mode.compat)
      | _ => none
    let rrf ← match rrf with
      | .bool b => some b
      | _ => none
    let md ← match md with
      | .null => some none
      | .int i => if i ≥ 0 then some (some i.toNat) else none
      | _ => none
    pure {
      mode := mode
      replaceElements := ← jBList jPairs re
      removeElements := ← jOpt jNames rme
      removeReplyFallback := rrf
      ignoreElements := ← jOpt jNames ign
      allowElements := ← jBList jNames alw
      replaceAttrs := ← jBList (jList (jPair jStr jPairs)) ra
      removeAttrs := ← jOpt jPerElem rma
      allowAttrs := ← jBList jPerElem ala
      denySchemes := ← jOpt jSchemes deny
      allowSchemes := ← jBList jSchemes als
      removeClasses := ← jOpt jPerElem rmc
      allowClasses := ← jBList jPerElem alc
      maxDepth := md }
  | _ => none

/-! ### forests -/

/-- The harness' sort key of the parts of an attribute name before the local name
(`common.rs: qkey`): `0<ns>` without prefix, `1<prefix>\x01<ns>` with one. -/
def parseQual : Str → Option (Option Str × Str)
  | 48 :: ns => some (none, ns)
  | 49 :: rest => some (some (rest.takeWhile (· != 1)), (rest.dropWhile (· != 1)).drop 1)
  | _ => none

def showQual (a : Attr) : Str :=
  match a.pfx with
  | none => 48 :: a.ns
  | some p => 49 :: p ++ 1 :: a.ns

mutual
partial def parseForest : List String → Option (List Node × List String)
  | [] => none
  | n :: rest => match n.toNat? with
    | some k => parseNodes k rest []
    | none => none
partial def parseNodes : Nat → List String → List Node → Option (List Node × List String)
  | 0, rest, acc => some (acc.reverse, rest)
  | k + 1, rest, acc =>
    match parseNode rest with
    | some (n, rest') => parseNodes k rest' (n :: acc)
    | none => none
partial def parseNode : List String → Option (Node × List String)
  | "c" :: rest => some (.other, rest)
  | "t" :: s :: rest => (parseText s).map (fun s => (.text s, rest))
  | "e" :: name :: na :: rest =>
    match parseText name, na.toNat? with
    | some name, some na =>
      match parseAttrs na rest [] with
      | some (attrs, rest') =>
        match parseForest rest' with
        | some (ch, rest'') => some (.elem name attrs ch, rest'')
        | none => none
      | none => none
    | _, _ => none
  | _ => none
partial def parseAttrs : Nat → List String → List Attr → Option (List Attr × List String)
  | 0, rest, acc => some (acc.reverse, rest)
  | k + 1, q :: n :: v :: rest, acc =>
    match (parseText q).bind parseQual, parseText n, parseText v with
    | some (p, ns), some n, some v => parseAttrs k rest (⟨p, ns, n, v⟩ :: acc)
    | _, _, _ => none
  | _, _, _ => none
end

/-- Canonical form for comparison: adjacent text nodes merged (both sides do this). -/
partial def mergeText : List Node → List Node
  | [] => []
  | .text a :: .text b :: t => mergeText (.text (a ++ b) :: t)
  | .text a :: t => .text a :: mergeText t
  | .elem n a ch :: t => .elem n a (mergeText ch) :: mergeText t
  | .other :: t => .other :: mergeText t

mutual
partial def printForest (f : List Node) : List String :=
  toString f.length :: f.flatMap printNode
partial def printNode : Node → List String
  | .other => ["c"]
  | .text s => ["t", textTok s]
  | .elem n attrs ch =>
    ["e", textTok n, toString attrs.length] ++
      attrs.flatMap (fun a => [textTok (showQual a), textTok a.name, textTok a.value]) ++ printForest ch
end

def showForest (f : List Node) : String := " ".intercalate (printForest (mergeText f))

def parseMode : String → Option Mode
  | "strict" => some .strict
  | "compat" => some .compat
  | _ => none

def tf (b : Bool) : String := if b then "t" else "f"

end Ruma.Driver.Html
