/-
  Driver of C20: answers the line protocol of `harness/h-c20` from the helper model
  (`Model/PowerLevels.lean`), the authorization model (`Model/Auth.lean`) and the push-condition
  model (`Model/Push.lean`). Executable only.
-/
import RumaModel.Driver.AuthCommon
import RumaModel.Model.PowerLevels
import RumaModel.Lemmas.PowerLevelsPush
import RumaModel.Spec.RedactionRules
namespace Ruma.Driver.C20
open Ruma Ruma.Proto Ruma.Auth Ruma.Ident Ruma.PowerLevels Ruma.Driver.AuthCommon

def parseEventState (rest : List String) : Option (Event × List Event) :=
  match parseVal rest with
  | some (evv, rest') =>
    match parseOne rest' with
    | some sv =>
      match eventOfJVal evv, stateOfJVal sv with
      | some ev, some st => some (ev, st)
      | _, _ => none
    | none => none
  | none => none

/-- The raw `type` string of the request's event object (before `TimelineEventType` canonicalises it). -/
def rawType (rest : List String) : Option Str :=
  match parseVal rest with
  | some (.obj o, _) => strOf (Obj.get o (bs "type"))
  | _ => none

def versionRules (t : String) : Option AuthRules :=
  (versionOfTok t).bind AuthRules.ofVersion?

def hTok : Option Bool → String
  | some true => "t"
  | some false => "f"
  | none => "-"

def answer (h : Option Bool) (a d : Bool) : String :=
  hTok h ++ " " ++ verdict a ++ " " ++ (if d then "1" else "0")

/-- The state key as a `&UserId`, when it is one. -/
def targetOf (ev : Event) : Option Str :=
  match ev.stateKey with
  | some k => if validUserId k then some k else none
  | none => none

def withTarget (f : Fetch) (ev : Event) (g : Levels → Str → Bool) : Option Bool :=
  match roomLevels f, targetOf ev with
  | some p, some t => some (g p t)
  | _, _ => none

def act (op : String) (rules : AuthRules) (extra : Option Str) (raw : Str) (ev : Event) (st : List Event) :
    Option String :=
  let f := fetchOf st
  let a := authCheck rules ev f
  match op with
  | "c20.ban" => some (answer (withTarget f ev fun p t => p.userCanBanUser ev.sender t) a (domBan rules f ev))
  | "c20.kick" => some (answer (withTarget f ev fun p t => p.userCanKickUser ev.sender t) a (domKick rules f ev))
  | "c20.unban" => some (answer (withTarget f ev fun p t => p.userCanUnbanUser ev.sender t) a (domUnban rules f ev))
  | "c20.invite" => some (answer (withTarget f ev fun p _ => p.userCanInvite ev.sender) a (domInvite rules f ev))
  | "c20.msg" =>
    if extra ≠ some raw then none
    else some (answer ((roomLevels f).map fun p => p.userCanSendMessage ev.sender (messageTypeKey raw)) a
      (domMsg rules f ev))
  | "c20.state" =>
    if extra ≠ some raw then none
    else some (answer ((roomLevels f).map fun p => p.userCanSendState ev.sender (stateTypeKey raw)) a
      (domState rules f ev && stateTypeKey raw == ev.type))
  | "c20.tpi" => some (answer ((roomLevels f).map fun p => p.userCanInvite ev.sender) a (domTpi rules f ev))
  | "c20.redactown" =>
    some (answer ((roomLevels f).map fun p => p.userCanRedactOwnEvent ev.sender) a (domRedactOwn rules f ev))
  | "c20.redactother" =>
    some (answer ((roomLevels f).map fun p => p.userCanRedactEventOfOther ev.sender) a (domRedactOther rules f ev))
  | "c20.pl" =>
    some (answer ((roomLevels f).map fun p => p.userCanSendState ev.sender tPowerLevels) a (domPl rules f ev))
  | "c20.chpl" =>
    match extra with
    | some target =>
      let h := match roomLevels f with
        | some p => if validUserId target then some (p.userCanChangeUserPowerLevel ev.sender target) else none
        | none => none
      some (answer h a (domChpl rules f ev target))
    | none => none
  | _ => none

/-- Sorted, duplicate-free view of an insertion list (a later insertion wins): the iteration order
of the Rust `BTreeMap`. -/
def sortMap (m : PLMap) : PLMap := m.foldl (fun acc p => Obj.insert acc p.1 p.2) []

def showMap (tag : String) (m : PLMap) : String :=
  let s := sortMap m
  s.foldl (fun acc p => acc ++ " " ++ strTok p.1 ++ " " ++ toString p.2) (tag ++ toString s.length)

def showDeser (p : Levels) : String :=
  "ok " ++ toString p.ban ++ " " ++ toString p.eventsDefault ++ " " ++ toString p.invite ++ " " ++
  toString p.kick ++ " " ++ toString p.redact ++ " " ++ toString p.stateDefault ++ " " ++
  toString p.usersDefault ++ " " ++ toString p.notificationsRoom ++ " " ++ showMap "e" p.events ++ " " ++
  showMap "u" p.users

/-- Bytes as characters (injective), enough for the equality tests of the push-condition model. -/
def toText (s : Str) : Push.Text := s.map Char.ofNat

def pushExt : Push.Ext :=
  { lower := id, wild := fun _ _ => false, rxMatch := fun _ _ => false, isUserId := fun _ => true }

/-- `PushCondition::SenderNotificationPermission { key: "room" }` for an event sent by `user`, in a
room context built from the levels (`From<RoomPowerLevels> for PushConditionPowerLevelsCtx`). -/
def pushApplies (p : Levels) (user : Str) : Bool :=
  let ctx : Push.Ctx :=
    { roomId := toText (bs "!room:s1"), memberCount := 2, userId := toText (bs "@push-owner:s9"),
      displayName := [],
      powerLevels := some (toPushCtx toText p) }
  let ev : Push.FMap := [(Push.kSender, .str (toText user))]
  match Push.Cond.applies pushExt (.senderNotificationPermission Push.kRoom) ev ctx with
  | .ok b => b
  | .error _ => false

def bitTok (b : Bool) : String := if b then "t" else "f"

def showLevels (p : Levels) (user mt st : Str) : String :=
  let actions : List Action :=
    [.ban, .unban, .invite, .kick, .redactOwn, .redactOther, .sendMessage (messageTypeKey mt),
     .sendState (stateTypeKey st), .triggerNotificationRoom]
  let needs := actions.foldl (fun acc a => acc ++ " " ++ toString (p.forAction a)) ""
  let bits := actions.foldl (fun acc a => acc ++ bitTok (p.userCanDo user a)) ""
  "ok " ++ toString (p.forUser user) ++ needs ++ " " ++ bits ++ " " ++ bitTok (pushApplies p user)

def handle (toks : List String) : String :=
  match toks with
  | ["c20.deser"] => "bad-op"
  | "c20.deser" :: rest =>
    match parseOne rest with
    | some (.obj c) =>
      match ofContent c with
      | some p => showDeser p
      | none => "err"
    | _ => "bad-op"
  | "c20.deserred" :: v :: rest =>
    match v.toNat?, parseOne rest with
    | some ver, some (.obj c) =>
      if ver < 1 || ver > 11 then "bad-op"
      else
        match ofRedactedContent (redactedPL (Spec.Redaction.rulesOf ver) c) with
        | some p => showDeser p
        | none => "err"
    | _, _ => "bad-op"
  | "c20.levels" :: rest =>
    match parseVal rest with
    | some (.obj c, [u, m, s]) =>
      match parseStrTok u, parseStrTok m, parseStrTok s with
      | some user, some mt, some st =>
        if !validUserId user then "bad-op"
        else
          match ofContent c with
          | some p => showLevels p user mt st
          | none => "err"
      | _, _, _ => "bad-op"
    | _ => "bad-op"
  | op :: v :: rest =>
    match versionRules v with
    | none => "bad-op"
    | some rules =>
      let withExtra := op == "c20.msg" || op == "c20.state" || op == "c20.chpl"
      let extra : Option (Option Str × List String) :=
        if withExtra then
          match rest with
          | t :: rest' => (parseStrTok t).map fun s => (some s, rest')
          | [] => none
        else some (none, rest)
      match extra with
      | none => "bad-op"
      | some (ex, rest') =>
        match rawType rest', parseEventState rest' with
        | some raw, some (ev, st) => (act op rules ex raw ev st).getD "bad-op"
        | _, _ => "bad-op"
  | _ => "bad-op"

end Ruma.Driver.C20

def main : IO Unit := Ruma.Proto.runDriver Ruma.Driver.C20.handle
