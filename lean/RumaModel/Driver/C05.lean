import RumaModel.Proto
import RumaModel.Model.Hash
import RumaModel.Model.EventSign
import RumaModel.Spec.Hash
import RumaModel.Spec.EventSign
import RumaModel.Generated.C05
namespace Ruma.Driver.C05
open Ruma Ruma.Proto Ruma.Hash

/-- The rules the *implementation* uses for version `v` (extracted tables, T1). -/
def implRules (v : Nat) : Option Redact.Rules :=
  (Generated.C05.redactionTable.find? (·.1 = v)).map (·.2)

def implFormat (v : Nat) : Option EventIdFormat :=
  (Generated.C05.formatTable.find? (·.1 = v)).map (·.2.1)

def ascii (l : List Nat) : String := String.ofList (l.map Char.ofNat)

def showRes : Except Err (List Nat) → String
  | .ok s => "ok " ++ ascii s
  | .error .pduSize => "err size"
  | .error (.redact _) => "err other"

def showId : Except Err (Option (List Nat)) → String
  | .ok none => "none"
  | .ok (some s) => "ok " ++ ascii s
  | .error .pduSize => "err size"
  | .error (.redact _) => "err other"

def tf (b : Bool) : String := if b then "t" else "f"

def version (s : String) : Option Nat :=
  match s.toNat? with
  | some v => if 1 ≤ v ∧ v ≤ 11 then some v else none
  | none => none

/-- `c05.stored`: what `hash_and_sign_event` leaves under `hashes` (the model of C03, run with a
dummy signature scheme — the `hashes` entry does not depend on the signature). -/
def storedAnswer (r : Redact.Rules) (ev : Obj) : String :=
  let S : Sign.SigScheme := { sign := fun _ _ => List.replicate 64 0, verify := fun _ _ _ => true,
                              pub := fun _ => List.replicate 32 0 }
  let res := EventSign.hashAndSignEvent S sha256Ref (bs "h.example") ⟨bs "k", bs "1"⟩ ev r
  match res.1 with
  | .error .pduSize => "err size"
  | _ =>
    match Obj.get res.2 EventSign.hashesKey with
    | some (.obj hs) =>
      match Obj.get hs EventSign.sha256Key with
      | some (.str h) => "ok " ++ ascii h ++ " " ++ toString hs.length
      | _ => "ok #not-a-string " ++ toString hs.length
    | _ => "err other"

def handle (toks : List String) : String :=
  match toks with
  -- SPEC side: per-version answers of the specification
  | ["c05.fmt", v] =>
    match version v with
    | some v => toString (Spec.Hash.eventIdFormat v)
    | none => "bad-op"
  | ["c05.alpha", v] =>
    match version v with
    | some v => if Spec.Hash.urlSafeFrom v then "url" else "std"
    | none => "bad-op"
  | ["c05.sigrules", v] =>
    match version v with
    | some v => tf (Spec.EventSign.checkEventIdServer v) ++ " " ++ tf (Spec.EventSign.checkJoinAuthorised v)
    | none => "bad-op"
  -- MODEL side, instantiated with the extracted tables and the reference SHA-256
  | "c05.content" :: rest =>
    match parseOne rest with
    | some (.obj ev) => showRes (contentHashB64 sha256Ref ev)
    | _ => "bad-op"
  | "c05.stored" :: v :: rest =>
    match version v with
    | some v =>
      match implRules v, parseOne rest with
      | some r, some (.obj ev) => storedAnswer r ev
      | _, _ => "bad-op"
    | none => "bad-op"
  | "c05.ref" :: v :: rest =>
    match version v with
    | some v =>
      match implRules v, implFormat v, parseOne rest with
      | some r, some fmt, some (.obj ev) => showRes (referenceHash sha256Ref r fmt ev)
      | _, _, _ => "bad-op"
    | none => "bad-op"
  | "c05.eventid" :: v :: rest =>
    match version v with
    | some v =>
      match implRules v, implFormat v, parseOne rest with
      | some r, some fmt, some (.obj ev) => showId (eventId sha256Ref r fmt ev)
      | _, _, _ => "bad-op"
    | none => "bad-op"
  -- the executable references themselves, against the `sha2` / `base64` crates
  | ["c05.sha", b] =>
    match parseStrTok b with
    | some m => "ok " ++ hex (sha256Ref m)
    | none => "bad-op"
  | ["c05.b64", a, b] =>
    match parseStrTok b with
    | some m =>
      if a = "std" then "ok " ++ ascii (b64 .standard m)
      else if a = "url" then "ok " ++ ascii (b64 .urlSafe m)
      else "bad-op"
    | none => "bad-op"
  | _ => "bad-op"

end Ruma.Driver.C05

def main : IO Unit := Ruma.Proto.runDriver Ruma.Driver.C05.handle
