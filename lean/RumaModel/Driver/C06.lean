import RumaModel.Driver.StateResIO
namespace Ruma.Driver.C06
/-- Requests carry the number of repetitions of the real call as their second token; the model is
evaluated once. -/
def handle (toks : List String) : String :=
  match toks with
  | op :: _reps :: rest => Ruma.Driver.StateResIO.handleWith "c06" (op :: rest)
  | _ => "bad-op"
end Ruma.Driver.C06

def main : IO Unit := Ruma.Proto.runDriver Ruma.Driver.C06.handle
