import RumaModel.Driver.StateResIO
namespace Ruma.Driver.C06
def handle (toks : List String) : String := Ruma.Driver.StateResIO.handleWith "c06" toks
end Ruma.Driver.C06

def main : IO Unit := Ruma.Proto.runDriver Ruma.Driver.C06.handle
