import RumaModel.Driver.HtmlCodec
import RumaModel.Spec.HtmlDoc
import RumaModel.Lemmas.HtmlTables15
import RumaModel.Lemmas.HtmlSorted
namespace Ruma.Driver.C15
open Ruma Ruma.Proto Ruma.Html Ruma.Driver.Html Ruma.Spec.HtmlDoc

/-- The static lists the model runs with: extracted from the implementation on this run (T1). -/
def implLists : Lists := Lemmas.HtmlTables15.implLists

def parseBool : String → Option Bool
  | "t" => some true
  | "f" => some false
  | _ => none

/-- `<cfg> <html> <forest>` -/
def parseCfgForest (rest : List String) : Option (Cfg × List Node) :=
  match parseVal rest with
  | some (cfgv, _html :: rest') =>
    match parseCfg cfgv, parseForest rest' with
    | some cfg, some (f, []) =>
      -- attribute lists must arrive in the model's order of `Attribute` (= Rust's derived `Ord`)
      if Lemmas.Html.sortedForestB f then some (cfg, f) else none
    | _, _ => none
  | _ => none

def handle (toks : List String) : String :=
  match toks with
  -- the MODEL: sanitizing the same object twice / sanitizing the re-parsed first output
  | "c15.twice" :: rest =>
    match parseCfgForest rest with
    | some (cfg, f) => "ok " ++ showForest (clean implLists cfg (clean implLists cfg f))
    | none => "bad-op"
  | "c15.fix" :: rest =>
    match parseCfgForest rest with
    | some (cfg, f) => "ok " ++ showForest (clean implLists cfg f)
    | none => "bad-op"
  -- the SPEC: documents of the allow-list grammar are exactly the unchanged ones
  | "c15.unchanged" :: m :: r :: _html :: rest =>
    match parseMode m, parseBool r, parseForest rest with
    | some m, some r, some (f, []) => tf (allowedB m r 0 f)
    | _, _, _ => "bad-op"
  -- the SPEC: the documented rewriting of deprecated markup
  | "c15.rewrite" :: m :: r :: _html :: rest =>
    match parseMode m, parseBool r, parseForest rest with
    | some m, some r, some (f, []) =>
      if allowedB m r 0 (rewriteDeprecatedL f) then "ok " ++ showForest (rewriteDeprecatedL f) else "skip"
    | _, _, _ => "bad-op"
  | _ => "bad-op"

end Ruma.Driver.C15

def main : IO Unit := Ruma.Proto.runDriver Ruma.Driver.C15.handle
