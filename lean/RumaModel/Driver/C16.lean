import RumaModel.Proto
import RumaModel.Model.Endpoint
import RumaModel.Spec.Endpoint
import RumaModel.Generated.C16
/-!
  Line-protocol driver for C16. Ops starting with `c16.spec.` are answered by `Spec/Endpoint.lean`
  only; `c16.rt.resp`, `c16.rt.synresp`, `c16.rt.err` are oracle-only ops of the harness (the
  macro-generated glue is not modelled) and are answered `ok`; everything else is answered by
  `Model/Endpoint.lean`. Endpoint and history indices refer to `Generated/C16.lean`.
-/
namespace Ruma.Driver.C16
open Ruma Ruma.Proto Ruma.Endpoint
open Ruma.Spec.Endpoint (AuthScheme TokenKind AuthExpect History Selection)

abbrev P := StateM (List String)

def next? : List String → Option (String × List String)
  | [] => none
  | t :: r => some (t, r)

def stripPrefix? (p : String) (t : String) : Option String :=
  if t.startsWith p then some ((t.drop p.length).toString) else none

def natTok (p : String) (t : String) : Option Nat := (stripPrefix? p t).bind (·.toNat?)

def parseStr (ts : List String) : Option (Str × List String) :=
  match ts with
  | t :: r => (parseStrTok t).map (·, r)
  | [] => none

def parseOptStr (ts : List String) : Option (Option Str × List String) :=
  match ts with
  | "n" :: r => some (none, r)
  | t :: r => (parseStrTok t).map (fun s => (some s, r))
  | [] => none

def parseOptNat (ts : List String) : Option (Option Nat × List String) :=
  match ts with
  | "n" :: r => some (none, r)
  | t :: r => (natTok "i" t).map (fun s => (some s, r))
  | [] => none

def parseN {α} (f : List String → Option (α × List String)) : Nat → List String → Option (List α × List String)
  | 0, ts => some ([], ts)
  | n + 1, ts =>
    match f ts with
    | some (a, r) => (parseN f n r).map (fun (as, r') => (a :: as, r'))
    | none => none

def parseStrs (ts : List String) : Option (List Str × List String) :=
  match ts with
  | t :: r => (natTok "a" t).bind (fun n => parseN parseStr n r)
  | [] => none

def parsePair (ts : List String) : Option ((Str × Str) × List String) :=
  match parseStr ts with
  | some (a, r) => (parseStr r).map (fun (b, r') => ((a, b), r'))
  | none => none

def parsePairs (ts : List String) : Option (List (Str × Str) × List String) :=
  match ts with
  | t :: r => (natTok "a" t).bind (fun n => parseN parsePair n r)
  | [] => none

def parseNatI (ts : List String) : Option (Nat × List String) :=
  match ts with
  | t :: r => (natTok "i" t).map (·, r)
  | [] => none

def maskVersions (m : Nat) : List Nat := (List.range 15).filter (fun i => m.testBit i)

def parseVersions (ts : List String) : Option (List Nat × List String) :=
  match ts with
  | t :: r =>
    match natTok "vm" t with
    | some m => if m < 32768 then some (maskVersions m, r) else none
    | none =>
      match natTok "vl" t with
      | some n =>
        match parseN parseNatI n r with
        | some (vs, r') => if vs.all (· < 15) then some (vs, r') else none
        | none => none
      | none => none
  | [] => none

def parseStableEntry (ts : List String) : Option ((Nat × Str) × List String) :=
  match parseNatI ts with
  | some (v, r) => (parseStr r).map (fun (p, r') => ((v, p), r'))
  | none => none

def parseHist (ts : List String) : Option (VersionHistory × List String) :=
  match parseStrs ts with
  | some (un, t :: r) =>
    match (natTok "a" t).bind (fun n => parseN parseStableEntry n r) with
    | some (st, r') =>
      match parseOptNat r' with
      | some (d, r'') => (parseOptNat r'').map (fun (rm, r''') => (⟨un, st, d, rm⟩, r'''))
      | none => none
    | none => none
  | _ => none

def toSpec (h : VersionHistory) : History := ⟨h.unstable, h.stable, h.removed⟩

def showSel : Selection → String
  | .path p => "ok " ++ strTok p
  | .removed => "err removed"
  | .noPath => "err nopath"

def showOut (f : α → String) : Out α → String
  | .ok a => "ok " ++ f a
  | .errRemoved _ => "err removed"
  | .errNoUnstable => "err nopath"
  | .panic => "panic"

def showStrs (l : List Str) : String :=
  " ".intercalate (("a" ++ toString l.length) :: l.map strTok)

/-- The versions some entry of the history mentions all lie in 0..14 (else `invalid`, as the
harness cannot even build the history). -/
def versionsKnown (h : VersionHistory) : Bool :=
  h.stable.all (·.1 < 15) && (h.deprecated.all (· < 15)) && (h.removed.all (· < 15))

def allPaths (h : VersionHistory) : List Str := (h.unstable ++ h.stable.map (·.2)).eraseDups

def sweepChar (h : VersionHistory) (m : Nat) : Char :=
  match Spec.Endpoint.select (toSpec h) (maskVersions m) with
  | .removed => 'R'
  | .noPath => 'N'
  | .path p =>
    match (allPaths h).findIdx? (· == p) with
    | some k => Char.ofNat (97 + k)
    | none => '?'

/-- `ok s<url> <routed args|noroute>` -/
def urlAnswer (h : VersionHistory) (vs : List Nat) (base query : Str) (args : List Str) : String :=
  match makeEndpointUrl h vs base args query, selectPath h vs with
  | .ok url, .ok tmpl =>
    let routed := match substPath tmpl args with
      | some p => routeArgs tmpl p
      | none => none
    "ok " ++ strTok url ++ " " ++ (match routed with | some a => showStrs a | none => "noroute")
  | o, _ => showOut strTok o

def schemeOf : Nat → Option AuthScheme
  | 0 => some .none | 1 => some .accessToken | 2 => some .accessTokenOptional
  | 3 => some .appserviceToken | 4 => some .appserviceTokenOptional | 5 => some .serverSignatures
  | _ => none

def satOf (k : Nat) (t : Str) : Option SendAccessToken :=
  match k with
  | 0 => some (.ifRequired t) | 1 => some (.always t) | 2 => some (.appservice t) | 3 => some .none
  | _ => none

def kindOf : Nat → Option TokenKind
  | 0 => some .ifRequired | 1 => some .always | 2 => some .appservice | 3 => some .none
  | _ => none

def showAuth : AuthOut → String
  | .noHeader => "none"
  | .header v => "ok " ++ strTok v
  | .errNeedsAuth => "err needsauth"
  | .errHeaderValue => "err header"

def natToDec (n : Nat) : Str := (toString n).toList.map Char.toNat

/-- The display string of a path field value of a synthetic endpoint. -/
def fieldStr : JVal → Option Str
  | .str s => some s
  | .int i => if 0 ≤ i then some (natToDec i.toNat) else none
  | _ => none

/-- `ok s<uri before ?> <n|s<authorization>>` for a request through `try_into_http_request`
with base URL `https://example.org`: URL first, then the authorization header. -/
def rtAnswer (h : VersionHistory) (scheme : AuthScheme) (vs : List Nat) (sat : SendAccessToken)
    (args : List Str) : String :=
  match makeEndpointUrl h vs (bs "https://example.org") args [] with
  | .ok url =>
    match authorizationHeader scheme sat with
    | .noHeader => "ok " ++ strTok url ++ " n"
    | .header v => "ok " ++ strTok url ++ " " ++ strTok v
    | .errNeedsAuth => "err needsauth"
    | .errHeaderValue => "err other"
  | o => showOut strTok o

def endpointAt (e : Nat) : Option (AuthScheme × VersionHistory) :=
  match Generated.C16.endpoints[e]? with
  | some (_, _, a, hi) => (Generated.C16.histories[hi]?).map (a, ·)
  | none => none

def handle (toks : List String) : String :=
  match toks with
  | ["c16.spec.sweep", hidx, start, stride, count] =>
    match hidx.toNat?.bind (Generated.C16.histories[·]?), start.toNat?, stride.toNat?, count.toNat? with
    | some h, some s, some d, some c =>
      "ok " ++ String.ofList ((List.range c).map (fun i => sweepChar h ((s + i * d) % 32768)))
    | _, _, _, _ => "bad-op"
  | "c16.spec.select" :: rest =>
    match parseHist rest with
    | some (h, r) =>
      match parseVersions r with
      | some (vs, []) =>
        if versionsKnown h && newOk h then showSel (Spec.Endpoint.select (toSpec h) vs) else "invalid"
      | _ => "bad-op"
    | none => "bad-op"
  | ["c16.spec.auth", s, k] =>
    match s.toNat?.bind schemeOf, k.toNat?.bind kindOf with
    | some s, some k =>
      match Spec.Endpoint.authExpect s k with
      | .bearer => "bearer" | .noHeader => "none" | .needsAuth => "needsauth"
    | _, _ => "bad-op"
  | "c16.new" :: rest =>
    match parseHist rest with
    | some (h, []) => if versionsKnown h && newOk h then "valid" else "invalid"
    | _ => "bad-op"
  | "c16.select" :: rest =>
    match parseHist rest with
    | some (h, r) =>
      match parseVersions r with
      | some (vs, []) =>
        if versionsKnown h && newOk h then showOut strTok (selectPath h vs) else "invalid"
      | _ => "bad-op"
    | none => "bad-op"
  | "c16.url" :: rest =>
    match parseHist rest with
    | some (h, r) =>
      match parseVersions r with
      | some (vs, r1) =>
        match parseStr r1 with
        | some (base, r2) =>
          match parseStr r2 with
          | some (query, r3) =>
            match parseStrs r3 with
            | some (args, []) =>
              if versionsKnown h && newOk h then urlAnswer h vs base query args else "invalid"
            | _ => "bad-op"
          | none => "bad-op"
        | none => "bad-op"
      | none => "bad-op"
    | none => "bad-op"
  | "c16.ep.url" :: e :: rest =>
    match e.toNat?.bind endpointAt, parseVersions rest with
    | some (_, h), some (vs, r) =>
      match parseStrs r with
      | some (args, []) => urlAnswer h vs (bs "https://example.org") [] args
      | _ => "bad-op"
    | _, _ => "bad-op"
  | ["c16.auth", s, k, tok] =>
    match s.toNat?.bind schemeOf, parseStrTok tok with
    | some s, some t =>
      match k.toNat?.bind (satOf · t) with
      | some sat => showAuth (authorizationHeader s sat)
      | none => "bad-op"
    | _, _ => "bad-op"
  | "c16.xm.fmt" :: rest =>
    match parseStr rest with
    | some (o, r) =>
      match parseOptStr r with
      | some (d, r1) =>
        match parseStr r1 with
        | some (k, r2) =>
          match parseStr r2 with
          | some (s, []) => "ok " ++ strTok (xmatrixFormat ⟨o, d, k, s⟩)
          | _ => "bad-op"
        | none => "bad-op"
      | none => "bad-op"
    | none => "bad-op"
  | ["c16.xm.parse", t] =>
    match parseStrTok t with
    | some s =>
      match xmatrixParse s with
      | some x =>
        "ok " ++ strTok x.origin ++ " " ++ (match x.destination with | some d => strTok d | none => "n")
          ++ " " ++ strTok x.key ++ " " ++ strTok x.sig
      | none => "err"
    | none => "bad-op"
  | "c16.rt.req" :: e :: rest =>
    match e.toNat?.bind endpointAt, parseVersions rest with
    | some (scheme, h), some (vs, k :: tok :: r) =>
      match parseStrTok tok, parseStrs r with
      | some t, some (args, _) =>
        match k.toNat?.bind (satOf · t) with
        | some sat => rtAnswer h scheme vs sat args
        | none => "bad-op"
      | _, _ => "bad-op"
    | _, _ => "bad-op"
  | "c16.rt.syn" :: e :: rest =>
    match e.toNat?.bind endpointAt, parseVersions rest with
    | some (scheme, h), some (vs, k :: tok :: r) =>
      match parseStrTok tok, parseOne r with
      | some t, some (.obj o) =>
        let names := (pathArgNames ((refPath h).getD []))
        match k.toNat?.bind (satOf · t), names.mapM (fun n => (Obj.get o n).bind fieldStr) with
        | some sat, some args => rtAnswer h scheme vs sat args
        | _, _ => "bad-op"
      | _, _ => "bad-op"
    | _, _ => "bad-op"
  | "c16.rt.resp" :: _ => "ok"
  | "c16.rt.synresp" :: _ => "ok"
  | "c16.rt.err" :: _ => "ok"
  | _ => "bad-op"

end Ruma.Driver.C16

def main : IO Unit := Ruma.Proto.runDriver Ruma.Driver.C16.handle
