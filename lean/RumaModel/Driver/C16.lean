import RumaModel.Proto
import RumaModel.Model.Endpoint
import RumaModel.Model.EndpointGlue
import RumaModel.Model.Canonical
import RumaModel.Lemmas.EndpointForm
import RumaModel.Spec.Endpoint
import RumaModel.Generated.C16
/-!
  Line-protocol driver for C16. Ops starting with `c16.spec.` are answered by `Spec/Endpoint.lean`
  only; `c16.rt.resp`, `c16.rt.synresp`, `c16.rt.err` are oracle-only ops of the harness and are
  answered `ok`; `c16.glue.*` are answered by `Model/EndpointGlue.lean` instantiated with the
  reference form codec (`refForm`, proved lawful), `Canonical.encode` as the JSON writer, the JSON
  reader given on the request line (`j <tokens>` = the text of exactly this value) and the length
  bound of `http::Uri`; `c16.real.*` by the same model instantiated with the descriptors of the real
  endpoints (`Generated.C16.realReq` / `realResp`, identity codecs); everything else by
  `Model/Endpoint.lean`. Endpoint, history and glue
  descriptor indices refer to `Generated/C16.lean`.
-/
namespace Ruma.Driver.C16
open Ruma Ruma.Proto Ruma.Endpoint
open Ruma.Spec.Endpoint (AuthScheme TokenKind AuthExpect History Selection)

abbrev P := StateM (List String)

def next? : List String → Option (String × List String)
  | [] => none
  | t :: r => some (t, r)

def stripPrefix? (p : String) (t : String) : Option String :=
  if t.startsWith p then some ((t.drop p.length).toString) else none

def natTok (p : String) (t : String) : Option Nat := (stripPrefix? p t).bind (·.toNat?)

def parseStr (ts : List String) : Option (Str × List String) :=
  match ts with
  | t :: r => (parseStrTok t).map (·, r)
  | [] => none

def parseOptStr (ts : List String) : Option (Option Str × List String) :=
  match ts with
  | "n" :: r => some (none, r)
  | t :: r => (parseStrTok t).map (fun s => (some s, r))
  | [] => none

def parseOptNat (ts : List String) : Option (Option Nat × List String) :=
  match ts with
  | "n" :: r => some (none, r)
  | t :: r => (natTok "i" t).map (fun s => (some s, r))
  | [] => none

def parseN {α} (f : List String → Option (α × List String)) : Nat → List String → Option (List α × List String)
  | 0, ts => some ([], ts)
  | n + 1, ts =>
    match f ts with
    | some (a, r) => (parseN f n r).map (fun (as, r') => (a :: as, r'))
    | none => none

def parseStrs (ts : List String) : Option (List Str × List String) :=
  match ts with
  | t :: r => (natTok "a" t).bind (fun n => parseN parseStr n r)
  | [] => none

def parsePair (ts : List String) : Option ((Str × Str) × List String) :=
  match parseStr ts with
  | some (a, r) => (parseStr r).map (fun (b, r') => ((a, b), r'))
  | none => none

def parsePairs (ts : List String) : Option (List (Str × Str) × List String) :=
  match ts with
  | t :: r => (natTok "a" t).bind (fun n => parseN parsePair n r)
  | [] => none

def parseNatI (ts : List String) : Option (Nat × List String) :=
  match ts with
  | t :: r => (natTok "i" t).map (·, r)
  | [] => none

def maskVersions (m : Nat) : List Nat := (List.range 15).filter (fun i => m.testBit i)

def parseVersions (ts : List String) : Option (List Nat × List String) :=
  match ts with
  | t :: r =>
    match natTok "vm" t with
    | some m => if m < 32768 then some (maskVersions m, r) else none
    | none =>
      match natTok "vl" t with
      | some n =>
        match parseN parseNatI n r with
        | some (vs, r') => if vs.all (· < 15) then some (vs, r') else none
        | none => none
      | none => none
  | [] => none

def parseStableEntry (ts : List String) : Option ((Nat × Str) × List String) :=
  match parseNatI ts with
  | some (v, r) => (parseStr r).map (fun (p, r') => ((v, p), r'))
  | none => none

def parseHist (ts : List String) : Option (VersionHistory × List String) :=
  match parseStrs ts with
  | some (un, t :: r) =>
    match (natTok "a" t).bind (fun n => parseN parseStableEntry n r) with
    | some (st, r') =>
      match parseOptNat r' with
      | some (d, r'') => (parseOptNat r'').map (fun (rm, r''') => (⟨un, st, d, rm⟩, r'''))
      | none => none
    | none => none
  | _ => none

def toSpec (h : VersionHistory) : History := ⟨h.unstable, h.stable, h.removed⟩

def showSel : Selection → String
  | .path p => "ok " ++ strTok p
  | .removed => "err removed"
  | .noPath => "err nopath"

def showOut (f : α → String) : Out α → String
  | .ok a => "ok " ++ f a
  | .errRemoved _ => "err removed"
  | .errNoUnstable => "err nopath"
  | .panic => "panic"

def showStrs (l : List Str) : String :=
  " ".intercalate (("a" ++ toString l.length) :: l.map strTok)

/-- The versions some entry of the history mentions all lie in 0..14 (else `invalid`, as the
harness cannot even build the history). -/
def versionsKnown (h : VersionHistory) : Bool :=
  h.stable.all (·.1 < 15) && (h.deprecated.all (· < 15)) && (h.removed.all (· < 15))

def allPaths (h : VersionHistory) : List Str := (h.unstable ++ h.stable.map (·.2)).eraseDups

def sweepChar (h : VersionHistory) (m : Nat) : Char :=
  match Spec.Endpoint.select (toSpec h) (maskVersions m) with
  | .removed => 'R'
  | .noPath => 'N'
  | .path p =>
    match (allPaths h).findIdx? (· == p) with
    | some k => Char.ofNat (97 + k)
    | none => '?'

/-- `ok s<url> <routed args|noroute>` -/
def urlAnswer (h : VersionHistory) (vs : List Nat) (base query : Str) (args : List Str) : String :=
  match makeEndpointUrl h vs base args query, selectPath h vs with
  | .ok url, .ok tmpl =>
    let routed := match substPath tmpl args with
      | some p => routeArgs tmpl p
      | none => none
    "ok " ++ strTok url ++ " " ++ (match routed with | some a => showStrs a | none => "noroute")
  | o, _ => showOut strTok o

def schemeOf : Nat → Option AuthScheme
  | 0 => some .none | 1 => some .accessToken | 2 => some .accessTokenOptional
  | 3 => some .appserviceToken | 4 => some .appserviceTokenOptional | 5 => some .serverSignatures
  | _ => none

def satOf (k : Nat) (t : Str) : Option SendAccessToken :=
  match k with
  | 0 => some (.ifRequired t) | 1 => some (.always t) | 2 => some (.appservice t) | 3 => some .none
  | _ => none

def kindOf : Nat → Option TokenKind
  | 0 => some .ifRequired | 1 => some .always | 2 => some .appservice | 3 => some .none
  | _ => none

def showAuth : AuthOut → String
  | .noHeader => "none"
  | .header v => "ok " ++ strTok v
  | .errNeedsAuth => "err needsauth"
  | .errHeaderValue => "err header"

def natToDec (n : Nat) : Str := (toString n).toList.map Char.toNat

/-- The display string of a path field value of a synthetic endpoint. -/
def fieldStr : JVal → Option Str
  | .str s => some s
  | .int i => if 0 ≤ i then some (natToDec i.toNat) else none
  | _ => none

/-- `ok s<uri before ?> <n|s<authorization>>` for a request through `try_into_http_request`
with base URL `https://example.org`: URL first, then the authorization header. -/
def rtAnswer (h : VersionHistory) (scheme : AuthScheme) (vs : List Nat) (sat : SendAccessToken)
    (args : List Str) : String :=
  match makeEndpointUrl h vs (bs "https://example.org") args [] with
  | .ok url =>
    match authorizationHeader scheme sat with
    | .noHeader => "ok " ++ strTok url ++ " n"
    | .header v => "ok " ++ strTok url ++ " " ++ strTok v
    | .errNeedsAuth => "err needsauth"
    | .errHeaderValue => "err other"
  | o => showOut strTok o

def endpointAt (e : Nat) : Option (AuthScheme × VersionHistory) :=
  match Generated.C16.endpoints[e]? with
  | some (_, _, a, hi) => (Generated.C16.histories[hi]?).map (a, ·)
  | none => none


/-! ### The macro-generated glue -/

section Glue
open Ruma.Glue

/-- The wire forms of a request or response value, by kind (`P Q A H B J R` groups). -/
structure GV where
  path : List Str := []
  query : List (List Str) := []
  queryAll : List (List (Str × Str)) := []
  header : List (Option Str) := []
  body : List (Option JVal) := []
  whole : List JVal := []
  raw : List Str := []

def expectTok (tok : String) (ts : List String) : Option (List String) :=
  match ts with
  | t :: r => if t = tok then some r else none
  | [] => none

def parseCounted {α} (f : List String → Option (α × List String)) (ts : List String) :
    Option (List α × List String) :=
  match ts with
  | t :: r => (natTok "a" t).bind (fun n => parseN f n r)
  | [] => none

def parseOptJson (ts : List String) : Option (Option JVal × List String) :=
  match ts with
  | "-" :: r => some (none, r)
  | "+" :: r => (parseVal r).map (fun (v, r') => (some v, r'))
  | _ => none

def parseGV (ts : List String) : Option (GV × List String) := do
  let r ← expectTok "P" ts
  let (path, r) ← parseCounted parseStr r
  let r ← expectTok "Q" r
  let (query, r) ← parseCounted parseStrs r
  let r ← expectTok "A" r
  let (queryAll, r) ← parseCounted parsePairs r
  let r ← expectTok "H" r
  let (header, r) ← parseCounted parseOptStr r
  let r ← expectTok "B" r
  let (body, r) ← parseCounted parseOptJson r
  let r ← expectTok "J" r
  let (whole, r) ← parseCounted parseVal r
  let r ← expectTok "R" r
  let (raw, r) ← parseCounted parseStr r
  pure (⟨path, query, queryAll, header, body, whole, raw⟩, r)

def showCounted {α} (f : α → List String) (l : List α) : List String :=
  ("a" ++ toString l.length) :: l.flatMap f

def showGV (v : GV) : String :=
  " ".intercalate (
    ["P"] ++ showCounted (fun s => [strTok s]) v.path
    ++ ["Q"] ++ showCounted (fun vs => showCounted (fun s => [strTok s]) vs) v.query
    ++ ["A"] ++ showCounted (fun ps => showCounted (fun p => [strTok p.1, strTok p.2]) ps) v.queryAll
    ++ ["H"] ++ showCounted (fun h => match h with | some s => [strTok s] | none => ["n"]) v.header
    ++ ["B"] ++ showCounted (fun b => match b with | some j => "+" :: printVal j | none => ["-"]) v.body
    ++ ["J"] ++ showCounted printVal v.whole
    ++ ["R"] ++ showCounted (fun s => [strTok s]) v.raw)

def leStr : Str → Str → Bool
  | [], _ => true
  | _ :: _, [] => false
  | a :: as, b :: bs => decide (a < b) || (a == b && leStr as bs)

def lePair (p q : Str × Str) : Bool := if p.1 = q.1 then leStr p.2 q.2 else leStr p.1 q.1

def insertPair (p : Str × Str) : List (Str × Str) → List (Str × Str)
  | [] => [p]
  | q :: t => if lePair p q then p :: q :: t else q :: insertPair p t

/-- Headers as a sorted multimap. -/
def sortPairs (l : List (Str × Str)) : List (Str × Str) := l.foldr insertPair []

def showHeaders (hs : Headers) : List String :=
  showCounted (fun p : Str × Str => [strTok p.1, strTok p.2]) (sortPairs hs)

def showIntoErr : IntoErr → String
  | .removed _ => "err removed"
  | .noUnstablePath => "err nopath"
  | .needsAuth => "err needsauth"
  | .headerValue | .json | .http => "err other"

/-- `serde_json` for the sending side: the compact writer. -/
def jsonOut : JsonCodec := ⟨fun v => some (Canonical.encode v), fun _ => none⟩

/-- `http::Uri`: at most 65534 bytes (everything the model writes is URI-safe otherwise). -/
def uriLib : HttpLib := ⟨fun u => decide (u.length ≤ 65534)⟩

/-- The body of a received message: no bytes, the compact text of a JSON value, or bytes that are
not JSON. The JSON reader of this line reads exactly that text (and `{}`). -/
inductive BodyTok where
  | empty
  | json (j : JVal)
  | garbage (b : Str)

def parseBodyTok (ts : List String) : Option (BodyTok × List String) :=
  match ts with
  | "e" :: r => some (.empty, r)
  | "j" :: r => (parseVal r).map (fun (v, r') => (.json v, r'))
  | "g" :: t :: r => (parseStrTok t).map (fun b => (.garbage b, r))
  | _ => none

def BodyTok.bytes : BodyTok → Str
  | .empty => []
  | .json j => Canonical.encode j
  | .garbage b => b

def jsonIn (body : BodyTok) : JsonCodec :=
  ⟨fun v => some (Canonical.encode v),
   fun b =>
    match body with
    | .json j => if b = Canonical.encode j then some j else if b = bs "{}" then some (.obj []) else none
    | _ => if b = bs "{}" then some (.obj []) else none⟩

def glueReqAnswer (d : ReqDesc) (v : GV) (sat : SendAccessToken) (vs : List Nat) : String :=
  let rv : ReqVal := ⟨v.path, v.query, v.queryAll, v.header, v.body, v.whole, v.raw⟩
  match tryIntoHttpRequest refForm jsonOut uriLib d rv (bs "https://example.org") sat vs with
  | .ok m =>
    " ".intercalate (["ok", strTok m.method, strTok m.uri] ++ showHeaders m.headers ++ [strTok m.body])
  | .err e => showIntoErr e
  | .panic => "panic"
  | .illTyped => "bad-op"

def glueRespAnswer (d : RespDesc) (v : GV) : String :=
  let rv : RespVal := ⟨v.header, v.body, v.whole, v.raw⟩
  match tryIntoHttpResponse jsonOut d rv with
  | .ok r => " ".intercalate (["ok", "i" ++ toString r.status] ++ showHeaders r.headers ++ [strTok r.body])
  | .err e => showIntoErr e
  | .panic => "panic"
  | .illTyped => "bad-op"

def glueInAnswer (d : ReqDesc) (a : Arrived) (body : BodyTok) : String :=
  match tryFromHttpRequest refForm (jsonIn body) d a with
  | .ok v => "ok " ++ showGV ⟨v.path, v.query, v.queryAll, v.header, v.body, v.newtype, v.raw⟩
  | .methodMismatch => "err method"
  | .deser => "err deser"
  | .outside => "outside-model"

def glueRinAnswer (d : RespDesc) (r : HttpResponse) (body : BodyTok) : String :=
  match tryFromHttpResponse (jsonIn body) d r with
  | .ok v => "ok " ++ showGV ⟨[], [], [], v.header, v.body, v.whole, v.raw⟩
  | .server => "err server"
  | .deser => "err deser"
  | .outside => "outside-model"

def handleGlue (toks : List String) : Option String :=
  match toks with
  | "c16.glue.req" :: g :: rest => do
    let d ← g.toNat?.bind (Generated.C16.glueReq[·]?)
    let (vs, r) ← parseVersions rest
    match r with
    | k :: tok :: r =>
      let t ← parseStrTok tok
      let sat ← k.toNat?.bind (satOf · t)
      let (v, r) ← parseGV r
      if r.isEmpty then some (glueReqAnswer d v sat vs) else none
    | _ => none
  | "c16.glue.resp" :: g :: rest => do
    let d ← g.toNat?.bind (Generated.C16.glueResp[·]?)
    let (v, r) ← parseGV rest
    if r.isEmpty then some (glueRespAnswer d v) else none
  | "c16.glue.in" :: g :: rest => do
    let d ← g.toNat?.bind (Generated.C16.glueReq[·]?)
    let (method, r) ← parseStr rest
    let (args, r) ← parseStrs r
    let (query, r) ← parseStr r
    let (headers, r) ← parsePairs r
    let (body, r) ← parseBodyTok r
    if r.isEmpty then some (glueInAnswer d ⟨method, query, headers, body.bytes, args⟩ body) else none
  | "c16.glue.rin" :: g :: rest => do
    let d ← g.toNat?.bind (Generated.C16.glueResp[·]?)
    let (status, r) ← parseNatI rest
    let (headers, r) ← parsePairs r
    let (body, r) ← parseBodyTok r
    if r.isEmpty then some (glueRinAnswer d ⟨status, headers, body.bytes⟩ body) else none
  | _ => none

/-! ### The real endpoints under the glue model (`c16.real.*`)

The request line carries a message the real conversions produced and read back unchanged; the
answer is what the model — the descriptor extracted from the source text, with the identity
codecs — makes of it: read (`tryFromHttpRequest`), then written again (`tryIntoHttpRequest`). A
descriptor with a flattened body field is outside the model: its flattened fields stand in as
plain body fields (so that "has body fields" is right) and the body is left out of the answer. -/

def unflattenReq (d : ReqDesc) : ReqDesc :=
  { d with fields := d.fields.map (fun f =>
      match f.kind with | .flattenBody => ⟨f.name, .body Ty.anyB⟩ | _ => f) }

def unflattenResp (d : RespDesc) : RespDesc :=
  { d with fields := d.fields.map (fun f =>
      match f.kind with | .flattenBody => ⟨f.name, .body Ty.anyB⟩ | _ => f) }

def realReqAnswer (d : ReqDesc) (a : Arrived) (body : BodyTok) (sat : SendAccessToken)
    (vs : List Nat) : String :=
  let d' := unflattenReq d
  match tryFromHttpRequest refForm (jsonIn body) d' a with
  | .ok v =>
    match tryIntoHttpRequest refForm jsonOut uriLib d' v (bs "https://example.org") sat vs with
    | .ok m =>
      " ".intercalate ([if d.hasFlatten then "okp" else "ok", strTok m.method, strTok m.uri]
        ++ showHeaders m.headers ++ (if d.hasFlatten then [] else [strTok m.body]))
    | .err e => showIntoErr e
    | .panic => "panic"
    | .illTyped => "bad-op"
  | _ => "rejected"

def realRespAnswer (d : RespDesc) (r : HttpResponse) (body : BodyTok) : String :=
  let d' := unflattenResp d
  match tryFromHttpResponse (jsonIn body) d' r with
  | .ok v =>
    match tryIntoHttpResponse jsonOut d' v with
    | .ok m =>
      " ".intercalate ([if d.hasFlatten then "okp" else "ok", "i" ++ toString m.status]
        ++ showHeaders m.headers ++ (if d.hasFlatten then [] else [strTok m.body]))
    | .err e => showIntoErr e
    | .panic => "panic"
    | .illTyped => "bad-op"
  | _ => "rejected"

def handleReal (toks : List String) : Option String :=
  match toks with
  | "c16.real.req" :: e :: rest => do
    let d ← (e.toNat?.bind (Generated.C16.realReq[·]?)).join
    let (vs, r) ← parseVersions rest
    match r with
    | k :: tok :: r =>
      let t ← parseStrTok tok
      let sat ← k.toNat?.bind (satOf · t)
      let (args, r) ← parseStrs r
      let (query, r) ← parseStr r
      let (headers, r) ← parsePairs r
      let (body, r) ← parseBodyTok r
      if r.isEmpty then some (realReqAnswer d ⟨d.method, query, headers, body.bytes, args⟩ body sat vs)
      else none
    | _ => none
  | "c16.real.resp" :: e :: rest => do
    let d ← (e.toNat?.bind (Generated.C16.realResp[·]?)).join
    let (status, r) ← parseNatI rest
    let (headers, r) ← parsePairs r
    let (body, r) ← parseBodyTok r
    if r.isEmpty then some (realRespAnswer d ⟨status, headers, body.bytes⟩ body) else none
  | _ => none

end Glue

def handle (toks : List String) : String :=
  match toks with
  | ["c16.spec.sweep", hidx, start, stride, count] =>
    match hidx.toNat?.bind (Generated.C16.histories[·]?), start.toNat?, stride.toNat?, count.toNat? with
    | some h, some s, some d, some c =>
      "ok " ++ String.ofList ((List.range c).map (fun i => sweepChar h ((s + i * d) % 32768)))
    | _, _, _, _ => "bad-op"
  | "c16.spec.select" :: rest =>
    match parseHist rest with
    | some (h, r) =>
      match parseVersions r with
      | some (vs, []) =>
        if versionsKnown h && newOk h then showSel (Spec.Endpoint.select (toSpec h) vs) else "invalid"
      | _ => "bad-op"
    | none => "bad-op"
  | ["c16.spec.auth", s, k] =>
    match s.toNat?.bind schemeOf, k.toNat?.bind kindOf with
    | some s, some k =>
      match Spec.Endpoint.authExpect s k with
      | .bearer => "bearer" | .noHeader => "none" | .needsAuth => "needsauth"
    | _, _ => "bad-op"
  | "c16.new" :: rest =>
    match parseHist rest with
    | some (h, []) => if versionsKnown h && newOk h then "valid" else "invalid"
    | _ => "bad-op"
  | "c16.select" :: rest =>
    match parseHist rest with
    | some (h, r) =>
      match parseVersions r with
      | some (vs, []) =>
        if versionsKnown h && newOk h then showOut strTok (selectPath h vs) else "invalid"
      | _ => "bad-op"
    | none => "bad-op"
  | "c16.url" :: rest =>
    match parseHist rest with
    | some (h, r) =>
      match parseVersions r with
      | some (vs, r1) =>
        match parseStr r1 with
        | some (base, r2) =>
          match parseStr r2 with
          | some (query, r3) =>
            match parseStrs r3 with
            | some (args, []) =>
              if versionsKnown h && newOk h then urlAnswer h vs base query args else "invalid"
            | _ => "bad-op"
          | none => "bad-op"
        | none => "bad-op"
      | none => "bad-op"
    | none => "bad-op"
  | "c16.ep.url" :: e :: rest =>
    match e.toNat?.bind endpointAt, parseVersions rest with
    | some (_, h), some (vs, r) =>
      match parseStrs r with
      | some (args, []) => urlAnswer h vs (bs "https://example.org") [] args
      | _ => "bad-op"
    | _, _ => "bad-op"
  | ["c16.auth", s, k, tok] =>
    match s.toNat?.bind schemeOf, parseStrTok tok with
    | some s, some t =>
      match k.toNat?.bind (satOf · t) with
      | some sat => showAuth (authorizationHeader s sat)
      | none => "bad-op"
    | _, _ => "bad-op"
  | "c16.xm.fmt" :: rest =>
    match parseStr rest with
    | some (o, r) =>
      match parseOptStr r with
      | some (d, r1) =>
        match parseStr r1 with
        | some (k, r2) =>
          match parseStr r2 with
          | some (s, []) => "ok " ++ strTok (xmatrixFormat ⟨o, d, k, s⟩)
          | _ => "bad-op"
        | none => "bad-op"
      | none => "bad-op"
    | none => "bad-op"
  | ["c16.xm.parse", t] =>
    match parseStrTok t with
    | some s =>
      match xmatrixParse s with
      | some x =>
        "ok " ++ strTok x.origin ++ " " ++ (match x.destination with | some d => strTok d | none => "n")
          ++ " " ++ strTok x.key ++ " " ++ strTok x.sig
      | none => "err"
    | none => "bad-op"
  | "c16.rt.req" :: e :: rest =>
    match e.toNat?.bind endpointAt, parseVersions rest with
    | some (scheme, h), some (vs, k :: tok :: r) =>
      match parseStrTok tok, parseStrs r with
      | some t, some (args, _) =>
        match k.toNat?.bind (satOf · t) with
        | some sat => rtAnswer h scheme vs sat args
        | none => "bad-op"
      | _, _ => "bad-op"
    | _, _ => "bad-op"
  | "c16.rt.syn" :: e :: rest =>
    match e.toNat?.bind endpointAt, parseVersions rest with
    | some (scheme, h), some (vs, k :: tok :: r) =>
      match parseStrTok tok, parseOne r with
      | some t, some (.obj o) =>
        let names := (pathArgNames ((refPath h).getD []))
        match k.toNat?.bind (satOf · t), names.mapM (fun n => (Obj.get o n).bind fieldStr) with
        | some sat, some args => rtAnswer h scheme vs sat args
        | _, _ => "bad-op"
      | _, _ => "bad-op"
    | _, _ => "bad-op"
  | "c16.glue.req" :: _ | "c16.glue.resp" :: _ | "c16.glue.in" :: _ | "c16.glue.rin" :: _ =>
    (handleGlue toks).getD "bad-op"
  | "c16.real.req" :: _ | "c16.real.resp" :: _ => (handleReal toks).getD "bad-op"
  | "c16.rt.resp" :: _ => "ok"
  | "c16.rt.synresp" :: _ => "ok"
  | "c16.rt.err" :: _ => "ok"
  | _ => "bad-op"

end Ruma.Driver.C16

def main : IO Unit := Ruma.Proto.runDriver Ruma.Driver.C16.handle
