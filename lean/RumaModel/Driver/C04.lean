import RumaModel.Proto
import RumaModel.Model.Redact
import RumaModel.Spec.RedactionRules
import RumaModel.Generated.C04
namespace Ruma.Driver.C04
open Ruma Ruma.Proto Ruma.Redact

/-- The rules the *implementation* uses for version `v` (extracted table, T1). -/
def implRules (v : Nat) : Option Rules := (Generated.C04.rulesTable.find? (·.1 = v)).map (·.2)

def showRes : Except Err Obj → String
  | .ok o => "ok " ++ showVal (.obj o)
  | .error _ => "err"

def handle (toks : List String) : String :=
  match toks with
  | ["c04.cell", v, ty, level, key] =>
    match v.toNat?, parseStrTok ty, parseStrTok key with
    | some v, some ty, some key =>
      let b := match level with
        | "top" => some (Spec.Redaction.topKept v key)
        | "content" => some (Spec.Redaction.contentKept v ty key)
        | "tpi" => some (Spec.Redaction.contentKept v ty (bs "third_party_invite")
                          && Spec.Redaction.tpiKept key)
        | _ => none
      match b with
      | some true => "t"
      | some false => "f"
      | none => "bad-op"
    | _, _, _ => "bad-op"
  | "c04.redact" :: v :: rest =>
    match v.toNat?.bind implRules, parseVal rest with
    | some r, some (because, rest') =>
      match because, parseOne rest' with
      | .null, some (.obj ev) => showRes (redact r ev none)
      | .obj b, some (.obj ev) => showRes (redact r ev (some b))
      | _, _ => "bad-op"
    | _, _ => "bad-op"
  | "c04.content" :: v :: ty :: rest =>
    match v.toNat?.bind implRules, parseStrTok ty, parseOne rest with
    | some r, some ty, some (.obj c) => showRes (redactContent r ty c)
    | _, _, _ => "bad-op"
  | _ => "bad-op"

end Ruma.Driver.C04

def main : IO Unit := Ruma.Proto.runDriver Ruma.Driver.C04.handle
