import RumaModel.Proto
import RumaModel.Model.StringEnum
import RumaModel.Spec.StringEnum
import RumaModel.Generated.C19
namespace Ruma.Driver.C19
open Ruma Ruma.Proto Ruma.StringEnum

/-- `<d>`: `k:<Variant>:<hex>` / `w:<Variant>:<hex suffix>:<hex>` / `c:<hex>`. -/
def describe (v : Val) : String :=
  match v with
  | .unit r => "k:" ++ r.label ++ ":" ++ hex (asStr v)
  | .frag r suf => "w:" ++ r.label ++ ":" ++ hex suf ++ ":" ++ hex (asStr v)
  | .custom _ => "c:" ++ hex (asStr v)

/-- The table the *implementation* has for this enum (extracted on this run, T1). -/
def implInfo (name : String) : Option EnumInfo := Generated.C19.tables.find? (·.name = name)

/-- The table the *specification* gives for this enum. -/
def specTable (name : String) : Option Table :=
  (Spec.StringEnum.all.find? (·.name = name)).map (·.table)

def showOrd : Ordering → String
  | .lt => "lt"
  | .eq => "eq"
  | .gt => "gt"

def showBool (b : Bool) : String := if b then "t" else "f"

def handle (toks : List String) : String :=
  match toks with
  | ["c19.cell", e, s] =>
    -- SPEC side: what the specification's table says this string denotes
    match specTable e, parseStrTok s with
    | some tbl, some s => describe (fromStr tbl s)
    | _, _ => "bad-op"
  | ["c19.pair", e, a, b] =>
    -- SPEC side: equality and order of the canonical string forms; which traits exist is read
    -- off the implementation
    match specTable e, implInfo e, parseStrTok a, parseStrTok b with
    | some tbl, some info, some a, some b =>
      let ca := Spec.StringEnum.canon tbl a
      let cb := Spec.StringEnum.canon tbl b
      (if info.hasEq then showBool (ca == cb) else "-") ++ " " ++
        (if info.ord = .none then "-" else
          if ca < cb then "lt" else if ca = cb then "eq" else "gt")
    | _, _, _, _ => "bad-op"
  | ["c19.conv", e, s] =>
    match implInfo e, parseStrTok s with
    | some info, some s =>
      let v := fromStr info.tbl s
      let de := match deserialize info.tbl (.str s) with
        | some d => describe d
        | none => "err"
      "ok " ++ describe v ++ " " ++ de ++ " " ++ describe (fromStr info.tbl (asStr v)) ++ " " ++
        showVal (serialize v)
    | _, _ => "bad-op"
  | "c19.de" :: e :: rest =>
    match implInfo e, parseOne rest with
    | some info, some j =>
      match deserialize info.tbl j with
      | some d => "ok " ++ describe d
      | none => "err"
    | _, _ => "bad-op"
  | ["c19.cmp", e, a, b] =>
    match implInfo e, parseStrTok a, parseStrTok b with
    | some info, some a, some b =>
      let v := fromStr info.tbl a
      let w := fromStr info.tbl b
      -- the std `PartialEq` derive is structural equality of the value; `PartialEqAsRefStr` is
      -- `eqAsRef`; the two agree on converted values (theorem `eq_iff_str_eq`)
      "ok " ++ (if info.hasEq then showBool (decide (v = w)) else "-") ++ " " ++
        (if info.ord = .none then "-" else showOrd (cmpVal v w))
    | _, _, _ => "bad-op"
  | _ => "bad-op"

end Ruma.Driver.C19

def main : IO Unit := Ruma.Proto.runDriver Ruma.Driver.C19.handle
