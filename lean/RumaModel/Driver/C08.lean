import RumaModel.Driver.AuthCommon
import RumaModel.Spec.AuthRules
namespace Ruma.Driver.C08
open Ruma Ruma.Proto Ruma.Auth Ruma.Driver.AuthCommon

def parsePayload (rest : List String) : Option (Event × List Event) :=
  match parseVal rest with
  | some (evv, rest') =>
    match parseOne rest' with
    | some sv =>
      match eventOfJVal evv, stateOfJVal sv with
      | some ev, some st => some (ev, st)
      | _, _ => none
    | none => none
  | none => none

def handle (toks : List String) : String :=
  match toks with
  | "c08.auth" :: r :: rest =>
    match rulesOfTok r, parsePayload rest with
    | some rules, some (ev, st) => verdict (authCheck rules ev (fetchOf st))
    | _, _ => "bad-op"
  | "c08.spec" :: r :: rest =>
    match versionOfTok r, parsePayload rest with
    | some v, some (ev, st) => verdict (Spec.Auth.authorize v ev (fetchOf st))
    | _, _ => "bad-op"
  | _ => "bad-op"

end Ruma.Driver.C08

def main : IO Unit := Ruma.Proto.runDriver Ruma.Driver.C08.handle
