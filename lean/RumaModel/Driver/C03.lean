import RumaModel.Proto
import RumaModel.Model.EventSign
import RumaModel.Spec.EventSign
import RumaModel.Generated.C03
namespace Ruma.Driver.C03
open Ruma Ruma.Proto Ruma.EventSign Ruma.Sign

/-- The rules the *implementation* uses for version `v` (extracted tables, T1). -/
def implSig (v : Nat) : Option SigRules :=
  (Generated.C03.signaturesTable.find? (·.1 = v)).map (·.2)

def implRed (v : Nat) : Option Redact.Rules :=
  (Generated.C03.redactionTable.find? (·.1 = v)).map (·.2)

def version (s : String) : Option Nat :=
  match s.toNat? with
  | some v => if 1 ≤ v ∧ v ≤ 11 then some v else none
  | none => none

def tf (b : Bool) : String := if b then "t" else "f"

/-- `h<hex>` token: raw bytes. -/
def bytesTok (t : String) : Option (List Nat) :=
  match t.toList with
  | 'h' :: r => unhexAux r []
  | _ => none

/-! Table parsers: each consumes a prefix of the token list. Counts drive the recursion. -/

def takeStrs : Nat → List String → List Str → Option (List Str × List String)
  | 0, rest, acc => some (acc.reverse, rest)
  | n + 1, t :: rest, acc =>
    match parseStrTok t with
    | some s => takeStrs n rest (s :: acc)
    | none => none
  | _ + 1, [], _ => none

def parseX6 : List String → Option (List Str × List String)
  | "X" :: n :: rest =>
    match n.toNat? with
    | some n => takeStrs n rest []
    | none => none
  | _ => none

abbrev GRow := List Nat × List Nat × List Nat

def takeG : Nat → List String → List GRow → Option (List GRow × List String)
  | 0, rest, acc => some (acc.reverse, rest)
  | n + 1, a :: b :: c :: rest, acc =>
    match bytesTok a, bytesTok b, bytesTok c with
    | some seed, some msg, some sig => takeG n rest ((seed, msg, sig) :: acc)
    | _, _, _ => none
  | _ + 1, _, _ => none

def parseG : List String → Option (List GRow × List String)
  | "G" :: n :: rest =>
    match n.toNat? with
    | some n => takeG n rest []
    | none => none
  | _ => none

abbrev VRow := List Nat × List Nat × Bool

def takeV : Nat → List String → List VRow → Option (List VRow × List String)
  | 0, rest, acc => some (acc.reverse, rest)
  | n + 1, a :: b :: c :: rest, acc =>
    match bytesTok a, bytesTok b, c with
    | some pk, some sig, "t" => takeV n rest ((pk, sig, true) :: acc)
    | some pk, some sig, "f" => takeV n rest ((pk, sig, false) :: acc)
    | _, _, _ => none
  | _ + 1, _, _ => none

def parseV : List String → Option ((List Nat × List VRow) × List String)
  | "V" :: m :: n :: rest =>
    match bytesTok m, n.toNat? with
    | some msg, some n =>
      match takeV n rest [] with
      | some (rows, rest') => some ((msg, rows), rest')
      | none => none
    | _, _ => none
  | _ => none

def takeKeys : Nat → List String → List (Str × Str) → Option (List (Str × Str) × List String)
  | 0, rest, acc => some (acc.reverse, rest)
  | n + 1, a :: b :: rest, acc =>
    match parseStrTok a, bytesTok b with
    | some kid, some pk => takeKeys n rest ((kid, pk) :: acc)
    | _, _ => none
  | _ + 1, _, _ => none

def takeEntities : Nat → List String → KeyMap → Option (KeyMap × List String)
  | 0, rest, acc => some (acc.reverse, rest)
  | n + 1, a :: m :: rest, acc =>
    match parseStrTok a, m.toNat? with
    | some entity, some m =>
      match takeKeys m rest [] with
      | some (set, rest') => takeEntities n rest' ((entity, set) :: acc)
      | none => none
    | _, _ => none
  | _ + 1, _, _ => none

def parseK : List String → Option (KeyMap × List String)
  | "K" :: n :: rest =>
    match n.toNat? with
    | some n => takeEntities n rest []
    | none => none
  | _ => none

/-- `Ipv6Addr::from_str` as the oracle list says; the other two external functions are not reached
by user-ID / event-ID validation. -/
def extOf (x6 : List Str) : Ids.Ext where
  isIpv6 := fun c => x6.contains c
  isIpv4 := fun _ => false
  uniAlnum := fun _ => true

/-- The scheme as the oracle tables say. A question the tables do not answer is answered
"no signature" / "does not verify": the model then disagrees with an implementation that signed or
verified some other message. -/
def schemeOf (g : List GRow) (vmsg : List Nat) (rows : List VRow) : SigScheme where
  sign := fun seed msg =>
    match g.find? (fun r => r.1 == seed && r.2.1 == msg) with
    | some r => r.2.2
    | none => []
  verify := fun pk msg sig =>
    msg == vmsg && rows.any (fun r => r.1 == pk && r.2.1 == sig && r.2.2)
  pub := fun _ => []

def showServers (l : List Str) : String :=
  " ".intercalate (("ok " ++ toString l.length) :: l.map strTok)

def handle (toks : List String) : String :=
  match toks with
  | ["c03.sigrules", v] =>
    match version v with
    | some v => tf (Spec.EventSign.checkEventIdServer v) ++ " " ++ tf (Spec.EventSign.checkJoinAuthorised v)
    | none => "bad-op"
  | "c03.servers" :: v :: rest =>
    match (version v).bind implSig, (version v).bind implRed, parseX6 rest with
    | some sr, some rr, some (x6, rest') =>
      match parseOne rest' with
      | some (.obj ev) =>
        match Redact.redact rr ev none with
        | .error _ => "err"
        | .ok _ =>
          match serversToCheck (extOf x6) ev sr with
          | .ok l => showServers l
          | .error .panic => "panic"
          | .error _ => "err"
      | _ => "bad-op"
    | _, _, _ => "bad-op"
  | "c03.sign" :: v :: rest =>
    match (version v).bind implRed, parseG rest with
    | some rr, some (g, entity :: ver :: seed :: rest') =>
      match parseStrTok entity, parseStrTok ver, bytesTok seed, parseOne rest' with
      | some entity, some ver, some seed, some (.obj ev) =>
        match hashAndSignEvent (schemeOf g [] []) Hash.sha256Ref entity ⟨seed, ver⟩ ev rr with
        | (.ok (), o) => "ok " ++ showVal (.obj o)
        | (.error .panic, _) => "panic"
        | (.error _, o) => "err " ++ showVal (.obj o)
      | _, _, _, _ => "bad-op"
    | _, _ => "bad-op"
  | "c03.verify" :: v :: _tag :: rest =>
    match (version v).bind implSig, (version v).bind implRed, parseX6 rest with
    | some sr, some rr, some (x6, rest1) =>
      match parseV rest1 with
      | some ((vmsg, rows), rest2) =>
        match parseK rest2 with
        | some (keys, rest3) =>
          match parseOne rest3 with
          | some (.obj ev) =>
            match verifyEvent (schemeOf [] vmsg rows) Hash.sha256Ref (extOf x6) keys ev rr sr with
            | .ok .all => "all"
            | .ok .signatures => "signatures"
            | .error .panic => "panic"
            | .error _ => "err"
          | _ => "bad-op"
        | none => "bad-op"
      | none => "bad-op"
    | _, _, _ => "bad-op"
  | _ => "bad-op"

end Ruma.Driver.C03

def main : IO Unit := Ruma.Proto.runDriver Ruma.Driver.C03.handle
