import RumaModel.Proto
import RumaModel.Model.Canonical
namespace Ruma.Driver.C01
open Ruma Ruma.Proto Ruma.Canonical

def showRes : Except Err (List Nat) → String
  | .ok b => "ok " ++ strTok b
  | .error _ => "err"

def handle (toks : List String) : String :=
  match toks with
  | "c01.canon" :: k :: rest =>
    match k.toNat? with
    | some k =>
      let texts := rest.take k
      if k = 0 ∨ texts.length ≠ k ∨ texts.any (fun t => (parseStrTok t).isNone) then "bad-op"
      else
        match parseOne (rest.drop k) with
        | some v => showRes ((normalize (serdeValue v)).map encode)
        | none => "bad-op"
    | none => "bad-op"
  | "c01.sig" :: text :: rest =>
    match parseStrTok text, parseOne rest with
    | some _, some (.obj kvs) =>
      match serdeValue (.obj kvs) with
      | .obj m => showRes ((normalizeMap m).map sigCanonicalJson)
      | _ => "bad-op"
    | _, _ => "bad-op"
  | _ => "bad-op"

end Ruma.Driver.C01

def main : IO Unit := Ruma.Proto.runDriver Ruma.Driver.C01.handle
