import RumaModel.Proto
import RumaModel.Model.Canonical
import RumaModel.Spec.CanonicalJson
/-
  Driver for C01. The answer is computed by the model from the token-encoded value tree.
  As a cross-check of the harness' generator ("this text denotes this tree") the driver also reads
  every JSON text of the request with its own small JSON text reader (executable, unproven, not on
  the path of any theorem): text 1 must denote exactly the tree, and every further text must lead
  the model to the same answer. A failure of this cross-check is a harness bug: `bad-op`.
-/
namespace Ruma.Driver.C01
open Ruma Ruma.Proto Ruma.Canonical

def showRes : Except Err (List Nat) → String
  | .ok b => "ok " ++ strTok b
  | .error _ => "err"

/-! ### JSON text reader (RFC 8259), objects in text order, numbers classified like serde_json -/

def isWs (b : Nat) : Bool := b = 32 || b = 9 || b = 10 || b = 13
def isDig (b : Nat) : Bool := decide (48 ≤ b) && decide (b ≤ 57)

partial def skipWs : List Nat → List Nat
  | b :: t => if isWs b then skipWs t else b :: t
  | [] => []

def hexAny (b : Nat) : Option Nat :=
  if 48 ≤ b ∧ b ≤ 57 then some (b - 48)
  else if 97 ≤ b ∧ b ≤ 102 then some (b - 87)
  else if 65 ≤ b ∧ b ≤ 70 then some (b - 55)
  else none

def hex4 : List Nat → Option (Nat × List Nat)
  | a :: b :: c :: d :: t =>
    match hexAny a, hexAny b, hexAny c, hexAny d with
    | some a, some b, some c, some d => some (((a * 16 + b) * 16 + c) * 16 + d, t)
    | _, _, _, _ => none
  | _ => none

partial def readStrBody (inp : List Nat) (acc : List Nat) : Option (Str × List Nat) :=
  match inp with
  | [] => none
  | b :: t =>
    if b = 34 then some (acc.reverse, t)
    else if b = 92 then
      match t with
      | [] => none
      | e :: t' =>
        let simple (c : Nat) := readStrBody t' (c :: acc)
        if e = 34 then simple 34 else if e = 92 then simple 92 else if e = 47 then simple 47
        else if e = 98 then simple 8 else if e = 102 then simple 12 else if e = 110 then simple 10
        else if e = 114 then simple 13 else if e = 116 then simple 9
        else if e = 117 then
          match hex4 t' with
          | none => none
          | some (u, t'') =>
            if 0xD800 ≤ u ∧ u < 0xDC00 then
              match t'' with
              | 92 :: 117 :: t3 =>
                match hex4 t3 with
                | some (lo, t4) =>
                  if 0xDC00 ≤ lo ∧ lo < 0xE000 then
                    let cp := 0x10000 + (u - 0xD800) * 1024 + (lo - 0xDC00)
                    readStrBody t4 ((Spec.CanonicalJson.utf8EncodeChar cp).reverse ++ acc)
                  else none
                | none => none
              | _ => none
            else if 0xDC00 ≤ u ∧ u < 0xE000 then none
            else readStrBody t'' ((Spec.CanonicalJson.utf8EncodeChar u).reverse ++ acc)
        else none
    else if b < 32 then none
    else readStrBody t (b :: acc)

partial def takeDigits : List Nat → List Nat → List Nat × List Nat
  | b :: t, acc => if isDig b then takeDigits t (b :: acc) else (acc.reverse, b :: t)
  | [], acc => (acc.reverse, [])

def digitsVal (ds : List Nat) : Nat := ds.foldl (fun a d => 10 * a + (d - 48)) 0

/-- A number token; `int` iff it is a plain integer literal, not `-0`, that fits i64 or u64. -/
def readNum (inp : List Nat) : Option (JVal × List Nat) :=
  let (neg, r0) := match inp with
    | 45 :: t => (true, t)
    | _ => (false, inp)
  let (ds, r1) := takeDigits r0 []
  if ds.isEmpty ∨ (ds.length > 1 ∧ ds.head? = some 48) then none
  else
    let (hasFrac, r2) := match r1 with
      | 46 :: t =>
        let (fs, r) := takeDigits t []
        if fs.isEmpty then (none, r) else (some true, r)
      | _ => (some false, r1)
    match hasFrac with
    | none => none
    | some hasFrac =>
      let (hasExp, r3) := match r2 with
        | b :: t =>
          if b = 101 ∨ b = 69 then
            let t' := match t with
              | 43 :: t' => t'
              | 45 :: t' => t'
              | _ => t
            let (es, r) := takeDigits t' []
            if es.isEmpty then (none, r) else (some true, r)
          else (some false, r2)
        | [] => (some false, r2)
      match hasExp with
      | none => none
      | some hasExp =>
        let n := digitsVal ds
        if hasFrac ∨ hasExp then some (.float, r3)
        else if neg then
          if n = 0 then some (.float, r3)
          else if n ≤ 9223372036854775808 then some (.int (-(Int.ofNat n)), r3) else some (.float, r3)
        else if n ≤ 18446744073709551615 then some (.int (Int.ofNat n), r3) else some (.float, r3)

def stripLit (p : List Nat) (inp : List Nat) : Option (List Nat) :=
  if inp.take p.length = p then some (inp.drop p.length) else none

mutual
partial def readVal (inp : List Nat) : Option (JVal × List Nat) :=
  match skipWs inp with
  | [] => none
  | b :: t =>
    if b = 110 then (stripLit [117, 108, 108] t).map (fun r => (.null, r))
    else if b = 116 then (stripLit [114, 117, 101] t).map (fun r => (.bool true, r))
    else if b = 102 then (stripLit [97, 108, 115, 101] t).map (fun r => (.bool false, r))
    else if b = 34 then (readStrBody t []).map (fun p => (.str p.1, p.2))
    else if b = 91 then
      match skipWs t with
      | 93 :: r => some (.arr [], r)
      | r => readElems r []
    else if b = 123 then
      match skipWs t with
      | 125 :: r => some (.obj [], r)
      | r => readMembers r []
    else readNum (b :: t)
partial def readElems (inp : List Nat) (acc : List JVal) : Option (JVal × List Nat) :=
  match readVal inp with
  | none => none
  | some (v, r) =>
    match skipWs r with
    | 44 :: r' => readElems r' (v :: acc)
    | 93 :: r' => some (.arr (v :: acc).reverse, r')
    | _ => none
partial def readMembers (inp : List Nat) (acc : List (Str × JVal)) : Option (JVal × List Nat) :=
  match skipWs inp with
  | 34 :: t =>
    match readStrBody t [] with
    | none => none
    | some (k, r0) =>
      match skipWs r0 with
      | 58 :: r1 =>
        match readVal r1 with
        | none => none
        | some (v, r) =>
          match skipWs r with
          | 44 :: r' => readMembers r' ((k, v) :: acc)
          | 125 :: r' => some (.obj ((k, v) :: acc).reverse, r')
          | _ => none
      | _ => none
  | _ => none
end

def readText (t : Str) : Option JVal :=
  match readVal t with
  | some (v, r) => if (skipWs r).isEmpty then some v else none
  | none => none

def modelAnswer (v : JVal) : String := showRes ((normalize (serdeValue v)).map encode)

def handle (toks : List String) : String :=
  match toks with
  | "c01.canon" :: k :: rest =>
    match k.toNat? with
    | some k =>
      let texts := (rest.take k).filterMap parseStrTok
      if k = 0 ∨ texts.length ≠ k then "bad-op"
      else
        match parseOne (rest.drop k) with
        | some v =>
          let ans := modelAnswer v
          -- cross-check of the generator: text 1 is exactly the tree; the others give the same answer
          let ok1 := match texts.head?.bind readText with
            | some v1 => v1 == v
            | none => false
          let okRest := (texts.drop 1).all (fun t =>
            match readText t with
            | some vi => modelAnswer vi == ans
            | none => false)
          if ok1 && okRest then ans else "bad-op"
        | none => "bad-op"
    | none => "bad-op"
  | "c01.sig" :: text :: rest =>
    match parseStrTok text, parseOne rest with
    | some t, some (.obj kvs) =>
      match serdeValue (.obj kvs) with
      | .obj m =>
        let ans := showRes ((normalizeMap m).map sigCanonicalJson)
        let ok := match readText t with
          | some (.obj kvs') => (match serdeValue (.obj kvs') with
              | .obj m' => showRes ((normalizeMap m').map sigCanonicalJson) == ans
              | _ => false)
          | _ => false
        if ok then ans else "bad-op"
      | _ => "bad-op"
    | _, _ => "bad-op"
  | _ => "bad-op"

end Ruma.Driver.C01

def main : IO Unit := Ruma.Proto.runDriver Ruma.Driver.C01.handle
