import RumaModel.Proto
import RumaModel.Model.HttpHeaders
import RumaModel.Model.RingCompat
namespace Ruma.Driver.C17
open Ruma Ruma.Proto Ruma.HttpHeaders

/-- `h<hex>` token (may be empty: `h`). -/
def parseH (t : String) : Option (List Nat) :=
  match t.toList with
  | 'h' :: rest => unhexAux rest []
  | _ => none

def showH (s : List Nat) : String := "h" ++ hex s

def showType : DispType → String
  | .inline => "inline"
  | .attachment => "attachment"
  | .custom s => "custom:" ++ hex s

def handle (toks : List String) : String :=
  match toks with
  | ["c17.cd", h] =>
    match parseH h with
    | some s =>
      match parse s with
      | .ok cd => "ok " ++ showType cd.dtype ++ " " ++
          (match cd.filename with | none => "none" | some f => showH f)
      | .error _ => "err"
    | none => "bad-op"
  | ["c17.lossy", h] =>
    match parseH h with
    | some s => "ok " ++ showH (utf8Lossy s)
    | none => "bad-op"
  | ["c17.rfc8187", h] =>
    match parseH h with
    | some s => (match rfc8187Decode s with | some r => "ok " ++ showH r | none => "err")
    | none => "bad-op"
  | ["c17.der", h] =>
    match parseH h with
    | some s => (match RingCompat.fromBytes s with | .ok _ => "nopanic" | .panic => "panic")
    | none => "bad-op"
  -- Spec answer for every untrusted-input entry point: it returns (a value or an error).
  | ["c17.ep", _name, h] =>
    match parseH h with
    | some _ => "returns"
    | none => "bad-op"
  | _ => "bad-op"

end Ruma.Driver.C17

def main : IO Unit := Ruma.Proto.runDriver Ruma.Driver.C17.handle
