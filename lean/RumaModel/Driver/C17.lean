import RumaModel.Proto
import RumaModel.Model.HttpHeaders
import RumaModel.Model.RingCompat
import RumaModel.Model.ScanMultipart
import RumaModel.Model.ScanCallMember
import RumaModel.Model.ScanLang
import RumaModel.Model.ScanTag
import RumaModel.Model.ScanPlainReply
import RumaModel.Model.ScanWordBytes
import RumaModel.Model.ScanCd
import RumaModel.Model.IdsIp
namespace Ruma.Driver.C17
open Ruma Ruma.Proto Ruma.HttpHeaders

/-- `h<hex>` token (may be empty: `h`). -/
def parseH (t : String) : Option (List Nat) :=
  match t.toList with
  | 'h' :: rest => unhexAux rest []
  | _ => none

def showH (s : List Nat) : String := "h" ++ hex s

def showType : DispType → String
  | .inline => "inline"
  | .attachment => "attachment"
  | .custom s => "custom:" ++ hex s

def parseBoolTok : String → Option Bool
  | "t" => some true
  | "f" => some false
  | _ => none

def parseHdrVerdict : String → Option ScanMultipart.HdrVerdict
  | "file" => some .file
  | "loc" => some .location
  | "bad" => some .bad
  | _ => none

/-- `UserId::parse` inside the call-member key model uses C10's reference IP-literal parsers for the
external `Ipv6Addr`/`Ipv4Addr` parsers (they are compared with std on every C10 run). -/
def refExt : Ids.Ext := ⟨Ids.ipv6Ref, Ids.ipv4Ref, fun _ => true⟩

def showOut (f : α → String) : Scan.Out α → String
  | .ok a => "ok " ++ f a
  | .err => "err"
  | .panic => "panic"
  | .hang => "hang"

def handle (toks : List String) : String :=
  match toks with
  -- answered by the index-faithful model (explicit `bytes[pos]` / slice panics); the suffix-passing
  -- model must give the same result (a theorem, `cd_index_model_eq_suffix_model`; re-checked here)
  | ["c17.cd", h] =>
    match parseH h with
    | some s =>
      let viaSuffix : ScanCd.Res := match parse s with
        | .ok cd => .ok cd
        | .error e => .err e
      if ScanCd.parseI s ≠ viaSuffix then "models-differ"
      else match ScanCd.parseI s with
        | .ok cd => "ok " ++ showType cd.dtype ++ " " ++
            (match cd.filename with | none => "none" | some f => showH f)
        | .err _ => "err"
        | .panic => "panic"
        | .hang => "hang"
    | none => "bad-op"
  | ["c17.lossy", h] =>
    match parseH h with
    | some s => "ok " ++ showH (utf8Lossy s)
    | none => "bad-op"
  | ["c17.rfc8187", h] =>
    match parseH h with
    | some s => (match rfc8187Decode s with | some r => "ok " ++ showH r | none => "err")
    | none => "bad-op"
  | ["c17.der", h] =>
    match parseH h with
    | some s => (match RingCompat.fromBytes s with | .ok _ => "nopanic" | .panic => "panic")
    | none => "bad-op"
  -- multipart/mixed splitter; `j` = serde_json accepted the metadata part, `e` = verdict of the
  -- external header stage (httparse + header loop) on the content part's headers
  | ["c17.mp", hb, h, j, e] =>
    match parseH hb, parseH h, parseBoolTok j, parseHdrVerdict e with
    | some b, some body, some jv, some ev =>
      match ScanMultipart.split ⟨fun _ => jv, fun _ => ev⟩ b body with
      | .ok (.file f) => "ok file " ++ showH f
      | .ok .location => "ok loc"
      | .err .parts0 => "err parts0"
      | .err .parts1 => "err parts1"
      | .err .sep => "err sep"
      | .err .json => "err json"
      | .err .hdr => "err hdr"
      | .panic => "panic"
      | .hang => "hang"
    | _, _, _, _ => "bad-op"
  | ["c17.cmsk", h] =>
    match parseH h with
    | some s => showOut (fun k => match k with
        | ScanCallMember.Key.underscoreUserDevice u d => "uud " ++ showH u ++ " " ++ showH d
        | .userDevice u d => "ud " ++ showH u ++ " " ++ showH d
        | .user u => "u " ++ showH u ++ " -") (ScanCallMember.fromStr refExt s)
    | none => "bad-op"
  | ["c17.lang", h] =>
    match parseH h with
    | some s => showOut (fun r => (match r.language with | some l => showH l | none => "none") ++ " " ++
        (if r.keep then "t" else "f")) (ScanLang.scanClass s)
    | none => "bad-op"
  | ["c17.tag", h] =>
    match parseH h with
    | some s => showOut showH (ScanTag.displayNameOf s)
    | none => "bad-op"
  -- `_mode` (`e` = event_match on content.body, `d` = contains_display_name) selects the public entry
  -- point on the implementation side; both end in `matches_word_impl(pattern, false)`
  | ["c17.word", _mode, hs, hp] =>
    match parseH hs, parseH hp with
    | some s, some p => showOut (fun b => if b then "t" else "f") (ScanWordBytes.matchesWord s p)
    | _, _ => "bad-op"
  | ["c17.plain", h] =>
    match parseH h with
    | some s => showOut showH (ScanPlainReply.removeFallback s)
    | none => "bad-op"
  -- Spec answer for every untrusted-input entry point: it returns (a value or an error).
  | ["c17.ep", _name, h] =>
    match parseH h with
    | some _ => "returns"
    | none => "bad-op"
  | _ => "bad-op"

end Ruma.Driver.C17

def main : IO Unit := Ruma.Proto.runDriver Ruma.Driver.C17.handle
