/-
  Request decoding shared by the C08 and C09 drivers (executable only; nothing here is used in a
  theorem): rule tokens, events and states in token form.
-/
import RumaModel.Proto
import RumaModel.Model.Auth
import RumaModel.Generated.C08
namespace Ruma.Driver.AuthCommon
open Ruma Ruma.Proto Ruma.Auth

/-- The rules the *implementation* uses for version `v` (extracted table, T1). -/
def implRules (v : Nat) : Option AuthRules := (Generated.C08.rulesTable.find? (·.1 = v)).map (·.2)

def bitsRules (cs : List Char) : Option AuthRules :=
  match cs.map (fun c => if c = '1' then some true else if c = '0' then some false else none) with
  | [some a, some b, some c, some d, some e, some f, some g, some h, some i] =>
    some ⟨a, b, c, d, e, f, g, h, i⟩
  | _ => none

/-- `1`..`11` or `r` + nine bits. -/
def rulesOfTok (t : String) : Option AuthRules :=
  match t.toList with
  | 'r' :: bits => bitsRules bits
  | _ => t.toNat?.bind implRules

def versionOfTok (t : String) : Option Nat :=
  match t.toNat? with
  | some v => if 1 ≤ v ∧ v ≤ 11 then some v else none
  | none => none

def strOf : Option JVal → Option Str
  | some (.str s) => some s
  | _ => none

def optStrOf : Option JVal → Option (Option Str)
  | none => some none
  | some .null => some none
  | some (.str s) => some (some s)
  | _ => none

def strList : List JVal → Option (List Str)
  | [] => some []
  | .str s :: t => (strList t).map (s :: ·)
  | _ => none

def idsOf : Option JVal → Option (List Str)
  | none => some []
  | some (.arr xs) => strList xs
  | _ => none

def triples : List JVal → Option (List (Str × Str × Str))
  | [] => some []
  | .arr [.str a, .str b, .str c] :: t => (triples t).map ((a, b, c) :: ·)
  | _ => none

def verifiedOf : Option JVal → Option (List (Str × Str × Str))
  | none => some []
  | some (.arr xs) => triples xs
  | _ => none

/-- Decode the request's event object. The event type is carried as `TimelineEventType::to_string()`
of the given string (`canonType`). -/
def eventOfJVal : JVal → Option Event
  | .obj o => do
    let eventId ← strOf (Obj.get o (bs "event_id"))
    let roomId ← strOf (Obj.get o (bs "room_id"))
    let sender ← strOf (Obj.get o (bs "sender"))
    let type ← strOf (Obj.get o (bs "type"))
    let stateKey ← optStrOf (Obj.get o (bs "state_key"))
    let content ← match Obj.get o (bs "content") with
      | some (.obj c) => some c
      | _ => none
    let prev ← idsOf (Obj.get o (bs "prev_events"))
    let auth ← idsOf (Obj.get o (bs "auth_events"))
    let redacts ← optStrOf (Obj.get o (bs "redacts"))
    let verified ← verifiedOf (Obj.get o (bs "verified"))
    some { eventId, roomId, sender, type := canonType type, stateKey, content, prevEvents := prev,
           authEvents := auth, redacts, tpiVerified := verified }
  | _ => none

def eventsOf : List JVal → Option (List Event)
  | [] => some []
  | v :: t => do
    let e ← eventOfJVal v
    let es ← eventsOf t
    some (e :: es)

/-- The state list: every entry must be a state event. -/
def stateOfJVal : JVal → Option (List Event)
  | .arr xs => do
    let es ← eventsOf xs
    if es.all (·.stateKey.isSome) then some es else none
  | _ => none

/-- `fetch_state` over the list: the first entry with that `(type, state_key)`. -/
def fetchOf (l : List Event) : Fetch :=
  fun t k => l.find? (fun e => e.type == t && e.stateKey == some k)

def verdict (b : Bool) : String := if b then "allow" else "reject"

/-- Insertion sort of pairs by (type, key) bytes, duplicates removed — the order of Rust's
`BTreeSet<(String, String)>`. -/
def pairLt (a b : Str × Str) : Bool := a.1 < b.1 || (a.1 == b.1 && a.2 < b.2)

def insertPair (p : Str × Str) : List (Str × Str) → List (Str × Str)
  | [] => [p]
  | q :: t => if p == q then q :: t else if pairLt p q then p :: q :: t else q :: insertPair p t

def sortPairs (l : List (Str × Str)) : List (Str × Str) := l.foldr insertPair []

def showPairs (head : String) (l : List (Str × Str)) : String :=
  let s := sortPairs l
  s.foldl (fun acc p => acc ++ " " ++ strTok p.1 ++ " " ++ strTok p.2) (head ++ " " ++ toString s.length)

end Ruma.Driver.AuthCommon
