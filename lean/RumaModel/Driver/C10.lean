/-
  C10 driver. Requests (tokens separated by one space; `S` = `s<hex>` string token; `ORA` = oracle
  table `<n> (<tag><hex> <t|f>)*` with tag `6` = Ipv6Addr::from_str verdict, `4` = Ipv4Addr::from_str
  verdict, `u` = "every non-ASCII char is alphanumeric" verdict):

    c10.id <kind> S ORA            model: parse + every accessor
    c10.strict S ORA               model: user_id::validate_strict
    c10.spec.struct <kind> S ORA   SPEC: required structure holds?            → t / f
    c10.spec.gram <kind> S ORA     SPEC: in the recommended grammar?          → t / f
    c10.spec.tight <kind> S ORA    SPEC: required structure and no port above 65535? → t / f
                                   (na for the Unicode-dependent types on non-ASCII input)
    c10.ctor.pwsn S S ORA          model: UserId::parse_with_server_name(id, server)
    c10.ctor.key <kind> S S        model: KeyId::from_parts(algorithm, key_name)
    c10.ctor.new <kind> S          (oracle-only on the implementation side) → ok
    c10.ctor.b64 S                 model: OwnedBase64PublicKey::with_bytes (S = raw bytes)
    c10.exh <kind> S ORA           model: `c10.id` on prefix ++ [a, b] for all a, b of the alphabet
    c10.ctor.secret                (oracle-only on the implementation side) → ok
    c10.voipver S | iN             VoipVersionId from a string (stored as is) / from an integer (only 0)
    c10.opaque <type> S            unchecked identifier types store any string → ok S
    c10.ip6 S / c10.ip4 S          reference Ipv6Addr / Ipv4Addr parser (Model/IdsIp.lean) → t / f
    c10.ipexh <6|4> S S iK         the same on prefix ++ w for all words w of length K over an alphabet

  Every `6` / `4` oracle entry of every request is also compared with the reference parsers; a
  difference is answered `oracle-differs-from-reference` (a model disagreement).

  An oracle the model asks for that is not in the table makes the answer `bad-op` (detected by
  evaluating with both defaults), never a silent default.
-/
import RumaModel.Proto
import RumaModel.Model.IdsExt
import RumaModel.Model.IdsIp
import RumaModel.Spec.IdGrammar
namespace Ruma.Driver.C10
open Ruma Ruma.Proto Ruma.Ids
open Ruma.Spec.IdGrammar (Kind)

def kindOf : String → Option Kind
  | "user" => some .user
  | "room" => some .room
  | "alias" => some .alias
  | "roomoralias" => some .roomOrAlias
  | "event" => some .event
  | "server" => some .server
  | "keyany" => some .keyAny
  | "keyversion" => some .keyVersion
  | "keybase64" => some .keyBase64
  | "mxc" => some .mxc
  | "roomversion" => some .roomVersion
  | "signingkeyversion" => some .signingKeyVersion
  | "base64publickey" => some .base64PublicKey
  | "clientsecret" => some .clientSecret
  | "sessionid" => some .sessionId
  | _ => none

abbrev Table := List (Char × Str × Bool)

def parseTable : Nat → List String → Table → Option (Table × List String)
  | 0, rest, acc => some (acc, rest)
  | n + 1, k :: v :: rest, acc =>
    match k.toList, v with
    | tag :: hs, "t" => (unhexAux hs []).bind (fun s => parseTable n rest ((tag, s, true) :: acc))
    | tag :: hs, "f" => (unhexAux hs []).bind (fun s => parseTable n rest ((tag, s, false) :: acc))
    | _, _ => none
  | _, _, _ => none

/-- `<n> pairs…`, nothing may follow. -/
def parseOracles (ts : List String) : Option Table :=
  match ts with
  | n :: rest =>
    match n.toNat? with
    | some n => match parseTable n rest [] with
      | some (t, []) => some t
      | _ => none
    | none => none
  | [] => none

def lookup (t : Table) (tag : Char) (s : Str) (dflt : Bool) : Bool :=
  match t.find? (fun e => e.1 == tag && e.2.1 == s) with
  | some e => e.2.2
  | none => dflt

def ext (t : Table) (dflt : Bool) : Ext where
  isIpv6 := fun c => lookup t '6' c dflt
  isIpv4 := fun h => lookup t '4' h dflt
  uniAlnum := fun s => if s.all (· < 128) then true else lookup t 'u' s dflt

/-- The real parsers' verdicts in the table agree with the reference parsers. -/
def tableMatchesRef (t : Table) : Bool :=
  t.all (fun e =>
    if e.1 == '6' then ipv6Ref e.2.1 == e.2.2
    else if e.1 == '4' then ipv4Ref e.2.1 == e.2.2
    else true)

/-- Evaluate with both defaults; a difference means an oracle was missing. -/
def withExt (t : Table) (f : Ext → String) : String :=
  if !tableMatchesRef t then "oracle-differs-from-reference"
  else
    let a := f (ext t false)
    let b := f (ext t true)
    if a == b then a else "bad-op"

/-- All words of length `k` over the alphabet, first letter varying slowest. -/
def wordsOf (alphabet : List Nat) : Nat → List Str
  | 0 => [[]]
  | k + 1 => (wordsOf alphabet k).flatMap (fun w => alphabet.map (fun c => w ++ [c]))

def natTok (t : String) : Option Nat :=
  match t.toList with
  | 'i' :: rest => (String.ofList rest).toNat?
  | _ => none

def fS : Res Str → String
  | .ok s => strTok s
  | .err => "err"
  | .panic => "panic"

def fOS : Res (Option Str) → String
  | .ok (some s) => strTok s
  | .ok none => "n"
  | .err => "err"
  | .panic => "panic"

def fB : Res Bool → String
  | .ok true => "t"
  | .ok false => "f"
  | .err => "err"
  | .panic => "panic"

def fON : Res (Option Nat) → String
  | .ok (some v) => "i" ++ toString v
  | .ok none => "n"
  | .err => "err"
  | .panic => "panic"

/-- `UserId::validate_strict().is_ok()` and `is_historical()` (model: `userStrict`,
`userIsHistorical` of `Model/IdsExt.lean`). -/
def conforming (s : Str) : Res Bool × Res Bool :=
  (match userStrict s with
    | .ok () => .ok true
    | .err => .ok false
    | .panic => .panic,
   userIsHistorical s)

def fields (x : Ext) (k : Kind) (s : Str) : List String :=
  match k with
  | .user => [fS (localpart s), fS (serverNameOf s), fB (conforming s).1, fB (conforming s).2]
  | .room => [fOS (roomServerName x s)]
  | .alias => [fS (localpart s), fS (serverNameOf s)]
  | .roomOrAlias => [fB (isRoomId s), fOS (roomServerName x s)]
  | .event => [fS (eventLocalpart s), fOS (eventServerName s)]
  | .server => [fS (host s), fON (port s), fB (isIpLiteral x s)]
  | .keyAny | .keyVersion | .keyBase64 => [fS (keyAlgorithm s), fS (keyName x (keyKind k) s)]
  | _ => []

def idAnswer (x : Ext) (k : Kind) (s : Str) : String :=
  match k with
  | .mxc =>
    let v := match mxcValidate x s with
      | .ok _ => "t"
      | .err => "f"
      | .panic => "panic"
    let p := match mxcParts x s with
      | .ok (a, b) => [strTok a, strTok b]
      | .err => ["err", "err"]
      | .panic => ["panic", "panic"]
    " ".intercalate (["ok", strTok s, v] ++ p)
  | _ =>
    match validate x k s with
    | .err => "err"
    | .panic => "panic"
    | .ok () => " ".intercalate (["ok", strTok s] ++ fields x k s)

def alphabet : List Nat := [64, 33, 35, 36, 58, 91, 93, 46, 45, 43, 48, 57, 97, 0]

/-- Compact form of `idAnswer` for the exhaustive enumeration (`e` = err; the echo of the stored
string is dropped, storage is compared by the harness itself there). -/
def idAnswerCompact (x : Ext) (k : Kind) (s : Str) : String :=
  match k with
  | .mxc => idAnswer x k s
  | _ =>
    match validate x k s with
    | .err => "e"
    | .panic => "panic"
    | .ok () => " ".intercalate ("o" :: fields x k s)

def exhAnswer (x : Ext) (k : Kind) (pre : Str) : String :=
  " ; ".intercalate
    (alphabet.flatMap (fun a => alphabet.map (fun b => idAnswerCompact x k (pre ++ [a, b]))))

def tf (b : Bool) : String := if b then "t" else "f"

def handle (toks : List String) : String :=
  match toks with
  | "c10.id" :: k :: s :: ora =>
    match kindOf k, parseStrTok s, parseOracles ora with
    | some k, some s, some t => withExt t (fun x => idAnswer x k s)
    | _, _, _ => "bad-op"
  | "c10.exh" :: k :: s :: ora =>
    match kindOf k, parseStrTok s, parseOracles ora with
    | some k, some s, some t => withExt t (fun x => exhAnswer x k s)
    | _, _, _ => "bad-op"
  | "c10.strict" :: s :: ora =>
    match parseStrTok s, parseOracles ora with
    | some s, some t => withExt t (fun x => match userIdValidateStrict x s with
        | .ok () => "ok"
        | .err => "err"
        | .panic => "panic")
    | _, _ => "bad-op"
  | "c10.spec.struct" :: k :: s :: ora =>
    match kindOf k, parseStrTok s, parseOracles ora with
    | some k, some s, some t => withExt t (fun x => tf (Spec.IdGrammar.struct x.isIpv6 k s))
    | _, _, _ => "bad-op"
  | "c10.spec.gram" :: k :: s :: ora =>
    match kindOf k, parseStrTok s, parseOracles ora with
    | some k, some s, some t => withExt t (fun x => tf (Spec.IdGrammar.gram x.isIpv6 k s))
    | _, _, _ => "bad-op"
  | "c10.spec.tight" :: k :: s :: ora =>
    match kindOf k, parseStrTok s, parseOracles ora with
    | some k, some s, some t =>
      if [Kind.signingKeyVersion, .base64PublicKey, .clientSecret, .keyVersion, .keyBase64].contains k
          && s.any (· ≥ 128) then "na"
      else withExt t (fun x =>
        tf (Spec.IdGrammar.struct x.isIpv6 k s && !Spec.IdGrammar.structBigPort x.isIpv6 k s))
    | _, _, _ => "bad-op"
  | "c10.ctor.pwsn" :: id :: srv :: ora =>
    match parseStrTok id, parseStrTok srv, parseOracles ora with
    | some id, some srv, some t => withExt t (fun x =>
        -- the constructor takes a `&ServerName`: only accepted server names can be passed
        match serverNameValidate x srv with
        | .ok () => (match parseWithServerName x id srv with
          | .ok r => "ok " ++ strTok r
          | .err => "err"
          | .panic => "panic")
        | _ => "err")
    | _, _, _ => "bad-op"
  | ["c10.ctor.key", k, alg, name] =>
    match kindOf k, parseStrTok alg, parseStrTok name with
    | some _, some alg, some name => "ok " ++ strTok (keyFromParts alg name)
    | _, _, _ => "bad-op"
  | ["c10.ip6", s] =>
    match parseStrTok s with
    | some s => tf (ipv6Ref s)
    | none => "bad-op"
  | ["c10.ip4", s] =>
    match parseStrTok s with
    | some s => tf (ipv4Ref s)
    | none => "bad-op"
  | ["c10.ipexh", which, al, pre, k] =>
    match parseStrTok al, parseStrTok pre, natTok k with
    | some al, some pre, some k =>
      if k > 8 || al.any (· ≥ 128) then "bad-op"
      else
        let f := if which == "6" then some ipv6Ref else if which == "4" then some ipv4Ref else none
        match f with
        | some f => String.ofList ((wordsOf al k).map (fun w => if f (pre ++ w) then 't' else 'f'))
        | none => "bad-op"
    | _, _, _ => "bad-op"
  | ["c10.ctor.secret"] => "ok"
  | ["c10.voipver", v] =>
    match parseStrTok v, natTok v with
    | some s, _ => "ok " ++ strTok s
    | none, some n => (match voipVersionFromUInt n with
      | .ok r => "ok " ++ strTok r
      | _ => "err")
    | none, none => "bad-op"
  | ["c10.opaque", ty, s] =>
    match parseStrTok s with
    | some s =>
      if ["deviceid", "transactionid", "voipid", "onetimekeyname", "base64ordeviceid"].contains ty
      then "ok " ++ strTok s else "bad-op"
    | none => "bad-op"
  | ["c10.ctor.b64", b] =>
    match parseStrTok b with
    | some bytes => withExt [] (fun x => match withBytes x bytes with
        | .ok r => "ok " ++ strTok r
        | .err => "err"
        | .panic => "panic")
    | none => "bad-op"
  | ["c10.ctor.new", k, srv] =>
    match kindOf k, parseStrTok srv with
    | some _, some _ => "ok"
    | _, _ => "bad-op"
  | _ => "bad-op"

end Ruma.Driver.C10

def main : IO Unit := Ruma.Proto.runDriver Ruma.Driver.C10.handle
