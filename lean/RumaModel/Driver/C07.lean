import RumaModel.Driver.StateResIO
namespace Ruma.Driver.C07
def handle (toks : List String) : String := Ruma.Driver.StateResIO.handleWith "c07" toks
end Ruma.Driver.C07

def main : IO Unit := Ruma.Proto.runDriver Ruma.Driver.C07.handle
