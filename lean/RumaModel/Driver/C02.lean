import RumaModel.Proto
import RumaModel.Model.Sign
/-
  Line-protocol driver of C02 (request grammar: see `harness/h-c02/src/main.rs`).

  The signature scheme is instantiated from the ORACLE TABLE carried by each request: `sign` and
  `verify` are look-ups in the pairs the real ed25519-dalek produced. Every request is evaluated
  twice, with the two possible defaults for a look-up that misses the table; if the two answers
  differ the answer depended on a missing entry and the driver says `oracle-miss` (never defaulted).
-/
namespace Ruma.Driver.C02
open Ruma Ruma.Proto Ruma.Sign

structure Tables where
  g : List (Str × List Nat × List Nat)
  v : List (Str × List Nat × List Nat × Bool)

def schemeOf (T : Tables) (dflt : Bool) : SigScheme where
  sign k m :=
    match T.g.find? (fun e => e.1 == k && e.2.1 == m) with
    | some e => e.2.2
    | none => if dflt then [1] else []
  verify pk m s :=
    match T.v.find? (fun e => e.1 == pk && e.2.1 == m && e.2.2.1 == s) with
    | some e => e.2.2.2
    | none => dflt
  pub _ := []

abbrev P := StateT (List String) Option

def word : P String := do
  match (← get) with
  | [] => failure
  | t :: rest => set rest; pure t

def lit (w : String) : P Unit := do
  if (← word) == w then pure () else failure

def num : P Nat := do
  match (← word).toNat? with
  | some n => pure n
  | none => failure

def bytes : P (List Nat) := do
  match (← word).toList with
  | 'h' :: r => match unhexAux r [] with
    | some b => pure b
    | none => failure
  | _ => failure

def str : P Str := do
  match parseStrTok (← word) with
  | some s => pure s
  | none => failure

def obj : P Obj := do
  match parseObjOnly (← get) with
  | some (o, rest) => set rest; pure o
  | none => failure

def rep (n : Nat) (p : P α) : P (List α) :=
  match n with
  | 0 => pure []
  | n + 1 => do
    let a ← p
    let t ← rep n p
    pure (a :: t)

def tables : P Tables := do
  lit "G"
  let g ← rep (← num) (do
    let s ← bytes; let m ← bytes; let sg ← bytes
    pure (s, m, sg))
  lit "V"
  let v ← rep (← num) (do
    let pk ← bytes; let m ← bytes; let sg ← bytes
    let b ← word
    if b == "t" then pure (pk, m, sg, true)
    else if b == "f" then pure (pk, m, sg, false)
    else failure)
  pure ⟨g, v⟩

def keymap : P KeyMap := do
  lit "K"
  rep (← num) (do
    let e ← str
    let set ← rep (← num) (do
      let kid ← str; let pk ← bytes
      pure (kid, pk))
    pure (e, set))

def expectTok : P Unit := do
  let w ← word
  if w == "Eok" || w == "Eerr" || w == "E?" then pure () else failure

def finish : P Unit := do
  match (← get) with
  | [] => pure ()
  | _ => failure

def hexTok (b : List Nat) : String := "h" ++ hex b

def showSign (r : Except Err Unit × Obj) : String :=
  (match r.1 with | .ok _ => "ok " | .error _ => "err ") ++ showVal (.obj r.2)

def showRes : Except Err Unit → String
  | .ok _ => "ok"
  | .error _ => "err"

/-- Fold of `signJson` over the steps; stops at the first error with its index. -/
def runSeq (S : SigScheme) : List (Str × Str × Str) → Nat → Obj → Except (Nat × Obj) Obj
  | [], _, o => .ok o
  | (entity, version, seed) :: rest, i, o =>
    match signJson S entity ⟨seed, version⟩ o with
    | (.ok _, o') => runSeq S rest (i + 1) o'
    | (.error _, o') => .error (i, o')

/-- Evaluate with both defaults for a table miss. -/
def both (T : Tables) (f : SigScheme → String) : String :=
  let a := f (schemeOf T false)
  let b := f (schemeOf T true)
  if a == b then a else "oracle-miss"

def request : P String := do
  let op ← word
  match op with
  | "c02.sign" =>
    let T ← tables
    let entity ← str; let version ← str; let seed ← bytes; let o ← obj
    finish
    pure (both T fun S => showSign (signJson S entity ⟨seed, version⟩ o))
  | "c02.seq" =>
    let T ← tables
    expectTok
    let o ← obj
    let steps ← rep (← num) (do
      let e ← str; let v ← str; let s ← bytes
      pure (e, v, s))
    let keys ← keymap
    finish
    pure (both T fun S =>
      match runSeq S steps 0 o with
      | .ok o' => "ok " ++ showVal (.obj o') ++ (match verifyJson S keys o' with
          | .ok _ => " vok"
          | .error _ => " verr")
      | .error (i, o') => "err " ++ toString i ++ " " ++ showVal (.obj o'))
  | "c02.verify" =>
    let T ← tables
    expectTok
    let keys ← keymap
    let o ← obj
    finish
    pure (both T fun S => showRes (verifyJson S keys o))
  | "c02.bytes" =>
    let T ← tables
    let alg ← str; let pk ← bytes; let sg ← bytes; let m ← bytes
    finish
    pure (both T fun S => showRes (verifyCanonicalJsonBytes S alg pk sg m))
  | "c02.b64" =>
    let b ← bytes
    finish
    pure ("ok " ++ strTok (b64 b))
  | "c02.unb64" =>
    let s ← str
    finish
    pure (match unb64 s with
      | some b => "ok " ++ hexTok b
      | none => "err")
  | "c02.canon" =>
    let o ← obj
    finish
    pure ("ok " ++ hexTok (canonicalJson o))
  | "c02.rfc" =>
    -- RFC 8032 known-answer vectors are a test of the real key pair / verifier only (T3); the
    -- model has no Ed25519 of its own. The request is read and acknowledged.
    let _ ← bytes; let _ ← bytes; let _ ← bytes; let _ ← bytes
    finish
    pure "ok"
  | _ => failure

def handle (toks : List String) : String :=
  match request.run toks with
  | some (ans, _) => ans
  | none => "bad-op"

end Ruma.Driver.C02

def main : IO Unit := Ruma.Proto.runDriver Ruma.Driver.C02.handle
