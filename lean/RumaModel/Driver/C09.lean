import RumaModel.Driver.AuthCommon
import RumaModel.Driver.StateResIO
import RumaModel.Model.AuthReads
import RumaModel.Spec.AuthTypes
namespace Ruma.Driver.C09
open Ruma Ruma.Proto Ruma.Auth Ruma.Driver.AuthCommon

def handle (toks : List String) : String :=
  match toks with
  | "c09.types" :: r :: rest =>
    match rulesOfTok r, (parseOne rest).bind eventOfJVal with
    | some rules, some ev =>
      match authTypesForEvent rules ev with
      | .ok l => showPairs "ok" l
      | .error _ => "err"
    | _, _ => "bad-op"
  | "c09.typespec" :: r :: rest =>
    match versionOfTok r, (parseOne rest).bind eventOfJVal with
    | some v, some ev =>
      match Spec.AuthTypes.selection v ev with
      | some l => showPairs "ok" l
      | none => "err"
    | _, _ => "bad-op"
  | "c09.reads" :: r :: rest =>
    match rulesOfTok r, parseVal rest with
    | some rules, some (evv, rest') =>
      match eventOfJVal evv, (parseOne rest').bind stateOfJVal with
      | some ev, some st =>
        let f := fetchOf st
        showPairs (verdict (authCheck rules ev f)) (authReads rules ev f)
      | _, _ => "bad-op"
    | _, _ => "bad-op"
  -- resolve-level non-interference (`iterative_auth_check`): the state-resolution model / spec of C07
  | "c09.iter" :: args => Ruma.Driver.StateResIO.handleOp "resolve" args
  | "c09.iterspec" :: args => Ruma.Driver.StateResIO.handleOp "resolvespec" args
  | _ => "bad-op"

end Ruma.Driver.C09

def main : IO Unit := Ruma.Proto.runDriver Ruma.Driver.C09.handle
