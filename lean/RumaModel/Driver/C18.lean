import RumaModel.Proto
import RumaModel.Model.EventDispatch
import RumaModel.Spec.EventTypes
import RumaModel.Model.ContentSchema
import RumaModel.Model.Ids
import RumaModel.Model.IdsIp
namespace Ruma.Driver.C18
open Ruma Ruma.Proto Ruma.EventDispatch Ruma.Spec.EventTypes

/-! ## `c18.schema`: the schema-driven model of the per-type content code

Request: `c18.schema <kind> s<type> <json tokens> <schema tokens>`; answer `ok <tokens of the output,
entries of every object sorted by key (stable)>` / `err` / `err-wf` (the schema sent by the harness
fails the decidable part of `WF`: a harness bug or an implementation whose facts contradict each
other) / `err-fix` (the output is not its own fixpoint: a scalar reader of this file is not
idempotent). Schema tokens (prefix notation):

    A                      serde_json::Value
    L<Kind>                scalar leaf: Str Int UInt Bool Float IntLax Voip UserId EventId RoomId RoomAlias
                           RoomAliasOrEmpty ServerName KeyId RoomVersion Base64 ReceiptThread
    K s<hex>               a string type accepting exactly this string
    E<n> s<hex>×n          a string type accepting exactly these strings
    R <schema>             Vec
    M L<Kind> <schema>     BTreeMap with that key type
    N <schema>             Option written as null
    O<n> <0|1> field×n     struct (1: keeps unknown keys)
    field = F s<name> <flags|-> Y<k> s<alias>×k <D <json>|_> S<k> <json>×k <schema>
            flags ⊆ r(equired) n(ull is absent) l(enient) g(host)
-/
namespace Sch
open Ruma.ContentSchema

def idExt : Ids.Ext where
  isIpv6 := Ids.ipv6Ref
  isIpv4 := Ids.ipv4Ref
  uniAlnum := fun s => s.all (· < 128)

def okRes : Ids.Res α → Bool
  | .ok _ => true
  | _ => false

def isWsByte (b : Nat) : Bool := b == 32 || (9 ≤ b && b ≤ 13)

def trim (s : Str) : Str := ((s.dropWhile isWsByte).reverse.dropWhile isWsByte).reverse

def digitsNat (s : Str) : Option Nat :=
  if s.isEmpty || !s.all Ids.isDigit then none else some (s.foldl (fun acc b => acc * 10 + (b - 48)) 0)

/-- `deserialize_v1_powerlevel::visit_str`. -/
def parseV1 (s : Str) : Option Int :=
  match trim s with
  | 43 :: rest => if rest.head? == some 43 then none else (digitsNat rest).map Int.ofNat
  | 45 :: rest => (digitsNat rest).map (fun n => - Int.ofNat n)
  | t => (digitsNat t).map Int.ofNat

def b64Val (c : Nat) : Option Nat :=
  if 65 ≤ c && c ≤ 90 then some (c - 65)
  else if 97 ≤ c && c ≤ 122 then some (c - 97 + 26)
  else if 48 ≤ c && c ≤ 57 then some (c - 48 + 52)
  else if c == 43 then some 62
  else if c == 47 then some 63
  else none

def b64Sym (v : Nat) : Nat :=
  if v < 26 then 65 + v else if v < 52 then 97 + (v - 26) else if v < 62 then 48 + (v - 52) else if v == 62 then 43 else 47

/-- `Base64<Standard>`: decode with optional (at most canonical) padding and trailing bits allowed,
re-encode without padding. -/
def base64Norm (s : Str) : Option Str :=
  let syms := s.takeWhile (· != 61)
  let pads := s.dropWhile (· != 61)
  if !pads.all (· == 61) then none else
  match syms.mapM b64Val with
  | none => none
  | some vals =>
    let r := vals.length % 4
    let maxPad := if r == 2 then 2 else if r == 3 then 1 else 0
    if r == 1 || pads.length > maxPad then none else
    let vals' := match r, vals.reverse with
      | 2, last :: pre => (((last / 16) * 16) :: pre).reverse
      | 3, last :: pre => (((last / 4) * 4) :: pre).reverse
      | _, _ => vals
    some (vals'.map b64Sym)

def acceptStr (p : Str → Bool) : Str → Option Str := fun s => if p s then some s else none

def leafOf : String → Option Schema
  | "Str" => some (Schema.str some)
  | "Int" => some (Schema.int (-Canonical.maxInt) Canonical.maxInt)
  | "UInt" => some (Schema.int 0 Canonical.maxInt)
  | "Bool" => some Schema.bool
  | "Float" => some Schema.float
  | "IntLax" => some (Schema.intLax (-Canonical.maxInt) Canonical.maxInt parseV1)
  | "Voip" => some Schema.voipVersion
  | "UserId" => some (Schema.str (acceptStr (fun s => okRes (Ids.userIdValidate idExt s))))
  | "EventId" => some (Schema.str (acceptStr (fun s => okRes (Ids.eventIdValidate idExt s))))
  | "RoomId" => some (Schema.str (acceptStr (fun s => okRes (Ids.roomIdValidate s))))
  | "RoomAlias" => some (Schema.str (acceptStr (fun s => okRes (Ids.roomAliasIdValidate idExt s))))
  | "RoomAliasOrEmpty" => some (Schema.str (acceptStr (fun s => s.isEmpty || okRes (Ids.roomAliasIdValidate idExt s))))
  | "ServerName" => some (Schema.str (acceptStr (fun s => okRes (Ids.serverNameValidate idExt s))))
  | "KeyId" => some (Schema.str (acceptStr (fun s => okRes (Ids.keyIdValidate idExt .signingKeyVersion s))))
  | "RoomVersion" => some (Schema.str (acceptStr (fun s => okRes (Ids.roomVersionIdValidate s))))
  | "ReceiptThread" => some (Schema.str (acceptStr (fun s => if s.head? == some 36 then okRes (Ids.eventIdValidate idExt s) else true)))
  | "Base64" => some (Schema.str base64Norm)
  | _ => none

def keyOkOf : String → Option (Str → Bool)
  | "Str" => some (fun _ => true)
  | "UserId" => some (fun s => okRes (Ids.userIdValidate idExt s))
  | "EventId" => some (fun s => okRes (Ids.eventIdValidate idExt s))
  | "RoomId" => some (fun s => okRes (Ids.roomIdValidate s))
  | "ServerName" => some (fun s => okRes (Ids.serverNameValidate idExt s))
  | "KeyId" => some (fun s => okRes (Ids.keyIdValidate idExt .signingKeyVersion s))
  | _ => none

def parseStrs : Nat → List String → Option (List Str × List String)
  | 0, rest => some ([], rest)
  | n + 1, t :: rest =>
    match parseStrTok t, parseStrs n rest with
    | some s, some (ss, rest') => some (s :: ss, rest')
    | _, _ => none
  | _, [] => none

def parseVals : Nat → List String → Option (List JVal × List String)
  | 0, rest => some ([], rest)
  | n + 1, rest =>
    match parseVal rest with
    | some (v, rest') =>
      match parseVals n rest' with
      | some (vs, rest'') => some (v :: vs, rest'')
      | none => none
    | none => none

def numOf (pre : Char) (t : String) : Option Nat :=
  match t.toList with
  | c :: ds => if c == pre then (String.ofList ds).toNat? else none
  | [] => none

def skipMarker : Str := bs "!skip-on-required"

mutual
partial def parseSchema : List String → Option (Schema × List String)
  | [] => none
  | t :: rest =>
    match t.toList with
    | ['A'] => some (.any, rest)
    | 'L' :: k => (leafOf (String.ofList k)).map (fun s => (s, rest))
    | ['K'] =>
      match rest with
      | c :: rest' => (parseStrTok c).map (fun c => (Schema.str (acceptStr (fun s => s == c)), rest'))
      | [] => none
    | 'E' :: ds =>
      match (String.ofList ds).toNat? with
      | some n => (parseStrs n rest).map (fun (cs, rest') => (Schema.str (acceptStr (fun s => cs.contains s)), rest'))
      | none => none
    | ['R'] => (parseSchema rest).map (fun (e, rest') => (.arr e, rest'))
    | ['N'] => (parseSchema rest).map (fun (e, rest') => (.nullOr e, rest'))
    | ['M'] =>
      match rest with
      | k :: rest' =>
        match k.toList with
        | 'L' :: kk =>
          match keyOkOf (String.ofList kk), parseSchema rest' with
          | some ok, some (v, rest'') => some (.map ok v, rest'')
          | _, _ => none
        | _ => none
      | [] => none
    | 'O' :: ds =>
      match (String.ofList ds).toNat?, rest with
      | some n, keep :: rest' =>
        if keep ≠ "0" ∧ keep ≠ "1" then none else
        (parseFields n rest').map (fun (fs, rest'') => (.obj fs (keep == "1"), rest''))
      | _, _ => none
    | _ => none
partial def parseFields : Nat → List String → Option (List Field × List String)
  | 0, rest => some ([], rest)
  | n + 1, rest =>
    match parseField rest with
    | some (f, rest') => (parseFields n rest').map (fun (fs, rest'') => (f :: fs, rest''))
    | none => none
partial def parseField : List String → Option (Field × List String)
  | "F" :: name :: flags :: y :: rest =>
    match parseStrTok name, numOf 'Y' y with
    | some name, some na =>
      match parseStrs na rest with
      | some (aliases, rest1) =>
        let dfltRes : Option (Option JVal × List String) := match rest1 with
          | "_" :: r => some (none, r)
          | "D" :: r => (parseVal r).map (fun (v, r') => (some v, r'))
          | _ => none
        match dfltRes with
        | some (dflt, sk :: rest2) =>
          match numOf 'S' sk with
          | some ns =>
            match parseVals ns rest2 with
            | some (skips, rest3) =>
              match parseSchema rest3 with
              | some (s, rest4) =>
                let fl := flags.toList
                if !fl.all (fun c => c == 'r' || c == 'n' || c == 'l' || c == 'g' || c == '-') then none else
                -- `WF`: no skipping on a field that is required or written back when absent; a violation
                -- is carried to `wfb` as a marker schema
                let s := if ((fl.contains 'r') || dflt.isSome) && ns > 0 && !(fl.contains 'g')
                  then Schema.tagged skipMarker [] else s
                some (.mk name aliases s (fl.contains 'r') dflt (fl.contains 'n') (fl.contains 'l')
                  (fun v => skips.any (fun x => x == v)) (fl.contains 'g'), rest4)
              | none => none
            | none => none
          | none => none
        | _ => none
      | none => none
    | _, _ => none
  | _ => none
end

/-- The decidable part of `Spec.ContentSchema.WF` (everything but the idempotence of the scalar
normalisers, which are fixed functions of this file): distinct spellings, no skipping on required or
written-back fields, a written-back default that the field reads back unchanged. `skips` are the
values the harness sent (the model's `skip` is membership in that list). -/
partial def wfb : Schema → Bool
  | .arr e => wfb e
  | .map _ v => wfb v
  | .nullOr s => wfb s
  | .obj fields _ =>
    fields.all (fun f =>
      wfb f.schema &&
      (match f.dflt with
       | none => true
       | some d => (f.nullAbsent && ContentSchema.isNull d) || (match project f.schema d with | some d' => d' == d | none => false)) &&
      fields.all (fun g => f.name == g.name || !(f.spelledBy g.name))) &&
    (fields.map (·.name)).eraseDups.length == fields.length
  | .tagged tag cases => tag != skipMarker && cases.all (fun c => wfb c.schema)
  | _ => true

def insertByKey (e : Str × JVal) : List (Str × JVal) → List (Str × JVal)
  | [] => [e]
  | x :: t => if e.1 < x.1 then e :: x :: t else x :: insertByKey e t

mutual
partial def canon : JVal → JVal
  | .arr xs => .arr (xs.map canon)
  | .obj kvs => .obj ((kvs.map (fun e => (e.1, canon e.2))).foldl (fun acc e => insertByKey e acc) [])
  | v => v
end

def answer (toks : List String) : String :=
  match parseVal toks with
  | some (j, rest) =>
    match parseSchema rest with
    | some (s, []) =>
      if !wfb s then "err-wf" else
      match project s j with
      | some v =>
        -- `roundtrip_fixpoint` on this very output (covers what `wfb` cannot decide: idempotence of
        -- the scalar readers on the values that occurred)
        match project s v with
        | some v' => if v' == v then "ok " ++ showVal (canon v) else "err-fix"
        | none => "err-fix"
      | none => "err"
    | _ => "bad-op"
  | none => "bad-op"

end Sch

def parseEnum : String → Option Enum
  | "AnyGlobalAccountDataEvent" => some .anyGlobalAccountData
  | "AnyRoomAccountDataEvent" => some .anyRoomAccountData
  | "AnyEphemeralRoomEvent" => some .anyEphemeralRoom
  | "AnySyncEphemeralRoomEvent" => some .anySyncEphemeralRoom
  | "AnyMessageLikeEvent" => some .anyMessageLike
  | "AnySyncMessageLikeEvent" => some .anySyncMessageLike
  | "AnyStateEvent" => some .anyState
  | "AnySyncStateEvent" => some .anySyncState
  | "AnyStrippedStateEvent" => some .anyStrippedState
  | "AnyInitialStateEvent" => some .anyInitialState
  | "AnyToDeviceEvent" => some .anyToDevice
  | "AnyTimelineEvent" => some .anyTimeline
  | "AnySyncTimelineEvent" => some .anySyncTimeline
  | _ => none

def parseKind : String → Option Kind
  | "globalAccountData" => some .globalAccountData
  | "roomAccountData" => some .roomAccountData
  | "ephemeralRoom" => some .ephemeralRoom
  | "messageLike" => some .messageLike
  | "state" => some .state
  | "toDevice" => some .toDevice
  | _ => none

def showKind : Kind → String
  | .globalAccountData => "globalAccountData"
  | .roomAccountData => "roomAccountData"
  | .ephemeralRoom => "ephemeralRoom"
  | .messageLike => "messageLike"
  | .state => "state"
  | .toDevice => "toDevice"

def showName (s : Str) : String := String.ofList (s.map Char.ofNat)

def showVariant : Option Str → String
  | some v => showName v
  | none => "custom"

def showSel : Except Err Sel → String
  | .ok s => s!"ok {showKind s.kind} {showVariant s.variant} {if s.redacted then "red" else "orig"} {strTok s.ty}"
  | .error _ => "err"

def handle (toks : List String) : String :=
  match toks with
  | ["c18.cell", e, ty, sk, form] =>
    -- answered by the Spec side: the table the specification implies, on the dispatch skeleton
    match parseEnum e, parseStrTok ty with
    | some e, some ty =>
      let sk? := match sk with | "sk" => some true | "nosk" => some false | _ => none
      let red? := match form with | "red" => some true | "orig" => some false | _ => none
      match sk?, red? with
      | some sk, some red => showSel (dispatch table e (cellEvent ty sk red))
      | _, _ => "bad-op"
    | _, _ => "bad-op"
  | "c18.dispatch" :: e :: flag :: rest =>
    if flag ≠ "ok" ∧ flag ≠ "any" then "bad-op" else
    match parseEnum e, parseOne rest with
    | some e, some (.obj o) => showSel (dispatch table e o)
    | _, _ => "bad-op"
  | "c18.content" :: k :: flag :: ty :: rest =>
    if flag ≠ "ok" ∧ flag ≠ "any" then "bad-op" else
    match parseKind k, parseStrTok ty, parseOne rest with
    | some k, some ty, some (.obj _) =>
      let (v, rt) := contentDispatch table k ty
      s!"ok {showVariant v} {strTok rt}"
    | _, _, _ => "bad-op"
  | "c18.getfield" :: text :: field :: rest =>
    match parseStrTok text, parseStrTok field, parseOne rest with
    | some _, some k, some (.obj o) =>
      match getField o k with
      | some v => "some " ++ showVal v
      | none => "none"
    | some _, some _, some _ => "err"
    | _, _, _ => "bad-op"
  | "c18.schema" :: k :: ty :: rest =>
    match parseKind k, parseStrTok ty with
    | some _, some _ => Sch.answer rest
    | _, _ => "bad-op"
  | ["c18.raw", text] =>
    match parseStrTok text with
    | some t => "ok " ++ strTok (rawText t)
    | none => "bad-op"
  | _ => "bad-op"

end Ruma.Driver.C18

def main : IO Unit := Ruma.Proto.runDriver Ruma.Driver.C18.handle
