import RumaModel.Proto
import RumaModel.Model.EventDispatch
import RumaModel.Spec.EventTypes
namespace Ruma.Driver.C18
open Ruma Ruma.Proto Ruma.EventDispatch Ruma.Spec.EventTypes

def parseEnum : String → Option Enum
  | "AnyGlobalAccountDataEvent" => some .anyGlobalAccountData
  | "AnyRoomAccountDataEvent" => some .anyRoomAccountData
  | "AnyEphemeralRoomEvent" => some .anyEphemeralRoom
  | "AnySyncEphemeralRoomEvent" => some .anySyncEphemeralRoom
  | "AnyMessageLikeEvent" => some .anyMessageLike
  | "AnySyncMessageLikeEvent" => some .anySyncMessageLike
  | "AnyStateEvent" => some .anyState
  | "AnySyncStateEvent" => some .anySyncState
  | "AnyStrippedStateEvent" => some .anyStrippedState
  | "AnyInitialStateEvent" => some .anyInitialState
  | "AnyToDeviceEvent" => some .anyToDevice
  | "AnyTimelineEvent" => some .anyTimeline
  | "AnySyncTimelineEvent" => some .anySyncTimeline
  | _ => none

def parseKind : String → Option Kind
  | "globalAccountData" => some .globalAccountData
  | "roomAccountData" => some .roomAccountData
  | "ephemeralRoom" => some .ephemeralRoom
  | "messageLike" => some .messageLike
  | "state" => some .state
  | "toDevice" => some .toDevice
  | _ => none

def showKind : Kind → String
  | .globalAccountData => "globalAccountData"
  | .roomAccountData => "roomAccountData"
  | .ephemeralRoom => "ephemeralRoom"
  | .messageLike => "messageLike"
  | .state => "state"
  | .toDevice => "toDevice"

def showName (s : Str) : String := String.ofList (s.map Char.ofNat)

def showVariant : Option Str → String
  | some v => showName v
  | none => "custom"

def showSel : Except Err Sel → String
  | .ok s => s!"ok {showKind s.kind} {showVariant s.variant} {if s.redacted then "red" else "orig"} {strTok s.ty}"
  | .error _ => "err"

def handle (toks : List String) : String :=
  match toks with
  | ["c18.cell", e, ty, sk, form] =>
    -- answered by the Spec side: the table the specification implies, on the dispatch skeleton
    match parseEnum e, parseStrTok ty with
    | some e, some ty =>
      let sk? := match sk with | "sk" => some true | "nosk" => some false | _ => none
      let red? := match form with | "red" => some true | "orig" => some false | _ => none
      match sk?, red? with
      | some sk, some red => showSel (dispatch table e (cellEvent ty sk red))
      | _, _ => "bad-op"
    | _, _ => "bad-op"
  | "c18.dispatch" :: e :: flag :: rest =>
    if flag ≠ "ok" ∧ flag ≠ "any" then "bad-op" else
    match parseEnum e, parseOne rest with
    | some e, some (.obj o) => showSel (dispatch table e o)
    | _, _ => "bad-op"
  | "c18.content" :: k :: flag :: ty :: rest =>
    if flag ≠ "ok" ∧ flag ≠ "any" then "bad-op" else
    match parseKind k, parseStrTok ty, parseOne rest with
    | some k, some ty, some (.obj _) =>
      let (v, rt) := contentDispatch table k ty
      s!"ok {showVariant v} {strTok rt}"
    | _, _, _ => "bad-op"
  | "c18.getfield" :: text :: field :: rest =>
    match parseStrTok text, parseStrTok field, parseOne rest with
    | some _, some k, some (.obj o) =>
      match getField o k with
      | some v => "some " ++ showVal v
      | none => "none"
    | some _, some _, some _ => "err"
    | _, _, _ => "bad-op"
  | ["c18.raw", text] =>
    match parseStrTok text with
    | some t => "ok " ++ strTok (rawText t)
    | none => "bad-op"
  | _ => "bad-op"

end Ruma.Driver.C18

def main : IO Unit := Ruma.Proto.runDriver Ruma.Driver.C18.handle
