import RumaModel.Proto
import RumaModel.Model.EventDispatch
import RumaModel.Spec.EventTypes
import RumaModel.Model.ContentSchema
import RumaModel.Model.ContentSchemaLeaves
import RumaModel.Generated.C18
namespace Ruma.Driver.C18
open Ruma Ruma.Proto Ruma.EventDispatch Ruma.Spec.EventTypes

/-! ## `c18.schema`: the schema-driven model of the per-type content code

Request: `c18.schema <kind> s<type> <json tokens> <schema tokens>`; answer `ok <tokens of the output,
entries of every object sorted by key (stable)>` / `err` / `err-schema` (there is no generated schema
named `kind:type`, or the schema tokens carried by the request do not print the generated schema of
that name: the facts the request was made with are not the facts extracted from the running code —
a pinned corpus line after a fact changed, or a harness bug) / `err-wf` (the generated schema fails
`wfb`; then `Props/C18.lean` does not build either).

The schema used is the GENERATED one (`Generated.C18.descs`, the terms `generated_schemas_wf` is
about), never one parsed from the request; the in-line tokens are only compared with it. Nothing of
the model lives here: `wfb`, `leafOf`/`Leaf` and the scalar readers are in
`Model/ContentSchemaLeaves.lean`. Schema tokens (prefix notation), as printed by `descToks`:

    A                      serde_json::Value
    L<Kind>                scalar leaf: Str Int UInt Bool Float IntLax Voip UserId EventId RoomId RoomAlias
                           RoomAliasOrEmpty ServerName KeyId RoomVersion Base64 ReceiptThread
    K s<hex>               a string type accepting exactly this string
    E<n> s<hex>×n          a string type accepting exactly these strings
    R <schema>             Vec
    M L<Kind> <schema>     BTreeMap with that key type
    N <schema>             Option written as null
    O<n> <0|1> field×n     struct (1: keeps unknown keys)
    field = F s<name> <flags|-> Y<k> s<alias>×k <D <json>|_> S<k> <json>×k <schema>
            flags ⊆ r(equired) n(ull is absent) l(enient) g(host)
    T s<tag> C<n> (s<label> <schema>)×n   internally tagged choice (no modelled type has one)
-/
namespace Sch
open Ruma.ContentSchema

def leafToks : Leaf → List String
  | .const c => ["K", strTok c]
  | .oneOf cs => ("E" ++ toString cs.length) :: cs.map strTok
  | l => ["L" ++ l.name]

def flagsTok (req na len ghost : Bool) : String :=
  let f := (if req then "r" else "") ++ (if na then "n" else "") ++ (if len then "l" else "") ++ (if ghost then "g" else "")
  if f.isEmpty then "-" else f

def valsToks : List JVal → List String
  | [] => []
  | v :: t => printVal v ++ valsToks t

mutual
def descToks : Desc → List String
  | .any => ["A"]
  | .leaf l => leafToks l
  | .arr e => "R" :: descToks e
  | .map k v => "M" :: ("L" ++ k.name) :: descToks v
  | .nullOr d => "N" :: descToks d
  | .obj fs keep => ("O" ++ toString fs.length) :: (if keep then "1" else "0") :: fieldsToks fs
  | .tagged tag cs => "T" :: strTok tag :: ("C" ++ toString cs.length) :: casesToks cs
def fieldsToks : List FieldD → List String
  | [] => []
  | f :: t => fieldToks f ++ fieldsToks t
def fieldToks : FieldD → List String
  | .mk name aliases d req dflt na len skips ghost =>
    ["F", strTok name, flagsTok req na len ghost, "Y" ++ toString aliases.length] ++ aliases.map strTok ++
    (match dflt with
     | none => ["_"]
     | some v => "D" :: printVal v) ++
    ("S" ++ toString skips.length) :: valsToks skips ++ descToks d
def casesToks : List CaseD → List String
  | [] => []
  | .mk label d :: t => strTok label :: (descToks d ++ casesToks t)
end

/-- The generated description named `kind:type`. -/
def lookup (name : Str) : Option Desc :=
  (Generated.C18.descs.find? (fun p => p.1 == name)).map (·.2)

def insertByKey (e : Str × JVal) : List (Str × JVal) → List (Str × JVal)
  | [] => [e]
  | x :: t => if e.1 < x.1 then e :: x :: t else x :: insertByKey e t

mutual
partial def canon : JVal → JVal
  | .arr xs => .arr (xs.map canon)
  | .obj kvs => .obj ((kvs.map (fun e => (e.1, canon e.2))).foldl (fun acc e => insertByKey e acc) [])
  | v => v
end

def answer (kind : String) (ty : Str) (toks : List String) : String :=
  match parseVal toks with
  | some (j, rest) =>
    match lookup (bs kind ++ [58] ++ ty) with
    | none => "err-schema"
    | some d =>
      if descToks d != rest then "err-schema" else
      if !wfb d then "err-wf" else
      match project d.toSchema j with
      | some v => "ok " ++ showVal (canon v)
      | none => "err"
  | none => "bad-op"

end Sch

def parseEnum : String → Option Enum
  | "AnyGlobalAccountDataEvent" => some .anyGlobalAccountData
  | "AnyRoomAccountDataEvent" => some .anyRoomAccountData
  | "AnyEphemeralRoomEvent" => some .anyEphemeralRoom
  | "AnySyncEphemeralRoomEvent" => some .anySyncEphemeralRoom
  | "AnyMessageLikeEvent" => some .anyMessageLike
  | "AnySyncMessageLikeEvent" => some .anySyncMessageLike
  | "AnyStateEvent" => some .anyState
  | "AnySyncStateEvent" => some .anySyncState
  | "AnyStrippedStateEvent" => some .anyStrippedState
  | "AnyInitialStateEvent" => some .anyInitialState
  | "AnyToDeviceEvent" => some .anyToDevice
  | "AnyTimelineEvent" => some .anyTimeline
  | "AnySyncTimelineEvent" => some .anySyncTimeline
  | _ => none

def parseKind : String → Option Kind
  | "globalAccountData" => some .globalAccountData
  | "roomAccountData" => some .roomAccountData
  | "ephemeralRoom" => some .ephemeralRoom
  | "messageLike" => some .messageLike
  | "state" => some .state
  | "toDevice" => some .toDevice
  | _ => none

def showKind : Kind → String
  | .globalAccountData => "globalAccountData"
  | .roomAccountData => "roomAccountData"
  | .ephemeralRoom => "ephemeralRoom"
  | .messageLike => "messageLike"
  | .state => "state"
  | .toDevice => "toDevice"

def showName (s : Str) : String := String.ofList (s.map Char.ofNat)

def showVariant : Option Str → String
  | some v => showName v
  | none => "custom"

def showSel : Except Err Sel → String
  | .ok s => s!"ok {showKind s.kind} {showVariant s.variant} {if s.redacted then "red" else "orig"} {strTok s.ty}"
  | .error _ => "err"

def handle (toks : List String) : String :=
  match toks with
  | ["c18.cell", e, ty, sk, form] =>
    -- answered by the Spec side: the table the specification implies, on the dispatch skeleton
    match parseEnum e, parseStrTok ty with
    | some e, some ty =>
      let sk? := match sk with | "sk" => some true | "nosk" => some false | _ => none
      let red? := match form with | "red" => some true | "orig" => some false | _ => none
      match sk?, red? with
      | some sk, some red => showSel (dispatch table e (cellEvent ty sk red))
      | _, _ => "bad-op"
    | _, _ => "bad-op"
  | "c18.dispatch" :: e :: flag :: rest =>
    if flag ≠ "ok" ∧ flag ≠ "any" then "bad-op" else
    match parseEnum e, parseOne rest with
    | some e, some (.obj o) => showSel (dispatch table e o)
    | _, _ => "bad-op"
  | "c18.content" :: k :: flag :: ty :: rest =>
    if flag ≠ "ok" ∧ flag ≠ "any" then "bad-op" else
    match parseKind k, parseStrTok ty, parseOne rest with
    | some k, some ty, some (.obj _) =>
      let (v, rt) := contentDispatch table k ty
      s!"ok {showVariant v} {strTok rt}"
    | _, _, _ => "bad-op"
  | "c18.getfield" :: text :: field :: rest =>
    match parseStrTok text, parseStrTok field, parseOne rest with
    | some _, some k, some (.obj o) =>
      match getField o k with
      | some v => "some " ++ showVal v
      | none => "none"
    | some _, some _, some _ => "err"
    | _, _, _ => "bad-op"
  | "c18.schema" :: k :: ty :: rest =>
    match parseKind k, parseStrTok ty with
    | some _, some t => Sch.answer k t rest
    | _, _ => "bad-op"
  | ["c18.raw", text] =>
    match parseStrTok text with
    | some t => "ok " ++ strTok (rawText t)
    | none => "bad-op"
  | _ => "bad-op"

end Ruma.Driver.C18

def main : IO Unit := Ruma.Proto.runDriver Ruma.Driver.C18.handle
