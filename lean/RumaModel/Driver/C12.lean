/-
  C12 driver. `c12.glob` / `c12.word` / `c12.x…` / `c12.match` are answered by the MODEL
  (`Model/Glob.lean`, `Model/Push.lean`) with the reference instances of the external functions;
  the `c12.spec.*` forms by the SPEC (`Spec/Glob.lean`, `Spec/Push.lean`) decision procedures.
  Strings arrive as hex UTF-8 and are decoded to code points here.
-/
import RumaModel.Proto
import RumaModel.Model.Push
import RumaModel.Spec.Push
namespace Ruma.Driver.C12
open Ruma Ruma.Proto Ruma.Push

/-- UTF-8 bytes → code points (the harness only sends valid UTF-8; anything else is `none`). -/
def utf8Decode : List Nat → Option Text
  | [] => some []
  | b :: rest =>
    if b < 0x80 then (utf8Decode rest).map (Char.ofNat b :: ·)
    else if b < 0xC0 then none
    else if b < 0xE0 then
      match rest with
      | b1 :: r => (utf8Decode r).map (Char.ofNat ((b - 0xC0) * 64 + (b1 - 0x80)) :: ·)
      | _ => none
    else if b < 0xF0 then
      match rest with
      | b1 :: b2 :: r =>
        (utf8Decode r).map (Char.ofNat ((b - 0xE0) * 4096 + (b1 - 0x80) * 64 + (b2 - 0x80)) :: ·)
      | _ => none
    else
      match rest with
      | b1 :: b2 :: b3 :: r =>
        (utf8Decode r).map
          (Char.ofNat ((b - 0xF0) * 262144 + (b1 - 0x80) * 4096 + (b2 - 0x80) * 64 + (b3 - 0x80)) :: ·)
      | _ => none

def textTok (t : Text) : String :=
  strTok ((String.ofList t).toUTF8.toList.map (·.toNat))

def parseText (tok : String) : Option Text := (parseStrTok tok).bind utf8Decode

/-- The instance of `lower` (`str::to_lowercase`): the simple one-to-one mappings of ASCII, Latin-1,
Greek (without Σ, whose lower-casing depends on context) and Cyrillic. The generators only use
characters on which Rust agrees with this table (asserted in the harness). -/
def lowerChar (c : Char) : Char :=
  let u := c.toNat
  if 0x41 ≤ u ∧ u ≤ 0x5A then Char.ofNat (u + 32)
  else if 0xC0 ≤ u ∧ u ≤ 0xDE ∧ u ≠ 0xD7 then Char.ofNat (u + 32)
  else if 0x391 ≤ u ∧ u ≤ 0x3A9 ∧ u ≠ 0x3A2 ∧ u ≠ 0x3A3 then Char.ofNat (u + 32)
  else if 0x410 ≤ u ∧ u ≤ 0x42F then Char.ofNat (u + 32)
  else if 0x400 ≤ u ∧ u ≤ 0x40F then Char.ofNat (u + 80)
  else c

def lowerRef (t : Text) : Text := t.map lowerChar

/-- The instance of `isUserId`: `@…:…`. Exact on the sender pool of the generators (asserted in the
harness); user-id validation itself is property C10. -/
def isUserIdRef (t : Text) : Bool :=
  match t with
  | '@' :: rest => match rest.dropWhile (· != ':') with
    | _ :: _ :: _ => true
    | _ => false
  | _ => false

def E : Ext :=
  { lower := lowerRef, wild := Spec.Glob.globDecide, rxMatch := rxDecide, isUserId := isUserIdRef }

def P : Spec.Push.Params := { lower := lowerRef, isUserId := isUserIdRef }

def tf (b : Bool) : Char := if b then 't' else 'f'

/-- Word mode is observed twice: `event_match` on `content.body` with the text as pattern (glob), and
`contains_display_name` with the text as display name (literal). `t`/`f`: both agree; `e`: only the
event match holds; `d`: only the display name is contained. -/
def pairLetter (em dn : Bool) : Char :=
  match em, dn with
  | true, true => 't'
  | false, false => 'f'
  | true, false => 'e'
  | false, true => 'd'

def wordLetter : Res → Res → Option Char
  | .ok a, .ok b => some (pairLetter a b)
  | _, _ => none

def resLetter : Res → Option Char
  | .ok b => some (tf b)
  | .error _ => none

/-- All texts of length ≤ `maxlen` over the alphabet: shorter first, first character most
significant in alphabet order. -/
def textsOfLen (alphabet : Text) : Nat → List Text
  | 0 => [[]]
  | n + 1 => alphabet.flatMap fun c => (textsOfLen alphabet n).map (c :: ·)

def textsUpTo (alphabet : Text) (maxlen : Nat) : List Text :=
  (List.range (maxlen + 1)).flatMap (textsOfLen alphabet)

def batch (f : Text → Option Char) (ts : List Text) : String :=
  match ts.mapM f with
  | some cs => "ok " ++ String.ofList cs
  | none => "panic"

def optAnswer : Option Bool → String
  | some b => String.singleton (tf b)
  | none => "err"

def parseNatTok (tok : String) : Option Nat :=
  match tok.toList with
  | 'i' :: ds => (String.ofList ds).toNat?
  | _ => none

/-! ### rulesets, contexts, events -/

partial def toPJ : JVal → Option PJ
  | .null => some .null
  | .bool b => some (.bool b)
  | .int i => some (.int i)
  | .float => some .float
  | .str s => (utf8Decode s).map .str
  | .arr xs => (xs.mapM toPJ).map .arr
  | .obj kvs => (kvs.mapM fun (k, v) => do
      let k' ← utf8Decode k
      let v' ← toPJ v
      pure (k', v')).map .obj

def jText : JVal → Option Text
  | .str s => utf8Decode s
  | _ => none

def jScalar : JVal → Option Scalar
  | .null => some .null
  | .bool b => some (.bool b)
  | .int i => if intOk i then some (.int i) else none
  | .str s => (utf8Decode s).map .str
  | _ => none

def jOp (t : Text) : Option CmpOp :=
  if t = "==".toList then some .eq
  else if t = "<".toList then some .lt
  else if t = ">".toList then some .gt
  else if t = ">=".toList then some .ge
  else if t = "<=".toList then some .le
  else none

def jCond : JVal → Option Cond
  | .arr (kind :: args) => do
    let k ← jText kind
    match String.ofList k, args with
    | "event_match", [a, b] => do pure (.eventMatch (← jText a) (← jText b))
    | "contains_display_name", [] => pure .containsDisplayName
    | "room_member_count", [op, .int n] => do
      if n < 0 then none else pure (.roomMemberCount ⟨← (jText op).bind jOp, n.toNat⟩)
    | "sender_notification_permission", [a] => do pure (.senderNotificationPermission (← jText a))
    | "event_property_is", [a, v] => do pure (.eventPropertyIs (← jText a) (← jScalar v))
    | "event_property_contains", [a, v] => do pure (.eventPropertyContains (← jText a) (← jScalar v))
    | "custom", [] => pure .custom
    | _, _ => none
  | _ => none

def jCondRule : JVal → Option CondRule
  | .arr [.bool en, id, .arr conds] => do pure ⟨en, ← jText id, ← conds.mapM jCond⟩
  | _ => none

def jPatRule : JVal → Option PatRule
  | .arr [.bool en, id, pat] => do pure ⟨en, ← jText id, ← jText pat⟩
  | _ => none

def jSimpleRule : JVal → Option SimpleRule
  | .arr [.bool en, id] => do pure ⟨en, ← jText id⟩
  | _ => none

def jRuleset : JVal → Option Ruleset
  | .arr [.arr o, .arr c, .arr r, .arr s, .arr u] => do
    pure { override_ := ← o.mapM jCondRule, content := ← c.mapM jPatRule, room := ← r.mapM jSimpleRule,
           sender := ← s.mapM jSimpleRule, underride := ← u.mapM jCondRule }
  | _ => none

def jPowerLevels : JVal → Option (Option PowerLevelsCtx)
  | .null => some none
  | .arr [.obj users, .int d, .int room] => do
    let us ← users.mapM fun (k, v) => match v with
      | .int l => (utf8Decode k).map (·, l)
      | _ => none
    pure (some ⟨us, d, room⟩)
  | _ => none

def jCtx : JVal → Option Ctx
  | .arr [room, .int members, user, display, pl] => do
    if members < 0 then none
    else pure ⟨← jText room, members.toNat, ← jText user, ← jText display, ← jPowerLevels pl⟩
  | _ => none

def ruleAnswer : Option AnyRule → String
  | none => "none"
  | some (.override_ r) => "ok override " ++ textTok r.ruleId
  | some (.content r) => "ok content " ++ textTok r.ruleId
  | some (.room r) => "ok room " ++ textTok r.ruleId
  | some (.sender r) => "ok sender " ++ textTok r.ruleId
  | some (.underride r) => "ok underride " ++ textTok r.ruleId

def scalarTok : Scalar → String
  | .null => "n"
  | .bool b => String.singleton (tf b)
  | .int i => "i" ++ toString i
  | .str s => textTok s

def fvalTok : FVal → String
  | .null => "n"
  | .bool b => String.singleton (tf b)
  | .int i => "i" ++ toString i
  | .str s => textTok s
  | .arr xs => " ".intercalate (("a" ++ toString xs.length) :: xs.map scalarTok)
  | .emptyObj => "o0"

/-- How the spec side writes the property that `lookup` found: a leaf value; an array is written as
its scalar elements (null, booleans, canonical integers, strings). -/
def specScalar? : PJ → Option Scalar
  | .null => some .null
  | .bool b => some (.bool b)
  | .int i => if Spec.Push.canonicalInt i then some (.int i) else none
  | .str s => some (.str s)
  | _ => none

def specLeafTok : PJ → String
  | .null => "n"
  | .bool b => String.singleton (tf b)
  | .int i => "i" ++ toString i
  | .str s => textTok s
  | .arr xs => let ys := xs.filterMap specScalar?
    " ".intercalate (("a" ++ toString ys.length) :: ys.map scalarTok)
  | .obj _ => "o0"
  | .float => "x"

def parseEventPath (rest : List String) : Option (PJ × Text) := do
  let (ev, r1) ← parseVal rest
  match r1 with
  | [p] => pure (← toPJ ev, ← parseText p)
  | _ => none

def parseCond (rest : List String) : Option (Cond × Ctx × PJ) := do
  let (c, r1) ← parseVal rest
  let (ctx, r2) ← parseVal r1
  let ev ← parseOne r2
  pure (← jCond c, ← jCtx ctx, ← toPJ ev)

def parseMatch (rest : List String) : Option (Ruleset × Ctx × PJ) := do
  let (rs, r1) ← parseVal rest
  let (ctx, r2) ← parseVal r1
  let ev ← parseOne r2
  pure (← jRuleset rs, ← jCtx ctx, ← toPJ ev)

def handle (toks : List String) : String :=
  match toks with
  | "c12.get" :: rest =>
    match parseEventPath rest with
    | some (ev, path) =>
      match (flatten ev).get path with
      | some v => "ok " ++ fvalTok v
      | none => "none"
    | none => "bad-op"
  | "c12.spec.get" :: rest =>
    match parseEventPath rest with
    | some (ev, path) =>
      match Spec.Push.lookup ev path with
      | some v => "ok " ++ specLeafTok v
      | none => "none"
    | none => "bad-op"
  | "c12.mentions" :: rest =>
    match (parseOne rest).bind toPJ with
    | some ev => String.singleton (tf (containsMentions (flatten ev)))
    | none => "bad-op"
  | "c12.spec.mentions" :: rest =>
    match (parseOne rest).bind toPJ with
    | some ev => String.singleton (tf (Spec.Push.hasMentions ev))
    | none => "bad-op"
  | "c12.cond" :: rest =>
    match parseCond rest with
    | some (c, ctx, ev) =>
      match c.applies E (flatten ev) ctx with
      | .ok b => String.singleton (tf b)
      | .error _ => "panic"
    | none => "bad-op"
  | "c12.spec.cond" :: rest =>
    match parseCond rest with
    | some (c, ctx, ev) =>
      String.singleton (tf (!Spec.Push.sentBySelf ev ctx && Spec.Push.condHolds P ev ctx c))
    | none => "bad-op"
  | ["c12.count", is, n] =>
    match parseText is, parseNatTok n with
    | some is, some n => optAnswer (memberCountStr is n)
    | _, _ => "bad-op"
  | ["c12.spec.count", is, n] =>
    match parseText is, parseNatTok n with
    | some is, some n => optAnswer (Spec.Push.memberCountDecide is n)
    | _, _ => "bad-op"
  | [op, p, s] =>
    match parseText p, parseText s with
    | some p, some s =>
      match op with
      | "c12.glob" => match resLetter (matchesPattern E s p false) with
        | some c => String.singleton c
        | none => "panic"
      | "c12.word" => match wordLetter (matchesPattern E s p true) (containsWord E s p) with
        | some c => String.singleton c
        | none => "panic"
      | "c12.spec.glob" => String.singleton (tf (Spec.Glob.valueDecide lowerRef p s))
      | "c12.spec.word" =>
        String.singleton (pairLetter (Spec.Glob.wordMatchDecide lowerRef p s) (Spec.Glob.containsWordDecide lowerRef p s))
      | _ => "bad-op"
    | _, _ => "bad-op"
  | [op, p, al, n] =>
    match parseText p, parseText al, n.toNat? with
    | some p, some al, some n =>
      if n > 6 ∨ al.length > 12 then "bad-op"
      else
        let ts := textsUpTo al n
        match op with
        | "c12.xglob" => batch (fun s => resLetter (matchesPattern E s p false)) ts
        | "c12.xword" => batch (fun s => wordLetter (matchesPattern E s p true) (containsWord E s p)) ts
        | "c12.spec.xglob" => batch (fun s => some (tf (Spec.Glob.valueDecide lowerRef p s))) ts
        | "c12.spec.xword" => batch (fun s => some
            (pairLetter (Spec.Glob.wordMatchDecide lowerRef p s) (Spec.Glob.containsWordDecide lowerRef p s))) ts
        | _ => "bad-op"
    | _, _, _ => "bad-op"
  | "c12.match" :: rest =>
    match parseMatch rest with
    | some (rs, ctx, ev) =>
      match getMatch E rs ev ctx with
      | .ok r => ruleAnswer r
      | .error _ => "panic"
    | none => "bad-op"
  | "c12.spec.match" :: rest =>
    match parseMatch rest with
    | some (rs, ctx, ev) => ruleAnswer (Spec.Push.getMatch P rs ev ctx)
    | none => "bad-op"
  | _ => "bad-op"

end Ruma.Driver.C12

def main : IO Unit := Ruma.Proto.runDriver Ruma.Driver.C12.handle
