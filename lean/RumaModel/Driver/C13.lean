/-
  Line-protocol driver for C13 (see harness/h-c13/src/main.rs for the request grammar).
    `c13.seq  <start> <op>*` is answered by the MODEL (`Model/Ruleset.lean`): the full trace;
    `c13.spec <start> <op>*` is answered by the SPEC (`Spec/RulesetPlacement.lean`): outcomes and
                              the final lists.
-/
import RumaModel.Proto
import RumaModel.Model.Ruleset
namespace Ruma.Driver.C13
open Ruma Ruma.Proto Ruma.Ruleset

def kinds : List Kind := [.override, .content, .room, .sender, .underride]

def kindTok : Kind → String
  | .override => "o" | .content => "c" | .room => "r" | .sender => "s" | .underride => "u"

def parseKindArg : String → Option KindArg
  | "o" => some (.known .override)
  | "c" => some (.known .content)
  | "r" => some (.known .room)
  | "s" => some (.known .sender)
  | "u" => some (.known .underride)
  | "x" => some .custom
  | _ => none

def parseOptId (t : String) : Option (Option Str) :=
  if t = "n" then some none else (parseStrTok t).map some

def parseBool : String → Option Bool
  | "t" => some true
  | "f" => some false
  | _ => none

def parseOp (tok : String) : Option Op :=
  match tok.splitOn "," with
  | ["i", k, id, tag, a, b] =>
    match parseKindArg k, parseStrTok id, tag.toNat?, parseOptId a, parseOptId b with
    | some (.known k), some id, some tag, some a, some b => some (.insert k id tag a b)
    | _, _, _, _, _ => none
  | ["r", k, id] =>
    match parseKindArg k, parseStrTok id with
    | some k, some id => some (.remove k id)
    | _, _ => none
  | ["e", k, id, on] =>
    match parseKindArg k, parseStrTok id, parseBool on with
    | some k, some id, some on => some (.setEnabled k id on)
    | _, _, _ => none
  | ["a", k, id, tag] =>
    match parseKindArg k, parseStrTok id, tag.toNat? with
    | some k, some id, some tag => some (.setActions k id tag)
    | _, _, _ => none
  | ["g", k, id] =>
    match parseKindArg k, parseStrTok id with
    | some k, some id => some (.get k id)
    | _, _ => none
  | _ => none

def parseOps : List String → Option (List Op)
  | [] => some []
  | t :: ts =>
    match parseOp t, parseOps ts with
    | some op, some ops => some (op :: ops)
    | _, _ => none

def parseStart : String → Option State
  | "empty" => some State.empty
  | "default" => some State.serverDefault
  | _ => none

def safeByte (b : Nat) : Bool :=
  (48 ≤ b && b ≤ 57) || (65 ≤ b && b ≤ 90) || (97 ≤ b && b ≤ 122)
    || b = 46 || b = 95 || b = 45 || b = 33 || b = 64 || b = 58 || b = 47 || b = 92

def fmtId (s : Str) : String :=
  if !s.isEmpty && s.all safeByte then String.ofList (s.map Char.ofNat) else "%" ++ hex s

def bit (b : Bool) : String := if b then "1" else "0"

def fmtRule (r : Rule) : String :=
  fmtId r.id ++ "~" ++ bit r.enabled ++ bit r.dflt ++ "~" ++ toString r.actions

def fmtKind (s : State) (k : Kind) : String :=
  kindTok k ++ "=" ++ ",".intercalate ((s.get k).map fmtRule)

def fmtState (s : State) : String := ";".intercalate (kinds.map (fmtKind s))

def hexDigit64 (n : UInt64) : Char :=
  if n < 10 then Char.ofNat (48 + n.toNat) else Char.ofNat (87 + n.toNat)

/-- FNV-1a-64 of the (ASCII) string, as 16 hex digits. -/
def fnv64 (s : String) : String :=
  let h := s.toList.foldl (fun (h : UInt64) c => (h ^^^ c.toNat.toUInt64) * 0x00000100000001b3)
    0xcbf29ce484222325
  String.ofList ((List.range 16).map (fun i => hexDigit64 ((h >>> (4 * (15 - i)).toUInt64) &&& 0xf)))

/-- Entries longer than 160 bytes are printed as `#<hash>` (same rule in the harness). -/
def compact (s : String) : String := if s.length ≤ 160 then s else "#" ++ fnv64 s

def fmtChanged (a b : State) : String :=
  compact (";".intercalate ((kinds.filter (fun k => a.get k != b.get k)).map (fmtKind b)))

def fmtErr : ErrClass → String
  | .prot => "protected" | .invalid => "invalid" | .unknown => "unknown" | .order => "order"

def fmtOutcome : Outcome → String
  | .ok => "ok"
  | .err c => "err:" ++ fmtErr c
  | .panic => "panic"
  | .got none => "got:none"
  | .got (some r) => "got:" ++ bit r.enabled ++ bit r.dflt ++ "~" ++ toString r.actions

/-- The model's trace: one entry per step, stopping at a panic. -/
def trace (s : State) : List Op → List String
  | [] => ["end", fmtState s]
  | op :: ops =>
    match Ruleset.step s op with
    | (_, .panic) => ["panic"]
    | (s', o) => (fmtOutcome o ++ "|" ++ fmtChanged s s') :: trace s' ops

def handle (toks : List String) : String :=
  match toks with
  | "c13.seq" :: start :: ops =>
    match parseStart start, parseOps ops with
    | some s, some ops => " ".intercalate ("tr" :: trace s ops)
    | _, _ => "bad-op"
  | "c13.spec" :: start :: ops =>
    match parseStart start, parseOps ops with
    | some s, some ops =>
      let (s', os) := Spec.RulesetPlacement.run s ops
      "sp " ++ (if os.isEmpty then "-" else ",".intercalate (os.map fmtOutcome)) ++ " " ++ fmtState s'
    | _, _ => "bad-op"
  | _ => "bad-op"

end Ruma.Driver.C13

def main : IO Unit := Ruma.Proto.runDriver Ruma.Driver.C13.handle
