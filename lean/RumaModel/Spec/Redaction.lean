/-
  Specification side for C04: which keys survive redaction, per room version, written from the
  "Redactions" sections of the Matrix room version specifications
  (https://spec.matrix.org/v1.11/rooms/v1/#redactions … /rooms/v11/#redactions).
  This file does not mention the code's `RedactionRules` booleans.

  Readings adopted (places where the room version pages leave a choice and this file follows what
  the implementation does, so that the theorems of `Props/C04.lean` say "the code does the spec
  under these readings"; each is a recorded reading, not a consequence of the specification text):
   R1. `contentEntry`, v11 `m.room.member`: the spec says that of `third_party_invite` only the
       `signed` key is kept. When the `third_party_invite` object has no `signed` key the narrowed
       object would be `{}`; this file (like the code) then drops `third_party_invite` altogether
       rather than keeping an empty object.
   R2. `contentEntry`, same place: when `third_party_invite` is not a JSON object there is nothing
       to narrow; this file answers `none` (entry removed). The code does not remove it: it
       *fails* (`tpiNotObject`), and `redactContent_eq_spec` is stated for successful redactions
       only, so this branch of the spec function is never compared with the code. The failing
       inputs are characterised by `redactContent_error_iff` / `redact_error_iff_input`.
   R3. `redactedContent` keeps the entries in the object's own order (a `BTreeMap` has no other).
-/
import RumaModel.Model.Json
namespace Ruma.Spec.Redaction

/-- Top-level keys kept in every room version. -/
def topAlways : List Str :=
  [bs "event_id", bs "type", bs "room_id", bs "sender", bs "state_key", bs "content", bs "hashes",
   bs "signatures", bs "depth", bs "prev_events", bs "auth_events", bs "origin_server_ts"]

/-- v1–v10 additionally keep `origin`, `membership`, `prev_state`; v11 dropped them. -/
def topLegacy : List Str := [bs "origin", bs "membership", bs "prev_state"]

def topKept (v : Nat) (k : Str) : Bool :=
  topAlways.contains k || (decide (v ≤ 10) && topLegacy.contains k)

/-- Is key `k` of the `content` of an event of type `ty` kept in room version `v`?
 * `m.room.member`: `membership`; from v9 `join_authorised_via_users_server`; from v11
   `third_party_invite` (only its `signed` key, see `tpiKept`).
 * `m.room.create`: `creator`; from v11 every key.
 * `m.room.join_rules`: `join_rule`; from v8 `allow`.
 * `m.room.power_levels`: `ban events events_default kick redact state_default users users_default`;
   from v11 `invite`.
 * `m.room.history_visibility`: `history_visibility`.
 * `m.room.redaction`: from v11 `redacts`.
 * `m.room.aliases`: `aliases` in v1–v5 only.
 * any other type: nothing. -/
def contentKept (v : Nat) (ty k : Str) : Bool :=
  if ty = bs "m.room.member" then
    decide (k = bs "membership")
      || (decide (9 ≤ v) && decide (k = bs "join_authorised_via_users_server"))
      || (decide (11 ≤ v) && decide (k = bs "third_party_invite"))
  else if ty = bs "m.room.create" then decide (11 ≤ v) || decide (k = bs "creator")
  else if ty = bs "m.room.join_rules" then
    decide (k = bs "join_rule") || (decide (8 ≤ v) && decide (k = bs "allow"))
  else if ty = bs "m.room.power_levels" then
    [bs "ban", bs "events", bs "events_default", bs "kick", bs "redact", bs "state_default",
      bs "users", bs "users_default"].contains k
      || (decide (11 ≤ v) && decide (k = bs "invite"))
  else if ty = bs "m.room.history_visibility" then decide (k = bs "history_visibility")
  else if ty = bs "m.room.redaction" then decide (11 ≤ v) && decide (k = bs "redacts")
  else if ty = bs "m.room.aliases" then decide (v ≤ 5) && decide (k = bs "aliases")
  else false

/-- v11: inside `content.third_party_invite` of `m.room.member` only `signed` is kept. -/
def tpiKept (k : Str) : Bool := k = bs "signed"

end Ruma.Spec.Redaction

namespace Ruma.Spec.Redaction

/-- What the spec keeps of one `content` entry: `none` = removed, `some v'` = kept with value `v'`
(the value itself, except that v11 narrows `third_party_invite` of a member event to its `signed`
key and drops it when nothing is left). -/
def contentEntry (v : Nat) (ty k : Str) (val : JVal) : Option JVal :=
  if contentKept v ty k = false then none
  else if ty = bs "m.room.member" ∧ k = bs "third_party_invite" then
    match val with
    | .obj t =>
      let t' := t.filter (fun p => tpiKept p.1)
      if t'.isEmpty then none else some (.obj t')
    | _ => none
  else some val

/-- The spec's redacted `content`: entries in order, each kept or removed by `contentEntry`. -/
def redactedContent (v : Nat) (ty : Str) (c : Obj) : Obj :=
  c.filterMap (fun e => (contentEntry v ty e.1 e.2).map (fun v' => (e.1, v')))

end Ruma.Spec.Redaction
