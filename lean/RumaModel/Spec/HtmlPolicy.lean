/-
  What a sanitizer configuration *promises*, as predicates on names, attributes, values, classes
  and trees — the vocabulary of the C14/C15 theorems. Written from the documentation of the public
  builder (`SanitizerConfig::{allow,remove,ignore}_elements`, `…_attributes`, `…_schemes`,
  `…_classes`, `max_depth`, `remove_reply_fallback`, `ListBehavior::{Override, Add}`): removing
  beats ignoring beats allowing; an allow list exists iff a mode is set or a list was given; a
  list with `Override` replaces the mode's list, with `Add` extends it.

  For the four standard configurations these predicates evaluate to the Matrix spec's tables of
  `Spec/HtmlAllow.lean` (theorems `strict_*_spec` in `Props/C14.lean`).
-/
import RumaModel.Model.Html
import RumaModel.Spec.HtmlGlob
namespace Ruma.Spec.HtmlPolicy
open Ruma Ruma.Html Ruma.Spec.HtmlGlob

/-- Elements dropped together with their content, by name. -/
def elemRemoved (c : Cfg) (n : Str) : Bool :=
  optContains c.removeElements n || (c.removeReplyFallback && n == replyName)

/-- The element allow list (mode list and/or given list), if any, admits `n`. -/
def elemListed (L : Lists) (c : Cfg) (n : Str) : Bool :=
  !(c.allowElements.isSome || c.useStrict) ||
  optContains (c.allowElements.map (·.content)) n ||
  (!isOverride c.allowElements && c.useStrict && L.elements.contains n)

/-- An element named `n` may appear in the output. -/
def elemOk (L : Lists) (c : Cfg) (n : Str) : Bool :=
  !elemRemoved c n && !optContains c.ignoreElements n && elemListed L c n

/-- Attribute `a` may appear on element `el`. -/
def attrOk (L : Lists) (c : Cfg) (el a : Str) : Bool :=
  !optContains (c.removeAttrs.bind (mapGet · el)) a &&
  (!(c.allowAttrs.isSome || c.useStrict) ||
    optContains (c.allowAttrs.bind (fun l => mapGet l.content el)) a ||
    optContains (if !isOverride c.allowAttrs && c.useStrict then mapGet L.attrs el else none) a)

/-- There is an attribute allow list (a mode is set, or a list was given). The lists hold names
of HTML attributes; an attribute in a namespace (`xlink:href` in SVG/MathML content, which a
serializer writes with its prefix) is not the HTML attribute of the same local name, so under an
allow list it must not remain. -/
def attrListed (c : Cfg) : Bool := c.allowAttrs.isSome || c.useStrict

/-- The attribute (namespace and local name) may appear on element `el`. -/
def attrOkA (L : Lists) (c : Cfg) (el : Str) (a : Attr) : Prop :=
  attrOk L c el a.name = true ∧ (attrListed c = true → a.ns = [])

/-! ### Values and classes

Stated with `mapGet` (lookup in a list collected from the builder's argument), list operations and
the glob relation of `Spec/HtmlGlob.lean` only — no function of the model. That the model's
`node_action` / `clean_element_attributes` compute these predicates is
`Lemmas/HtmlPolicy.lean` (`denied_eq_model`, `schemeList_eq_model`, `valueOk_eq_model`,
`classOk_eq_model`). -/

/-- `value` starts with `scheme:` (exact, case-sensitive spelling, no leading whitespace). -/
def hasScheme (value scheme : Str) : Bool := (scheme ++ [58]).isPrefixOf value

/-- The entry of a per-element, per-attribute table. -/
def cell {α : Type} (m : List (Str × List (Str × α))) (el a : Str) : Option α :=
  (mapGet m el).bind (mapGet · a)

/-- Does the mode's list count beside a list given to the builder? Not if the list was given with
`ListBehavior::Override`; yes if it was given with `Add`, or not given at all. -/
def modeCounts {α : Type} (l : Option (BList α)) : Bool :=
  match l with
  | some b => !b.override
  | none => true

/-- The value of attribute `a` on `el` starts with a denied scheme (`deny_schemes`). -/
def denied (c : Cfg) (el a value : Str) : Bool :=
  match c.denySchemes with
  | none => false
  | some m =>
    match cell m el a with
    | none => false
    | some l => l.any (hasScheme value)

/-- The schemes attribute `a` of `el` is restricted to (`none`: unrestricted): the entry of the
list given with `allow_schemes`, if any, and — where the mode's lists count — the entry of the
strict table when a mode is set and of the compat table in compat mode, chained; unrestricted if
none of the three has an entry. -/
def schemeList (L : Lists) (c : Cfg) (el a : Str) : Option (List Str) :=
  let given := match c.allowSchemes with
    | some l => cell l.content el a
    | none => none
  let strict := if modeCounts c.allowSchemes && c.mode.isSome then cell L.schemesStrict el a else none
  let compat :=
    if modeCounts c.allowSchemes && c.mode == some .compat then cell L.schemesCompat el a else none
  if given.isNone && strict.isNone && compat.isNone then none
  else some (given.getD [] ++ strict.getD [] ++ compat.getD [])

/-- The value is acceptable for attribute `a` of `el`: not denied, and if the attribute is
restricted it starts with `scheme:` for one of its schemes. -/
def valueOk (L : Lists) (c : Cfg) (el a value : Str) : Bool :=
  !denied c el a value &&
  match schemeList L c el a with
  | none => true
  | some l => l.any (hasScheme value)

/-- Class `cl` may appear in the `class` attribute of `el`: no remove pattern of the element
matches it, and if there is an allow list (a mode is set, or a list was given) some allow pattern
of the element does — a pattern of the given list or, where the mode's list counts, of the mode's. -/
def classOk (L : Lists) (c : Cfg) (el cl : Str) : Bool :=
  let removePats := match c.removeClasses with
    | some m => (mapGet m el).getD []
    | none => []
  let given := match c.allowClasses with
    | some l => (mapGet l.content el).getD []
    | none => []
  let mode := if modeCounts c.allowClasses && c.mode.isSome then (mapGet L.classes el).getD [] else []
  !matchesAny removePats cl &&
  (!(c.allowClasses.isSome || c.mode.isSome) || matchesAny (given ++ mode) cl)

/-! ### The documented replacements and the depth limit

Likewise without functions of the model (`Lemmas/HtmlPolicy.lean`: `renamed_eq_model`,
`renamedAttr_eq_model`, `tooDeep_eq_model`). -/

/-- The name element `n` has after the documented replacements: its entry in the list given with
`replace_elements`, if it has one; else, where the mode's list counts, the mode's replacement for
a deprecated element; else `n` itself. -/
def renamed (L : Lists) (c : Cfg) (n : Str) : Str :=
  let given := c.replaceElements.bind (fun l => mapGet l.content n)
  let mode :=
    if modeCounts c.replaceElements && c.mode.isSome then mapGet L.deprecatedElements n else none
  match given, mode with
  | some x, _ => x
  | none, some x => x
  | none, none => n

/-- The name attribute `a` of element `n` (its name before replacement) has after the documented
replacements: the entry of the list given with `replace_attributes`, else the mode's. -/
def renamedAttr (L : Lists) (c : Cfg) (n a : Str) : Str :=
  let given := c.replaceAttrs.bind (fun l => cell l.content n a)
  let mode :=
    if modeCounts c.replaceAttrs && c.mode.isSome then cell L.deprecatedAttrs n a else none
  match given, mode with
  | some x, _ => x
  | none, some x => x
  | none, none => a

/-- The maximum depth: the one given with `max_depth`, else the mode's (100), else none. -/
def depthLimit (L : Lists) (c : Cfg) : Option Nat :=
  match c.maxDepth with
  | some m => some m
  | none => if c.mode.isSome then some L.maxDepth else none

/-- An element with `d` element ancestors is nested at or beyond the maximum depth. -/
def tooDeep (L : Lists) (c : Cfg) (d : Nat) : Bool :=
  match depthLimit L c with
  | some m => decide (m ≤ d)
  | none => false

/-! ## Predicates on trees -/

mutual
/-- Every element of the node satisfies `p depth name attrs`, `depth` counting element ancestors. -/
def AllElems (p : Nat → Str → List Attr → Prop) (d : Nat) : Node → Prop
  | .elem n as cs => p d n as ∧ AllElemsL p (d + 1) cs
  | .text _ => True
  | .other => True
def AllElemsL (p : Nat → Str → List Attr → Prop) (d : Nat) : List Node → Prop
  | [] => True
  | n :: t => AllElems p d n ∧ AllElemsL p d t
end

mutual
/-- Only elements and text: no comment or other node kind anywhere. -/
def NoOther : Node → Prop
  | .elem _ _ cs => NoOtherL cs
  | .text _ => True
  | .other => False
def NoOtherL : List Node → Prop
  | [] => True
  | n :: t => NoOther n ∧ NoOtherL t
end

mutual
/-- The text content, in document order. -/
def textOf : Node → Str
  | .elem _ _ cs => textOfL cs
  | .text s => s
  | .other => []
def textOfL : List Node → Str
  | [] => []
  | n :: t => textOf n ++ textOfL t
end

mutual
/-- Levels of element nesting. -/
def depthOf : Node → Nat
  | .elem _ _ cs => depthOfL cs + 1
  | .text _ => 0
  | .other => 0
def depthOfL : List Node → Nat
  | [] => 0
  | n :: t => max (depthOf n) (depthOfL t)
end

mutual
/-- The text that must survive sanitization, in order: everything outside the subtrees that are
dropped — elements removed by name (after the documented replacements), `mx-reply` under
reply-fallback removal, elements nested at or beyond the maximum depth (`d` counts *all* element
ancestors in the input, also those that are merely not allowed), comments. (No function of the
model.) -/
def keptText (L : Lists) (c : Cfg) (d : Nat) : Node → Str
  | .elem n _ cs =>
    if elemRemoved c (renamed L c n) || tooDeep L c d then []
    else keptTextL L c (d + 1) cs
  | .text s => s
  | .other => []
def keptTextL (L : Lists) (c : Cfg) (d : Nat) : List Node → Str
  | [] => []
  | n :: t => keptText L c d n ++ keptTextL L c d t
end

mutual
/-- The elements of a forest in document order (name and attributes). -/
def elemsOf : Node → List (Str × List Attr)
  | .elem n as cs => (n, as) :: elemsOfL cs
  | .text _ => []
  | .other => []
def elemsOfL : List Node → List (Str × List Attr)
  | [] => []
  | n :: t => elemsOf n ++ elemsOfL t
end

mutual
/-- The elements that must survive sanitization, in document order: outside dropped subtrees
(`keptText`), every element whose name — after the documented replacements — is allowed and whose
attribute values are all acceptable (each under the attribute's name after the documented
replacements) is kept; every other element there is merely not allowed: it goes, its descendants
stay. `d` counts all element ancestors in the input.
WHICH elements are kept, under which names and in which order is stated here without any function
of the model. The attribute set a kept element carries is NOT restated: it is the model's
`cleanAttrs … (replaceAttrsOf …)` (renamed attributes collected as an ordered set, then disallowed
attributes and classes taken out); what the spec says about that set is `clean_attrs_allowed`,
`clean_schemes_allowed`, `clean_classes_allowed`. -/
def keptElems (L : Lists) (c : Cfg) (d : Nat) : Node → List (Str × List Attr)
  | .elem n as cs =>
    let n' := renamed L c n
    if elemRemoved c n' || tooDeep L c d then []
    else if elemOk L c n' && as.all (fun a => valueOk L c n' (renamedAttr L c n a.name) a.value) then
      (n', cleanAttrs L c n' (replaceAttrsOf L c n as)) :: keptElemsL L c (d + 1) cs
    else keptElemsL L c (d + 1) cs
  | .text _ => []
  | .other => []
def keptElemsL (L : Lists) (c : Cfg) (d : Nat) : List Node → List (Str × List Attr)
  | [] => []
  | n :: t => keptElems L c d n ++ keptElemsL L c d t
end

mutual
/-- The names of the elements that must survive sanitization, in document order — `keptElems`
without the attribute sets: no function of the model at all. -/
def keptNames (L : Lists) (c : Cfg) (d : Nat) : Node → List Str
  | .elem n as cs =>
    let n' := renamed L c n
    if elemRemoved c n' || tooDeep L c d then []
    else if elemOk L c n' && as.all (fun a => valueOk L c n' (renamedAttr L c n a.name) a.value) then
      n' :: keptNamesL L c (d + 1) cs
    else keptNamesL L c (d + 1) cs
  | .text _ => []
  | .other => []
def keptNamesL (L : Lists) (c : Cfg) (d : Nat) : List Node → List Str
  | [] => []
  | n :: t => keptNames L c d n ++ keptNamesL L c d t
end

/-- An element with this name and these attributes, `d` element ancestors deep, is kept as it is:
the name is allowed, the depth is within the limit, every attribute is allowed on it and carries an
acceptable value, and every class is allowed. -/
def Keeps (L : Lists) (c : Cfg) (d : Nat) (n : Str) (as : List Attr) : Prop :=
  elemOk L c n = true ∧
  (∀ m, maxDepthValue L c = some m → d < m) ∧
  (∀ a ∈ as, attrOkA L c n a ∧ valueOk L c n a.name a.value = true ∧
    (a.name = className → ∀ cl ∈ splitWs a.value, classOk L c n cl = true))

/-- … and, in addition, the element is not the subject of a replacement. -/
def CleanElem (L : Lists) (c : Cfg) (d : Nat) (n : Str) (as : List Attr) : Prop :=
  Keeps L c d n as ∧ replaceNameOf L c n = n ∧ replaceAttrsOf L c n as = as

/-- "Already clean": the predicate sanitization establishes, with every node at its true depth:
only elements that are kept as they are and are not subject to a replacement, and no comments. -/
def Clean (L : Lists) (c : Cfg) (d : Nat) (f : List Node) : Prop :=
  AllElemsL (CleanElem L c) d f ∧ NoOtherL f

mutual
/-- The documented replacements (deprecated elements and attributes of the mode, replacement lists
of the configuration) applied to every element, nothing else changed. -/
def rewrite (L : Lists) (c : Cfg) : Node → Node
  | .elem n as cs => .elem (replaceNameOf L c n) (replaceAttrsOf L c n as) (rewriteL L c cs)
  | .text s => .text s
  | .other => .other
def rewriteL (L : Lists) (c : Cfg) : List Node → List Node
  | [] => []
  | n :: t => rewrite L c n :: rewriteL L c t
end

/-- The static lists do not contradict themselves: an allowed element is not also a deprecated
one, and no scheme list is attached to the `class` attribute. (True of the spec's lists and of
the lists extracted from the implementation, by evaluation.) -/
def consistent (L : Lists) : Bool :=
  L.elements.all (fun n => (mapGet L.deprecatedElements n).isNone && (mapGet L.deprecatedAttrs n).isNone) &&
  L.schemesStrict.all (fun r => r.2.all (fun p => p.1 != className)) &&
  L.schemesCompat.all (fun r => r.2.all (fun p => p.1 != className))

/-! ## The standard configurations -/

/-- `SanitizerConfig::strict()` / `compat()` / `new()`, optionally `.remove_reply_fallback()`:
what `sanitize_html` and `remove_html_reply_fallback` use. -/
def plain (mode : Option Mode) (removeReply : Bool) : Cfg :=
  { mode := mode, removeReplyFallback := removeReply }

end Ruma.Spec.HtmlPolicy
