/-
  State resolution algorithm v2, written from the Matrix specification
  (https://spec.matrix.org/latest/rooms/v11/#state-resolution, "Definitions" and "Algorithm").
  Nothing here mentions hash maps, heaps, caches or loops of the implementation.

  Inputs: the events the server knows (`store`), the states `S₁ … Sₙ` to merge (`sets`) and, as the
  spec's `Cᵢ`, the full auth chain of each `Sᵢ` (`chains`, supplied by the caller as in the code).
  Sets of events are duplicate-free lists; a state is a list of `((type, state_key), event_id)`.

  Readings adopted where the text leaves a choice (each is what Synapse does):
  * events the server does not have are left out of the full conflicted set;
  * "the auth chain of P which also belongs to the full conflicted set" follows `auth_events` edges
    inside the full conflicted set;
  * power-levels / join-rules events are power events when their state key is empty.
  Implementation-shaped pieces of this file (places where the specification text says nothing and
  this file follows the code, so that on them "spec = code" holds by choice, not by the text):
  * `senderPower`, branch `none` (no `m.room.create` among the event's `auth_events`): the
    specification does not define a sender's power level there — such an event cannot occur in a
    room — and this file returns the implementation's value (`users_default` of the cited
    power-levels event);
  * `iterativeAuthChecks`: the specification only says "apply the event if it is allowed". The
    cases it is silent about are decided as the implementation decides them: an unknown event id,
    an event without `state_key`, or a fetched auth event without `state_key` abort the resolution
    with an error; an event for which the auth-types selection `p.authTypes` fails is skipped (not
    applied, no error);
  * `authStateFor` takes the *last* matching auth event when several of an event's `auth_events`
    have the same `(type, state_key)`;
  * `tsOf` (0 for an unknown event) and the `getD 0` in `reversePowerOrdering` are totalising
    defaults that cannot be reached: `reversePowerOrdering` evaluates the keys only after
    `senderPowers` succeeded on the same list `X`, which fetches every event of `X` and binds a
    power level to every id of `X` (so `fetch id` is `some _` and `AL.get pls id` is `some _` for
    every vertex whose key is taken).
  The authorization rules themselves (C08) and the auth-event selection (C09) are parameters.
-/
import RumaModel.Model.StateRes
namespace Ruma.Spec.StateResV2
open Ruma Ruma.StateRes

/-! ## Definitions -/

/-- All `(type, state_key)` pairs that occur in some state. -/
def keysOf (sets : List StateMap) : List SKey := dedup (sets.flatten.map (·.1))

/-- **Unconflicted state map**: "the state where the value of each key exists and is the same in
each state `Sᵢ`". -/
def unconflicted (sets : List StateMap) : StateMap :=
  (keysOf sets).filterMap (fun k =>
    match sets with
    | [] => none
    | s :: rest =>
      match AL.get s k with
      | some v => if rest.all (fun s' => AL.get s' k = some v) then some (k, v) else none
      | none => none)

/-- **Conflicted state set**: "the set of all other state events". -/
def conflictedSet (sets : List StateMap) : List Id :=
  dedup ((sets.flatten.filter (fun kv => AL.get (unconflicted sets) kv.1 ≠ some kv.2)).map (·.2))

/-- **Auth difference**: "every event that doesn't appear in every auth chain": `∪Cᵢ − ∩Cᵢ`. -/
def authDifference (chains : List (List Id)) : List Id :=
  dedup (chains.flatten.filter (fun id => !chains.all (fun c => c.contains id)))

/-- **Full conflicted set**: "the union of the conflicted state set and the auth difference"
(known events only). -/
def fullConflictedSet (fetch : Id → Option Event) (sets : List StateMap) (chains : List (List Id)) :
    List Id :=
  dedup ((conflictedSet sets ++ authDifference chains).filter (fun id => (fetch id).isSome))

/-- **Power event**: "a state event with type `m.room.power_levels` or `m.room.join_rules`, or a
state event with type `m.room.member` where the `membership` is `leave` or `ban` and the `sender`
does not match the `state_key`". -/
def isPowerEvent (p : Params) (e : Event) : Bool :=
  ((e.type = tPowerLevels ∨ e.type = tJoinRules) ∧ e.stateKey = some [])
  ∨ (e.type = tMember ∧ (p.membership e = some (bs "leave") ∨ p.membership e = some (bs "ban"))
      ∧ e.stateKey ≠ some e.sender)

/-- The `auth_events` of `id` that lie in the set `S`. -/
def authWithin (fetch : Id → Option Event) (S : List Id) (id : Id) : List Id :=
  (authEventsOf fetch id).filter (fun a => S.contains a)

/-- One more layer of auth events inside `S`. -/
def grow (fetch : Id → Option Event) (S X : List Id) : List Id :=
  dedup (X ++ (X.map (authWithin fetch S)).flatten)

/-- `X` enlarged by "the events in the auth chain of `P` which also belong to" `S`, for every `P ∈ X`
(`S.length` layers reach everything). -/
def authClosure (fetch : Id → Option Event) (S : List Id) : Nat → List Id → List Id
  | 0, X => X
  | n + 1, X => authClosure fetch S n (grow fetch S X)

/-- The power level of the sender of `e` "when looking at [its] `auth_events`": from the
`m.room.power_levels` event among them (`users[sender]`, else `users_default`, else 0); without one,
100 for the room creator and 0 for everybody else. -/
def plAmong (fetch : Id → Option Event) (e : Event) : Option Event :=
  (e.authEvents.filterMap fetch).find? (fun a => isTypeAndKey a tPowerLevels [])

def createAmong (fetch : Id → Option Event) (e : Event) : Option Event :=
  (e.authEvents.filterMap fetch).find? (fun a => isTypeAndKey a tCreate [])

def senderPower (p : Params) (fetch : Id → Option Event) (e : Event) : Option Int :=
  match createAmong fetch e with
  | some c => (p.creatorOf c).bind (fun creator => p.userLevel (plAmong fetch e) e.sender creator)
  | none =>
    -- cannot occur in a room (every event but the create event cites the create event); the
    -- implementation's value there
    p.usersDefault (plAmong fetch e)

/-- The comparison of the **reverse topological power ordering**: "`x < y` if x's sender has
greater power level than y's sender […]; or the senders have the same power level, but x's
`origin_server_ts` is less than y's; or […] the same `origin_server_ts`, but x's `event_id` is less
than y's". -/
def powerLt (a b : TB) : Bool :=
  decide (a.pl > b.pl) || (a.pl == b.pl && (decide (a.ts < b.ts) || (a.ts == b.ts && decide (a.id < b.id))))

/-- Kahn's algorithm: the candidates after `done` were emitted are the remaining vertices all of
whose outgoing edges (`auth_events` inside the set) lead to emitted vertices. -/
def candidates (g : Graph) (done : List Id) : List Id :=
  (g.filter (fun ne => !done.contains ne.1 && ne.2.all (fun e => done.contains e))).map (·.1)

/-- The least element of a list under `lt`. -/
def least (lt : α → α → Bool) : List α → Option α
  | [] => none
  | x :: xs =>
    match least lt xs with
    | none => some x
    | some m => if lt m x then some m else some x

/-- "sorting the events using Kahn's algorithm […], and at each step selecting, among all the
candidate vertices, the smallest vertex using the above comparison relation". -/
def kahn (g : Graph) (key : Id → TB) : Nat → List Id → List Id
  | 0, done => done
  | n + 1, done =>
    match least powerLt ((candidates g done).map key) with
    | none => done
    | some m => kahn g key n (done ++ [m.id])

def lexTopo (g : Graph) (key : Id → TB) : List Id := kahn g key g.length []

/-- Declarative form of one run of Kahn's algorithm after `done` was emitted: every next element is
a candidate at its position and is `powerLt`-smaller than every other candidate there. -/
inductive KahnRun (g : Graph) (key : Id → TB) : List Id → List Id → Prop
  | nil (done : List Id) : KahnRun g key done []
  | cons {done : List Id} {c : Id} {rest : List Id} :
      c ∈ candidates g done →
      (∀ c' ∈ candidates g done, c' ≠ c → powerLt (key c) (key c') = true) →
      KahnRun g key (done ++ [c]) rest → KahnRun g key done (c :: rest)

/-- `out` is the reverse topological power ordering of the graph: it lists every vertex exactly
once and is a run of Kahn's algorithm from the empty prefix (so every vertex comes after all the
vertices its edges point to, and is the smallest candidate at its position). -/
def IsLexTopoOrder (g : Graph) (key : Id → TB) (out : List Id) : Prop :=
  out.Perm g.nodes ∧ KahnRun g key [] out

/-- **Iterative auth checks**: "constructs a new room state by iterating through the event list and
applying the state event to the room state if [it] is allowed by the authorization rules. […] If a
`(event_type, state_key)` key that is required for checking the authorization rules is not present
in the state, then the appropriate state event from the event's `auth_events` is used". -/
def authStateFor (fetch : Id → Option Event) (st : StateMap) (e : Event) (tys : List SKey)
    (ty k : Str) : Option Event :=
  if tys.contains (ty, k) then
    match (AL.get st (ty, k)).bind fetch with
    | some ev => some ev
    | none => (e.authEvents.filterMap fetch).reverse.find? (fun a => a.type = ty && a.stateKey = some k)
  else none

def iterativeAuthChecks (p : Params) (fetch : Id → Option Event) :
    List Id → StateMap → Except Fail StateMap
  | [], st => .ok st
  | id :: rest, st =>
    match fetch id with
    | none => .error .err
    | some e =>
      match e.stateKey with
      | none => .error .err
      | some sk =>
        if (e.authEvents.filterMap fetch).any (fun a => a.stateKey.isNone) then .error .err
        else
          match p.authTypes e with
          | none => iterativeAuthChecks p fetch rest st
          | some tys =>
            if p.auth e (authStateFor fetch st e tys) then
              iterativeAuthChecks p fetch rest (AL.insert st (e.type, sk) id)
            else iterativeAuthChecks p fetch rest st

/-- **Mainline** of a power-levels event `P`: "starting with `P` and recursively taking the
`m.room.power_levels` events from the `auth_events`, ordered such that `P` is last". -/
def mainline (fetch : Id → Option Event) : Nat → Option Event → List Id
  | 0, _ => []
  | _, none => []
  | n + 1, some pl => mainline fetch n (plAmong fetch pl) ++ [pl.eventId]

/-- Position (from 1) in the mainline of the **closest mainline event** to `e`; 0 stands for the
"dummy event that is before any other event in the mainline". -/
def closestPos (fetch : Id → Option Event) (ml : List Id) : Nat → Option Event → Nat
  | 0, _ => 0
  | _, none => 0
  | n + 1, some e =>
    match ml.idxOf? e.eventId with
    | some i => i + 1
    | none => closestPos fetch ml n (plAmong fetch e)

/-- The comparison of the **mainline ordering**. -/
def mainlineLe (a b : MKey) : Bool :=
  decide (a.depth < b.depth) || (a.depth == b.depth && (decide (a.ts < b.ts) || (a.ts == b.ts && decide (a.id ≤ b.id))))

/-- The **mainline ordering** of `rest` based on the power-levels event `P` (`fuel` bounds the walks
through the store; the store's size suffices). With `dev = true`: the same with the one documented
deviation of the implementation (finding F4) — an event without mainline ancestor takes the
position of the oldest mainline event instead of coming before every mainline position. -/
def mainlineOrder (dev : Bool) (fetch : Id → Option Event) (fuel : Nat) (P : Option Event)
    (rest : List Id) : List Id :=
  let ml := mainline fetch fuel P
  let keyed := rest.filterMap (fun id => (fetch id).map (fun e =>
    let pos := closestPos fetch ml fuel (some e)
    (id, (⟨if dev then max 1 pos else pos, e.originServerTs, id⟩ : MKey))))
  (keyed.mergeSort (fun a b => mainlineLe a.2 b.2)).map (·.1)

/-! ## Algorithm -/

/-- The graph on `X` "formed by auth events", and each vertex's comparison key. -/
def powerGraph (fetch : Id → Option Event) (X : List Id) : Graph :=
  X.map (fun id => (id, authWithin fetch X id))

def senderPowers (p : Params) (fetch : Id → Option Event) : List Id → Except Fail (List (Id × Int))
  | [] => .ok []
  | id :: rest =>
    match fetch id with
    | none => .error .err
    | some e =>
      match senderPower p fetch e, senderPowers p fetch rest with
      | some pl, .ok m => .ok ((id, pl) :: m)
      | none, _ => .error .err
      | _, .error x => .error x

/-- `origin_server_ts` of a known event. The value 0 for an unknown id is a totalising default, not a
reading of the specification: the only caller (`reversePowerOrdering`) asks for the ids of `X` after
`senderPowers … X` succeeded, which has fetched every one of them. -/
def tsOf (fetch : Id → Option Event) (id : Id) : Int :=
  match fetch id with
  | some e => e.originServerTs
  | none => 0

/-- Step 1, the events to order: "the power events in the full conflicted set" and, "for each such
power event `P`, […] the events in the auth chain of `P` which also belong to the full conflicted
set". -/
def powerEventsWithChains (p : Params) (fetch : Id → Option Event) (F : List Id) : List Id :=
  authClosure fetch F F.length (F.filter (fun id => (fetch id).any (isPowerEvent p)))

/-- Step 1, the ordering: "sort `X` into a list using the reverse topological power ordering" (fails
when the power level of some sender cannot be read). The `getD 0` is unreachable as a default: `pls`
binds every id of `X` when `senderPowers` returned `.ok pls`, and the graph's vertices are `X`. -/
def reversePowerOrdering (p : Params) (fetch : Id → Option Event) (X : List Id) : Except Fail (List Id) :=
  match senderPowers p fetch X with
  | .error x => .error x
  | .ok pls => .ok (lexTopo (powerGraph fetch X) (fun id => ⟨((AL.get pls id).getD 0), tsOf fetch id, id⟩))

/-- Steps 1–5 of the algorithm. `dev = false` is the specification. `dev = true` is the
specification with exactly one documented deviation (finding F4 of the implementation): an event
without mainline ancestor takes the position of the oldest mainline event instead of sorting before
every mainline position. -/
def resolveWith (dev : Bool) (p : Params) (store : List Event) (sets : List StateMap)
    (chains : List (List Id)) : Except Fail StateMap :=
  let fetch := fetchOf store
  let U := unconflicted sets
  if (conflictedSet sets).isEmpty then .ok U else
  let F := fullConflictedSet fetch sets chains
  -- 1. power events of the full conflicted set, enlarged by their auth chains inside it, in
  --    reverse topological power ordering
  let X := powerEventsWithChains p fetch F
  match reversePowerOrdering p fetch X with
  | .error x => .error x
  | .ok sortedX =>
    -- 2. iterative auth checks from the unconflicted state map
    match iterativeAuthChecks p fetch sortedX U with
    | .error x => .error x
    | .ok partial_ =>
      -- 3. the remaining events in mainline ordering of the resolved power levels
      let rest := F.filter (fun id => !X.contains id)
      let P := (AL.get partial_ (tPowerLevels, [])).bind fetch
      let sortedRest := mainlineOrder dev fetch (store.length + 1) P rest
      -- 4. iterative auth checks on the partial state
      match iterativeAuthChecks p fetch sortedRest partial_ with
      | .error x => .error x
      | .ok resolved =>
        -- 5. unconflicted entries replace whatever the checks produced
        .ok (U.foldl (fun m kv => AL.insert m kv.1 kv.2) resolved)

/-- State resolution v2. -/
def resolveV2 := resolveWith false

/-- State resolution v2 with the F4 deviation. -/
def resolveV2F4 := resolveWith true

end Ruma.Spec.StateResV2
