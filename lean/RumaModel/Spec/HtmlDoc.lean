/-
  Documents of the allow-list grammar, and the documented rewriting of deprecated markup
  (`font` → `span` with `color` → `data-mx-color`, `strike` → `s`), in the words of the Matrix
  specification's lists (`Spec/HtmlAllow.lean`). Vocabulary of the C15 theorems.
-/
import RumaModel.Spec.HtmlAllow
import RumaModel.Spec.HtmlPolicy
namespace Ruma.Spec.HtmlDoc
open Ruma Ruma.Html Ruma.Spec.HtmlAllow Ruma.Spec.HtmlPolicy

/-- One element of the allow-list grammar, `d` element ancestors deep: a permitted tag (not
`mx-reply` when the reply fallback is to be removed) within the depth limit, carrying only
HTML attributes (no namespace) permitted for it, URI attributes with a permitted scheme, `code` classes of the form
`language-…`. -/
def ElemFine (m : Mode) (removeReply : Bool) (d : Nat) (n : Str) (as : List Attr) : Prop :=
  elemAllowed n = true ∧ (removeReply = true → n ≠ replyName) ∧ d < maxDepth ∧
  ∀ a ∈ as, a.ns = [] ∧ attrAllowed n a.name = true ∧ valueAllowed m n a.name a.value = true ∧
    (a.name = className → ∀ cl ∈ splitWs a.value, classAllowed n cl = true)

/-- A well-nested document built only from allowed elements, attributes, schemes and classes
within the depth limit (trees are well nested by construction), without comments. -/
def Allowed (m : Mode) (removeReply : Bool) (d : Nat) (f : List Node) : Prop :=
  AllElemsL (ElemFine m removeReply) d f ∧ NoOtherL f

/-- Executable form of `ElemFine` (used by the driver to recognise grammar documents). -/
def elemFineB (m : Mode) (removeReply : Bool) (d : Nat) (n : Str) (as : List Attr) : Bool :=
  elemAllowed n && !(removeReply && n == replyName) && decide (d < maxDepth) &&
  as.all (fun a => a.ns.isEmpty && attrAllowed n a.name && valueAllowed m n a.name a.value &&
    (a.name != className || (splitWs a.value).all (classAllowed n)))

mutual
def allowedNodeB (m : Mode) (removeReply : Bool) (d : Nat) : Node → Bool
  | .elem n as cs => elemFineB m removeReply d n as && allowedB m removeReply (d + 1) cs
  | .text _ => true
  | .other => false
/-- Executable form of `Allowed`. -/
def allowedB (m : Mode) (removeReply : Bool) (d : Nat) : List Node → Bool
  | [] => true
  | n :: t => allowedNodeB m removeReply d n && allowedB m removeReply d t
end

/-- Deprecated attributes of an element renamed to their replacements; the attribute set is
collected again (two attributes that become equal are one). -/
def rewriteAttrs (el : Str) (as : List Attr) : List Attr :=
  match mapGet deprecatedAttrs el with
  | some r => setCollect (as.map (fun a =>
      match mapGet r a.name with
      | some n => { a with name := n }
      | none => a))
  | none => as

mutual
/-- Deprecated elements and attributes rewritten to their documented replacements throughout;
children and all other attributes untouched. -/
def rewriteDeprecated : Node → Node
  | .elem n as cs => .elem (elemReplacement n) (rewriteAttrs n as) (rewriteDeprecatedL cs)
  | .text s => .text s
  | .other => .other
def rewriteDeprecatedL : List Node → List Node
  | [] => []
  | n :: t => rewriteDeprecated n :: rewriteDeprecatedL t
end

end Ruma.Spec.HtmlDoc
