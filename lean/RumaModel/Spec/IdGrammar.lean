/-
  C10 — specification side: what an accepted Matrix identifier must look like (`struct*`, the
  *required structure* of the property statement) and the grammars the Matrix specification
  recommends (`gram*`), as decidable predicates on byte strings.

  Sources: Matrix spec, Appendices §"Server name", §"Common identifier format", §"User identifiers",
  §"Room IDs", §"Event IDs", §"Room aliases"; Client-Server API §"Matrix Content (mxc://) URIs"
  (media id `[A-Za-z0-9_-]+`), §"Room versions" (at most 32 code points, `[a-zA-Z0-9.-]`);
  Server-Server API §"Retrieving server keys" (key id `algorithm:version`, version `[a-zA-Z0-9_]`).

      server_name = hostname [ ":" port ]          port     = 1*5DIGIT
      hostname    = IPv4address / "[" IPv6address "]" / dns-name
      IPv6address = 2*45IPv6char                   IPv6char = DIGIT / %x41-46 / %x61-66 / ":" / "."
      dns-name    = 1*255dns-char                  dns-char = DIGIT / ALPHA / "-" / "."
      user_id     = "@" 1*user_id_char ":" server_name      (at most 255 bytes)
      user_id_char = DIGIT / %x61-7A / "-" / "." / "=" / "_" / "/" / "+"

  Nothing here mentions how the code finds separators: a string has the structure iff *some* way of
  cutting it into the parts exists. Whether a bracketed literal is an IPv6 address is the parameter
  `v6` (Rust's `Ipv6Addr` parser on the code side).
-/
import RumaModel.Model.Json
namespace Ruma.Spec.IdGrammar
open Ruma

/-- The identifier types of C10. -/
inductive Kind where
  | user | room | alias | roomOrAlias | event | server
  | keyAny | keyVersion | keyBase64 | mxc
  | roomVersion | signingKeyVersion | base64PublicKey | clientSecret | sessionId
  deriving Repr, DecidableEq

def digit (b : Nat) : Bool := decide (48 ≤ b ∧ b ≤ 57)
def lower (b : Nat) : Bool := decide (97 ≤ b ∧ b ≤ 122)
def upper (b : Nat) : Bool := decide (65 ≤ b ∧ b ≤ 90)
def alnum (b : Nat) : Bool := digit b || lower b || upper b
def oneOf (cs : String) (b : Nat) : Bool := (bs cs).contains b

/-- Every way of cutting `s` into a front and a back part. -/
def splits (s : Str) : List (Str × Str) :=
  (List.range (s.length + 1)).map (fun i => (s.take i, s.drop i))

/-- `s = front ++ [sep] ++ back` for some cut with `front` and `back` satisfying `p`, `q`. -/
def cutAt (sep : Nat) (p q : Str → Bool) (s : Str) : Bool :=
  (splits s).any (fun fb => match fb.2 with
    | c :: back => c == sep && p fb.1 && q back
    | [] => false)

def nonEmptyAll (p : Nat → Bool) (s : Str) : Bool := !s.isEmpty && s.all p

/-! ### Server names -/

def dnsChar (b : Nat) : Bool := alnum b || oneOf "-." b
def ipv6Char (b : Nat) : Bool := digit b || decide (65 ≤ b ∧ b ≤ 70) || decide (97 ≤ b ∧ b ≤ 102) || oneOf ":." b

/-- `1*5DIGIT` -/
def isPort (p : Str) : Bool := decide (1 ≤ p.length ∧ p.length ≤ 5) && p.all digit

/-- `"[" c "]"` with `c` satisfying `q`. -/
def bracketed (q : Str → Bool) (h : Str) : Bool :=
  match h with
  | 91 :: r => r.getLast? = some 93 && q r.dropLast
  | _ => false

/-- Required structure of a host: a non-empty name of letters, digits, `-`, `.` (this covers IPv4
literals) or a bracketed IPv6 literal. -/
def structHost (v6 : Str → Bool) (h : Str) : Bool := nonEmptyAll dnsChar h || bracketed v6 h

/-- Recommended grammar of a host. -/
def gramHost (v6 : Str → Bool) (h : Str) : Bool :=
  (nonEmptyAll dnsChar h && decide (h.length ≤ 255))
    || bracketed (fun c => decide (2 ≤ c.length ∧ c.length ≤ 45) && c.all ipv6Char && v6 c) h

/-- host, optionally followed by `":" port`. -/
def withPort (host : Str → Bool) (s : Str) : Bool := host s || cutAt 58 host isPort s

def structServerName (v6 : Str → Bool) : Str → Bool := withPort (structHost v6)
def gramServerName (v6 : Str → Bool) : Str → Bool := withPort (gramHost v6)

/-- The numeric value of the port of a server name in the grammar exceeds `u16::MAX`; such server
names are in the specification's grammar but are rejected (known finding F10d). -/
def portValue (p : Str) : Nat := p.foldl (fun acc b => acc * 10 + (b - 48)) 0

def portTooBig (host : Str → Bool) (s : Str) : Bool :=
  cutAt 58 host (fun p => isPort p && decide (portValue p > 65535)) s

/-! ### Sigil identifiers -/

/-- No NUL and no colon. -/
def localpartOk (lp : Str) : Bool := lp.all (fun b => b != 0 && b != 58)

def userIdChar (b : Nat) : Bool := digit b || lower b || oneOf "-.=_/+" b

/-- `sigil lp ":" server`. -/
def delimited (sigil : Nat) (lp server : Str → Bool) (s : Str) : Bool :=
  match s with
  | c :: rest => c == sigil && cutAt 58 lp server rest
  | [] => false

def max255 (s : Str) : Bool := decide (s.length ≤ 255)

def base64Char (b : Nat) : Bool := alnum b || oneOf "+/" b
def base64UrlChar (b : Nat) : Bool := alnum b || oneOf "-_" b
/-- `sigil` followed by 43 base64 characters (unpadded SHA-256): room versions 3 (standard alphabet)
and 4+ (URL-safe alphabet). -/
def hashId (sigil : Nat) (s : Str) : Bool :=
  match s with
  | c :: h => c == sigil && decide (h.length = 43) && (h.all base64Char || h.all base64UrlChar)
  | [] => false

def graphic (b : Nat) : Bool := decide (33 ≤ b ∧ b ≤ 126)

/-! ### Key identifiers, MXC URIs -/

/-- The ASCII characters of `s` are in `set`. (The opaque identifier types below are ASCII sets in
the specification; the code asks Unicode `char::is_alphanumeric`, so non-ASCII letters and digits
pass — the required structure only speaks about the ASCII characters.) -/
def asciiIn (set : Nat → Bool) (s : Str) : Bool := s.all (fun b => decide (128 ≤ b) || set b)

def keyVersionChar (b : Nat) : Bool := alnum b || b == 95
def base64PadChar (b : Nat) : Bool := alnum b || oneOf "+/=" b
def secretChar (b : Nat) : Bool := alnum b || oneOf ".=_-" b
def roomVersionChar (b : Nat) : Bool := alnum b || oneOf ".-" b

def keyNameStruct : Kind → Str → Bool
  | .keyVersion, n => !n.isEmpty && asciiIn keyVersionChar n
  | .keyBase64, n => !n.isEmpty && asciiIn base64PadChar n
  | _, _ => true

def keyNameGram : Kind → Str → Bool
  | .keyVersion, n => nonEmptyAll (fun b => alnum b || b == 95) n
  | .keyBase64, n => nonEmptyAll base64Char n
  | _, n => nonEmptyAll (fun b => graphic b && b != 58) n

def mediaChar (b : Nat) : Bool := alnum b || oneOf "-_" b

def mxc (server media : Str → Bool) (s : Str) : Bool :=
  s.take 6 == bs "mxc://" && cutAt 47 server media (s.drop 6)

/-- Code points of a UTF-8 string: bytes that are not continuation bytes. -/
def codePoints (s : Str) : Nat := (s.filter (fun b => !decide (128 ≤ b ∧ b < 192))).length

/-! ### The two predicates per identifier type -/

def structAlias (v6 : Str → Bool) (s : Str) : Bool :=
  max255 s && delimited 35 localpartOk (structServerName v6) s
def structRoom (s : Str) : Bool := max255 s && s.head? = some 33 && s.all (· != 0)
def gramAlias (v6 : Str → Bool) (s : Str) : Bool :=
  max255 s && delimited 35 (fun lp => !lp.isEmpty && localpartOk lp) (gramServerName v6) s
def gramRoom (v6 : Str → Bool) (s : Str) : Bool :=
  max255 s
    && (delimited 33 (fun lp => !lp.isEmpty && localpartOk lp) (gramServerName v6) s || hashId 33 s)

/-- Required structure: an accepted identifier of kind `k` must satisfy this. -/
def struct (v6 : Str → Bool) : Kind → Str → Bool
  | .server, s => structServerName v6 s
  | .user, s => max255 s && delimited 64 localpartOk (structServerName v6) s
  | .alias, s => structAlias v6 s
  | .room, s => structRoom s
  | .roomOrAlias, s => structRoom s || structAlias v6 s
  | .event, s => max255 s && s.head? = some 36
      && (s.all (· != 58) || delimited 36 (fun lp => lp.all (· != 58)) (structServerName v6) s)
  | .mxc, s => mxc (structServerName v6) (fun m => m.all mediaChar) s
  | .roomVersion, s => nonEmptyAll roomVersionChar s && decide (codePoints s ≤ 32)
  | .signingKeyVersion, s => !s.isEmpty && asciiIn keyVersionChar s
  | .base64PublicKey, s => !s.isEmpty && asciiIn base64PadChar s
  | .clientSecret, s => !s.isEmpty && max255 s && asciiIn secretChar s
  | .sessionId, s => nonEmptyAll secretChar s && max255 s
  | k, s => cutAt 58 (fun alg => !alg.isEmpty && alg.all (· != 58)) (keyNameStruct k) s

/-- Recommended grammar: every identifier of kind `k` satisfying this must be accepted. -/
def gram (v6 : Str → Bool) : Kind → Str → Bool
  | .server, s => gramServerName v6 s
  | .user, s => max255 s && delimited 64 (nonEmptyAll userIdChar) (gramServerName v6) s
  | .alias, s => gramAlias v6 s
  | .room, s => gramRoom v6 s
  | .roomOrAlias, s => gramRoom v6 s || gramAlias v6 s
  | .event, s => max255 s
      && (delimited 36 (fun lp => !lp.isEmpty && localpartOk lp) (gramServerName v6) s || hashId 36 s)
  | .mxc, s => mxc (gramServerName v6) (nonEmptyAll mediaChar) s
  | .roomVersion, s => nonEmptyAll (fun b => alnum b || oneOf ".-" b) s && decide (s.length ≤ 32)
  | .signingKeyVersion, s => nonEmptyAll (fun b => alnum b || b == 95) s
  | .base64PublicKey, s => nonEmptyAll base64Char s
  | .clientSecret, s => nonEmptyAll (fun b => alnum b || oneOf ".=_-" b) s && max255 s
  | .sessionId, s => nonEmptyAll (fun b => alnum b || oneOf ".=_-" b) s && max255 s
  | k, s => cutAt 58 (nonEmptyAll (fun b => lower b || digit b || oneOf "_." b)) (keyNameGram k) s

/-- The one excluded case of `grammar_implies_accept`: the server-name component of `s` carries a
port whose value does not fit `u16`. (Room IDs are not affected: their server part is not parsed.) -/
def hasBigPort (v6 : Str → Bool) : Kind → Str → Bool
  | .server, s => portTooBig (gramHost v6) s
  | .user, s => delimited 64 (fun _ => true) (portTooBig (gramHost v6)) s
  | .alias, s => delimited 35 (fun _ => true) (portTooBig (gramHost v6)) s
  | .roomOrAlias, s => delimited 35 (fun _ => true) (portTooBig (gramHost v6)) s
  | .event, s => delimited 36 (fun _ => true) (portTooBig (gramHost v6)) s
  | .mxc, s => mxc (portTooBig (gramHost v6)) (fun _ => true) s
  | _, _ => false

/-- The same exclusion on the structure side (`structHost` instead of `gramHost`), for the converse
"required structure ⇒ accepted". -/
def structBigPort (v6 : Str → Bool) : Kind → Str → Bool
  | .server, s => portTooBig (structHost v6) s
  | .user, s => delimited 64 (fun _ => true) (portTooBig (structHost v6)) s
  | .alias, s => delimited 35 (fun _ => true) (portTooBig (structHost v6)) s
  | .roomOrAlias, s => delimited 35 (fun _ => true) (portTooBig (structHost v6)) s
  | .event, s => delimited 36 (fun _ => true) (portTooBig (structHost v6)) s
  | .mxc, s => mxc (portTooBig (structHost v6)) (fun _ => true) s
  | _, _ => false

end Ruma.Spec.IdGrammar
