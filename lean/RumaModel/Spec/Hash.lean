/-
  Specification side for C05, written from the Matrix specification:

  * Server-Server API, "Calculating the content hash for an event": remove `unsigned`, `signatures`
    and `hashes`, encode as canonical JSON, SHA-256.
  * Server-Server API, "Calculating the reference hash for an event": redact the event (room
    version's algorithm), remove `signatures` and `unsigned`, canonical JSON, SHA-256.
  * Room versions 1–2: event IDs are `$opaque:server`; room version 3: `$` + the reference hash as
    unpadded base64 (RFC 4648 §4 alphabet); room version 4 onwards: `$` + the reference hash as
    unpadded URL-safe base64 (RFC 4648 §5 alphabet).
  * "Size limits": a PDU's canonical form must not exceed 65 535 bytes.

  Redaction is the spec table of `Spec/Redaction.lean` (C04); canonical JSON is `Canonical.encodeObj`
  (C01). Nothing here mentions `RedactionRules`, `EventIdFormatVersion` or the order in which the
  code removes keys.
-/
import RumaModel.Model.Json
import RumaModel.Model.Canonical
import RumaModel.Spec.Redaction
namespace Ruma.Spec.Hash
open Ruma Ruma.Canonical Ruma.Spec.Redaction

/-- The object without the listed keys. -/
def without (o : Obj) (ks : List Str) : Obj := o.filter (fun p => !ks.contains p.1)

/-- The bytes the content hash is taken over. -/
def contentPreimage (e : Obj) : List Nat :=
  encodeObj (without e [bs "unsigned", bs "signatures", bs "hashes"])

/-- The redacted form of an event of type `ty` in room version `v`: keep the top-level keys the
version's table keeps and replace an object-valued `content` by its redacted form. -/
def redacted (v : Nat) (ty : Str) (e : Obj) : Obj :=
  (e.filter (fun p => topKept v p.1)).map (fun p =>
    if p.1 = bs "content" then
      (match p.2 with
       | .obj c => (p.1, .obj (redactedContent v ty c))
       | _ => p)
    else p)

/-- The bytes the reference hash is taken over. -/
def referencePreimage (v : Nat) (ty : Str) (e : Obj) : List Nat :=
  encodeObj (without (redacted v ty e) [bs "signatures", bs "unsigned"])

/-- "The complete event MUST NOT be larger than 65535 bytes, when formatted with the federation
event format" — the code applies the limit to the bytes that are hashed. -/
def maxPdu : Nat := 65535

/-- RFC 4648 §4. -/
def rfc4648Standard : Str := bs "ABCDEFGHIJKLMNOPQRSTUVWXYZabcdefghijklmnopqrstuvwxyz0123456789+/"

/-- RFC 4648 §5 ("URL and Filename safe"). -/
def rfc4648UrlSafe : Str := bs "ABCDEFGHIJKLMNOPQRSTUVWXYZabcdefghijklmnopqrstuvwxyz0123456789-_"

/-- Does room version `v` write reference hashes with the URL-safe alphabet? From version 4. -/
def urlSafeFrom (v : Nat) : Bool := decide (4 ≤ v)

/-- Event-ID format generation per room version: 1 = `$opaque:server` (v1, v2), 2 = `$` + standard
base64 reference hash (v3), 3 = `$` + URL-safe base64 reference hash (v4 onwards). -/
def eventIdFormat (v : Nat) : Nat := if v ≤ 2 then 1 else if v = 3 then 2 else 3

/-- Event IDs (room version pages, "Event IDs" / "Event format"). Room versions 1 and 2: the ID is
`$opaque:server`, assigned by the origin server — not a function of the event (`none`). Room
version 3: "the event ID is the reference hash of the event encoded using Unpadded Base64, prefixed
with `$`"; room version 4 onwards the same with the URL-safe alphabet. `refHashB64` is the base64
text of the reference hash in the version's alphabet (`urlSafeFrom`). -/
def eventIdOf (v : Nat) (refHashB64 : Str) : Option Str :=
  if eventIdFormat v = 1 then none else some (36 :: refHashB64)

end Ruma.Spec.Hash
