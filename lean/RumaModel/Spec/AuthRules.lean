/-
  The Matrix authorization rules, rule by rule, for room versions 1–11.

  Source: Matrix specification, "Authorization rules" of each room version
  (spec.matrix.org/v1.14/rooms/v1 … /rooms/v11, section "Authorization rules"; the server-server
  API section "Authorization rules" points there), together with the definitions they use:
  `m.room.power_levels` (client-server API, defaults of each level and of a user's level),
  "m.room.power_levels events accept values as strings" (room versions 1–9) and "Values in
  m.room.power_levels events must be integers" (room version 10), `m.room.create`
  (`creator`, `m.federate`), and room version 11 "the room creator is the sender of m.room.create".
  Numbering below is that of room version 11 with the rules that only exist in older versions
  inserted where those versions have them ("4a" = the `m.room.aliases` rule of v1–v5, "10a" = the
  `m.room.redaction` rule of v1–v2).

  The rules are parameterised by the room version number `v` (1–11), never by implementation
  flags. `st` is the room state the event is authorized against.

  Readings recorded (the spec text leaves these open; they are part of the trusted reading):

  R1. Unreadable content. The rules talk about values (`membership`, `join_rule`, levels, `creator`,
      `m.federate`, …) without saying what happens when the JSON does not have the shape the event
      schema prescribes. Reading used: a property is read as a whole when a rule that mentions it
      is reached; if it cannot be read (`none` below) the event is rejected. Properties are read
      at the granularity of the schema: `users`, `events`, `notifications` are each one map.
  R2. Integers are canonical-JSON integers (−(2^53−1) … 2^53−1) in every room version.
  R3. "added, changed or removed" (rule 9.5) compares an absent property through its default
      value (DESIGN.md §6 C08); the alternative "absent = no constraint" differs only when a property
      is removed or added at a value its default already exceeds.
  R4. Without an `m.room.power_levels` event the level required for a state event is 50 (the value
      `state_default` takes "if unspecified"), as Synapse and ruma do; the prose of
      `m.room.power_levels` ("if the room contains no m.room.power_levels event, the state_default
      is 0") is not followed. All other defaults are as in that prose: creator 100 / others 0
      without a power-levels event; `users_default` 0, `events_default` 0, `invite` 0, `kick` `ban`
      `redact` 50.
  R5. Rules 9.1–9.3 (shape of a new power-levels content) are applied in every room version, with
      string-encoded integers admitted before version 10 (the v1–v9 text only spells out 9.3).
  R6. Rule 2.1–2.3 (duplicates / unexpected / rejected entries among `auth_events`) are checks on
      the event graph performed on receipt of a PDU and are outside `auth_check`'s inputs; only
      2.4 is stated here. Rule 1.3 (`room_version` recognised) holds by having a version number.
      Rule 4.2 (signature of the authorising server, v8+) is part of signature verification (C03).
  R7. The Ed25519 test "signature matches public key" of rule 4.4.1.7 is the oracle
      `Event.tpiVerified` (trusted base: Ed25519).
  R8. Positional form of one-property objects. `signedOf` accepts, besides the object
      `{"signed": x, …}`, the one-element array `[x]` as the value of `content.third_party_invite`,
      and `publicKeysOf` accepts, besides `{"public_key": k, …}`, the one-element array `[k]` as
      an entry of `public_keys`. The specification knows only the object forms. The array forms
      are what a serde-derived `Deserialize` for a struct with a single required field also
      accepts (a struct may be given as a sequence of its fields), i.e. they are an artefact of the
      implementation's JSON reader, adopted here so that "unreadable" (R1) means the same on both
      sides; on these inputs the specification side follows the code, not the specification
      text. The harness generator produces both array forms (`h-c08/src/gen.rs`), so the agreement on them is checked;
      that accepting them is *right* is not claimed.

  Apart from R8, nothing here mentions the code under test.
-/
import RumaModel.Model.Event
import RumaModel.Model.Canonical
namespace Ruma.Spec.Auth
open Ruma Ruma.Ident

/-- What a rule says about an event. `next` = this rule does not decide. -/
inductive Verdict where
  | allow | reject | next
  deriving DecidableEq, Repr

/-- Reading a value out of JSON content; `none` = unreadable (R1). -/
abbrev Read := Option

/-- R1: an event for which a rule needs an unreadable value is rejected. -/
def orReject : Read Verdict → Verdict
  | some v => v
  | none => .reject

/-! ## Which variant of a rule a room version has -/

/-- v1–v2 have the `m.room.redaction` rule. -/
def hasRedactionRule (v : Nat) : Bool := v ≤ 2
/-- v1–v5 have the `m.room.aliases` rule. -/
def hasAliasesRule (v : Nat) : Bool := v ≤ 5
/-- v6+: strict canonical JSON, and `notifications` is covered by rules 9.6 / 9.7. -/
def strictCanonicalJson (v : Nat) : Bool := 6 ≤ v
def notificationsChecked (v : Nat) : Bool := 6 ≤ v
/-- v7+: `knock` membership and join rule. -/
def hasKnock (v : Nat) : Bool := 7 ≤ v
/-- v8+: `restricted` join rule. -/
def hasRestricted (v : Nat) : Bool := 8 ≤ v
/-- v10+: `knock_restricted` join rule; power levels must be integers. -/
def hasKnockRestricted (v : Nat) : Bool := 10 ≤ v
def integersOnly (v : Nat) : Bool := 10 ≤ v
/-- v11: the room creator is the sender of `m.room.create`; `creator` is no longer required. -/
def creatorIsCreateSender (v : Nat) : Bool := 11 ≤ v

/-- The flags an implementation needs per version, derived from the above (for T1). -/
def rulesOf (v : Nat) : AuthRules where
  specialCaseRoomRedaction := hasRedactionRule v
  specialCaseRoomAliases := hasAliasesRule v
  strictCanonicalJson := strictCanonicalJson v
  limitNotificationsPowerLevels := notificationsChecked v
  knocking := hasKnock v
  restrictedJoinRule := hasRestricted v
  knockRestrictedJoinRule := hasKnockRestricted v
  integerPowerLevels := integersOnly v
  useRoomCreateSender := creatorIsCreateSender v

def versions : List Nat := [1, 2, 3, 4, 5, 6, 7, 8, 9, 10, 11]

/-! ## Reading event contents -/

def strProp (c : Obj) (k : Str) : Read Str :=
  match Obj.get c k with
  | some (.str s) => some s
  | _ => none

/-- An optional user-id property: absent (or `null`) / a valid user id / unreadable. -/
def optUserIdProp (c : Obj) (k : Str) : Read (Option Str) :=
  match Obj.get c k with
  | none => some none
  | some .null => some none
  | some (.str s) => if validUserId s then some (some s) else none
  | some _ => none

/-- Current membership of a user: `leave` when there is no `m.room.member` event for them. -/
def membershipOf (st : Fetch) (user : Str) : Read Str :=
  match st (bs "m.room.member") user with
  | some e => strProp e.content (bs "membership")
  | none => some (bs "leave")

/-- The room's `join_rule`; there is no default in the rules. -/
def joinRuleOf (st : Fetch) : Read Str :=
  match st (bs "m.room.join_rules") [] with
  | some e => strProp e.content (bs "join_rule")
  | none => none

/-- `m.federate` of the create event: `true` unless set. -/
def federates (create : Event) : Read Bool :=
  match Obj.get create.content (bs "m.federate") with
  | none => some true
  | some .null => some true
  | some (.bool b) => some b
  | some _ => none

/-- The room creator: `content.creator` of `m.room.create` (v1–v10), its `sender` (v11). -/
def creatorOf (v : Nat) (create : Event) : Read Str :=
  if creatorIsCreateSender v then some create.sender
  else
    match Obj.get create.content (bs "creator") with
    | some (.str s) => if validUserId s then some s else none
    | _ => none

/-- "content has a `creator` property" (rule 1.4 of v1–v10). -/
def hasCreatorProp (c : Obj) : Bool :=
  match Obj.get c (bs "creator") with
  | none => false
  | some .null => false
  | some _ => true

/-! ## Power levels -/

def maxLevel : Int := 9007199254740991

def levelInRange (i : Int) : Bool := decide (-maxLevel ≤ i) && decide (i ≤ maxLevel)

/-- "m.room.power_levels events accept values as strings" (v1–v9): a base-10 integer, optionally
with leading zeros, optionally prefixed with a single `-` or `+`, optionally surrounded by
white space. -/
def integerString (s : Str) : Read Int := signedDecimal (trim s)

/-- A power level value in room version `v` (R2). -/
def levelValue (v : Nat) (j : JVal) : Read Int :=
  match j with
  | .int i => if levelInRange i then some i else none
  | .str s =>
    if integersOnly v then none
    else (integerString s).bind fun i => if levelInRange i then some i else none
  | _ => none

/-- One of the seven integer properties: `none` inside = not specified. -/
def levelProp (v : Nat) (c : Obj) (name : Str) : Read (Option Int) :=
  match Obj.get c name with
  | none => some none
  | some j => (levelValue v j).map some

def levelPropOr (v : Nat) (c : Obj) (name : Str) (dflt : Int) : Read Int :=
  (levelProp v c name).map (·.getD dflt)

def levelEntries (v : Nat) (keyOk : Str → Bool) : List (Str × JVal) → Read (List (Str × Int))
  | [] => some []
  | (k, j) :: t =>
    if keyOk k then
      (levelValue v j).bind fun i => (levelEntries v keyOk t).map ((k, i) :: ·)
    else none

/-- One of the map properties (`users`, `events`, `notifications`): `none` inside = not specified. -/
def levelMap (v : Nat) (c : Obj) (name : Str) (keyOk : Str → Bool) : Read (Option (List (Str × Int))) :=
  match Obj.get c name with
  | none => some none
  | some (.obj kvs) => (levelEntries v keyOk kvs).map some
  | some _ => none

def usersMap (v : Nat) (c : Obj) := levelMap v c (bs "users") validUserId
def eventsMap (v : Nat) (c : Obj) := levelMap v c (bs "events") (fun _ => true)
def notificationsMap (v : Nat) (c : Obj) := levelMap v c (bs "notifications") (fun _ => true)

/-- Entry of a map property (keys of a JSON object are unique). -/
def entry (m : Option (List (Str × Int))) (k : Str) : Option Int :=
  match m with
  | some l => Obj.get l k
  | none => none

/-- The names and defaults of the seven integer properties. -/
def intProps : List (Str × Int) :=
  [(bs "users_default", 0), (bs "events_default", 0), (bs "state_default", 50), (bs "ban", 50),
   (bs "redact", 50), (bs "kick", 50), (bs "invite", 0)]

/-- A user's power level: their entry in `users`, else `users_default`, else 0; without a
power-levels event the creator has 100 and everybody else 0. -/
def userLevel (v : Nat) (pl : Option Event) (creator user : Str) : Read Int :=
  match pl with
  | none => some (if user = creator then 100 else 0)
  | some e =>
    (usersMap v e.content).bind fun users =>
      match entry users user with
      | some l => some l
      | none => levelPropOr v e.content (bs "users_default") 0

/-- The level named `name` (`invite`, `kick`, `ban`, `redact`), with its default. -/
def namedLevel (v : Nat) (pl : Option Event) (name : Str) (dflt : Int) : Read Int :=
  match pl with
  | none => some dflt
  | some e => levelPropOr v e.content name dflt

/-- The level required to send an event of a type: its entry in `events`, else `state_default`
(50) for state events and `events_default` (0) otherwise (R4). -/
def requiredLevel (v : Nat) (pl : Option Event) (type : Str) (isState : Bool) : Read Int :=
  let name := if isState then bs "state_default" else bs "events_default"
  let dflt : Int := if isState then 50 else 0
  match pl with
  | none => some dflt
  | some e =>
    (eventsMap v e.content).bind fun events =>
      match entry events type with
      | some l => some l
      | none => levelPropOr v e.content name dflt

/-! ## Rule 1 — `m.room.create` -/

def rule1 (v : Nat) (ev : Event) : Verdict :=
  -- 1.1 If it has any `prev_events`, reject.
  if !ev.prevEvents.isEmpty then .reject
  -- 1.2 If the domain of the `room_id` does not match the domain of the `sender`, reject.
  else if roomServer ev.roomId = none || roomServer ev.roomId != userServer ev.sender then .reject
  -- 1.3 `content.room_version` not recognised: R6.
  -- 1.4 (v1–v10) If `content` has no `creator` property, reject.
  else if !creatorIsCreateSender v && !hasCreatorProp ev.content then .reject
  -- 1.5 Otherwise, allow.
  else .allow

/-! ## Rule 4a — `m.room.aliases` (v1–v5) -/

def rule4a (ev : Event) : Verdict :=
  -- 4a.1 If event has no `state_key`, reject.
  match ev.stateKey with
  | none => .reject
  | some k =>
    -- 4a.2 If sender's domain doesn't match `state_key`, reject.
    if some k != userServer ev.sender then .reject
    -- 4a.3 Otherwise, allow.
    else .allow

/-! ## Rule 4 — `m.room.member` -/

/-- "a user with sufficient permission to invite other users" (rule 4.3.5.2): joined, and at or
above the invite level. -/
def canInvite (v : Nat) (st : Fetch) (creator user : Str) : Read Bool :=
  (membershipOf st user).bind fun m =>
    if m != bs "join" then some false
    else
      let pl := st (bs "m.room.power_levels") []
      (userLevel v pl creator user).bind fun l =>
      (namedLevel v pl (bs "invite") 0).map fun inviteLevel => decide (l ≥ inviteLevel)

/-- 4.3 `membership` is `join`. -/
def rule4_3 (v : Nat) (ev : Event) (target : Str) (create : Event) (st : Fetch) : Read Verdict :=
  (creatorOf v create).bind fun creator =>
  -- 4.3.1 If the only previous event is an `m.room.create` and the `state_key` is the creator
  --       (v11: the sender of the `m.room.create`), allow.
  if ev.prevEvents = [create.eventId] ∧ target = creator then some .allow
  -- 4.3.2 If the `sender` does not match `state_key`, reject.
  else if ev.sender ≠ target then some .reject
  else
    (membershipOf st ev.sender).bind fun m =>
    -- 4.3.3 If the `sender` is banned, reject.
    if m = bs "ban" then some .reject
    else
      (joinRuleOf st).bind fun jr =>
      -- 4.3.4 If the `join_rule` is `invite` (v7+: or `knock`) then allow if membership state is
      --       `invite` or `join`.
      if (jr = bs "invite" ∨ (hasKnock v = true ∧ jr = bs "knock")) ∧ (m = bs "invite" ∨ m = bs "join") then
        some .allow
      -- 4.3.5 (v8+) If the `join_rule` is `restricted` (v10+: or `knock_restricted`):
      else if (hasRestricted v = true ∧ jr = bs "restricted")
            ∨ (hasKnockRestricted v = true ∧ jr = bs "knock_restricted") then
        -- 4.3.5.1 If membership state is `join` or `invite`, allow.
        if m = bs "join" ∨ m = bs "invite" then some .allow
        else
          -- 4.3.5.2 If the `join_authorised_via_users_server` key in `content` is not a user with
          --         sufficient permission to invite other users, reject.
          -- 4.3.5.3 Otherwise, allow.
          (optUserIdProp ev.content (bs "join_authorised_via_users_server")).bind fun via =>
            match via with
            | none => some .reject
            | some u => (canInvite v st creator u).map fun ok => if ok then .allow else .reject
      -- 4.3.6 If the `join_rule` is `public`, allow.
      else if jr = bs "public" then some .allow
      -- 4.3.7 Otherwise, reject.
      else some .reject

/-- The `signed` object of `content.third_party_invite`: an object of canonical JSON values. -/
def signedOf (tpi : JVal) : Read Obj :=
  let signed := match tpi with
    | .obj o => Obj.get o (bs "signed")
    | .arr [x] => some x       -- the positional form of a one-property object (reading R8)
    | _ => none
  match signed with
  | some (.obj kvs) =>
    match Canonical.normalizeMap kvs with
    | .ok o => some o
    | .error _ => none
  | _ => none

/-- The public keys of an `m.room.third_party_invite` event: `public_key` and every
`public_keys[i].public_key`. -/
def publicKeysOf (c : Obj) : Read (List Str) :=
  let single : Read (List Str) := match Obj.get c (bs "public_key") with
    | none => some []
    | some .null => some []
    | some (.str s) => some [s]
    | some _ => none
  let rec many : List JVal → Read (List Str)
    | [] => some []
    | .obj o :: t => (strProp o (bs "public_key")).bind fun k => (many t).map (k :: ·)
    | .arr [.str k] :: t => (many t).map (k :: ·)   -- positional form (reading R8)
    | _ => none
  let list : Read (List Str) := match Obj.get c (bs "public_keys") with
    | none => some []
    | some (.arr xs) => many xs
    | some _ => none
  single.bind fun a => list.map fun b => a ++ b

/-- The (key id, signature) pairs of one entity of a `signatures` object; entries that are not
strings carry no signature. -/
def entitySignatures (kvs : List (Str × JVal)) : List (Str × Str) :=
  kvs.filterMap fun kv =>
    match kv.2 with
    | .str s => some (kv.1, s)
    | _ => none

/-- All (key id, signature) pairs in a `signatures` object (`{entity: {key id: signature}}`).
Domain: every entity's value is an object. -/
def signaturePairs (sigs : Obj) : List (Str × Str) :=
  sigs.flatMap fun ent =>
    match ent.2 with
    | .obj kvs => entitySignatures kvs
    | _ => []

/-- 4.4.1 `membership` is `invite` and `content` has a `third_party_invite` property. -/
def rule4_4_1 (ev : Event) (tpi : JVal) (target : Str) (st : Fetch) : Read Verdict :=
  -- (the property is read: R1)
  (signedOf tpi).bind fun signed =>
  (membershipOf st target).bind fun tm =>
  -- 4.4.1.1 If target user is banned, reject.
  if tm = bs "ban" then some .reject
  else
    -- 4.4.1.2 If `content.third_party_invite` does not have a `signed` property, reject.
    -- 4.4.1.3 If `signed` does not have `mxid` and `token` properties, reject.
    (strProp signed (bs "token")).bind fun token =>
    (strProp signed (bs "mxid")).bind fun mxid =>
    -- 4.4.1.4 If `mxid` does not match `state_key`, reject.
    if mxid ≠ target then some .reject
    else
      -- 4.4.1.5 If there is no `m.room.third_party_invite` event in the current room state with
      --         `state_key` matching `token`, reject.
      match st (bs "m.room.third_party_invite") token with
      | none => some .reject
      | some te =>
        -- 4.4.1.6 If `sender` does not match `sender` of the `m.room.third_party_invite`, reject.
        if ev.sender ≠ te.sender then some .reject
        else
          (publicKeysOf te.content).bind fun pks =>
          match Obj.get signed (bs "signatures") with
          | some (.obj sigs) =>
            -- 4.4.1.7 If any signature in `signed` matches any public key in the
            --         `m.room.third_party_invite` event, allow.
            if (signaturePairs sigs).any (fun p => pks.any fun pk => ev.tpiVerified.contains (p.1, p.2, pk))
            then some .allow
            -- 4.4.1.8 Otherwise, reject.
            else some .reject
          | _ => none

/-- 4.4 `membership` is `invite`. -/
def rule4_4 (v : Nat) (ev : Event) (target : Str) (create : Event) (st : Fetch) : Read Verdict :=
  match Obj.get ev.content (bs "third_party_invite") with
  | some .null => rule4_4_rest
  | none => rule4_4_rest
  | some tpi => rule4_4_1 ev tpi target st
where
  rule4_4_rest : Read Verdict :=
    (membershipOf st ev.sender).bind fun sm =>
    -- 4.4.2 If the `sender`'s current membership state is not `join`, reject.
    if sm ≠ bs "join" then some .reject
    else
      (membershipOf st target).bind fun tm =>
      -- 4.4.3 If target user's current membership state is `join` or `ban`, reject.
      if tm = bs "join" ∨ tm = bs "ban" then some .reject
      else
        (creatorOf v create).bind fun creator =>
        let pl := st (bs "m.room.power_levels") []
        (userLevel v pl creator ev.sender).bind fun sl =>
        (namedLevel v pl (bs "invite") 0).map fun inviteLevel =>
        -- 4.4.4 If the `sender`'s power level is greater than or equal to the invite level, allow.
        -- 4.4.5 Otherwise, reject.
        if sl ≥ inviteLevel then .allow else .reject

/-- 4.5 `membership` is `leave`. -/
def rule4_5 (v : Nat) (ev : Event) (target : Str) (create : Event) (st : Fetch) : Read Verdict :=
  (membershipOf st ev.sender).bind fun sm =>
  -- 4.5.1 If the `sender` matches `state_key`, allow if and only if that user's current membership
  --       state is `invite`, `join` (v7+: or `knock`).
  if ev.sender = target then
    some (if sm = bs "invite" ∨ sm = bs "join" ∨ (hasKnock v = true ∧ sm = bs "knock") then .allow else .reject)
  -- 4.5.2 If the `sender`'s current membership state is not `join`, reject.
  else if sm ≠ bs "join" then some .reject
  else
    (creatorOf v create).bind fun creator =>
    let pl := st (bs "m.room.power_levels") []
    (membershipOf st target).bind fun tm =>
    (userLevel v pl creator ev.sender).bind fun sl =>
    (namedLevel v pl (bs "ban") 50).bind fun banLevel =>
    -- 4.5.3 If the target user's current membership state is `ban`, and the `sender`'s power level
    --       is less than the ban level, reject.
    if tm = bs "ban" ∧ sl < banLevel then some .reject
    else
      (namedLevel v pl (bs "kick") 50).bind fun kickLevel =>
      (userLevel v pl creator target).map fun tl =>
      -- 4.5.4 If the `sender`'s power level is greater than or equal to the kick level, and the
      --       target user's power level is less than the `sender`'s power level, allow.
      -- 4.5.5 Otherwise, reject.
      if sl ≥ kickLevel ∧ tl < sl then .allow else .reject

/-- 4.6 `membership` is `ban`. -/
def rule4_6 (v : Nat) (ev : Event) (target : Str) (create : Event) (st : Fetch) : Read Verdict :=
  (membershipOf st ev.sender).bind fun sm =>
  -- 4.6.1 If the `sender`'s current membership state is not `join`, reject.
  if sm ≠ bs "join" then some .reject
  else
    (creatorOf v create).bind fun creator =>
    let pl := st (bs "m.room.power_levels") []
    (userLevel v pl creator ev.sender).bind fun sl =>
    (namedLevel v pl (bs "ban") 50).bind fun banLevel =>
    (userLevel v pl creator target).map fun tl =>
    -- 4.6.2 If the `sender`'s power level is greater than or equal to the ban level, and the target
    --       user's power level is less than the `sender`'s power level, allow.
    -- 4.6.3 Otherwise, reject.
    if sl ≥ banLevel ∧ tl < sl then .allow else .reject

/-- 4.7 (v7+) `membership` is `knock`. -/
def rule4_7 (v : Nat) (ev : Event) (target : Str) (st : Fetch) : Read Verdict :=
  (joinRuleOf st).bind fun jr =>
  -- 4.7.1 If the `join_rule` is anything other than `knock` (v10+: or `knock_restricted`), reject.
  if ¬ (jr = bs "knock" ∨ (hasKnockRestricted v = true ∧ jr = bs "knock_restricted")) then some .reject
  -- 4.7.2 If `sender` does not match `state_key`, reject.
  else if ev.sender ≠ target then some .reject
  else
    (membershipOf st ev.sender).map fun sm =>
    -- 4.7.3 If the `sender`'s current membership is not `ban`, `invite`, or `join`, allow.
    -- 4.7.4 Otherwise, reject.
    if sm = bs "ban" ∨ sm = bs "invite" ∨ sm = bs "join" then .reject else .allow

def rule4 (v : Nat) (ev : Event) (create : Event) (st : Fetch) : Verdict :=
  -- 4.1 If there is no `state_key` property, or no `membership` property in `content`, reject.
  match ev.stateKey with
  | none => .reject
  | some target =>
    -- (the state key of a membership event is a user id)
    if !validUserId target then .reject
    else
      match strProp ev.content (bs "membership") with
      | none => .reject
      | some membership =>
        -- 4.2: R6.
        if membership = bs "join" then orReject (rule4_3 v ev target create st)
        else if membership = bs "invite" then orReject (rule4_4 v ev target create st)
        else if membership = bs "leave" then orReject (rule4_5 v ev target create st)
        else if membership = bs "ban" then orReject (rule4_6 v ev target create st)
        else if hasKnock v = true ∧ membership = bs "knock" then orReject (rule4_7 v ev target st)
        -- 4.8 Otherwise, the membership is unknown. Reject.
        else .reject

/-! ## Rule 9 — `m.room.power_levels` -/

/-- A new power-levels content, read as a whole (rules 9.1–9.3, R5). -/
structure Levels where
  ints : List (Str × Option Int)      -- the seven integer properties, in `intProps` order
  events : Option (List (Str × Int))
  notifications : Option (List (Str × Int))
  users : Option (List (Str × Int))

def readInts (v : Nat) (c : Obj) : List (Str × Int) → Read (List (Str × Option Int))
  | [] => some []
  | (name, _) :: t => (levelProp v c name).bind fun x => (readInts v c t).map ((name, x) :: ·)

def keysOf (m : Option (List (Str × Int))) : List Str :=
  match m with
  | some l => l.map (·.1)
  | none => []

/-- Rules 9.6–9.9 for one map property: for every key of either map whose entry differs,
the current value (if any) must not be `tooHigh`, and the new value (if any) must not exceed the
sender's level. -/
def mapChangeOk (cur new : Option (List (Str × Int))) (senderLevel : Int) (curTooHigh : Str → Int → Bool) : Bool :=
  (keysOf cur ++ keysOf new).all fun k =>
    entry cur k = entry new k ||
      ((match entry cur k with
        | some c => !curTooHigh k c
        | none => true) &&
       (match entry new k with
        | some n => decide (n ≤ senderLevel)
        | none => true))

/-- Rule 9.5 for the seven integer properties (R3). -/
def intsChangeOk (v : Nat) (cur : Obj) (new : Obj) (senderLevel : Int) : List (Str × Int) → Read Bool
  | [] => some true
  | (name, dflt) :: t =>
    (levelProp v cur name).bind fun c =>
    (levelProp v new name).bind fun n =>
      if c = n then intsChangeOk v cur new senderLevel t
      -- 9.5.1 If the current value is higher than the `sender`'s current power level, reject.
      -- 9.5.2 If the new value is higher than the `sender`'s current power level, reject.
      else if c.getD dflt > senderLevel ∨ n.getD dflt > senderLevel then some false
      else intsChangeOk v cur new senderLevel t

def rule9 (v : Nat) (ev : Event) (pl : Option Event) (senderLevel : Int) : Read Verdict :=
  -- 9.1 (v10+; R5) If any of the properties `users_default`, `events_default`, `state_default`,
  --     `ban`, `redact`, `kick`, or `invite` in `content` are present and not an integer, reject.
  (readInts v ev.content intProps).bind fun _ =>
  -- 9.2 (v10+; R5) If either of the properties `events` or `notifications` in `content` are present
  --     and not an object with values that are integers, reject.
  (eventsMap v ev.content).bind fun newEvents =>
  (notificationsMap v ev.content).bind fun newNotifications =>
  -- 9.3 If the `users` property in `content` is not an object with keys that are valid user IDs
  --     with values that are integers (v1–v9: or a string that is an integer), reject.
  (usersMap v ev.content).bind fun newUsers =>
  -- 9.4 If there is no previous `m.room.power_levels` event in the room, allow.
  match pl with
  | none => some .allow
  | some cur =>
    -- 9.5 For the properties `users_default`, `events_default`, `state_default`, `ban`, `redact`,
    --     `kick`, `invite` check if they were added, changed or removed. For each found alteration: …
    (intsChangeOk v cur.content ev.content senderLevel intProps).bind fun intsOk =>
    if !intsOk then some .reject
    else
      -- 9.6 For each entry being changed in, or removed from, the `events` (v6+: or `notifications`)
      --     properties: if the current value is greater than the `sender`'s current power level, reject.
      -- 9.7 For each entry being added to, or changed in, the `events` (v6+: or `notifications`)
      --     properties: if the new value is greater than the `sender`'s current power level, reject.
      (eventsMap v cur.content).bind fun curEvents =>
      if !mapChangeOk curEvents newEvents senderLevel (fun _ c => decide (c > senderLevel)) then some .reject
      else
        (if notificationsChecked v then
            (notificationsMap v cur.content).map fun curNotifications =>
              mapChangeOk curNotifications newNotifications senderLevel (fun _ c => decide (c > senderLevel))
          else some true).bind fun notificationsOk =>
        if !notificationsOk then some .reject
        else
          -- 9.8 For each entry being changed in, or removed from, the `users` property, other than the
          --     `sender`'s own entry: if the current value is greater than or equal to the `sender`'s
          --     current power level, reject.
          -- 9.9 For each entry being added to, or changed in, the `users` property: if the new value
          --     is greater than the `sender`'s current power level, reject.
          (usersMap v cur.content).map fun curUsers =>
          if mapChangeOk curUsers newUsers senderLevel (fun u c => u ≠ ev.sender && decide (c ≥ senderLevel))
          -- 9.10 Otherwise, allow.
          then .allow else .reject

/-! ## Rule 10a — `m.room.redaction` (v1–v2) -/

def rule10a (v : Nat) (ev : Event) (pl : Option Event) (senderLevel : Int) : Read Verdict :=
  (namedLevel v pl (bs "redact") 50).map fun redactLevel =>
  -- 10a.1 If the `sender`'s power level is greater than or equal to the redact level, allow.
  if senderLevel ≥ redactLevel then .allow
  -- 10a.2 If the domain of the `event_id` of the event being redacted is the same as the domain of
  --       the `event_id` of the `m.room.redaction`, allow.
  else if eventServer ev.eventId = ev.redacts.bind eventServer then .allow
  -- 10a.3 Otherwise, reject.
  else .reject

/-! ## The rules in order -/

/-- "the event has a `state_key` that starts with an `@` and does not match the `sender`". -/
def stateKeyNamesOtherUser (ev : Event) : Bool :=
  match ev.stateKey with
  | some k => k.head? == some 64 && k != ev.sender
  | none => false


/-- Rules 5–11 (everything after the membership rule). -/
def rules5to11 (v : Nat) (ev : Event) (create : Event) (st : Fetch) : Read Verdict :=
  (membershipOf st ev.sender).bind fun sm =>
  -- 5. If the `sender`'s current membership state is not `join`, reject.
  if sm ≠ bs "join" then some .reject
  else
    (creatorOf v create).bind fun creator =>
    let pl := st (bs "m.room.power_levels") []
    (userLevel v pl creator ev.sender).bind fun senderLevel =>
    -- 6. If type is `m.room.third_party_invite`: allow if and only if `sender`'s current power level
    --    is greater than or equal to the invite level.
    if ev.type = bs "m.room.third_party_invite" then
      (namedLevel v pl (bs "invite") 0).map fun inviteLevel =>
        if senderLevel ≥ inviteLevel then .allow else .reject
    else
      (requiredLevel v pl ev.type ev.stateKey.isSome).bind fun required =>
      -- 7. If the event type's required power level is greater than the `sender`'s power level, reject.
      if required > senderLevel then some .reject
      -- 8. If the event has a `state_key` that starts with an `@` and does not match the `sender`, reject.
      else if stateKeyNamesOtherUser ev then some .reject
      -- 9. If type is `m.room.power_levels`: …
      else if ev.type = bs "m.room.power_levels" then rule9 v ev pl senderLevel
      -- 10a. (v1–v2) If type is `m.room.redaction`: …
      else if hasRedactionRule v = true ∧ ev.type = bs "m.room.redaction" then rule10a v ev pl senderLevel
      -- 11. Otherwise, allow.
      else some .allow

/-- The authorization rules of room version `v` for event `ev` against state `st`. -/
def authorize (v : Nat) (ev : Event) (st : Fetch) : Bool :=
  let verdict : Verdict :=
    -- 1. If type is `m.room.create`: …
    if ev.type = bs "m.room.create" then rule1 v ev
    else
      -- 2. Considering the event's `auth_events`: 2.4 If there is no `m.room.create` event among the
      --    entries, reject. (The create event is the one in the room state; R6.)
      match st (bs "m.room.create") [] with
      | none => .reject
      | some create =>
        if !ev.authEvents.contains create.eventId then .reject
        else
          -- 3. If the `content` of the `m.room.create` event in the room state has the property
          --    `m.federate` set to `false`, and the `sender` domain of the event does not match the
          --    `sender` domain of the create event, reject.
          match federates create with
          | none => .reject
          | some fed =>
            if !fed && userServer create.sender != userServer ev.sender then .reject
            -- 4a. (v1–v5) If type is `m.room.aliases`: …
            else if hasAliasesRule v = true ∧ ev.type = bs "m.room.aliases" then rule4a ev
            -- 4. If type is `m.room.member`: …
            else if ev.type = bs "m.room.member" then rule4 v ev create st
            else orReject (rules5to11 v ev create st)
  verdict = .allow

end Ruma.Spec.Auth
