/-
  Specification side of C02, written from the Matrix specification, Appendices §"Signing JSON"
  (https://spec.matrix.org/latest/appendices/#signing-json):

  * Signing: remove `signatures` and `unsigned`, encode the rest as canonical JSON, sign those bytes,
    encode the signature as unpadded base64, store it under `signatures[entity]["ed25519:<version>"]`,
    keep every other signature and `unsigned`.
  * Checking for a signature of an entity: the `signatures` member must contain the entity; signatures
    with an algorithm that is not supported are ignored, and if none remains the check fails; a
    verification key must be found for each remaining signature; each must decode as base64 and
    verify over the canonical JSON of the object without `signatures` and `unsigned`.
  * `verify_json` asks this for every entity named in `signatures` (the property statement).

  Nothing here mentions how the implementation proceeds. The signature scheme `S` and the base64
  reference functions are the shared parameters of `Model/Sign.lean`.
-/
import RumaModel.Model.Sign
namespace Ruma.Spec.Sign
open Ruma Ruma.Sign

/-- The part of an object that is signed: everything except `signatures` and `unsigned`. -/
def signedContent (obj : Obj) : Obj :=
  obj.filter (fun p => p.1 ≠ bs "signatures" ∧ p.1 ≠ bs "unsigned")

/-- The signed bytes: canonical JSON of the signed content. -/
def signedBytes (obj : Obj) : List Nat := Canonical.encodeObj (signedContent obj)

/-- Key identifiers of the one supported algorithm: `ed25519:<version>`, any version text. -/
def IsEd25519KeyId (keyId : Str) : Prop := ∃ version, keyId = bs "ed25519:" ++ version

/-- `v` is a JSON string that is base64 of a 64-byte signature which the scheme accepts for the
32-byte key `pk` and the message. -/
def ValidSignature (S : SigScheme) (pk : Str) (msg : List Nat) (v : JVal) : Prop :=
  ∃ s raw, v = .str s ∧ unb64 s = some raw ∧ pk.length = 32 ∧ raw.length = 64 ∧
    S.verify pk msg raw = true

/-- "Checking for a signature" of one entity: it has a signature set and a key set; at least one
signature is Ed25519; every Ed25519 signature has its key and is valid. -/
def EntityVerifies (S : SigScheme) (keys : KeyMap) (signatures : Obj) (msg : List Nat) (entity : Str) :
    Prop :=
  ∃ set pks, Obj.get signatures entity = some (.obj set) ∧ Obj.get keys entity = some pks ∧
    (∃ p ∈ set, IsEd25519KeyId p.1) ∧
    ∀ p ∈ set, IsEd25519KeyId p.1 → ∃ pk, Obj.get pks p.1 = some pk ∧ ValidSignature S pk msg p.2

/-- The acceptance condition of `verify_json`: `signatures` is an object and every entity named in
it passes the check, over the object's current signed bytes. -/
def Verifies (S : SigScheme) (keys : KeyMap) (obj : Obj) : Prop :=
  ∃ signatures, Obj.get obj (bs "signatures") = some (.obj signatures) ∧
    ∀ entity ∈ Obj.keys signatures, EntityVerifies S keys signatures (signedBytes obj) entity

/-- The existing `signatures` object (empty if the field is absent). -/
def signaturesOf (obj : Obj) : Obj :=
  match Obj.get obj (bs "signatures") with
  | some (.obj s) => s
  | _ => []

/-- The existing signature set of an entity (empty if absent). -/
def signatureSetOf (obj : Obj) (entity : Str) : Obj :=
  match Obj.get (signaturesOf obj) entity with
  | some (.obj s) => s
  | _ => []

/-- `obj` with `signatures[entity][keyId] = sig`, everything else as it was. -/
def withSignature (obj : Obj) (entity keyId sig : Str) : Obj :=
  Obj.insert obj (bs "signatures")
    (.obj (Obj.insert (signaturesOf obj) entity
      (.obj (Obj.insert (signatureSetOf obj entity) keyId (.str sig)))))

/-- The result of signing: the unpadded base64 Ed25519 signature of the signed bytes, stored under
`signatures[entity]["ed25519:<version>"]`. -/
def signed (S : SigScheme) (entity secret version : Str) (obj : Obj) : Obj :=
  withSignature obj entity (bs "ed25519:" ++ version) (b64 (S.sign secret (signedBytes obj)))

/-- An object can be signed by `entity` iff `signatures` is absent or an object in which the
entity's entry is absent or an object. -/
def Signable (obj : Obj) (entity : Str) : Prop :=
  Obj.get obj (bs "signatures") = none ∨
  ∃ s, Obj.get obj (bs "signatures") = some (.obj s) ∧
    (Obj.get s entity = none ∨ ∃ set, Obj.get s entity = some (.obj set))

end Ruma.Spec.Sign
