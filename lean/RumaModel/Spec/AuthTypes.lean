/-
  Auth events selection, from the Matrix server-server API, "PDUs → Auth events selection"
  (spec.matrix.org/v1.14/server-server-api/#auth-events-selection), with the clarification of
  matrix-spec PR 2100 that the last item applies to `join` membership:

    The `auth_events` for the `m.room.create` event in a room is empty; for other events, it should
    be the following subset of the room state:
      • The `m.room.create` event.
      • The current `m.room.power_levels` event, if any.
      • The sender's current `m.room.member` event, if any.
      • If type is `m.room.member`:
          ◦ The target's current `m.room.member` event, if any.
          ◦ If `membership` is `join`, `invite` or `knock`, the current `m.room.join_rules` event, if any.
          ◦ If `membership` is `invite` and `content` contains a `third_party_invite` property, the
            current `m.room.third_party_invite` event with `state_key` matching
            `content.third_party_invite.signed.token`, if any.
          ◦ If `content.join_authorised_via_users_server` is present, and the room version supports
            restricted rooms, then the `m.room.member` event with `state_key` matching
            `content.join_authorised_via_users_server`.

  The selection is a set of `(type, state_key)` pairs. Reading R1 of `Spec/AuthRules.lean` applies:
  when a property the selection has to look at cannot be read, there is no selection (`none`).
-/
import RumaModel.Spec.AuthRules
namespace Ruma.Spec.AuthTypes
open Ruma Ruma.Spec.Auth

abbrev Key := Str × Str

/-- "the current `m.room.third_party_invite` event with `state_key` matching
`content.third_party_invite.signed.token`" (when `content` contains a `third_party_invite`). -/
def thirdPartyInviteKey (c : Obj) : Read (List Key) :=
  match Obj.get c (bs "third_party_invite") with
  | none => some []
  | some .null => some []
  | some tpi =>
    (signedOf tpi).bind fun signed =>
    (strProp signed (bs "token")).map fun token => [(bs "m.room.third_party_invite", token)]

/-- "the `m.room.member` event with `state_key` matching `content.join_authorised_via_users_server`"
(when that property is present). -/
def authorisingUserKey (c : Obj) : Read (List Key) :=
  (optUserIdProp c (bs "join_authorised_via_users_server")).map fun via =>
    match via with
    | some u => [(bs "m.room.member", u)]
    | none => []

/-- The part of the selection that is specific to `m.room.member` events. -/
def memberSelection (v : Nat) (ev : Event) : Read (List Key) :=
  match ev.stateKey with
  | none => none
  | some target =>
    (strProp ev.content (bs "membership")).bind fun membership =>
    let joinRules : List Key :=
      if membership = bs "join" ∨ membership = bs "invite" ∨ membership = bs "knock"
      then [(bs "m.room.join_rules", [])] else []
    let thirdParty : Read (List Key) :=
      if membership = bs "invite" then thirdPartyInviteKey ev.content else some []
    let authorising : Read (List Key) :=
      if membership = bs "join" ∧ hasRestricted v = true then authorisingUserKey ev.content else some []
    thirdParty.bind fun tp => authorising.map fun au =>
      [(bs "m.room.member", target)] ++ joinRules ++ tp ++ au

/-- The auth events selection of `ev` in room version `v`, as a list of pairs (a set: order and
repetitions carry no meaning). -/
def selection (v : Nat) (ev : Event) : Read (List Key) :=
  if ev.type = bs "m.room.create" then some []
  else
    let base : List Key :=
      [(bs "m.room.create", []), (bs "m.room.power_levels", []), (bs "m.room.member", ev.sender)]
    if ev.type = bs "m.room.member" then (memberSelection v ev).map (base ++ ·)
    else some base

end Ruma.Spec.AuthTypes
