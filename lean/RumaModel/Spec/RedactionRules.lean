/-
  The per-version `RedactionRules` the Matrix spec implies, derived from `Spec.Redaction`
  by asking the spec table the question each boolean answers. `rulesOf v` is what
  `RoomVersionId::V<v>.rules().redaction` must be.
-/
import RumaModel.Model.Redact
import RumaModel.Spec.Redaction
namespace Ruma.Spec.Redaction
open Ruma.Redact

def rulesOf (v : Nat) : Rules where
  keepAliases := contentKept v (bs "m.room.aliases") (bs "aliases")
  keepJoinRulesAllow := contentKept v (bs "m.room.join_rules") (bs "allow")
  keepMemberAuthorised := contentKept v (bs "m.room.member") (bs "join_authorised_via_users_server")
  keepOriginMembershipPrevState := topKept v (bs "origin")
  keepCreateContent := contentKept v (bs "m.room.create") (bs "room_version")
  keepRedactionRedacts := contentKept v (bs "m.room.redaction") (bs "redacts")
  keepPowerLevelsInvite := contentKept v (bs "m.room.power_levels") (bs "invite")
  keepMemberTpiSigned := contentKept v (bs "m.room.member") (bs "third_party_invite")

def versions : List Nat := [1, 2, 3, 4, 5, 6, 7, 8, 9, 10, 11]

end Ruma.Spec.Redaction
