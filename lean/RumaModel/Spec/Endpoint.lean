/-
  Specification side for C16: which path a client uses for an endpoint given the Matrix versions
  the server advertises, which `Authorization` header accompanies a request, and what it means
  for a path argument / an `X-Matrix` header to survive the wire.

  Written from the property statement ("the newest stable path some supported version offers,
  otherwise the unstable path, and an error if every supported version removed the endpoint"),
  the Matrix spec's deprecation policy (https://spec.matrix.org/latest/#deprecation-policy) and
  the client-server / application-service API sections on access tokens
  (https://spec.matrix.org/latest/client-server-api/#using-access-tokens,
   https://spec.matrix.org/latest/application-service-api/#authorization).
  This file does not mention how the code reaches its decision.
-/
import RumaModel.Model.Json
namespace Ruma.Spec.Endpoint

/-- A Matrix version, by release order: `v1.0 ↦ 0`, `v1.1 ↦ 1`, …, `v1.14 ↦ 14`.
A newer release is a superset of every older one. -/
abbrev Version := Nat

abbrev Path := Str

/-- What is known about an endpoint's paths: the unstable paths (the last one is current), the
stable paths each with the version that introduced it, and the version that removed the endpoint. -/
structure History where
  unstable : List Path
  stable : List (Version × Path)
  removed : Option Version
  deriving Repr, DecidableEq

inductive Selection where
  | path (p : Path)
  /-- every supported version has removed the endpoint -/
  | removed
  /-- nothing stable is offered and no unstable path is known -/
  | noPath
  deriving Repr, DecidableEq

/-- Some supported version offers what was introduced in version `a` (`v ≥ a`). -/
def offers (vs : List Version) (a : Version) : Bool := vs.any (fun v => decide (a ≤ v))

/-- Every supported version is at or past the removal. -/
def allRemoved (h : History) (vs : List Version) : Bool :=
  match h.removed with
  | some r => vs.all (fun v => decide (r ≤ v))
  | none => false

/-- The rule, declaratively. -/
inductive Selects (h : History) (vs : List Version) : Selection → Prop
  | removed : allRemoved h vs = true → Selects h vs .removed
  | stable (a : Version) (p : Path) :
      allRemoved h vs = false → (a, p) ∈ h.stable → offers vs a = true →
      (∀ e ∈ h.stable, offers vs e.1 = true → e.1 ≤ a) → Selects h vs (.path p)
  | unstable (p : Path) :
      allRemoved h vs = false → (∀ e ∈ h.stable, offers vs e.1 = false) →
      h.unstable.getLast? = some p → Selects h vs (.path p)
  | noPath :
      allRemoved h vs = false → (∀ e ∈ h.stable, offers vs e.1 = false) →
      h.unstable = [] → Selects h vs .noPath

/-- The offered stable entry with the greatest version (none if nothing is offered). -/
def newestOffered (vs : List Version) : List (Version × Path) → Option (Version × Path)
  | [] => none
  | e :: t =>
    match newestOffered vs t with
    | some b => if offers vs e.1 && decide (b.1 < e.1) then some e else some b
    | none => if offers vs e.1 then some e else none

/-- The rule, executably (answers the check's `c16.spec.*` requests). -/
def select (h : History) (vs : List Version) : Selection :=
  if allRemoved h vs then .removed
  else match newestOffered vs h.stable with
    | some e => .path e.2
    | none =>
      match h.unstable.getLast? with
      | some p => .path p
      | none => .noPath

/-! ### Authorization header -/

/-- How an endpoint authenticates its caller. -/
inductive AuthScheme where
  | none | accessToken | accessTokenOptional | appserviceToken | appserviceTokenOptional
  | serverSignatures
  deriving Repr, DecidableEq

/-- What the caller is willing to send: a user token only where needed, a token always, an
appservice token where an endpoint takes one, or nothing. -/
inductive TokenKind where
  | ifRequired | always | appservice | none
  deriving Repr, DecidableEq

inductive AuthExpect where
  /-- `Authorization: Bearer <token>` -/
  | bearer
  | noHeader
  /-- the endpoint requires a token the caller did not provide -/
  | needsAuth
  deriving Repr, DecidableEq

/-- The 6 × 4 table.
 * An endpoint without authentication gets a token only if the caller insists (`always`).
 * Access-token endpoints take whatever token the caller has; without one the required flavour
   is an error and the optional flavour sends nothing.
 * Appservice-token endpoints take only an appservice token (or an insisting caller's).
 * Server-signature endpoints never carry a bearer token (they are signed with `X-Matrix`). -/
def authExpect : AuthScheme → TokenKind → AuthExpect
  | .none, .always => .bearer
  | .none, _ => .noHeader
  | .accessToken, .none => .needsAuth
  | .accessToken, _ => .bearer
  | .accessTokenOptional, .none => .noHeader
  | .accessTokenOptional, _ => .bearer
  | .appserviceToken, .appservice => .bearer
  | .appserviceToken, .always => .bearer
  | .appserviceToken, _ => .needsAuth
  | .appserviceTokenOptional, .appservice => .bearer
  | .appserviceTokenOptional, .always => .bearer
  | .appserviceTokenOptional, _ => .noHeader
  | .serverSignatures, _ => .noHeader

/-! ### Path arguments on the wire (RFC 3986 §2.1, WHATWG URL "percent-decode") -/

def isHexDigit (b : Nat) : Bool :=
  (48 ≤ b && b ≤ 57) || (65 ≤ b && b ≤ 70) || (97 ≤ b && b ≤ 102)

def hexVal (b : Nat) : Nat :=
  if 48 ≤ b && b ≤ 57 then b - 48 else if 65 ≤ b && b ≤ 70 then b - 55 else b - 87

/-- Percent-decoding as every HTTP router performs it on a path segment: `%XY` with two hex digits
is one byte, anything else stands for itself. (`+` is *not* a space in a path.) -/
def percentDecode : Str → Str
  | [] => []
  | b :: t =>
    let rest := percentDecode t
    if b = 37 then
      match t with
      | x :: y :: t' =>
        if isHexDigit x && isHexDigit y then (16 * hexVal x + hexVal y) :: percentDecode t'
        else b :: rest
      | _ => b :: rest
    else b :: rest

/-- Bytes that may not appear raw in one path segment of an `http::Uri`: controls, space, DEL,
non-ASCII, the segment/query/fragment delimiters `/ ? #`, and `< > \``. -/
def segmentUnsafe (b : Nat) : Bool :=
  b ≤ 32 || 127 ≤ b || b = 47 || b = 63 || b = 35 || b = 60 || b = 62 || b = 96

end Ruma.Spec.Endpoint
