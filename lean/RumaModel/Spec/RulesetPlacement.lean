/-
  Specification side for C13: what an edit of a push ruleset must do, written from the Matrix
  client-server specification ("Push rules: API", `PUT/DELETE /pushrules/…`, parameters `before`,
  `after`) and the documentation of `Ruleset::{insert, remove, set_enabled, set_actions, get}`:

  * rules of one kind form a priority list with unique rule ids;
  * ids starting with `.` belong to the server: such a rule cannot be created, removed, or used
    as a `before`/`after` anchor; ids containing `/` or `\` are invalid;
  * a new rule without anchors becomes the most important rule of its kind — among the overrides
    the second, because `.m.rule.master` is always first (in a shorter list: the last);
  * `after = x`: the rule is placed immediately after rule `x`; `before = x`: immediately before
    rule `x`; both: immediately before `before`, which must come after `after`;
    the anchors are OTHER rules of the same kind (a rule cannot be placed relative to itself);
  * inserting a rule whose id exists replaces it: it keeps its `enabled` flag and, without anchors,
    its place;
  * every other rule keeps its place relative to the others; a failed operation changes nothing.

  Nothing here mentions indices into an `IndexSet`, `move_index` or `replace_full`: placement is
  described by where the rule ends up in the list of the *other* rules.
-/
import RumaModel.Model.Json
namespace Ruma.Ruleset

/-- What the property observes of a push rule: id, `enabled`, `default`, and a tag standing for
its actions (the harness uses the number of actions). -/
structure Rule where
  id : Str
  enabled : Bool
  dflt : Bool
  actions : Nat
  deriving DecidableEq, Repr

/-- The five kinds, in priority order. -/
inductive Kind where
  | override | content | room | sender | underride
  deriving DecidableEq, Repr

/-- A `RuleKind` argument: one of the five kinds or a custom (unknown) kind string. -/
inductive KindArg where
  | known (k : Kind)
  | custom
  deriving DecidableEq, Repr

/-- A ruleset: one priority list per kind (index 0 = most important). -/
structure State where
  override : List Rule
  content : List Rule
  room : List Rule
  sender : List Rule
  underride : List Rule
  deriving DecidableEq, Repr

def State.get (s : State) : Kind → List Rule
  | .override => s.override
  | .content => s.content
  | .room => s.room
  | .sender => s.sender
  | .underride => s.underride

def State.set (s : State) (k : Kind) (l : List Rule) : State :=
  match k with
  | .override => { s with override := l }
  | .content => { s with content := l }
  | .room => { s with room := l }
  | .sender => { s with sender := l }
  | .underride => { s with underride := l }

def State.empty : State := ⟨[], [], [], [], []⟩

/-- The edit operations of the property. -/
inductive Op where
  | insert (k : Kind) (id : Str) (actions : Nat) (after before : Option Str)
  | remove (k : KindArg) (id : Str)
  | setEnabled (k : KindArg) (id : Str) (on : Bool)
  | setActions (k : KindArg) (id : Str) (actions : Nat)
  | get (k : KindArg) (id : Str)
  deriving DecidableEq, Repr

/-- Error classes the property distinguishes: a server-default rule is protected; the id is
invalid; a referenced rule does not exist; `before` does not come after `after`. -/
inductive ErrClass where
  | prot | invalid | unknown | order
  deriving DecidableEq, Repr

inductive Outcome where
  | ok
  | err (c : ErrClass)
  | panic
  | got (r : Option Rule)
  deriving DecidableEq, Repr

end Ruma.Ruleset

namespace Ruma.Spec.RulesetPlacement
open Ruma Ruma.Ruleset

/-- Ids starting with `.` are reserved for server-default rules. -/
def isServerDefaultId : Str → Bool
  | 46 :: _ => true
  | _ => false

def anchorIsServerDefault : Option Str → Bool
  | some a => isServerDefaultId a
  | none => false

/-- `/` and `\` may not occur in a rule id. -/
def hasInvalidChar (id : Str) : Bool := id.contains 47 || id.contains 92

/-- Position (0 = most important) of the rule with this id. -/
def position : List Rule → Str → Option Nat
  | [], _ => none
  | r :: t, id => if r.id = id then some 0 else (position t id).map (· + 1)

def lookup : List Rule → Str → Option Rule
  | [], _ => none
  | r :: t, id => if r.id = id then some r else lookup t id

/-- The other rules: the list without the rule(s) of this id, order kept. -/
def others (l : List Rule) (id : Str) : List Rule := l.filter (fun r => decide (r.id ≠ id))

/-- Put `r` immediately after the rule with id `a`; `none` if there is no such rule. -/
def putAfter (a : Str) (r : Rule) : List Rule → Option (List Rule)
  | [] => none
  | x :: t => if x.id = a then some (x :: r :: t) else (putAfter a r t).map (x :: ·)

/-- Put `r` immediately before the rule with id `b`; `none` if there is no such rule. -/
def putBefore (b : Str) (r : Rule) : List Rule → Option (List Rule)
  | [] => none
  | x :: t => if x.id = b then some (r :: x :: t) else (putBefore b r t).map (x :: ·)

/-- Put `r` at position `n`, or at the end of a shorter list. -/
def putAt (n : Nat) (r : Rule) (l : List Rule) : List Rule := l.take n ++ r :: l.drop n

/-- Replace the rule with `r`'s id by `r`, in place. -/
def replaceInPlace (r : Rule) (l : List Rule) : List Rule :=
  l.map (fun x => if x.id = r.id then r else x)

/-- Where a new rule without anchors goes: first, or second among the overrides (after
`.m.rule.master`). -/
def defaultPosition : Kind → Nat
  | .override => 1
  | _ => 0

/-- Where the rule `new` goes in the list `l` of its kind `k`. `rest` is the list of the other
rules; the anchors are looked up among them. -/
def place (k : Kind) (l : List Rule) (new : Rule) (after before : Option Str) :
    Except ErrClass (List Rule) :=
  let rest := others l new.id
  match after, before with
  | none, none =>
    match lookup l new.id with
    | some _ => .ok (replaceInPlace new l)
    | none => .ok (putAt (defaultPosition k) new l)
  | some a, none =>
    match putAfter a new rest with
    | some l' => .ok l'
    | none => .error .unknown
  | none, some b =>
    match putBefore b new rest with
    | some l' => .ok l'
    | none => .error .unknown
  | some a, some b =>
    match position rest a, position rest b, putBefore b new rest with
    | some i, some j, some l' => if i < j then .ok l' else .error .order
    | _, _, _ => .error .unknown

/-- The rule that `insert` stores: user-defined, with the given actions; enabled, unless it replaces
a rule, whose `enabled` flag it then keeps. -/
def newRule (l : List Rule) (id : Str) (actions : Nat) : Rule :=
  { id := id, dflt := false, actions := actions,
    enabled := match lookup l id with
      | some old => old.enabled
      | none => true }

/-- `Ruleset::insert` on the list of the rule's kind. -/
def insertRule (k : Kind) (l : List Rule) (id : Str) (actions : Nat) (after before : Option Str) :
    Except ErrClass (List Rule) :=
  if isServerDefaultId id then .error .prot
  else if hasInvalidChar id then .error .invalid
  else if anchorIsServerDefault after || anchorIsServerDefault before then .error .prot
  else place k l (newRule l id actions) after before

/-- One operation on the whole ruleset: the new ruleset and what the caller is told. -/
def step (s : State) : Op → State × Outcome
  | .insert k id actions after before =>
    match insertRule k (s.get k) id actions after before with
    | .ok l => (s.set k l, .ok)
    | .error e => (s, .err e)
  | .remove (.known k) id =>
    match lookup (s.get k) id with
    | none => (s, .err .unknown)
    | some r => if r.dflt then (s, .err .prot) else (s.set k (others (s.get k) id), .ok)
  | .setEnabled (.known k) id on =>
    match lookup (s.get k) id with
    | none => (s, .err .unknown)
    | some r => (s.set k (replaceInPlace { r with enabled := on } (s.get k)), .ok)
  | .setActions (.known k) id actions =>
    match lookup (s.get k) id with
    | none => (s, .err .unknown)
    | some r => (s.set k (replaceInPlace { r with actions := actions } (s.get k)), .ok)
  | .get (.known k) id => (s, .got (lookup (s.get k) id))
  | .remove .custom _ => (s, .err .unknown)
  | .setEnabled .custom _ _ => (s, .err .unknown)
  | .setActions .custom _ _ => (s, .err .unknown)
  | .get .custom _ => (s, .got none)

/-- A whole operation sequence: the final ruleset and the outcomes, in order. -/
def run (s : State) : List Op → State × List Outcome
  | [] => (s, [])
  | op :: ops =>
    let (s', o) := step s op
    let (s'', os) := run s' ops
    (s'', o :: os)

end Ruma.Spec.RulesetPlacement
