/-
  Specification side of C01: Matrix specification, Appendices, "Canonical JSON"
  (https://spec.matrix.org/latest/appendices/#canonical-json), written without reference to the
  model of ruma's code.

  "We define the canonical JSON encoding for a value to be the shortest UTF-8 JSON encoding with
   dictionary keys lexicographically sorted by Unicode codepoint. Numbers in the JSON must be
   integers in the range [-(2**53)+1, (2**53)-1], represented without exponents or decimal places,
   and negative zero -0 MUST NOT appear."

  and the grammar of that section (ABNF, abbreviated):

      value     = false / null / true / object / array / number / string
      object    = "{" [ member *( "," member ) ] "}"        member = string ":" value
      array     = "[" [ value *( "," value ) ] "]"
      number    = [ "-" ] int                               int = "0" / ( digit1-9 *digit )
      string    = %x22 *char %x22
      char      = unescaped / %x5C escaped
      unescaped = %x20-21 / %x23-5B / %x5D-10FFFF
      escaped   = %x22 / %x5C / %x62 (b) / %x66 (f) / %x6E (n) / %x72 (r) / %x74 (t)
                / %x75.30.30.30 ( %x30-37 / %x62 / %x65-66 )     ; u000X
                / %x75.30.30.31 ( %x30-39 / %x61-66 )            ; u001X

  Two layers are given. `CVal` is a JSON value as the specification sees it (strings are sequences
  of Unicode code points); `text` is its unique canonical text as code points and `canonicalBytes`
  the UTF-8 encoding of that. `IsCanonical` is the same well-formedness condition on values whose
  strings are already UTF-8 byte strings (`JVal`, what the implementation holds in memory).
-/
import RumaModel.Model.Json
namespace Ruma.Spec.CanonicalJson

/-! ## Numbers -/

/-- "integers in the range [-(2**53)+1, (2**53)-1]". -/
def IntInRange (i : Int) : Prop := -(2 ^ 53 - 1) ≤ i ∧ i ≤ 2 ^ 53 - 1

/-! ## Unicode and UTF-8 (RFC 3629) -/

/-- Unicode scalar values: code points without the surrogate range. -/
def IsScalar (c : Nat) : Prop := c < 0xD800 ∨ (0xE000 ≤ c ∧ c < 0x110000)

/-- UTF-8 encoding of one code point (RFC 3629 §3). -/
def utf8EncodeChar (c : Nat) : List Nat :=
  if c < 0x80 then [c]
  else if c < 0x800 then [0xC0 + c / 64, 0x80 + c % 64]
  else if c < 0x10000 then [0xE0 + c / 4096, 0x80 + c / 64 % 64, 0x80 + c % 64]
  else [0xF0 + c / 262144, 0x80 + c / 4096 % 64, 0x80 + c / 64 % 64, 0x80 + c % 64]

/-- UTF-8 encoding of a sequence of code points. -/
def utf8Encode (s : List Nat) : List Nat := s.flatMap utf8EncodeChar

/-- UTF-16 code units of one code point (only used to exhibit that UTF-16 order is a *different*
order, see `Props/C01.lean`). -/
def utf16EncodeChar (c : Nat) : List Nat :=
  if c < 0x10000 then [c] else [0xD800 + (c - 0x10000) / 1024, 0xDC00 + (c - 0x10000) % 1024]

/-! ## Values as the specification sees them -/

/-- A JSON value that canonical JSON can represent. Strings and keys are code point sequences. -/
inductive CVal where
  | null
  | bool (b : Bool)
  | int (i : Int)
  | str (s : List Nat)
  | arr (xs : List CVal)
  | obj (kvs : List (List Nat × CVal))

/-- "dictionary keys lexicographically sorted by Unicode codepoint": strictly ascending in the
lexicographic order of code point sequences (so no key occurs twice). -/
def KeysAscending (kvs : List (List Nat × α)) : Prop :=
  List.Pairwise (· < ·) (kvs.map (·.1))

mutual
/-- Well-formed: integers in range, strings made of scalar values, keys ascending at every depth. -/
def CVal.WF : CVal → Prop
  | .null => True
  | .bool _ => True
  | .int i => IntInRange i
  | .str s => ∀ c ∈ s, IsScalar c
  | .arr xs => CVal.WFL xs
  | .obj kvs => KeysAscending kvs ∧ CVal.WFO kvs
def CVal.WFL : List CVal → Prop
  | [] => True
  | v :: t => CVal.WF v ∧ CVal.WFL t
def CVal.WFO : List (List Nat × CVal) → Prop
  | [] => True
  | (k, v) :: t => (∀ c ∈ k, IsScalar c) ∧ CVal.WF v ∧ CVal.WFO t
end

/-! ## The grammar -/

/-- Lower-case hexadecimal digit (`%x30-39 / %x61-66`). -/
def hexLower (n : Nat) : Nat := if n < 10 then 0x30 + n else 0x61 + (n - 10)

/-- The production `char` of the grammar, as a relation "code point `c` is written as the code
points `t`". Transcribed production by production. -/
inductive CharText : Nat → List Nat → Prop
  | unescaped (c : Nat) :
      (0x20 ≤ c ∧ c ≤ 0x21) ∨ (0x23 ≤ c ∧ c ≤ 0x5B) ∨ (0x5D ≤ c ∧ c ≤ 0x10FFFF) → CharText c [c]
  | quote : CharText 0x22 [0x5C, 0x22]
  | backslash : CharText 0x5C [0x5C, 0x5C]
  | b : CharText 0x08 [0x5C, 0x62]
  | f : CharText 0x0C [0x5C, 0x66]
  | n : CharText 0x0A [0x5C, 0x6E]
  | r : CharText 0x0D [0x5C, 0x72]
  | t : CharText 0x09 [0x5C, 0x74]
  | u000 (x : Nat) : x ≤ 7 ∨ x = 0xB ∨ x = 0xE ∨ x = 0xF →
      CharText x [0x5C, 0x75, 0x30, 0x30, 0x30, hexLower x]
  | u001 (x : Nat) : x ≤ 15 → CharText (0x10 + x) [0x5C, 0x75, 0x30, 0x30, 0x31, hexLower x]

/-- The same production as a function: the one text the grammar allows for a code point. -/
def charText (c : Nat) : List Nat :=
  if c = 0x22 then [0x5C, 0x22]
  else if c = 0x5C then [0x5C, 0x5C]
  else if c = 0x08 then [0x5C, 0x62]
  else if c = 0x0C then [0x5C, 0x66]
  else if c = 0x0A then [0x5C, 0x6E]
  else if c = 0x0D then [0x5C, 0x72]
  else if c = 0x09 then [0x5C, 0x74]
  else if c < 0x20 then [0x5C, 0x75, 0x30, 0x30, hexLower (c / 16), hexLower (c % 16)]
  else [c]

/-- `string = %x22 *char %x22`. -/
def strText (s : List Nat) : List Nat := 0x22 :: (s.flatMap charText ++ [0x22])

/-- `int = "0" / ( digit1-9 *digit )`: decimal digits without leading zeros. -/
def decimal (n : Nat) : List Nat :=
  if n < 10 then [0x30 + n] else decimal (n / 10) ++ [0x30 + n % 10]
decreasing_by omega

/-- `number = [ "-" ] int`; there is no `-0` because `0` is not negative. -/
def intText (i : Int) : List Nat :=
  if i < 0 then 0x2D :: decimal (-i).toNat else decimal i.toNat

mutual
/-- The canonical text of a value, as code points: no whitespace anywhere, members in the
object's own (ascending) order. -/
def text : CVal → List Nat
  | .null => [0x6E, 0x75, 0x6C, 0x6C]
  | .bool true => [0x74, 0x72, 0x75, 0x65]
  | .bool false => [0x66, 0x61, 0x6C, 0x73, 0x65]
  | .int i => intText i
  | .str s => strText s
  | .arr xs => 0x5B :: (elemsText xs ++ [0x5D])
  | .obj kvs => 0x7B :: (membersText kvs ++ [0x7D])
def elemsText : List CVal → List Nat
  | [] => []
  | [v] => text v
  | v :: t => text v ++ (0x2C :: elemsText t)
def membersText : List (List Nat × CVal) → List Nat
  | [] => []
  | [(k, v)] => strText k ++ (0x3A :: text v)
  | (k, v) :: t => strText k ++ (0x3A :: text v) ++ (0x2C :: membersText t)
end

/-- The canonical JSON encoding of a well-formed value: its canonical text in UTF-8. -/
def canonicalBytes (v : CVal) : List Nat := utf8Encode (text v)

/-- A byte string is canonical JSON iff it is the encoding of some well-formed value. -/
def IsCanonicalJson (b : List Nat) : Prop := ∃ v : CVal, v.WF ∧ b = canonicalBytes v

/-! ## Whitespace, as a condition on byte strings -/

/-- The bytes of a JSON text that lie outside string literals. State `false`: outside a string
(`"` enters one); state `true`: inside (`\` skips the next byte, `"` leaves). -/
def outsideStrings : Bool → List Nat → List Nat
  | _, [] => []
  | false, b :: t => if b = 34 then outsideStrings true t else b :: outsideStrings false t
  | true, [_] => []
  | true, b :: c :: t =>
    if b = 92 then outsideStrings true t
    else if b = 34 then outsideStrings false (c :: t)
    else outsideStrings true (c :: t)

/-- Structural bytes: `{ } [ ] : ,`, digits and `-`, and the letters of `true false null`. -/
def IsStructural (b : Nat) : Prop :=
  b = 123 ∨ b = 125 ∨ b = 91 ∨ b = 93 ∨ b = 58 ∨ b = 44 ∨ b = 45 ∨ (48 ≤ b ∧ b ≤ 57) ∨
  b ∈ [116, 114, 117, 101, 102, 97, 108, 115, 110]

/-- "No insignificant whitespace" (and nothing else that is not structure) as a predicate on a byte
string: every byte outside string literals is structural. -/
def NoInsignificantWhitespace (b : List Nat) : Prop :=
  ∀ x ∈ outsideStrings false b, IsStructural x

/-! ## The same condition on in-memory values (strings as UTF-8 bytes) -/

mutual
/-- A `JVal` is canonical when it contains no non-integer number, every integer is in range and the
keys of every object, at every depth, are strictly ascending as byte strings (for UTF-8 this is the
code point order: `utf8_lex_iff_codepoint_lex`). -/
def IsCanonical : JVal → Prop
  | .null => True
  | .bool _ => True
  | .int i => IntInRange i
  | .float => False
  | .str _ => True
  | .arr xs => IsCanonicalL xs
  | .obj kvs => Obj.Sorted kvs ∧ IsCanonicalO kvs
def IsCanonicalL : List JVal → Prop
  | [] => True
  | v :: t => IsCanonical v ∧ IsCanonicalL t
def IsCanonicalO : List (Str × JVal) → Prop
  | [] => True
  | (_, v) :: t => IsCanonical v ∧ IsCanonicalO t
end

/-! ## Which parsed values canonical JSON can represent -/

mutual
/-- Every number occurring anywhere in the value (also under a key that a later duplicate
overrides) is an integer within ±(2^53−1). -/
def Representable : JVal → Prop
  | .null => True
  | .bool _ => True
  | .int i => IntInRange i
  | .float => False
  | .str _ => True
  | .arr xs => RepresentableL xs
  | .obj kvs => RepresentableO kvs
def RepresentableL : List JVal → Prop
  | [] => True
  | v :: t => Representable v ∧ RepresentableL t
def RepresentableO : List (Str × JVal) → Prop
  | [] => True
  | (_, v) :: t => Representable v ∧ RepresentableO t
end

mutual
/-- The value with strings encoded in UTF-8 (how a Rust `String` holds them). -/
def CVal.toJVal : CVal → JVal
  | .null => .null
  | .bool b => .bool b
  | .int i => .int i
  | .str s => .str (utf8Encode s)
  | .arr xs => .arr (CVal.toJValL xs)
  | .obj kvs => .obj (CVal.toJValO kvs)
def CVal.toJValL : List CVal → List JVal
  | [] => []
  | v :: t => CVal.toJVal v :: CVal.toJValL t
def CVal.toJValO : List (List Nat × CVal) → List (Str × JVal)
  | [] => []
  | (k, v) :: t => (utf8Encode k, CVal.toJVal v) :: CVal.toJValO t
end

end Ruma.Spec.CanonicalJson
