/-
  C19 — specification side: what "lossless and forward compatible" means for a table of known
  spellings, and the spellings themselves.

  Part 1 (semantics) is order-free and does not mention how the conversion is implemented: which
  value a string denotes, how a value is written, what the canonical form of a string is.

  Part 2 (data) lists, for every string enum the check covers, the spelling the Matrix specification
  (client-server, server-server, identity-service, push-gateway APIs; for unstable features the MSC
  named in the spelling) gives to each documented variant: `v Variant spelling`; the alternative
  spellings ruma documents for a variant (unstable/stable prefix pairs): `a Variant alias`; and
  wildcard event types `w Variant "prefix.*"`. Where ruma keeps the unstable name as the canonical
  one and accepts the stable `m.` name as an alias (extensible events), the list says so.
  The feature set is the one of `harness/h-c19/Cargo.toml`. `RoomVersionId` is not listed: it is
  the one validated string enum (property C10). One entry per line: the harness reads this file.
-/
import RumaModel.Model.StringEnum
namespace Ruma.Spec.StringEnum
open Ruma Ruma.StringEnum

/-! ### What the property says, for a table of known spellings -/

/-- `s` selects the fixed row `r`: it is the row's spelling or one of its declared aliases. -/
def Row.Spells (r : Row) (s : Str) : Prop := s = r.spelling ∨ s ∈ r.aliases

/-- What value a string denotes. Order-free: no "first match" here. -/
inductive Denotes (tbl : Table) (s : Str) : Val → Prop
  /-- a specified spelling or declared alias denotes its dedicated variant -/
  | unit (r : Row) : r ∈ tbl → r.wildcard = false → Row.Spells r s → Denotes tbl s (.unit r)
  /-- `prefix ++ suffix` for a wildcard type (or an alias prefix of it) denotes that variant with
  the suffix kept -/
  | frag (r : Row) (p suffix : Str) : r ∈ tbl → r.wildcard = true → Row.Spells r p →
      s = p ++ suffix → Denotes tbl s (.frag r suffix)
  /-- every other string is kept as it is -/
  | custom : (∀ r ∈ tbl, r.wildcard = false → ¬ Row.Spells r s) →
      (∀ r ∈ tbl, r.wildcard = true → ∀ p, Row.Spells r p → ¬ p <+: s) → Denotes tbl s (.custom s)

/-- The string a value is written as. -/
def written : Val → Str
  | .unit r => r.spelling
  | .frag r suffix => r.spelling ++ suffix
  | .custom s => s

/-- `s` is a declared alias (or starts with a declared alias prefix of a wildcard type). -/
def Aliased (tbl : Table) (s : Str) : Prop :=
  (∃ r ∈ tbl, r.wildcard = false ∧ s ∈ r.aliases) ∨
  (∃ r ∈ tbl, r.wildcard = true ∧ ∃ p ∈ r.aliases, p <+: s)

/-- Canonical form: a declared alias is replaced by the canonical spelling of its variant (an alias
prefix by the canonical prefix, the suffix kept); every other string is itself. -/
def canon : Table → Str → Str
  | [], s => s
  | r :: t, s =>
    if r.wildcard then
      match r.aliases.find? (fun p => p.isPrefixOf s) with
      | some p => r.spelling ++ s.drop p.length
      | none => canon t s
    else if r.aliases.contains s then r.spelling else canon t s

/-- String order: lexicographic by bytes (equivalently by code points, see C01). -/
def strLt (a b : Str) : Prop := a < b


/-! ### Part 2 — the spellings -/

open Lean in
/-- `b!"text"`: the UTF-8 bytes of a string literal as a list literal. Expanded when the file is
elaborated, so the kernel never evaluates `String` operations when it compares these lists with
the extracted tables (which is what made `decide` on 440 spellings slow). -/
macro "b!" s:str : term => do
  let bytes : Array (TSyntax `term) :=
    (s.getString.toUTF8.toList.map
      (fun b => (Syntax.mkNumLit (toString b.toNat) : TSyntax `term))).toArray
  `(([$bytes,*] : List Nat))

/-- One line of an enum's specification (texts as UTF-8 bytes). -/
inductive Entry where
  /-- `v Variant spelling`: the specified spelling of a documented variant -/
  | v (variant : String) (spelling : Str)
  /-- `a Variant alias`: a declared alternative spelling of a variant listed above -/
  | a (variant : String) (alias : Str)
  /-- `w Variant pattern`: a wildcard type; `pattern` ends in `.*`, the variant keeps the suffix -/
  | w (variant : String) (pattern : Str)
  deriving Repr

/- The line syntax of part 2: `v "Variant" "spelling"` etc., both texts written as plain string
literals. Only opened around the data below. -/
namespace Lines
scoped macro "v " l:str s:str : term => `(Entry.v $l (b! $s))
scoped macro "a " l:str s:str : term => `(Entry.a $l (b! $s))
scoped macro "w " l:str s:str : term => `(Entry.w $l (b! $s))
end Lines

structure EnumSpec where
  name : String
  entries : List Entry
  deriving Repr

/-- The implementation's table `tbl` has this entry: the spelling with its dedicated variant, the
alias on the row of its variant, the wildcard prefix as a wildcard row. -/
def EntryIn (tbl : Table) : Entry → Prop
  | .v l s => ∃ r ∈ tbl, r.label = l ∧ r.spelling = s ∧ r.wildcard = false
  | .w l p => ∃ r ∈ tbl, r.label = l ∧ r.spelling = p.dropLast ∧ r.wildcard = true
  | .a l s => ∃ r ∈ tbl, r.label = l ∧ s ∈ r.aliases

instance (tbl : Table) (e : Entry) : Decidable (EntryIn tbl e) := by
  cases e <;> (unfold EntryIn; infer_instance)

/-- Add an alias to the row of that variant. -/
def addAlias (label : String) (al : Str) : Table → Table
  | [] => []
  | r :: t => if r.label = label then { r with aliases := r.aliases ++ [al] } :: t
              else r :: addAlias label al t

/-- The table a list of entries describes (rows in the order of their `v`/`w` lines). -/
def toTable : List Entry → Table → Table
  | [], acc => acc
  | .v l s :: es, acc => toTable es (acc ++ [⟨l, s, [], false⟩])
  | .w l p :: es, acc => toTable es (acc ++ [⟨l, p.dropLast, [], true⟩])
  | .a l s :: es, acc => toTable es (addAlias l s acc)

def EnumSpec.table (e : EnumSpec) : Table := toTable e.entries []

/-- Entries are well-formed: an alias names a variant listed before it, a wildcard pattern ends in
`.*`, variant names are not repeated. -/
def entriesOk : List Entry → List String → Bool
  | [], _ => true
  | .v l _ :: es, seen => !seen.contains l && entriesOk es (l :: seen)
  | .w l p :: es, seen => !seen.contains l && (b!".*").isSuffixOf p && entriesOk es (l :: seen)
  | .a l _ :: es, seen => seen.contains l && entriesOk es seen

section Data
open Lines

/-- `ruma_push_gateway_api::send_event_notification::v1::NotificationPriority` -/
def notificationPriority : EnumSpec := ⟨"NotificationPriority", [
  v "High" "high",
  v "Low" "low"
]⟩

/-- `ruma_identity_service_api::lookup::IdentifierHashingAlgorithm` -/
def identifierHashingAlgorithm : EnumSpec := ⟨"IdentifierHashingAlgorithm", [
  v "Sha256" "sha256",
  v "None" "none"
]⟩

/-- `ruma_client_api::account::ThirdPartyIdRemovalStatus` -/
def thirdPartyIdRemovalStatus : EnumSpec := ⟨"ThirdPartyIdRemovalStatus", [
  v "NoSupport" "no-support",
  v "Success" "success"
]⟩

/-- `ruma_client_api::dehydrated_device::DeviceDehydrationAlgorithm` -/
def deviceDehydrationAlgorithm : EnumSpec := ⟨"DeviceDehydrationAlgorithm", [
  v "V1" "org.matrix.msc3814.v1.olm",
  v "V2" "org.matrix.msc3814.v2"
]⟩

/-- `ruma_client_api::error::ErrorCode` -/
def errorCode : EnumSpec := ⟨"ErrorCode", [
  v "BadAlias" "M_BAD_ALIAS",
  v "BadJson" "M_BAD_JSON",
  v "BadState" "M_BAD_STATE",
  v "BadStatus" "M_BAD_STATUS",
  v "CannotLeaveServerNoticeRoom" "M_CANNOT_LEAVE_SERVER_NOTICE_ROOM",
  v "CannotOverwriteMedia" "M_CANNOT_OVERWRITE_MEDIA",
  v "CaptchaInvalid" "M_CAPTCHA_INVALID",
  v "CaptchaNeeded" "M_CAPTCHA_NEEDED",
  v "ConnectionFailed" "M_CONNECTION_FAILED",
  v "ConnectionTimeout" "M_CONNECTION_TIMEOUT",
  v "DuplicateAnnotation" "M_DUPLICATE_ANNOTATION",
  v "Exclusive" "M_EXCLUSIVE",
  v "Forbidden" "M_FORBIDDEN",
  v "GuestAccessForbidden" "M_GUEST_ACCESS_FORBIDDEN",
  v "IncompatibleRoomVersion" "M_INCOMPATIBLE_ROOM_VERSION",
  v "InvalidParam" "M_INVALID_PARAM",
  v "InvalidRoomState" "M_INVALID_ROOM_STATE",
  v "InvalidUsername" "M_INVALID_USERNAME",
  v "LimitExceeded" "M_LIMIT_EXCEEDED",
  v "MissingParam" "M_MISSING_PARAM",
  v "MissingToken" "M_MISSING_TOKEN",
  v "NotFound" "M_NOT_FOUND",
  v "NotJson" "M_NOT_JSON",
  v "NotYetUploaded" "M_NOT_YET_UPLOADED",
  v "ResourceLimitExceeded" "M_RESOURCE_LIMIT_EXCEEDED",
  v "RoomInUse" "M_ROOM_IN_USE",
  v "ServerNotTrusted" "M_SERVER_NOT_TRUSTED",
  v "ThreepidAuthFailed" "M_THREEPID_AUTH_FAILED",
  v "ThreepidDenied" "M_THREEPID_DENIED",
  v "ThreepidInUse" "M_THREEPID_IN_USE",
  v "ThreepidMediumNotSupported" "M_THREEPID_MEDIUM_NOT_SUPPORTED",
  v "ThreepidNotFound" "M_THREEPID_NOT_FOUND",
  v "TooLarge" "M_TOO_LARGE",
  v "UnableToAuthorizeJoin" "M_UNABLE_TO_AUTHORISE_JOIN",
  v "UnableToGrantJoin" "M_UNABLE_TO_GRANT_JOIN",
  v "Unactionable" "M_UNACTIONABLE",
  v "Unauthorized" "M_UNAUTHORIZED",
  v "Unknown" "M_UNKNOWN",
  v "UnknownPos" "M_UNKNOWN_POS",
  v "UnknownToken" "M_UNKNOWN_TOKEN",
  v "Unrecognized" "M_UNRECOGNIZED",
  v "UnsupportedRoomVersion" "M_UNSUPPORTED_ROOM_VERSION",
  v "UrlNotSet" "M_URL_NOT_SET",
  v "UserDeactivated" "M_USER_DEACTIVATED",
  v "UserInUse" "M_USER_IN_USE",
  v "UserLocked" "M_USER_LOCKED",
  v "UserSuspended" "M_USER_SUSPENDED",
  v "WeakPassword" "M_WEAK_PASSWORD",
  v "WrongRoomKeysVersion" "M_WRONG_ROOM_KEYS_VERSION"
]⟩

/-- `ruma_client_api::filter::EventFormat` -/
def eventFormat : EnumSpec := ⟨"EventFormat", [
  v "Client" "client",
  v "Federation" "federation"
]⟩

/-- `ruma_client_api::room::Visibility` -/
def visibility : EnumSpec := ⟨"Visibility", [
  v "Public" "public",
  v "Private" "private"
]⟩

/-- `ruma_client_api::session::SsoRedirectOidcAction` -/
def ssoRedirectOidcAction : EnumSpec := ⟨"SsoRedirectOidcAction", [
  v "Login" "login",
  v "Register" "register"
]⟩

/-- `ruma_client_api::uiaa::AuthType` -/
def authType : EnumSpec := ⟨"AuthType", [
  v "Password" "m.login.password",
  v "ReCaptcha" "m.login.recaptcha",
  v "EmailIdentity" "m.login.email.identity",
  v "Msisdn" "m.login.msisdn",
  v "Sso" "m.login.sso",
  v "Dummy" "m.login.dummy",
  v "RegistrationToken" "m.login.registration_token",
  v "Terms" "m.login.terms"
]⟩

/-- `ruma_client_api::room::create_room::v3::RoomPreset` -/
def roomPreset : EnumSpec := ⟨"RoomPreset", [
  v "PrivateChat" "private_chat",
  v "PublicChat" "public_chat",
  v "TrustedPrivateChat" "trusted_private_chat"
]⟩

/-- `ruma_client_api::receipt::create_receipt::v3::ReceiptType` -/
def clientApiReceiptType : EnumSpec := ⟨"ClientApiReceiptType", [
  v "Read" "m.read",
  v "ReadPrivate" "m.read.private",
  v "FullyRead" "m.fully_read"
]⟩

/-- `ruma_client_api::delayed_events::update_delayed_event::unstable::UpdateAction` -/
def updateAction : EnumSpec := ⟨"UpdateAction", [
  v "Restart" "restart",
  v "Send" "send",
  v "Cancel" "cancel"
]⟩

/-- `ruma_client_api::discovery::discover_support::ContactRole` -/
def contactRole : EnumSpec := ⟨"ContactRole", [
  v "Admin" "m.role.admin",
  v "Security" "m.role.security",
  v "Moderator" "support.feline.msc4121.role.moderator",
  a "Moderator" "m.role.moderator"
]⟩

/-- `ruma_client_api::discovery::get_authorization_server_metadata::msc2965::ResponseType` -/
def responseType : EnumSpec := ⟨"ResponseType", [
  v "Code" "code"
]⟩

/-- `ruma_client_api::discovery::get_authorization_server_metadata::msc2965::ResponseMode` -/
def responseMode : EnumSpec := ⟨"ResponseMode", [
  v "Query" "query",
  v "Fragment" "fragment"
]⟩

/-- `ruma_client_api::discovery::get_authorization_server_metadata::msc2965::GrantType` -/
def grantType : EnumSpec := ⟨"GrantType", [
  v "AuthorizationCode" "authorization_code",
  v "RefreshToken" "refresh_token",
  v "DeviceCode" "urn:ietf:params:oauth:grant-type:device_code"
]⟩

/-- `ruma_client_api::discovery::get_authorization_server_metadata::msc2965::CodeChallengeMethod` -/
def codeChallengeMethod : EnumSpec := ⟨"CodeChallengeMethod", [
  v "S256" "S256"
]⟩

/-- `ruma_client_api::discovery::get_authorization_server_metadata::msc2965::AccountManagementAction` -/
def accountManagementAction : EnumSpec := ⟨"AccountManagementAction", [
  v "Profile" "org.matrix.profile",
  v "SessionsList" "org.matrix.sessions_list",
  v "SessionView" "org.matrix.session_view",
  v "SessionEnd" "org.matrix.session_end",
  v "AccountDeactivate" "org.matrix.account_deactivate",
  v "CrossSigningReset" "org.matrix.cross_signing_reset"
]⟩

/-- `ruma_client_api::discovery::get_authorization_server_metadata::msc2965::Prompt` -/
def prompt : EnumSpec := ⟨"Prompt", [
  v "Create" "create"
]⟩

/-- `ruma_client_api::discovery::get_capabilities::RoomVersionStability` -/
def roomVersionStability : EnumSpec := ⟨"RoomVersionStability", [
  v "Stable" "stable",
  v "Unstable" "unstable"
]⟩

/-- `ruma_client_api::membership::get_member_events::v3::MembershipEventFilter` -/
def membershipEventFilter : EnumSpec := ⟨"MembershipEventFilter", [
  v "Join" "join",
  v "Invite" "invite",
  v "Leave" "leave",
  v "Ban" "ban"
]⟩

/-- `ruma_client_api::search::search_events::v3::GroupingKey` -/
def groupingKey : EnumSpec := ⟨"GroupingKey", [
  v "RoomId" "room_id",
  v "Sender" "sender"
]⟩

/-- `ruma_client_api::search::search_events::v3::SearchKeys` -/
def searchKeys : EnumSpec := ⟨"SearchKeys", [
  v "ContentBody" "content.body",
  v "ContentName" "content.name",
  v "ContentTopic" "content.topic"
]⟩

/-- `ruma_client_api::search::search_events::v3::OrderBy` -/
def orderBy : EnumSpec := ⟨"OrderBy", [
  v "Recent" "recent",
  v "Rank" "rank"
]⟩

/-- `ruma_client_api::session::get_login_types::v3::IdentityProviderBrand` -/
def identityProviderBrand : EnumSpec := ⟨"IdentityProviderBrand", [
  v "Apple" "apple",
  v "Facebook" "facebook",
  v "GitHub" "github",
  v "GitLab" "gitlab",
  v "Google" "google",
  v "Twitter" "twitter"
]⟩

/-- `ruma_client_api::threads::get_threads::v1::IncludeThreads` -/
def includeThreads : EnumSpec := ⟨"IncludeThreads", [
  v "All" "all",
  v "Participated" "participated"
]⟩

/-- `ruma_client_api::keys::upload_signatures::v3::FailureErrorCode` -/
def failureErrorCode : EnumSpec := ⟨"FailureErrorCode", [
  v "InvalidSignature" "M_INVALID_SIGNATURE"
]⟩

/-- `ruma_federation_api::query::get_profile_information::v1::ProfileField` -/
def profileField : EnumSpec := ⟨"ProfileField", [
  v "DisplayName" "displayname",
  v "AvatarUrl" "avatar_url"
]⟩

/-- `ruma_common::authentication::TokenType` -/
def tokenType : EnumSpec := ⟨"TokenType", [
  v "Bearer" "Bearer"
]⟩

/-- `ruma_common::directory::PublicRoomJoinRule` -/
def publicRoomJoinRule : EnumSpec := ⟨"PublicRoomJoinRule", [
  v "Knock" "knock",
  v "Public" "public"
]⟩

/-- `ruma_common::encryption::KeyUsage` -/
def keyUsage : EnumSpec := ⟨"KeyUsage", [
  v "Master" "master",
  v "SelfSigning" "self_signing",
  v "UserSigning" "user_signing"
]⟩

/-- `ruma_common::media::Method` -/
def method : EnumSpec := ⟨"Method", [
  v "Crop" "crop",
  v "Scale" "scale"
]⟩

/-- `ruma_common::presence::PresenceState` -/
def presenceState : EnumSpec := ⟨"PresenceState", [
  v "Offline" "offline",
  v "Online" "online",
  v "Unavailable" "unavailable"
]⟩

/-- `ruma_common::push::PushFormat` -/
def pushFormat : EnumSpec := ⟨"PushFormat", [
  v "EventIdOnly" "event_id_only"
]⟩

/-- `ruma_common::push::RuleKind` -/
def ruleKind : EnumSpec := ⟨"RuleKind", [
  v "Override" "override",
  v "Underride" "underride",
  v "Sender" "sender",
  v "Room" "room",
  v "Content" "content"
]⟩

/-- `ruma_common::room::RoomType` -/
def roomType : EnumSpec := ⟨"RoomType", [
  v "Space" "m.space"
]⟩

/-- `ruma_common::space::SpaceRoomJoinRule` -/
def spaceRoomJoinRule : EnumSpec := ⟨"SpaceRoomJoinRule", [
  v "Invite" "invite",
  v "Knock" "knock",
  v "Private" "private",
  v "Restricted" "restricted",
  v "KnockRestricted" "knock_restricted",
  v "Public" "public"
]⟩

/-- `ruma_common::thirdparty::Medium` -/
def medium : EnumSpec := ⟨"Medium", [
  v "Email" "email",
  v "Msisdn" "msisdn"
]⟩

/-- `ruma_common::push::RoomVersionFeature` -/
def roomVersionFeature : EnumSpec := ⟨"RoomVersionFeature", [
  v "ExtensibleEvents" "org.matrix.msc3932.extensible_events"
]⟩

/-- `ruma_common::push::PredefinedOverrideRuleId` -/
def predefinedOverrideRuleId : EnumSpec := ⟨"PredefinedOverrideRuleId", [
  v "Master" ".m.rule.master",
  v "SuppressNotices" ".m.rule.suppress_notices",
  v "InviteForMe" ".m.rule.invite_for_me",
  v "MemberEvent" ".m.rule.member_event",
  v "IsUserMention" ".m.rule.is_user_mention",
  v "ContainsDisplayName" ".m.rule.contains_display_name",
  v "IsRoomMention" ".m.rule.is_room_mention",
  v "RoomNotif" ".m.rule.roomnotif",
  v "Tombstone" ".m.rule.tombstone",
  v "Reaction" ".m.rule.reaction",
  v "RoomServerAcl" ".m.rule.room.server_acl",
  v "SuppressEdits" ".m.rule.suppress_edits",
  v "PollResponse" ".org.matrix.msc3930.rule.poll_response"
]⟩

/-- `ruma_common::push::PredefinedUnderrideRuleId` -/
def predefinedUnderrideRuleId : EnumSpec := ⟨"PredefinedUnderrideRuleId", [
  v "Call" ".m.rule.call",
  v "EncryptedRoomOneToOne" ".m.rule.encrypted_room_one_to_one",
  v "RoomOneToOne" ".m.rule.room_one_to_one",
  v "Message" ".m.rule.message",
  v "Encrypted" ".m.rule.encrypted",
  v "PollStartOneToOne" ".org.matrix.msc3930.rule.poll_start_one_to_one",
  v "PollStart" ".org.matrix.msc3930.rule.poll_start",
  v "PollEndOneToOne" ".org.matrix.msc3930.rule.poll_end_one_to_one",
  v "PollEnd" ".org.matrix.msc3930.rule.poll_end"
]⟩

/-- `ruma_common::push::PredefinedContentRuleId` -/
def predefinedContentRuleId : EnumSpec := ⟨"PredefinedContentRuleId", [
  v "ContainsUserName" ".m.rule.contains_user_name"
]⟩

/-- `ruma_common::DeviceKeyAlgorithm` -/
def deviceKeyAlgorithm : EnumSpec := ⟨"DeviceKeyAlgorithm", [
  v "Ed25519" "ed25519",
  v "Curve25519" "curve25519"
]⟩

/-- `ruma_common::SigningKeyAlgorithm` -/
def signingKeyAlgorithm : EnumSpec := ⟨"SigningKeyAlgorithm", [
  v "Ed25519" "ed25519"
]⟩

/-- `ruma_common::EventEncryptionAlgorithm` -/
def eventEncryptionAlgorithm : EnumSpec := ⟨"EventEncryptionAlgorithm", [
  v "OlmV1Curve25519AesSha2" "m.olm.v1.curve25519-aes-sha2",
  v "MegolmV1AesSha2" "m.megolm.v1.aes-sha2"
]⟩

/-- `ruma_common::KeyDerivationAlgorithm` -/
def keyDerivationAlgorithm : EnumSpec := ⟨"KeyDerivationAlgorithm", [
  v "Pbkfd2" "m.pbkdf2"
]⟩

/-- `ruma_common::OneTimeKeyAlgorithm` -/
def oneTimeKeyAlgorithm : EnumSpec := ⟨"OneTimeKeyAlgorithm", [
  v "SignedCurve25519" "signed_curve25519"
]⟩

/-- `ruma_events::call::StreamPurpose` -/
def streamPurpose : EnumSpec := ⟨"StreamPurpose", [
  v "UserMedia" "m.usermedia",
  v "ScreenShare" "m.screenshare"
]⟩

/-- `ruma_events::image_pack::PackUsage` -/
def packUsage : EnumSpec := ⟨"PackUsage", [
  v "Emoticon" "emoticon",
  v "Sticker" "sticker"
]⟩

/-- `ruma_events::location::AssetType` -/
def assetType : EnumSpec := ⟨"AssetType", [
  v "Self_" "m.self",
  v "Pin" "m.pin"
]⟩

/-- `ruma_events::receipt::ReceiptType` -/
def eventsReceiptType : EnumSpec := ⟨"EventsReceiptType", [
  v "Read" "m.read",
  v "ReadPrivate" "m.read.private"
]⟩

/-- `ruma_events::relation::RelationType` -/
def relationType : EnumSpec := ⟨"RelationType", [
  v "Annotation" "m.annotation",
  v "Replacement" "m.replace",
  v "Thread" "m.thread",
  v "Reference" "m.reference"
]⟩

/-- `ruma_events::room_key_request::Action` -/
def action : EnumSpec := ⟨"Action", [
  v "Request" "request",
  v "CancelRequest" "request_cancellation"
]⟩

/-- `ruma_events::room::guest_access::GuestAccess` -/
def guestAccess : EnumSpec := ⟨"GuestAccess", [
  v "CanJoin" "can_join",
  v "Forbidden" "forbidden"
]⟩

/-- `ruma_events::room::history_visibility::HistoryVisibility` -/
def historyVisibility : EnumSpec := ⟨"HistoryVisibility", [
  v "Invited" "invited",
  v "Joined" "joined",
  v "Shared" "shared",
  v "WorldReadable" "world_readable"
]⟩

/-- `ruma_events::room::member::MembershipState` -/
def membershipState : EnumSpec := ⟨"MembershipState", [
  v "Ban" "ban",
  v "Invite" "invite",
  v "Join" "join",
  v "Knock" "knock",
  v "Leave" "leave"
]⟩

/-- `ruma_events::room::message::MessageFormat` -/
def messageFormat : EnumSpec := ⟨"MessageFormat", [
  v "Html" "org.matrix.custom.html"
]⟩

/-- `ruma_events::room::message::ServerNoticeType` -/
def serverNoticeType : EnumSpec := ⟨"ServerNoticeType", [
  v "UsageLimitReached" "m.server_notice.usage_limit_reached"
]⟩

/-- `ruma_events::room::message::LimitType` -/
def limitType : EnumSpec := ⟨"LimitType", [
  v "MonthlyActiveUser" "monthly_active_user"
]⟩

/-- `ruma_events::key::verification::HashAlgorithm` -/
def hashAlgorithm : EnumSpec := ⟨"HashAlgorithm", [
  v "Sha256" "sha256"
]⟩

/-- `ruma_events::key::verification::KeyAgreementProtocol` -/
def keyAgreementProtocol : EnumSpec := ⟨"KeyAgreementProtocol", [
  v "Curve25519" "curve25519",
  v "Curve25519HkdfSha256" "curve25519-hkdf-sha256"
]⟩

/-- `ruma_events::key::verification::MessageAuthenticationCode` -/
def messageAuthenticationCode : EnumSpec := ⟨"MessageAuthenticationCode", [
  v "HkdfHmacSha256" "hkdf-hmac-sha256",
  v "HkdfHmacSha256V2" "hkdf-hmac-sha256.v2",
  v "HmacSha256" "hmac-sha256"
]⟩

/-- `ruma_events::key::verification::ShortAuthenticationString` -/
def shortAuthenticationString : EnumSpec := ⟨"ShortAuthenticationString", [
  v "Decimal" "decimal",
  v "Emoji" "emoji"
]⟩

/-- `ruma_events::key::verification::VerificationMethod` -/
def verificationMethod : EnumSpec := ⟨"VerificationMethod", [
  v "SasV1" "m.sas.v1",
  v "QrCodeScanV1" "m.qr_code.scan.v1",
  v "QrCodeShowV1" "m.qr_code.show.v1",
  v "ReciprocateV1" "m.reciprocate.v1"
]⟩

/-- `ruma_events::key::verification::cancel::CancelCode` -/
def cancelCode : EnumSpec := ⟨"CancelCode", [
  v "User" "m.user",
  v "Timeout" "m.timeout",
  v "UnknownTransaction" "m.unknown_transaction",
  v "UnknownMethod" "m.unknown_method",
  v "UnexpectedMessage" "m.unexpected_message",
  v "KeyMismatch" "m.key_mismatch",
  v "UserMismatch" "m.user_mismatch",
  v "InvalidMessage" "m.invalid_message",
  v "Accepted" "m.accepted",
  v "MismatchedCommitment" "m.mismatched_commitment",
  v "MismatchedSas" "m.mismatched_sas"
]⟩

/-- `ruma_events::poll::start::PollKind` -/
def pollKind : EnumSpec := ⟨"PollKind", [
  v "Undisclosed" "m.undisclosed",
  v "Disclosed" "m.disclosed"
]⟩

/-- `ruma_events::policy::rule::Recommendation` -/
def recommendation : EnumSpec := ⟨"Recommendation", [
  v "Ban" "m.ban"
]⟩

/-- `ruma_events::secret::request::SecretName` -/
def secretName : EnumSpec := ⟨"SecretName", [
  v "CrossSigningMasterKey" "m.cross_signing.master",
  v "CrossSigningUserSigningKey" "m.cross_signing.user_signing",
  v "CrossSigningSelfSigningKey" "m.cross_signing.self_signing",
  v "RecoveryKey" "m.megolm_backup.v1"
]⟩

/-- `ruma_events::call::hangup::Reason` -/
def reason : EnumSpec := ⟨"Reason", [
  v "IceFailed" "ice_failed",
  v "InviteTimeout" "invite_timeout",
  v "IceTimeout" "ice_timeout",
  v "UserHangup" "user_hangup",
  v "UserMediaFailed" "user_media_failed",
  v "UserBusy" "user_busy",
  v "UnknownError" "unknown_error"
]⟩

/-- `ruma_events::call::member::LeaveReason` -/
def leaveReason : EnumSpec := ⟨"LeaveReason", [
  v "LostConnection" "m.lost_connection"
]⟩

/-- `ruma_events::call::member::FocusSelection` -/
def focusSelection : EnumSpec := ⟨"FocusSelection", [
  v "OldestMembership" "oldest_membership"
]⟩

/-- `ruma_events::call::member::CallScope` -/
def callScope : EnumSpec := ⟨"CallScope", [
  v "Room" "m.room",
  v "User" "m.user"
]⟩

/-- `ruma_state_res::events::JoinRule` -/
def joinRule : EnumSpec := ⟨"JoinRule", [
  v "Public" "public",
  v "Invite" "invite",
  v "Knock" "knock",
  v "Restricted" "restricted",
  v "KnockRestricted" "knock_restricted"
]⟩

/-- `ruma_events::TimelineEventType` -/
def timelineEventType : EnumSpec := ⟨"TimelineEventType", [
  v "Audio" "org.matrix.msc1767.audio",
  a "Audio" "m.audio",
  v "CallAnswer" "m.call.answer",
  v "CallInvite" "m.call.invite",
  v "CallHangup" "m.call.hangup",
  v "CallCandidates" "m.call.candidates",
  v "CallNegotiate" "m.call.negotiate",
  v "CallReject" "m.call.reject",
  v "CallSdpStreamMetadataChanged" "m.call.sdp_stream_metadata_changed",
  a "CallSdpStreamMetadataChanged" "org.matrix.call.sdp_stream_metadata_changed",
  v "CallSelectAnswer" "m.call.select_answer",
  v "Emote" "org.matrix.msc1767.emote",
  a "Emote" "m.emote",
  v "Encrypted" "org.matrix.msc1767.encrypted",
  a "Encrypted" "m.encrypted",
  v "File" "org.matrix.msc1767.file",
  a "File" "m.file",
  v "Image" "org.matrix.msc1767.image",
  a "Image" "m.image",
  v "KeyVerificationReady" "m.key.verification.ready",
  v "KeyVerificationStart" "m.key.verification.start",
  v "KeyVerificationCancel" "m.key.verification.cancel",
  v "KeyVerificationAccept" "m.key.verification.accept",
  v "KeyVerificationKey" "m.key.verification.key",
  v "KeyVerificationMac" "m.key.verification.mac",
  v "KeyVerificationDone" "m.key.verification.done",
  v "Location" "m.location",
  v "Message" "org.matrix.msc1767.message",
  a "Message" "m.message",
  v "PollStart" "m.poll.start",
  v "UnstablePollStart" "org.matrix.msc3381.poll.start",
  v "PollResponse" "m.poll.response",
  v "UnstablePollResponse" "org.matrix.msc3381.poll.response",
  v "PollEnd" "m.poll.end",
  v "UnstablePollEnd" "org.matrix.msc3381.poll.end",
  v "Beacon" "org.matrix.msc3672.beacon",
  a "Beacon" "m.beacon",
  v "Reaction" "m.reaction",
  v "RoomEncrypted" "m.room.encrypted",
  v "RoomMessage" "m.room.message",
  v "RoomRedaction" "m.room.redaction",
  v "Sticker" "m.sticker",
  v "Video" "org.matrix.msc1767.video",
  a "Video" "m.video",
  v "Voice" "org.matrix.msc3245.voice.v2",
  a "Voice" "m.voice",
  v "CallNotify" "org.matrix.msc4075.call.notify",
  a "CallNotify" "m.call.notify",
  v "PolicyRuleRoom" "m.policy.rule.room",
  v "PolicyRuleServer" "m.policy.rule.server",
  v "PolicyRuleUser" "m.policy.rule.user",
  v "RoomAliases" "m.room.aliases",
  v "RoomAvatar" "m.room.avatar",
  v "RoomCanonicalAlias" "m.room.canonical_alias",
  v "RoomCreate" "m.room.create",
  v "RoomEncryption" "m.room.encryption",
  v "RoomGuestAccess" "m.room.guest_access",
  v "RoomHistoryVisibility" "m.room.history_visibility",
  v "RoomJoinRules" "m.room.join_rules",
  v "RoomMember" "m.room.member",
  v "RoomName" "m.room.name",
  v "RoomPinnedEvents" "m.room.pinned_events",
  v "RoomPowerLevels" "m.room.power_levels",
  v "RoomServerAcl" "m.room.server_acl",
  v "RoomThirdPartyInvite" "m.room.third_party_invite",
  v "RoomTombstone" "m.room.tombstone",
  v "RoomTopic" "m.room.topic",
  v "SpaceChild" "m.space.child",
  v "SpaceParent" "m.space.parent",
  v "RoomImagePack" "im.ponies.room_emotes",
  a "RoomImagePack" "m.image_pack",
  v "BeaconInfo" "org.matrix.msc3672.beacon_info",
  a "BeaconInfo" "m.beacon_info",
  v "CallMember" "org.matrix.msc3401.call.member",
  a "CallMember" "m.call.member",
  v "MemberHints" "io.element.functional_members",
  a "MemberHints" "m.member_hints"
]⟩

/-- `ruma_events::StateEventType` -/
def stateEventType : EnumSpec := ⟨"StateEventType", [
  v "PolicyRuleRoom" "m.policy.rule.room",
  v "PolicyRuleServer" "m.policy.rule.server",
  v "PolicyRuleUser" "m.policy.rule.user",
  v "RoomAliases" "m.room.aliases",
  v "RoomAvatar" "m.room.avatar",
  v "RoomCanonicalAlias" "m.room.canonical_alias",
  v "RoomCreate" "m.room.create",
  v "RoomEncryption" "m.room.encryption",
  v "RoomGuestAccess" "m.room.guest_access",
  v "RoomHistoryVisibility" "m.room.history_visibility",
  v "RoomJoinRules" "m.room.join_rules",
  v "RoomMember" "m.room.member",
  v "RoomName" "m.room.name",
  v "RoomPinnedEvents" "m.room.pinned_events",
  v "RoomPowerLevels" "m.room.power_levels",
  v "RoomServerAcl" "m.room.server_acl",
  v "RoomThirdPartyInvite" "m.room.third_party_invite",
  v "RoomTombstone" "m.room.tombstone",
  v "RoomTopic" "m.room.topic",
  v "SpaceChild" "m.space.child",
  v "SpaceParent" "m.space.parent",
  v "RoomImagePack" "im.ponies.room_emotes",
  a "RoomImagePack" "m.image_pack",
  v "BeaconInfo" "org.matrix.msc3672.beacon_info",
  a "BeaconInfo" "m.beacon_info",
  v "CallMember" "org.matrix.msc3401.call.member",
  a "CallMember" "m.call.member",
  v "MemberHints" "io.element.functional_members",
  a "MemberHints" "m.member_hints"
]⟩

/-- `ruma_events::MessageLikeEventType` -/
def messageLikeEventType : EnumSpec := ⟨"MessageLikeEventType", [
  v "Audio" "org.matrix.msc1767.audio",
  a "Audio" "m.audio",
  v "CallAnswer" "m.call.answer",
  v "CallInvite" "m.call.invite",
  v "CallHangup" "m.call.hangup",
  v "CallCandidates" "m.call.candidates",
  v "CallNegotiate" "m.call.negotiate",
  v "CallReject" "m.call.reject",
  v "CallSdpStreamMetadataChanged" "m.call.sdp_stream_metadata_changed",
  a "CallSdpStreamMetadataChanged" "org.matrix.call.sdp_stream_metadata_changed",
  v "CallSelectAnswer" "m.call.select_answer",
  v "Emote" "org.matrix.msc1767.emote",
  a "Emote" "m.emote",
  v "Encrypted" "org.matrix.msc1767.encrypted",
  a "Encrypted" "m.encrypted",
  v "File" "org.matrix.msc1767.file",
  a "File" "m.file",
  v "Image" "org.matrix.msc1767.image",
  a "Image" "m.image",
  v "KeyVerificationReady" "m.key.verification.ready",
  v "KeyVerificationStart" "m.key.verification.start",
  v "KeyVerificationCancel" "m.key.verification.cancel",
  v "KeyVerificationAccept" "m.key.verification.accept",
  v "KeyVerificationKey" "m.key.verification.key",
  v "KeyVerificationMac" "m.key.verification.mac",
  v "KeyVerificationDone" "m.key.verification.done",
  v "Location" "m.location",
  v "Message" "org.matrix.msc1767.message",
  a "Message" "m.message",
  v "PollStart" "m.poll.start",
  v "UnstablePollStart" "org.matrix.msc3381.poll.start",
  v "PollResponse" "m.poll.response",
  v "UnstablePollResponse" "org.matrix.msc3381.poll.response",
  v "PollEnd" "m.poll.end",
  v "UnstablePollEnd" "org.matrix.msc3381.poll.end",
  v "Beacon" "org.matrix.msc3672.beacon",
  a "Beacon" "m.beacon",
  v "Reaction" "m.reaction",
  v "RoomEncrypted" "m.room.encrypted",
  v "RoomMessage" "m.room.message",
  v "RoomRedaction" "m.room.redaction",
  v "Sticker" "m.sticker",
  v "Video" "org.matrix.msc1767.video",
  a "Video" "m.video",
  v "Voice" "org.matrix.msc3245.voice.v2",
  a "Voice" "m.voice",
  v "CallNotify" "org.matrix.msc4075.call.notify",
  a "CallNotify" "m.call.notify"
]⟩

/-- `ruma_events::EphemeralRoomEventType` -/
def ephemeralRoomEventType : EnumSpec := ⟨"EphemeralRoomEventType", [
  v "Receipt" "m.receipt",
  v "Typing" "m.typing"
]⟩

/-- `ruma_events::RoomAccountDataEventType` -/
def roomAccountDataEventType : EnumSpec := ⟨"RoomAccountDataEventType", [
  v "FullyRead" "m.fully_read",
  v "Tag" "m.tag",
  v "MarkedUnread" "m.marked_unread",
  v "UnstableMarkedUnread" "com.famedly.marked_unread"
]⟩

/-- `ruma_events::GlobalAccountDataEventType` -/
def globalAccountDataEventType : EnumSpec := ⟨"GlobalAccountDataEventType", [
  v "Direct" "m.direct",
  v "IdentityServer" "m.identity_server",
  v "IgnoredUserList" "m.ignored_user_list",
  v "PushRules" "m.push_rules",
  v "SecretStorageDefaultKey" "m.secret_storage.default_key",
  w "SecretStorageKey" "m.secret_storage.key.*",
  v "AccountImagePack" "im.ponies.user_emotes",
  a "AccountImagePack" "m.image_pack",
  v "ImagePackRooms" "im.ponies.emote_rooms",
  a "ImagePackRooms" "m.image_pack.rooms"
]⟩

/-- `ruma_events::ToDeviceEventType` -/
def toDeviceEventType : EnumSpec := ⟨"ToDeviceEventType", [
  v "Dummy" "m.dummy",
  v "RoomKey" "m.room_key",
  v "RoomKeyRequest" "m.room_key_request",
  v "ForwardedRoomKey" "m.forwarded_room_key",
  v "KeyVerificationRequest" "m.key.verification.request",
  v "KeyVerificationReady" "m.key.verification.ready",
  v "KeyVerificationStart" "m.key.verification.start",
  v "KeyVerificationCancel" "m.key.verification.cancel",
  v "KeyVerificationAccept" "m.key.verification.accept",
  v "KeyVerificationKey" "m.key.verification.key",
  v "KeyVerificationMac" "m.key.verification.mac",
  v "KeyVerificationDone" "m.key.verification.done",
  v "RoomEncrypted" "m.room.encrypted",
  v "SecretRequest" "m.secret.request",
  v "SecretSend" "m.secret.send"
]⟩

end Data

/-- Every enum the check covers. -/
def all : List EnumSpec := [
  notificationPriority,
  identifierHashingAlgorithm,
  thirdPartyIdRemovalStatus,
  deviceDehydrationAlgorithm,
  errorCode,
  eventFormat,
  visibility,
  ssoRedirectOidcAction,
  authType,
  roomPreset,
  clientApiReceiptType,
  updateAction,
  contactRole,
  responseType,
  responseMode,
  grantType,
  codeChallengeMethod,
  accountManagementAction,
  prompt,
  roomVersionStability,
  membershipEventFilter,
  groupingKey,
  searchKeys,
  orderBy,
  identityProviderBrand,
  includeThreads,
  failureErrorCode,
  profileField,
  tokenType,
  publicRoomJoinRule,
  keyUsage,
  method,
  presenceState,
  pushFormat,
  ruleKind,
  roomType,
  spaceRoomJoinRule,
  medium,
  roomVersionFeature,
  predefinedOverrideRuleId,
  predefinedUnderrideRuleId,
  predefinedContentRuleId,
  deviceKeyAlgorithm,
  signingKeyAlgorithm,
  eventEncryptionAlgorithm,
  keyDerivationAlgorithm,
  oneTimeKeyAlgorithm,
  streamPurpose,
  packUsage,
  assetType,
  eventsReceiptType,
  relationType,
  action,
  guestAccess,
  historyVisibility,
  membershipState,
  messageFormat,
  serverNoticeType,
  limitType,
  hashAlgorithm,
  keyAgreementProtocol,
  messageAuthenticationCode,
  shortAuthenticationString,
  verificationMethod,
  cancelCode,
  pollKind,
  recommendation,
  secretName,
  reason,
  leaveReason,
  focusSelection,
  callScope,
  joinRule,
  timelineEventType,
  stateEventType,
  messageLikeEventType,
  ephemeralRoomEventType,
  roomAccountDataEventType,
  globalAccountDataEventType,
  toDeviceEventType
]

end Ruma.Spec.StringEnum
