/-
  Glob-style matching on code points — the vocabulary in which the class lists of a sanitizer
  configuration (`allow_classes`, `remove_classes`, the mode's `language-*`) are read.

  `GlobCp p s` is the relation `Glob` of `Spec/Glob.lean` (Matrix spec, appendix "Glob-style
  matching": `*` matches any run of characters, possibly empty, `?` exactly one character, every
  other character itself; the pattern has to match the WHOLE text), written over the code-point
  strings (`List Nat`) of the HTML model instead of `List Char`: `*` is 42, `?` is 63.
  `Lemmas/HtmlGlob.lean` proves that it is that relation (`globCp_iff_Glob`: on strings of Unicode
  scalar values, `GlobCp p s ↔ Glob (p.map Char.ofNat) (s.map Char.ofNat)`), that `globCp` decides
  it, and that the model of `WildMatch::matches` computes the same Boolean.

  Nothing here mentions the implementation.
-/
import RumaModel.Model.Json
namespace Ruma.Spec.HtmlGlob
open Ruma

/-- `GlobCp p s`: pattern `p` matches all of `s`. -/
inductive GlobCp : Str → Str → Prop
  | nil : GlobCp [] []
  /-- `*` matches any run `u`. -/
  | star (p u t : Str) : GlobCp p t → GlobCp (42 :: p) (u ++ t)
  /-- `?` matches exactly one character. -/
  | one (p : Str) (c : Nat) (t : Str) : GlobCp p t → GlobCp (63 :: p) (c :: t)
  /-- any other character matches itself. -/
  | lit (a : Nat) (p t : Str) : a ≠ 42 → a ≠ 63 → GlobCp p t → GlobCp (a :: p) (a :: t)

/-- `f` holds of some suffix of the text. -/
def anySuffix (f : Str → Bool) : Str → Bool
  | [] => f []
  | c :: t => f (c :: t) || anySuffix f t

/-- Decision procedure for `GlobCp` (`globCp_iff` in `Lemmas/HtmlGlob.lean`); the same procedure
as `globDecide` of `Spec/Glob.lean`. -/
def globCp : Str → Str → Bool
  | [], s => s.isEmpty
  | a :: p, s =>
    if a == 42 then anySuffix (globCp p) s
    else
      match s with
      | [] => false
      | c :: t => (a == 63 || a == c) && globCp p t

/-- Some pattern of the list matches the class. -/
def matchesAny (pats : List Str) (cl : Str) : Bool := pats.any (fun p => globCp p cl)

end Ruma.Spec.HtmlGlob
