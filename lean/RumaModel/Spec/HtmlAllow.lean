/-
  The Matrix specification's recommendations for `formatted_body` HTML
  (Client-Server API, § "m.room.message msgtypes": permitted tags, permitted attributes per tag,
  URL schemes, `language-` classes on `code`, maximum nesting depth 100, deprecated `font` /
  `strike`), written as data. Nothing here mentions the sanitizer's code.

  Strings are code point lists (`bs "ascii literal"`).
-/
import RumaModel.Model.Html
import RumaModel.Spec.HtmlGlob
namespace Ruma.Spec.HtmlAllow
open Ruma Ruma.Html

/-- Permitted tags. `mx-reply` is the rich-reply fallback wrapper: permitted, and stripped with
its content when the caller asks for reply-fallback removal. -/
def elements : List Str := [
  bs "del", bs "h1", bs "h2", bs "h3", bs "h4", bs "h5", bs "h6", bs "blockquote", bs "p",
  bs "a", bs "ul", bs "ol", bs "sup", bs "sub", bs "li", bs "b", bs "i", bs "u", bs "strong",
  bs "em", bs "s", bs "code", bs "hr", bs "br", bs "div", bs "table", bs "thead", bs "tbody",
  bs "tr", bs "th", bs "td", bs "caption", bs "pre", bs "span", bs "img", bs "details",
  bs "summary", bs "mx-reply"]

/-- Permitted attributes per tag; a tag without a row has none. (Rows and names are written in
the order of the harness' probe universes, so that the lists extracted from the running
implementation can be compared with these as plain data: `impl_lists_eq_spec`.) -/
def attrs : PerElem := [
  (bs "a", [bs "target", bs "href"]),
  (bs "ol", [bs "start"]),
  (bs "code", [bs "class"]),
  (bs "div", [bs "data-mx-maths"]),
  (bs "span", [bs "data-mx-maths", bs "data-mx-bg-color", bs "data-mx-color", bs "data-mx-spoiler"]),
  (bs "img", [bs "width", bs "height", bs "alt", bs "title", bs "src"])]

/-- URL schemes: `href` of `a` must be one of these, `src` of `img` must be `mxc`. -/
def schemesStrict : SchemeMap := [
  (bs "a", [(bs "href", [bs "https", bs "http", bs "ftp", bs "mailto", bs "magnet"])]),
  (bs "img", [(bs "src", [bs "mxc"])])]

/-- Compat mode additionally accepts `matrix:` links (matrix-spec issue 1108). -/
def schemesCompat : SchemeMap := [(bs "a", [(bs "href", [bs "matrix"])])]

/-- Classes: on `code`, only names starting with `language-`. -/
def classes : PerElem := [(bs "code", [bs "language-*"])]

def maxDepth : Nat := 100

/-- Deprecated tags and attributes with the replacement the spec documents. -/
def deprecatedElements : List (Str × Str) := [(bs "font", bs "span"), (bs "strike", bs "s")]
def deprecatedAttrs : List (Str × List (Str × Str)) := [(bs "font", [(bs "color", bs "data-mx-color")])]

/-- The spec's lists in the container the model takes. -/
def lists : Lists where
  elements := elements
  deprecatedElements := deprecatedElements
  attrs := attrs
  deprecatedAttrs := deprecatedAttrs
  schemesStrict := schemesStrict
  schemesCompat := schemesCompat
  classes := classes
  maxDepth := maxDepth

/-! ## What the spec says about single names (the cells of the T1 tables) -/

/-- The row of a table (`mapGet`: plain lookup by key; the tables above have no repeated key). -/
def row (t : List (Str × List Str)) (el : Str) : List Str := (mapGet t el).getD []

def elemAllowed (n : Str) : Bool := elements.contains n

def attrAllowed (el a : Str) : Bool := (row attrs el).contains a

/-- The schemes a URI attribute is restricted to (`none`: not a restricted attribute). -/
def schemeList (m : Mode) (el a : Str) : Option (List Str) :=
  let s := (mapGet schemesStrict el).bind (mapGet · a)
  let k := if m == .compat then (mapGet schemesCompat el).bind (mapGet · a) else none
  if s.isNone && k.isNone then none else some (s.getD [] ++ k.getD [])

/-- A value is acceptable iff the attribute is unrestricted or the value starts with `scheme:` for
a permitted scheme (exact, case-sensitive spelling, no leading whitespace). -/
def valueAllowed (m : Mode) (el a value : Str) : Bool :=
  match schemeList m el a with
  | none => true
  | some l => l.any (fun s => (s ++ [58]).isPrefixOf value)

/-- `language-*`: the prefix and then anything. Patterns are globs (`*` any run of characters;
the relation `GlobCp` of `Spec/HtmlGlob.lean`, decided by `globCp`). -/
def classAllowed (el cl : Str) : Bool := Spec.HtmlGlob.matchesAny (row classes el) cl

def elemReplacement (el : Str) : Str := (mapGet deprecatedElements el).getD el

def attrReplacement (el a : Str) : Str := ((mapGet deprecatedAttrs el).bind (mapGet · a)).getD a

/-- What a mode must do on every point of a universe, according to the lists above. -/
def expected (m : Mode) (u : Universe) : ModeTable where
  elements := u.elements.filter elemAllowed
  attrs := u.elements.filterMap (fun el =>
    let l := u.attrs.filter (attrAllowed el)
    if l.isEmpty then none else some (el, l))
  schemes := u.elements.flatMap (fun el => u.attrs.filterMap (fun a =>
    match schemeList m el a with
    | none => none
    | some l => some (el, a, u.schemes.filter (fun s => l.contains s))))
  classes := u.elements.filterMap (fun el =>
    let l := u.classes.filter (classAllowed el)
    if l.isEmpty then none else some (el, l))
  maxDepth := maxDepth
  replElements := u.elements.filterMap (fun el =>
    if elemReplacement el == el then none else some (el, elemReplacement el))
  replAttrs := u.elements.flatMap (fun el => u.attrs.filterMap (fun a =>
    if attrReplacement el a == a then none else some (el, a, attrReplacement el a)))

/-- Every name the spec lists is inside the universe (so the comparison over the universe misses
nothing the spec says). -/
def withinUniverse (u : Universe) : Bool :=
  elements.all u.elements.contains &&
  attrs.all (fun r => u.elements.contains r.1 && r.2.all u.attrs.contains) &&
  (schemesStrict ++ schemesCompat).all (fun r => u.elements.contains r.1 &&
    r.2.all (fun p => u.attrs.contains p.1 && p.2.all u.schemes.contains)) &&
  deprecatedElements.all (fun r => u.elements.contains r.1 && u.elements.contains r.2) &&
  deprecatedAttrs.all (fun r => u.elements.contains r.1 &&
    r.2.all (fun p => u.attrs.contains p.1 && u.attrs.contains p.2))

end Ruma.Spec.HtmlAllow
