/-
  The event types of the Matrix specification (client-server API, v1.12 event index), per kind,
  and what a conforming typed deserialiser has to do with a `type` string:

  * a type of the list selects the variant named after it;
  * an alternative spelling a server may still relay (`aliases`) selects the same variant and the
    event is reported under the stable type;
  * a type of the form `prefix.*` (`m.secret_storage.key.[key ID]`) selects its variant for every
    string that starts with `prefix.` and the reported type keeps the suffix;
  * every other string is a custom event and keeps its type.

  The only alias/unstable spelling the code declares under its default feature set is
  `org.matrix.call.sdp_stream_metadata_changed` (MSC3077's unstable name).

  Variant names follow the naming rule of the code base (`m.` dropped, split at `.` and `_`,
  camel-cased); the rule is written once in `variantName`, no name is listed by hand.

  `notImplemented`: types the specification defines that the code (default features) does not
  declare; they must come out as custom events, which is allowed by the property ("unknown types
  go to the custom variant").
-/
import RumaModel.Model.EventDispatch
namespace Ruma.Spec.EventTypes
open Ruma Ruma.EventDispatch

structure SpecType where
  ty : String
  aliases : List String := []

/-- §"Instant messaging", "Voice over IP", "End-to-end encryption / key verification in rooms",
"Event annotations and reactions", "Sticker messages", "Redactions". -/
def messageLike : List SpecType := [
  ⟨"m.call.answer", []⟩,
  ⟨"m.call.invite", []⟩,
  ⟨"m.call.hangup", []⟩,
  ⟨"m.call.candidates", []⟩,
  ⟨"m.call.negotiate", []⟩,
  ⟨"m.call.reject", []⟩,
  ⟨"m.call.sdp_stream_metadata_changed", ["org.matrix.call.sdp_stream_metadata_changed"]⟩,
  ⟨"m.call.select_answer", []⟩,
  ⟨"m.key.verification.ready", []⟩,
  ⟨"m.key.verification.start", []⟩,
  ⟨"m.key.verification.cancel", []⟩,
  ⟨"m.key.verification.accept", []⟩,
  ⟨"m.key.verification.key", []⟩,
  ⟨"m.key.verification.mac", []⟩,
  ⟨"m.key.verification.done", []⟩,
  ⟨"m.reaction", []⟩,
  ⟨"m.room.encrypted", []⟩,
  ⟨"m.room.message", []⟩,
  ⟨"m.room.redaction", []⟩,
  ⟨"m.sticker", []⟩]

/-- §"Room events" (state), "Moderation policy lists", "Spaces", "Server ACLs", "Third-party
invites", "Room upgrades", "Guest access", "Room history visibility". -/
def state : List SpecType := [
  ⟨"m.policy.rule.room", []⟩,
  ⟨"m.policy.rule.server", []⟩,
  ⟨"m.policy.rule.user", []⟩,
  ⟨"m.room.aliases", []⟩,
  ⟨"m.room.avatar", []⟩,
  ⟨"m.room.canonical_alias", []⟩,
  ⟨"m.room.create", []⟩,
  ⟨"m.room.encryption", []⟩,
  ⟨"m.room.guest_access", []⟩,
  ⟨"m.room.history_visibility", []⟩,
  ⟨"m.room.join_rules", []⟩,
  ⟨"m.room.member", []⟩,
  ⟨"m.room.name", []⟩,
  ⟨"m.room.pinned_events", []⟩,
  ⟨"m.room.power_levels", []⟩,
  ⟨"m.room.server_acl", []⟩,
  ⟨"m.room.third_party_invite", []⟩,
  ⟨"m.room.tombstone", []⟩,
  ⟨"m.room.topic", []⟩,
  ⟨"m.space.child", []⟩,
  ⟨"m.space.parent", []⟩]

/-- §"Typing notifications", "Receipts". -/
def ephemeralRoom : List SpecType := [⟨"m.receipt", []⟩, ⟨"m.typing", []⟩]

/-- §"Direct messaging", "Ignoring users", "Push rules", "Identity server discovery in account
data", "Secret storage". -/
def globalAccountData : List SpecType := [
  ⟨"m.direct", []⟩,
  ⟨"m.identity_server", []⟩,
  ⟨"m.ignored_user_list", []⟩,
  ⟨"m.push_rules", []⟩,
  ⟨"m.secret_storage.default_key", []⟩,
  ⟨"m.secret_storage.key.*", []⟩]

/-- §"Fully read markers", "Room tagging", "Marking rooms as unread". -/
def roomAccountData : List SpecType := [⟨"m.fully_read", []⟩, ⟨"m.tag", []⟩, ⟨"m.marked_unread", []⟩]

/-- §"Send-to-device messaging", "End-to-end encryption" (key sharing, verification, secrets). -/
def toDevice : List SpecType := [
  ⟨"m.dummy", []⟩,
  ⟨"m.room_key", []⟩,
  ⟨"m.room_key_request", []⟩,
  ⟨"m.forwarded_room_key", []⟩,
  ⟨"m.key.verification.request", []⟩,
  ⟨"m.key.verification.ready", []⟩,
  ⟨"m.key.verification.start", []⟩,
  ⟨"m.key.verification.cancel", []⟩,
  ⟨"m.key.verification.accept", []⟩,
  ⟨"m.key.verification.key", []⟩,
  ⟨"m.key.verification.mac", []⟩,
  ⟨"m.key.verification.done", []⟩,
  ⟨"m.room.encrypted", []⟩,
  ⟨"m.secret.request", []⟩,
  ⟨"m.secret.send", []⟩]

/-- Spec types without a dedicated variant under the default feature set (kind they would belong
to, type). They are custom events to this code. -/
def notImplemented : List (Kind × String) := [
  (.toDevice, "m.room_key.withheld"),
  (.messageLike, "m.poll.start"),
  (.messageLike, "m.poll.response"),
  (.messageLike, "m.poll.end")]

def types : Kind → List SpecType
  | .messageLike => messageLike
  | .state => state
  | .ephemeralRoom => ephemeralRoom
  | .globalAccountData => globalAccountData
  | .roomAccountData => roomAccountData
  | .toDevice => toDevice

/-! ### Naming rule -/

/-- Split at `.` (46) and `_` (95). -/
def splitWords : Str → Str → List Str
  | [], cur => [cur.reverse]
  | c :: t, cur => if c = 46 ∨ c = 95 then cur.reverse :: splitWords t [] else splitWords t (c :: cur)

def capitalise : Str → Str
  | [] => []
  | c :: t => (if 97 ≤ c ∧ c ≤ 122 then c - 32 else c) :: t

/-- `m.room.power_levels` ↦ `RoomPowerLevels`, `m.secret_storage.key.*` ↦ `SecretStorageKey`. -/
def variantName (ty : Str) : Str :=
  let noM := if (bs "m.").isPrefixOf ty then ty.drop 2 else ty
  let noStar := if (bs ".*").isSuffixOf noM then noM.take (noM.length - 2) else noM
  ((splitWords noStar []).map capitalise).flatten

def rowOf (s : SpecType) : Row := ⟨variantName (bs s.ty), bs s.ty, s.aliases.map bs⟩

/-- The dispatch table the specification implies for each kind. -/
def table (k : Kind) : Table := (types k).map rowOf

/-! ### What the specification expects of one `type` string (declarative reading) -/

inductive Expect where
  /-- a dedicated variant for the spec type `canon`, reported as `reported` -/
  | known (canon : Str) (reported : Str)
  | custom
  deriving DecidableEq, Repr

/-- Declarative classification, independent of any arm order: look for the (unique) spec type of
the kind that `t` spells. -/
def classify (k : Kind) (t : Str) : Expect :=
  match (types k).filter (fun s =>
      let ty := bs s.ty
      if (bs ".*").isSuffixOf ty then (ty.dropLast).isPrefixOf t
      else ty == t || (s.aliases.map bs).contains t) with
  | s :: _ =>
    let ty := bs s.ty
    if (bs ".*").isSuffixOf ty then .known ty t else .known ty ty
  | [] => .custom

/-! ### The finite universe on which the running code is compared with the table (T1) -/

def allKinds : List Kind :=
  [.globalAccountData, .roomAccountData, .ephemeralRoom, .messageLike, .state, .toDevice]

def allEnums : List Enum := [
  .anyGlobalAccountData, .anyRoomAccountData, .anyEphemeralRoom, .anySyncEphemeralRoom,
  .anyMessageLike, .anySyncMessageLike, .anyState, .anySyncState, .anyStrippedState,
  .anyInitialState, .anyToDevice, .anyTimeline, .anySyncTimeline]

/-- Near misses, wildcard instances and foreign types probed in addition to every listed type and
alias. -/
def extraProbes : List String := [
  "m.secret_storage.key.abc", "m.secret_storage.key.", "m.secret_storage.key",
  "m.secret_storage.key.a.b_c", "m.secret_storage.default_key.x", "m.secret_storage.keys",
  "m.room.messag", "m.room.message2", "m.room.message.", "M.ROOM.MESSAGE", "m.room", "m.",
  "", "*", "m.room.*", "room.message", " m.room.message", "m.room.message ",
  "org.example.custom", "org.matrix.call.sdp_stream_metadata_changed.x", "m.call",
  "org.matrix.msc1767.message", "m.message", "m.poll.start", "m.poll.response", "m.poll.end",
  "m.room_key.withheld", "m.presence", "m.room.message.feedback", "m.location", "m.beacon_info",
  "im.ponies.room_emotes", "com.famedly.marked_unread", "m.call.member", "m.call.notify",
  "m.key.verification.requests", "io.element.functional_members"]

def dedup : List Str → List Str → List Str
  | [], acc => acc.reverse
  | s :: t, acc => if acc.contains s then dedup t acc else dedup t (s :: acc)

/-- Every listed type (a `.*` type as written, i.e. with the literal `*` as its fragment), every
alias, and the extras; each probed against every enum. -/
def probeTypes : List Str :=
  dedup ((allKinds.flatMap (fun k => (types k).flatMap (fun s => bs s.ty :: s.aliases.map bs)))
    ++ extraProbes.map bs) []

/-- Does a minimal event for this enum carry a `state_key`? For the timeline enums the probe is made
twice (`withStateKey`). -/
def stateEnum : Enum → Bool
  | .anyState | .anySyncState | .anyStrippedState | .anyInitialState => true
  | _ => false

/-- The dispatch-relevant skeleton of the probe event (content and the other envelope fields do not
take part in dispatch; the harness supplies valid ones). -/
def cellEvent (t : Str) (withStateKey redactedForm : Bool) : Obj :=
  [(bs "type", .str t)]
  ++ (if withStateKey then [(bs "state_key", .str [])] else [])
  ++ (if redactedForm then
        [(bs "unsigned", .obj [(bs "redacted_because", .obj [(bs "type", .str (bs "m.room.redaction"))])])]
      else [])

structure Cell where
  enum : Enum
  ty : Str
  withStateKey : Bool
  redactedForm : Bool
  result : Option Sel
  deriving DecidableEq, Repr

def okOf : Except Err Sel → Option Sel
  | .ok s => some s
  | .error _ => none

def cellsOf (e : Enum) : List Cell :=
  let sks := if e.isTimeline then [false, true] else [stateEnum e]
  let forms := if e.maybeRedacted then [false, true] else [false]
  probeTypes.flatMap (fun t => sks.flatMap (fun sk => forms.map (fun red =>
    ⟨e, t, sk, red, okOf (dispatch table e (cellEvent t sk red))⟩)))

/-- What the table-driven model answers on the whole probe universe. -/
def expectedCells : List Cell := allEnums.flatMap cellsOf

end Ruma.Spec.EventTypes
