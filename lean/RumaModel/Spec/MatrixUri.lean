/-
  C11 — specification side.

  Sources: Matrix spec, Appendices, "URIs" (`matrix:` scheme — MSC2312 — and `matrix.to`
  navigation); RFC 3986 §2.1 (percent-encoding).

  What the property says, without reference to how the code does it:
  * a URI value is an identifier (user, room id, room alias, or event in a room), a list of
    routing servers (`via`) and, for `matrix:`, an optional action;
  * the value is *well formed* when each identifier is one the identifier parsers accept, carries
    its sigil, and is a Rust `str` (valid UTF-8);
  * formatting a well-formed value and parsing the text gives the value back; parsing any text
    gives a value or an error, never a panic; re-formatting a parsed value and parsing again gives
    the same value.
-/
import RumaModel.Model.MatrixUri
namespace Ruma.Spec.MatrixUri
open Ruma Ruma.MatrixUri

/-- The sigils of the Matrix identifier grammar. -/
def sigilUser : Nat := 64      -- '@'
def sigilRoomId : Nat := 33    -- '!'
def sigilAlias : Nat := 35     -- '#'
def sigilEvent : Nat := 36     -- '$'

/-- Matrix spec, "matrix: URI scheme", table of `type` path segments: the canonical type written
for each kind of identifier, by sigil. (`user`, `room`, `event` are accepted legacy spellings.) -/
def typeOfSigil (sigil : Nat) : Option Str :=
  if sigil = sigilUser then some (bs "u")
  else if sigil = sigilAlias then some (bs "r")
  else if sigil = sigilRoomId then some (bs "roomid")
  else if sigil = sigilEvent then some (bs "e")
  else none

/-- Bytes that delimit the parts of a URI; an encoded identifier segment must not contain them. -/
def isDelim (c : Nat) : Bool := c == 47 || c == 63 || c == 35   -- '/' '?' '#'

/-- RFC 3986 §2.1: `t` is a percent-encoded form of the byte string `b` — every byte is either
written as itself (never a bare `%`) or as `%` and its two hex digits. -/
inductive PctDenotes : Str → Str → Prop where
  | nil : PctDenotes [] []
  | lit (c : Nat) {t b : Str} : c ≠ 37 → PctDenotes t b → PctDenotes (c :: t) (c :: b)
  | esc (h l x y : Nat) {t b : Str} : hexVal h = some x → hexVal l = some y →
      PctDenotes t b → PctDenotes (37 :: h :: l :: t) ((16 * x + y) :: b)

/-- A string held in a Rust `str`/identifier type: bytes that form valid UTF-8. -/
def IsStr (s : Str) : Prop := Bytes s ∧ validUtf8 s = true

/-- An identifier value of the given kind: accepted by that kind's parser, carrying its sigil. -/
def IdOk (accept : Str → Bool) (sigil : Nat) (s : Str) : Prop :=
  IsStr s ∧ s.head? = some sigil ∧ accept s = true

/-- A room-or-alias identifier value. -/
def RoomOrAliasOk (V : Validators) (s : Str) : Prop :=
  IdOk V.room sigilRoomId s ∨ IdOk V.alias sigilAlias s

/-- Well-formed `MatrixId` values (what the identifier types of the library can hold). -/
def MatrixIdOk (V : Validators) : MatrixId → Prop
  | .user id => IdOk V.user sigilUser id
  | .room id => IdOk V.room sigilRoomId id
  | .roomAlias id => IdOk V.alias sigilAlias id
  | .event r e => RoomOrAliasOk V r ∧ IdOk V.event sigilEvent e

/-- A routing server value: a `str` the server-name parser accepts. -/
def ServerOk (V : Validators) (s : Str) : Prop := IsStr s ∧ V.server s = true

/-- An action value: `join`, `chat`, or any *other* string (the library's custom variant cannot
hold the two reserved words). -/
def ActionOk : Action → Prop
  | .join => True
  | .chat => True
  | .custom s => IsStr s ∧ s ≠ bs "join" ∧ s ≠ bs "chat"

def ToUriOk (V : Validators) (u : ToUri) : Prop :=
  MatrixIdOk V u.id ∧ ∀ s ∈ u.via, ServerOk V s

def UriOk (V : Validators) (u : Uri) : Prop :=
  MatrixIdOk V u.id ∧ (∀ s ∈ u.via, ServerOk V s) ∧ ∀ a, u.action = some a → ActionOk a

/-- What the property requires of `parse (format v)` for a well-formed value `v`: `v` itself.
(The driver answers the round-trip requests `c11.to.rt` / `c11.uri.rt` with this.) -/
def expectedRoundTrip {α : Type} (v : α) : Res α := .ok v

/-- The assumption made about `url::Url::parse` (WHATWG URL, non-special scheme, opaque path):
a text `matrix:` + path + optional `?` + query whose path and query consist of printable ASCII
other than space `"` `#` `<` `>` `?`, the path not starting with `/`, parses to exactly that scheme,
path and query. -/
def UrlKeepsSafeText (U : UrlParser) : Prop :=
  ∀ (p : Str) (q : Option Str),
    p.all urlSafe = true → p.head? ≠ some 47 →
    (∀ q', q = some q' → q'.all urlSafe = true) →
    U (bs "matrix:" ++ p ++ queryText q) = some ⟨bs "matrix", p, q⟩

/-- The other assumption about `url::Url::parse`: what it returns are strings (every element of
path and query is a byte). -/
def UrlReturnsBytes (U : UrlParser) : Prop :=
  ∀ s u, U s = some u → Bytes u.path ∧ ∀ q, u.query = some q → Bytes q

end Ruma.Spec.MatrixUri
