/-
  Specification side of C18's per-type clauses: what the property statement says about the JSON that
  goes in and comes out of a typed content, written as predicates and relations on JSON values.

  "Serializing the typed content and deserializing it again under the same type is a fixpoint that
   yields valid JSON without duplicate keys [`NoDupKeys`], changes no value that was present, and
   does not depend on the input's key order [`Canonical.Shuffled`, shared with C01]; unknown extra
   fields never cause failure [`Ext`]."

  Also here, but NOT specification: `WF`, the side condition on the MODEL's schema language under
  which the fixpoint and duplicate-key theorems hold. It is defined through the model (`Field.Ok`
  uses `project`, `TagFixed` inspects the `Schema`); it says which schemas describe a derived Rust
  type at all (distinct field spellings, a default that the type itself can read, a serialiser that
  does not skip a value it needs on re-read, idempotent scalar readers, a tagged case that writes its
  tag, no serialise-only constant in a struct with a catch-all). It is not trusted: the total check
  `wfb` (`Model/ContentSchemaLeaves.lean`) is proved sound for it (`Lemmas/ContentSchemaWF.lean`) and
  evaluated by the kernel on every schema extracted from the running code
  (`Props/C18.lean`, `generated_schemas_wf`).
-/
import RumaModel.Model.ContentSchema
namespace Ruma.ContentSchema
open Ruma

/-! ### No duplicate keys, at every depth -/

mutual
def NoDupKeys : JVal → Prop
  | .arr xs => NoDupKeysL xs
  | .obj kvs => (Obj.keys kvs).Nodup ∧ NoDupKeysO kvs
  | _ => True
def NoDupKeysL : List JVal → Prop
  | [] => True
  | v :: t => NoDupKeys v ∧ NoDupKeysL t
def NoDupKeysO : List (Str × JVal) → Prop
  | [] => True
  | (_, v) :: t => NoDupKeys v ∧ NoDupKeysO t
end

/-! ### Unknown extra fields -/

mutual
/-- `Ext s v w`: read under schema `s`, `w` is `v` up to keys the schema does not name: wherever the
schema has a struct, the two objects agree on the entries whose keys spell a field (same keys in the
same order, values related under the field's schema) and may differ arbitrarily in number, position
and content of all other entries — unless the struct keeps unknown keys, in which case those
entries must be the same too. -/
inductive Ext : Schema → JVal → JVal → Prop
  | refl (s : Schema) (v : JVal) : Ext s v v
  | arr {e : Schema} {xs ys : List JVal} : ExtL e xs ys → Ext (.arr e) (.arr xs) (.arr ys)
  | map {ok : Str → Bool} {s : Schema} {a b : List (Str × JVal)} :
      ExtM s a b → Ext (.map ok s) (.obj a) (.obj b)
  | nullOr {s : Schema} {v w : JVal} : Ext s v w → Ext (.nullOr s) v w
  | obj {fields : List Field} {keep : Bool} {a b : List (Str × JVal)} :
      ExtO fields (a.filter (fun e => known fields e.1)) (b.filter (fun e => known fields e.1)) →
      (keep = true → a.filter (fun e => !known fields e.1) = b.filter (fun e => !known fields e.1)) →
      Ext (.obj fields keep) (.obj a) (.obj b)
  | tagged {tag : Str} {cases : List Case} {a b : List (Str × JVal)} :
      a.filter (fun e => e.1 == tag) = b.filter (fun e => e.1 == tag) →
      (∀ c, c ∈ cases → tagOf tag a = some c.label → Ext c.schema (.obj a) (.obj b)) →
      Ext (.tagged tag cases) (.obj a) (.obj b)
inductive ExtL : Schema → List JVal → List JVal → Prop
  | nil (e : Schema) : ExtL e [] []
  | cons {e : Schema} {v w : JVal} {xs ys : List JVal} : Ext e v w → ExtL e xs ys → ExtL e (v :: xs) (w :: ys)
inductive ExtM : Schema → List (Str × JVal) → List (Str × JVal) → Prop
  | nil (s : Schema) : ExtM s [] []
  | cons {s : Schema} {k : Str} {v w : JVal} {xs ys : List (Str × JVal)} :
      Ext s v w → ExtM s xs ys → ExtM s ((k, v) :: xs) ((k, w) :: ys)
inductive ExtO : List Field → List (Str × JVal) → List (Str × JVal) → Prop
  | nil (fields : List Field) : ExtO fields [] []
  | cons {fields : List Field} {k : Str} {v w : JVal} {xs ys : List (Str × JVal)} :
      (∀ f, f ∈ fields → f.spelledBy k = true → Ext f.schema v w) → ExtO fields xs ys →
      ExtO fields ((k, v) :: xs) ((k, w) :: ys)
end

/-! ### Schemas that describe a type (model-side side condition, discharged by `generated_schemas_wf`) -/

/-- No key selects two fields of the struct, and in particular no two fields are written under the
same name. -/
def Distinct (fs : List Field) : Prop :=
  fs.Pairwise (fun f g => f.spelledBy g.name = false ∧ g.spelledBy f.name = false)

instance (fs : List Field) : Decidable (Distinct fs) :=
  inferInstanceAs (Decidable (List.Pairwise _ fs))

/-- The serialiser never skips a value that the deserialiser could not do without
(`skip_serializing_if` only on fields that are neither required nor written back when absent), and
the written-back default is a value the field itself reads back unchanged. -/
def Field.Ok (f : Field) : Prop :=
  ((f.req = true ∨ f.dflt.isSome = true) → ∀ v, f.skip v = false) ∧
  (∀ d, f.dflt = some d → (f.nullAbsent = true ∧ d = .null) ∨ project f.schema d = some d)

/-- The struct of a case writes its discriminator: a required string field named `tag` that accepts
only the case's label. -/
def TagFixed (tag label : Str) (s : Schema) : Prop :=
  ∃ fields keep, s = .obj fields keep ∧ ∃ f, f ∈ fields ∧ f.name = tag ∧ f.req = true ∧ f.ghost = false ∧
    ∃ norm, f.schema = .scalar norm ∧ ∀ a b, norm a = some b → b = .str label

/-- The side condition. `obj`'s last premise: a struct that keeps unknown keys (`#[serde(flatten)]`
map) has no serialise-only constant (`ghost`, a struct-level `#[serde(tag)]`) — in that combination
real serde collects the input's occurrence of the tag key into the flatten map and writes the key
twice, which the model (`known` counts the ghost's name as claimed, so the input's entry is dropped)
does not reproduce; no modelled type combines the two. -/
inductive WF : Schema → Prop
  | any : WF .any
  /-- What a scalar type writes back, it reads back unchanged; it writes `null` only for `null`. -/
  | scalar {norm : JVal → Option JVal} :
      (∀ a b, norm a = some b → norm b = some b) → (∀ a, norm a = some .null → a = .null) → WF (.scalar norm)
  | arr {e : Schema} : WF e → WF (.arr e)
  | map {ok : Str → Bool} {s : Schema} : WF s → WF (.map ok s)
  | obj {fields : List Field} {keep : Bool} :
      (∀ f, f ∈ fields → WF f.schema) → (∀ f, f ∈ fields → f.Ok) → Distinct fields →
      (keep = true → ∀ f, f ∈ fields → f.ghost = false) → WF (.obj fields keep)
  | nullOr {s : Schema} : WF s → WF (.nullOr s)
  | tagged {tag : Str} {cases : List Case} :
      (∀ c, c ∈ cases → WF c.schema) → (∀ c, c ∈ cases → TagFixed tag c.label c.schema) → WF (.tagged tag cases)

/-- A scalar type that writes back what it read. -/
def Verbatim (norm : JVal → Option JVal) : Prop := ∀ a b, norm a = some b → b = a

end Ruma.ContentSchema
