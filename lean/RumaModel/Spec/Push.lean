/-
  C12 — specification of push rule evaluation (Matrix client-server spec, "Push rules":
  "the first matching enabled rule wins; kinds are tried in the order override, content, room,
  sender, underride and rules of a kind in list order"; "Conditions"; appendix "Dot-separated
  property paths").

  Only the *data types* (`PJ`, `Scalar`, `Cond`, the rule structures, `Ruleset`, `Ctx`) are shared
  with the model; nothing here uses the model's functions.

  * A property path addresses a leaf of the event: the keys on the way are joined with `.`, and a
    `.` or `\` inside a key is written with a backslash in front (`pathString`).
  * Numbers that are not canonical-JSON integers (fractions, |n| > 2^53 − 1) are not properties.
  * `event_match` compares string properties with the glob of `Spec/Glob.lean`: on word boundaries
    for `content.body`, on the whole value for every other key; `room_id` is the room the event was
    received in. `contains_display_name`: `content.body` contains the display name as literal text
    (its `*` and `?` are ordinary characters) between word boundaries. Content rules are `event_match` on `content.body`, room and sender rules are
    `event_match` on `room_id` / `sender` with the rule id as pattern.
  * An event sent by the user themselves matches nothing; disabled rules never match; the legacy
    mention rules do not match events that carry `content.m.mentions`.
-/
import RumaModel.Spec.Glob
import RumaModel.Model.Push
namespace Ruma.Spec.Push
open Ruma.Push (Text PJ Scalar Cond CmpOp MemberCountIs Ctx PowerLevelsCtx CondRule PatRule SimpleRule
  Ruleset AnyRule)
open Ruma.Spec.Glob (wordMatchDecide valueDecide wordMatches valueMatches containsWordDecide containsWordMatches)

def keyRoomId : Text := "room_id".toList
def keyContentBody : Text := "content.body".toList
def keySender : Text := "sender".toList
def keyRoom : Text := "room".toList
def ruleRoomNotif : Text := ".m.rule.roomnotif".toList
def ruleContainsDisplayName : Text := ".m.rule.contains_display_name".toList
def ruleContainsUserName : Text := ".m.rule.contains_user_name".toList

/-- A key as it is written inside a property path. -/
def escape (k : Text) : Text :=
  k.flatMap fun c => if c = '.' ∨ c = '\\' then ['\\', c] else [c]

/-- The property path of a key path. -/
def pathString : List Text → Text
  | [] => []
  | [k] => escape k
  | k :: k' :: ks => escape k ++ '.' :: pathString (k' :: ks)

/-- Canonical-JSON integer. -/
def canonicalInt (i : Int) : Bool := decide (-9007199254740991 ≤ i ∧ i ≤ 9007199254740991)

mutual
/-- The addressable leaves of a JSON value with their key paths (`rpath` = the keys so far, last
first): everything that is not a non-empty object, except non-canonical numbers. -/
def leaves (v : PJ) (rpath : List Text) : List (List Text × PJ) :=
  match v with
  | .obj [] => [(rpath.reverse, .obj [])]
  | .obj (kv :: kvs) => leavesFields (kv :: kvs) rpath
  | .float => []
  | .int i => if canonicalInt i then [(rpath.reverse, .int i)] else []
  | .null => [(rpath.reverse, .null)]
  | .bool b => [(rpath.reverse, .bool b)]
  | .str s => [(rpath.reverse, .str s)]
  | .arr xs => [(rpath.reverse, .arr xs)]
def leavesFields (kvs : List (Text × PJ)) (rpath : List Text) : List (List Text × PJ) :=
  match kvs with
  | [] => []
  | (k, v) :: rest => leaves v (k :: rpath) ++ leavesFields rest rpath
end

/-- The property of the event that `key` addresses: the leaf whose property path is `key`.
(It is unique when no object has a key twice — `pathString` is injective, theorem
`flatten_path_injective`; written as "the last such leaf" to be a total definition.) -/
def lookup (ev : PJ) (key : Text) : Option PJ :=
  ((leaves ev []).reverse.find? fun e => pathString e.1 = key).map (·.2)

def lookupStr (ev : PJ) (key : Text) : Option Text :=
  match lookup ev key with
  | some (.str s) => some s
  | _ => none

/-- A JSON value equals a scalar condition value. -/
def jsonEq : PJ → Scalar → Bool
  | .null, .null => true
  | .bool a, .bool b => a == b
  | .int a, .int b => canonicalInt a && a == b
  | .str a, .str b => a == b
  | _, _ => false

/-- The property path of `content.m.mentions`. -/
def mentionsPath : Text := pathString ["content".toList, "m.mentions".toList]

/-- The event has a property at or below `content.m.mentions`. -/
def hasMentions (ev : PJ) : Bool :=
  (leaves ev []).any fun e =>
    pathString e.1 == mentionsPath || (mentionsPath ++ ['.']).isPrefixOf (pathString e.1)

def compare (op : CmpOp) (x n : Nat) : Bool :=
  match op with
  | .eq => x == n
  | .lt => decide (x < n)
  | .gt => decide (x > n)
  | .ge => decide (x ≥ n)
  | .le => decide (x ≤ n)

/-! ### `room_member_count`: the `is` string

"A decimal integer optionally prefixed by one of `==`, `<`, `>`, `>=` or `<=`. A prefix of `<`
matches rooms where the member count is strictly less than the given number and so forth. If no
prefix is present, this parameter defaults to `==`." Integers are Matrix integers (≤ 2^53 − 1). -/

def isDigit (c : Char) : Bool := decide ('0' ≤ c) && decide (c ≤ '9')

/-- The number a digit string denotes. -/
def decimalValue (ds : Text) : Nat := ds.foldl (fun a c => a * 10 + (c.toNat - 48)) 0

def maxInteger : Nat := 9007199254740991

/-- The spellings of the comparison. -/
def opSpellings : List (Text × CmpOp) :=
  [("==".toList, .eq), ("<".toList, .lt), (">".toList, .gt), (">=".toList, .ge), ("<=".toList, .le),
   ([], .eq)]

/-- `s` is a well-formed `is`: `prefix ++ digits` denoting the comparison `op` with `n`. -/
def MemberCountDenotes (s : Text) (op : CmpOp) (n : Nat) : Prop :=
  ∃ sp ∈ opSpellings, ∃ ds, s = sp.1 ++ ds ∧ sp.2 = op ∧ ds ≠ [] ∧ ds.all isDigit = true ∧
    decimalValue ds = n ∧ n ≤ maxInteger

/-- The condition with `is = s` holds in a room of `x` members. -/
def MemberCountHolds (s : Text) (x : Nat) : Prop :=
  ∃ op n, MemberCountDenotes s op n ∧ compare op x n = true

/-- The spelling `sp` reads `s` as a comparison with this number. -/
def readAs (s : Text) (sp : Text × CmpOp) : Option (CmpOp × Nat) :=
  let ds := s.drop sp.1.length
  if sp.1.isPrefixOf s && !ds.isEmpty && ds.all isDigit && decide (decimalValue ds ≤ maxInteger) then
    some (sp.2, decimalValue ds)
  else none

/-- Decision procedure for `MemberCountHolds` (`memberCountDecide_iff_Holds`); `none` = `s` is not a
well-formed `is` (the condition is then an unknown condition, which matches nothing). -/
def memberCountDecide (s : Text) (x : Nat) : Option Bool :=
  (opSpellings.findSome? (readAs s)).map fun r => compare r.1 x r.2

/-- The power level of a user: the entry of `users`, else `users_default`. -/
def levelOf (pl : PowerLevelsCtx) (u : Text) : Int :=
  match pl.users.find? (·.1 = u) with
  | some e => e.2
  | none => pl.usersDefault

/-- The level required for a notification key; only `room` is defined by the spec. -/
def requiredLevel (pl : PowerLevelsCtx) (key : Text) : Option Int :=
  if key = keyRoom then some pl.room else none

structure Params where
  /-- case folding (`str::to_lowercase`) -/
  lower : Text → Text
  /-- is this string a Matrix user id -/
  isUserId : Text → Bool

def condHolds (P : Params) (ev : PJ) (ctx : Ctx) : Cond → Bool
  | .eventMatch key pattern =>
    let value := if key = keyRoomId then some ctx.roomId else lookupStr ev key
    match value with
    | none => false
    | some v =>
      if key = keyContentBody then wordMatchDecide P.lower pattern v
      else valueDecide P.lower pattern v
  | .containsDisplayName =>
    match lookupStr ev keyContentBody with
    | none => false
    | some v => containsWordDecide P.lower ctx.displayName v
  | .roomMemberCount is => compare is.prefix_ ctx.memberCount is.count
  | .senderNotificationPermission key =>
    match ctx.powerLevels, lookupStr ev keySender with
    | some pl, some sender =>
      P.isUserId sender &&
        (match requiredLevel pl key with
          | some l => decide (levelOf pl sender ≥ l)
          | none => false)
    | _, _ => false
  | .eventPropertyIs key value =>
    match lookup ev key with
    | some v => jsonEq v value
    | none => false
  | .eventPropertyContains key value =>
    match lookup ev key with
    | some (.arr xs) => xs.any (jsonEq · value)
    | _ => false
  | .custom => false

def enabled : AnyRule → Bool
  | .override_ r => r.enabled
  | .content r => r.enabled
  | .room r => r.enabled
  | .sender r => r.enabled
  | .underride r => r.enabled

/-- The conditions a rule stands for. -/
def conditions : AnyRule → List Cond
  | .override_ r => r.conditions
  | .underride r => r.conditions
  | .content r => [.eventMatch keyContentBody r.pattern]
  | .room r => [.eventMatch keyRoomId r.ruleId]
  | .sender r => [.eventMatch keySender r.ruleId]

/-- The legacy mention rules, which are switched off by `m.mentions`.
The `.underride` row follows the implementation, not the Matrix spec: the spec names
`.m.rule.roomnotif` and `.m.rule.contains_display_name` only as *override* rules, but
`ConditionalPushRule::applies` (push.rs) is shared by both conditional kinds and tests the rule id
only, so an underride rule carrying one of these two ids is switched off as well. -/
def legacyMention : AnyRule → Bool
  | .override_ r => r.ruleId = ruleRoomNotif || r.ruleId = ruleContainsDisplayName
  | .underride r => r.ruleId = ruleRoomNotif || r.ruleId = ruleContainsDisplayName
  | .content r => r.ruleId = ruleContainsUserName
  | _ => false

def ruleHolds (P : Params) (ev : PJ) (ctx : Ctx) (r : AnyRule) : Bool :=
  enabled r && !(legacyMention r && hasMentions ev) && (conditions r).all (condHolds P ev ctx)

/-- Priority order: kinds override, content, room, sender, underride; list order within a kind. -/
def orderedRules (rs : Ruleset) : List AnyRule :=
  rs.override_.map .override_ ++ rs.content.map .content ++ rs.room.map .room ++
    rs.sender.map .sender ++ rs.underride.map .underride

def sentBySelf (ev : PJ) (ctx : Ctx) : Bool := lookupStr ev keySender == some ctx.userId

/-- The rule that matches the event: the first enabled rule, in priority order, all of whose
conditions hold; nothing for the user's own events. -/
def getMatch (P : Params) (rs : Ruleset) (ev : PJ) (ctx : Ctx) : Option AnyRule :=
  if sentBySelf ev ctx then none else (orderedRules rs).find? (ruleHolds P ev ctx)

/-! ### The conditions, read as propositions -/

/-- A scalar condition value as a JSON value. -/
def scalarJson : Scalar → PJ
  | .null => .null
  | .bool b => .bool b
  | .int i => .int i
  | .str s => .str s

/-- The JSON value `v` is the scalar `x` ("exact value match"; integers are canonical-JSON integers). -/
def JsonIs (v : PJ) (x : Scalar) : Prop :=
  v = scalarJson x ∧ ∀ i, x = .int i → canonicalInt i = true

/-- "The condition holds for the event in this room", condition by condition. -/
def CondHolds (P : Params) (ev : PJ) (ctx : Ctx) : Cond → Prop
  | .eventMatch key pattern =>
    ∃ v, (if key = keyRoomId then v = ctx.roomId else lookupStr ev key = some v) ∧
      (if key = keyContentBody then wordMatches P.lower pattern v else valueMatches P.lower pattern v)
  | .containsDisplayName =>
    ∃ body, lookupStr ev keyContentBody = some body ∧ containsWordMatches P.lower ctx.displayName body
  | .roomMemberCount is =>
    match is.prefix_ with
    | .eq => ctx.memberCount = is.count
    | .lt => ctx.memberCount < is.count
    | .gt => ctx.memberCount > is.count
    | .ge => ctx.memberCount ≥ is.count
    | .le => ctx.memberCount ≤ is.count
  | .senderNotificationPermission key =>
    ∃ pl sender, ctx.powerLevels = some pl ∧ lookupStr ev keySender = some sender ∧
      P.isUserId sender = true ∧ key = keyRoom ∧ levelOf pl sender ≥ pl.room
  | .eventPropertyIs key value => ∃ v, lookup ev key = some v ∧ JsonIs v value
  | .eventPropertyContains key value =>
    ∃ xs, lookup ev key = some (.arr xs) ∧ ∃ x ∈ xs, JsonIs x value
  | .custom => False

/-- Rank of a rule's kind in the priority order. -/
def kindRank : AnyRule → Nat
  | .override_ _ => 0
  | .content _ => 1
  | .room _ => 2
  | .sender _ => 3
  | .underride _ => 4

mutual
/-- No object of the event (outside arrays, which are leaves) has the same key twice — true of every
`serde_json::Value`. -/
def KeysUnique : PJ → Prop
  | .obj kvs => (kvs.map (·.1)).Nodup ∧ KeysUniqueFields kvs
  | _ => True
def KeysUniqueFields : List (Text × PJ) → Prop
  | [] => True
  | (_, v) :: rest => KeysUnique v ∧ KeysUniqueFields rest
end

end Ruma.Spec.Push
