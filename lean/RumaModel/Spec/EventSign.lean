/-
  Specification side for C03 (and the signature-rule table that C05's T1 extraction also reads),
  written from the Matrix Server-Server API, "Validating hashes and signatures on received events"
  and the room version pages:

  * the event must be signed by the server of its `sender`, except for `m.room.member` invites
    created from a third-party invite;
  * in room versions 1 and 2 (event IDs of the form `$opaque:server`) also by the server of the
    `event_id`;
  * from room version 8, a join authorised through `join_authorised_via_users_server` (restricted
    rooms) must also be signed by that user's server.
-/
import RumaModel.Model.Json
namespace Ruma.Spec.EventSign

/-- Room versions whose event IDs carry a server name whose signature is required: 1 and 2. -/
def checkEventIdServer (v : Nat) : Bool := decide (v ≤ 2)

/-- Room versions with restricted joins, where the authorising user's server must sign: from 8. -/
def checkJoinAuthorised (v : Nat) : Bool := decide (8 ≤ v)

end Ruma.Spec.EventSign
