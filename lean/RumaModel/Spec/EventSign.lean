/-
  Specification side for C03 (and the signature-rule table that C05's T1 extraction also reads),
  written from the Matrix Server-Server API, "Validating hashes and signatures on received events"
  and the room version pages:

  * the event must be signed by the server of its `sender`, except for `m.room.member` invites
    created from a third-party invite;
  * in room versions 1 and 2 (event IDs of the form `$opaque:server`) also by the server of the
    `event_id`;
  * from room version 8, a join authorised through `join_authorised_via_users_server` (restricted
    rooms) must also be signed by that user's server.
-/
import RumaModel.Model.Json
namespace Ruma.Spec.EventSign

/-- Room versions whose event IDs carry a server name whose signature is required: 1 and 2. -/
def checkEventIdServer (v : Nat) : Bool := decide (v ≤ 2)

/-- Room versions with restricted joins, where the authorising user's server must sign: from 8. -/
def checkJoinAuthorised (v : Nat) : Bool := decide (8 ≤ v)

end Ruma.Spec.EventSign

namespace Ruma.Spec.EventSign
open Ruma

/-- The server name of a user ID or of a v1/v2 event ID: everything after the first `:`. -/
def serverPart : Str → Option Str
  | [] => none
  | c :: t => if c = 58 then some t else serverPart t

/-- "An `m.room.member` invite created from a third-party invite": type `m.room.member`,
`content.membership = "invite"`, and `content.third_party_invite` present (an object). -/
def isThirdPartyInvite (e : Obj) : Bool :=
  match Obj.get e (bs "type"), Obj.get e (bs "content") with
  | some (.str ty), some (.obj c) =>
    decide (ty = bs "m.room.member") &&
      (match Obj.get c (bs "membership"), Obj.get c (bs "third_party_invite") with
       | some (.str m), some (.obj _) => decide (m = bs "invite")
       | _, _ => false)
  | _, _ => false

/-- `Required v e s`: the specification demands a signature of server `s` on event `e` in room
version `v`. The three clauses of the property statement. -/
def Required (v : Nat) (e : Obj) (s : Str) : Prop :=
  (isThirdPartyInvite e = false ∧
     ∃ u, Obj.get e (bs "sender") = some (.str u) ∧ serverPart u = some s) ∨
  (checkEventIdServer v = true ∧
     ∃ i, Obj.get e (bs "event_id") = some (.str i) ∧ serverPart i = some s) ∨
  (checkJoinAuthorised v = true ∧
     ∃ c a, Obj.get e (bs "content") = some (.obj c) ∧
       Obj.get c (bs "join_authorised_via_users_server") = some (.str a) ∧ serverPart a = some s)

end Ruma.Spec.EventSign
