/-
  C12 — specification of push-rule pattern matching (Matrix client-server spec, "Push rules":
  conditions `event_match` / `contains_display_name`; appendix "Glob-style matching").

  * `Glob p s`: the glob `p` matches the WHOLE text `s`. `*` matches any run of characters
    (possibly empty), `?` matches exactly one character, every other character matches itself.
  * Matching is case-insensitive: both sides are lower-cased first (`lower` is a parameter: Rust's
    `str::to_lowercase`).
  * For `content.body` the pattern has to match a run of the text that is delimited by word
    boundaries (a display name, `contains_display_name`, has to OCCUR as literal text in such a run —
    "content.body contains the owner's display name" —, `LiteralWordMatch`): `∃ i j, Glob p s[i,j) ∧ boundary s i ∧ boundary s j`, where a
    boundary is the start of the text, its end, or a position next to a character outside
    `[A-Za-z0-9_]`.

  Text is `List Char` (code points). Nothing here mentions the implementation.
-/
namespace Ruma.Spec.Glob

abbrev Text := List Char

/-- `[A-Za-z0-9_]`. -/
def isWordChar (c : Char) : Bool := c.isAlphanum || c == '_'

/-- `Glob p s`: pattern `p` matches all of `s`. -/
inductive Glob : Text → Text → Prop
  | nil : Glob [] []
  /-- `*` matches any run `u`. -/
  | star (p u t : Text) : Glob p t → Glob ('*' :: p) (u ++ t)
  /-- `?` matches exactly one character. -/
  | one (p : Text) (c : Char) (t : Text) : Glob p t → Glob ('?' :: p) (c :: t)
  /-- any other character matches itself. -/
  | lit (a : Char) (p t : Text) : a ≠ '*' → a ≠ '?' → Glob p t → Glob (a :: p) (a :: t)

/-- `f` holds of some suffix of the text. -/
def anySuffix (f : Text → Bool) : Text → Bool
  | [] => f []
  | c :: t => f (c :: t) || anySuffix f t

/-- Decision procedure for `Glob` (`globDecide_iff_Glob` in `Props/C12.lean`). -/
def globDecide : Text → Text → Bool
  | [], s => s.isEmpty
  | a :: p, s =>
    if a == '*' then anySuffix (globDecide p) s
    else
      match s with
      | [] => false
      | c :: t => (a == '?' || a == c) && globDecide p t

/-- `s[i,j)`. -/
def slice (s : Text) (i j : Nat) : Text := (s.drop i).take (j - i)

/-- Is there a word character at index `k`? (`false` outside the text.) -/
def wordAt (s : Text) (k : Nat) : Bool :=
  match s[k]? with
  | some c => isWordChar c
  | none => false

/-- `boundary s k ⇔ k = 0 ∨ k = |s| ∨ ¬word s[k−1] ∨ ¬word s[k]`. -/
def boundary (s : Text) (k : Nat) : Prop :=
  k = 0 ∨ k = s.length ∨ wordAt s (k - 1) = false ∨ wordAt s k = false

instance (s : Text) (k : Nat) : Decidable (boundary s k) := by unfold boundary; infer_instance

/-- Word matching (already lower-cased text): a run delimited by word boundaries matches the glob.
The spec text does not define what an empty pattern matches; it is taken to match only the empty
text (there is no empty word), which is also what the upstream test-suite expects. -/
def WordMatch (p s : Text) : Prop :=
  (p = [] ∧ s = []) ∨
  (p ≠ [] ∧ ∃ i j, i ≤ j ∧ j ≤ s.length ∧ Glob p (slice s i j) ∧ boundary s i ∧ boundary s j)

/-- Decision procedure for `WordMatch` (`wordDecide_iff_WordMatch`). -/
def wordDecide (p s : Text) : Bool :=
  if p.isEmpty then s.isEmpty
  else
    (List.range (s.length + 1)).any fun i =>
      decide (boundary s i) &&
        (List.range (s.length + 1)).any fun j =>
          decide (i ≤ j) && decide (boundary s j) && globDecide p (slice s i j)

/-- The text `p` itself (no wildcards: every character stands for itself) occurs in `s` between word
boundaries; the empty text only in the empty text. Used for display names. -/
def LiteralWordMatch (p s : Text) : Prop :=
  (p = [] ∧ s = []) ∨
  (p ≠ [] ∧ ∃ i j, i ≤ j ∧ j ≤ s.length ∧ slice s i j = p ∧ boundary s i ∧ boundary s j)

/-- Decision procedure for `LiteralWordMatch` (`literalWordDecide_iff`). -/
def literalWordDecide (p s : Text) : Bool :=
  if p.isEmpty then s.isEmpty
  else
    (List.range (s.length + 1)).any fun i =>
      decide (boundary s i) &&
        (List.range (s.length + 1)).any fun j =>
          decide (i ≤ j) && decide (boundary s j) && decide (slice s i j = p)

/-- Whole-value matching of an event property, case-insensitively. -/
def valueMatches (lower : Text → Text) (p s : Text) : Prop := Glob (lower p) (lower s)

/-- Word-boundary matching (`content.body`, display names), case-insensitively. -/
def wordMatches (lower : Text → Text) (p s : Text) : Prop := WordMatch (lower p) (lower s)

/-- "`content.body` contains the display name": the name as literal text on word boundaries,
case-insensitively. -/
def containsWordMatches (lower : Text → Text) (word s : Text) : Prop := LiteralWordMatch (lower word) (lower s)
def containsWordDecide (lower : Text → Text) (word s : Text) : Bool := literalWordDecide (lower word) (lower s)

def valueDecide (lower : Text → Text) (p s : Text) : Bool := globDecide (lower p) (lower s)
def wordMatchDecide (lower : Text → Text) (p s : Text) : Bool := wordDecide (lower p) (lower s)

end Ruma.Spec.Glob
