/-
  C17 — index-faithful model of the `Content-Disposition` parser
  (`crates/ruma-common/src/http_headers/content_disposition.rs`: `TryFrom<&[u8]> for
  ContentDisposition`, `RawParam::parse_next`, `skip_ascii_whitespaces`, `parse_param_name`,
  `parse_param_value`).

  `Model/HttpHeaders.lean` models the same code in suffix-passing style, in which an index out of
  range cannot even be written down. Here the cursor is the Rust `pos: &mut usize` and every
  `bytes[*pos]` and `&bytes[a..b]` is a lookup that can fail:
  * `bytes[*pos]`            → `bytes[pos]? = none` → `panic`   (4 sites)
  * `&bytes[a..b]`           → `bytesSlice … = none` → `panic`  (3 sites)
  * `while let Some(byte) = bytes.get(*pos) { … *pos += 1 }` → fuel `len − pos + 1`, else `hang` (4 loops)
  * `while pos != value.len() { RawParam::parse_next(value, &mut pos) … }` → fuel `len − pos + 1`
  The decoding of a parameter value (`decode_value`: RFC 8187, lossy UTF-8, unescaping) and the
  disposition type have no index arithmetic and are taken from `Model/HttpHeaders.lean`.
  The driver answers `c17.cd` with this model and cross-checks the suffix-style model on every request.
-/
import RumaModel.Model.ScanCommon
import RumaModel.Model.HttpHeaders
namespace Ruma.ScanCd
open Ruma Ruma.Scan Ruma.HttpHeaders

/-- `while let Some(byte) = bytes.get(*pos) { if !p(byte) { break } *pos += 1 }`: the new `pos`. -/
def scanGo (bytes : Str) (p : Nat → Bool) : Nat → Nat → Out Nat
  | 0, _ => .hang
  | fuel + 1, pos =>
    match bytes[pos]? with
    | none => .ok pos
    | some b => if p b then scanGo bytes p fuel (pos + 1) else .ok pos

def scan (bytes : Str) (p : Nat → Bool) (pos : Nat) : Out Nat :=
  scanGo bytes p (bytes.length - pos + 1) pos

/-- `skip_ascii_whitespaces`. -/
def skipWsI (bytes : Str) (pos : Nat) : Out Nat := scan bytes isWs pos

/-- `parse_param_name`: the name (if any) and the new `pos`. -/
def parseParamNameI (bytes : Str) (pos : Nat) : Out (Option Str × Nat) :=
  (skipWsI bytes pos).bind fun p1 =>
    if p1 = bytes.length then .ok (none, p1)
    else
      (scan bytes isTchar p1).bind fun p2 =>
        if p2 = bytes.length then .ok (none, p2)
        else
          match bytes[p2]? with
          | none => .panic                                   -- `bytes[*pos] == b';'`
          | some b =>
            if b = 59 then .ok (none, p2 + 1)
            else
              match bytesSlice bytes p1 p2 with              -- `&bytes[name_start..*pos]`
              | none => .panic
              | some name => if name.isEmpty then .ok (none, bytes.length) else .ok (some name, p2)

/-- The value loop of `parse_param_value` (`esc` = `escape_next`): the new `pos`. -/
def valueGo (bytes : Str) (quoted : Bool) : Nat → Nat → Bool → Out Nat
  | 0, _, _ => .hang
  | fuel + 1, pos, esc =>
    match bytes[pos]? with
    | none => .ok pos
    | some b =>
      if !quoted && (isWs b || b = 59) then .ok pos
      else if quoted && b = 34 && !esc then .ok pos
      else valueGo bytes quoted fuel (pos + 1) (b = 92 && !esc)

/-- `parse_param_value`: `(value, is_quoted_string)` if any, and the new `pos`. -/
def parseParamValueI (bytes : Str) (pos : Nat) : Out (Option (Str × Bool) × Nat) :=
  (skipWsI bytes pos).bind fun p1 =>
    if p1 = bytes.length then .ok (none, p1)
    else
      match bytes[p1]? with
      | none => .panic                                       -- `bytes[*pos] == b'"'`
      | some b =>
        let quoted : Bool := decide (b = 34)
        let valueStart := if quoted then p1 + 1 else p1
        (valueGo bytes quoted (bytes.length - valueStart + 1) valueStart false).bind fun p3 =>
          match bytesSlice bytes valueStart p3 with          -- `&bytes[value_start..*pos]`
          | none => .panic
          | some value =>
            let p4 := if quoted && p3 ≠ bytes.length then p3 + 1 else p3
            (skipWsI bytes p4).bind fun p5 =>
              if p5 ≠ bytes.length then
                match bytes[p5]? with
                | none => .panic                             -- `bytes[*pos] == b';'`
                | some c =>
                  if c = 59 then .ok (some (value, quoted), p5 + 1)
                  else .ok (none, bytes.length)
              else .ok (some (value, quoted), p5)

/-- `RawParam::parse_next`. -/
def parseNextI (bytes : Str) (pos : Nat) : Out (Option RawParam × Nat) :=
  (parseParamNameI bytes pos).bind fun r =>
    match r with
    | (none, p) => .ok (none, p)
    | (some name, p1) =>
      (skipWsI bytes p1).bind fun p2 =>
        if p2 = bytes.length then .ok (none, p2)
        else
          match bytes[p2]? with
          | none => .panic                                   -- `bytes[*pos] != b'='`
          | some b =>
            if b ≠ 61 then .ok (none, bytes.length)
            else
              (skipWsI bytes (p2 + 1)).bind fun p4 =>
                (parseParamValueI bytes p4).bind fun rv =>
                  match rv with
                  | (none, p) => .ok (none, p)
                  | (some (v, q), p) => .ok (some ⟨name, v, q⟩, p)

/-- The parameter loop `while pos != value.len() { … }`, returning `(filename_ext, filename)`. -/
def paramsLoopI (bytes : Str) : Nat → Nat → Option Str → Out (Option Str × Option Str)
  | 0, _, _ => .hang
  | fuel + 1, pos, fn =>
    if pos = bytes.length then .ok (none, fn)
    else
      (parseNextI bytes pos).bind fun r =>
        match r.1 with
        | none => paramsLoopI bytes fuel r.2 fn
        | some p =>
          if eqIgnoreCase p.name (bs "filename*") then
            match decodeValue p with
            | some v => .ok (some v, fn)                     -- `break`
            | none => paramsLoopI bytes fuel r.2 fn
          else if eqIgnoreCase p.name (bs "filename") then
            match decodeValue p with
            | some v => paramsLoopI bytes fuel r.2 (some v)
            | none => paramsLoopI bytes fuel r.2 fn
          else paramsLoopI bytes fuel r.2 fn

/-- Result of `ContentDisposition::try_from(&[u8])`. -/
inductive Res where
  | ok (cd : ContentDisposition)
  | err (e : ParseErr)
  | panic
  | hang
  deriving Repr, DecidableEq

def Res.Returns : Res → Prop
  | .ok _ => True
  | .err _ => True
  | .panic => False
  | .hang => False

/-- `ContentDisposition::try_from(&[u8])`. -/
def parseI (bytes : Str) : Res :=
  match skipWsI bytes 0 with
  | .hang => .hang
  | .panic => .panic
  | .err => .panic
  | .ok p0 =>
    if p0 = bytes.length then .err .missingType
    else
      match scan bytes (fun b => !(isWs b || b = 59)) p0 with
      | .hang => .hang
      | .panic => .panic
      | .err => .panic
      | .ok p1 =>
        match bytesSlice bytes p0 p1 with                    -- `&value[disposition_type_start..pos]`
        | none => .panic
        | some ty =>
          match parseType ty with
          | .error e => .err e
          | .ok dt =>
            match paramsLoopI bytes (bytes.length - p1 + 1) p1 none with
            | .hang => .hang
            | .panic => .panic
            | .err => .panic
            | .ok fns => .ok ⟨dt, match fns.1 with | some v => some v | none => fns.2⟩

end Ruma.ScanCd
