/-
  The schemas of the real content types as first-order data.

  `Model/ContentSchema.lean` keeps `Schema` general: a scalar is ANY function `JVal → Option JVal`, a
  map key type ANY predicate, a skip predicate ANY function. The theorems of `Props/C18Schema.lean`
  hold for all of them under the side condition `WF`. A `Schema` therefore contains functions, and
  nothing about a function can be decided by evaluation. The schemas of the real content types use
  only finitely many scalar types, key types and skip predicates; this file names them:

  * `Leaf` — the scalar types that occur (`leafOf`: the name the harness prints → its `Schema`);
    the readers themselves (`parseV1`, `base64Norm`, the identifier validators of C10's `Model/Ids`)
    are defined here, not in the driver;
  * `KeyKind` — the key types of the `BTreeMap`s that occur;
  * `Desc` — a description of a schema in which a scalar is a `Leaf`, a key type a `KeyKind` and a
    skip predicate the finite list of values it holds for; `Desc.toSchema` is its meaning.

  `Generated/C18.lean` lists one `Desc` per modelled content type (written by `h-c18 extract` from the
  shape of the specification's schema and the facts probed on the running code) and
  `schemas := descs.map (name, toSchema)`.

  `wfb : Desc → Bool` is a total (structurally recursive) check of every clause of `WF`
  (`Spec/ContentSchema.lean`): distinct spellings, no skipping on a required or written-back field,
  a default the field reads back unchanged, `TagFixed` for every case of a tagged choice, no
  serialise-only constant in a struct with a catch-all; the scalar clauses of `WF` (idempotence,
  `null` only from `null`) hold for EVERY `Leaf` (`Lemmas/ContentSchemaWF.lean`, `leaf_wf`), so `wfb`
  has nothing to check there. `wfb_sound : wfb d = true → WF d.toSchema` is proved in
  `Lemmas/ContentSchemaWF.lean`. (`wfb` takes a `Desc`, not a `Schema`: a `Schema` holds functions.)
-/
import RumaModel.Model.ContentSchema
import RumaModel.Model.Ids
import RumaModel.Model.IdsIp
namespace Ruma.ContentSchema
open Ruma Ruma.Canonical

/-! ### The scalar readers -/

def idExt : Ids.Ext where
  isIpv6 := Ids.ipv6Ref
  isIpv4 := Ids.ipv4Ref
  uniAlnum := fun s => s.all (· < 128)

def okRes : Ids.Res α → Bool
  | .ok _ => true
  | _ => false

def isWsByte (b : Nat) : Bool := b == 32 || (9 ≤ b && b ≤ 13)

def trim (s : Str) : Str := ((s.dropWhile isWsByte).reverse.dropWhile isWsByte).reverse

def digitsNat (s : Str) : Option Nat :=
  if s.isEmpty || !s.all Ids.isDigit then none else some (s.foldl (fun acc b => acc * 10 + (b - 48)) 0)

/-- `deserialize_v1_powerlevel::visit_str`. -/
def parseV1 (s : Str) : Option Int :=
  match trim s with
  | 43 :: rest => if rest.head? == some 43 then none else (digitsNat rest).map Int.ofNat
  | 45 :: rest => (digitsNat rest).map (fun n => - Int.ofNat n)
  | t => (digitsNat t).map Int.ofNat

def b64Val (c : Nat) : Option Nat :=
  if 65 ≤ c && c ≤ 90 then some (c - 65)
  else if 97 ≤ c && c ≤ 122 then some (c - 97 + 26)
  else if 48 ≤ c && c ≤ 57 then some (c - 48 + 52)
  else if c == 43 then some 62
  else if c == 47 then some 63
  else none

def b64Sym (v : Nat) : Nat :=
  if v < 26 then 65 + v else if v < 52 then 97 + (v - 26) else if v < 62 then 48 + (v - 52) else if v == 62 then 43 else 47

/-- Clear the bits of the last sextet that do not belong to a whole byte (`m = 16`: two sextets
carry one byte, `m = 4`: three carry two). -/
def maskLast (m : Nat) : List Nat → List Nat
  | [] => []
  | [x] => [(x / m) * m]
  | x :: y :: t => x :: maskLast m (y :: t)

/-- Padding characters allowed after `n` symbols. -/
def b64MaxPad (n : Nat) : Nat := if n % 4 == 2 then 2 else if n % 4 == 3 then 1 else 0

/-- The sextets of the canonical encoding of what `vals` decode to (trailing bits cleared). -/
def b64Canon (vals : List Nat) : List Nat :=
  if vals.length % 4 == 2 then maskLast 16 vals else if vals.length % 4 == 3 then maskLast 4 vals else vals

/-- `Base64<Standard>`: decode with optional (at most canonical) padding and trailing bits allowed,
re-encode without padding. -/
def base64Norm (s : Str) : Option Str :=
  let syms := s.takeWhile (· != 61)
  let pads := s.dropWhile (· != 61)
  if !pads.all (· == 61) then none else
  match allSome (syms.map b64Val) with
  | none => none
  | some vals =>
    if vals.length % 4 == 1 || pads.length > b64MaxPad vals.length then none else
    some ((b64Canon vals).map b64Sym)

/-- A string type that accepts the strings satisfying `p` and writes them back unchanged. -/
def acceptStr (p : Str → Bool) : Str → Option Str := fun s => if p s then some s else none

/-! ### The scalar types that occur in the modelled content types -/

inductive Leaf where
  | str | int | uint | bool | float | intLax | voip
  | userId | eventId | roomId | roomAlias | roomAliasOrEmpty | serverName | keyId | roomVersion
  | receiptThread | base64
  /-- a string type accepting exactly this string (a unit enum variant, a tag constant) -/
  | const (c : Str)
  /-- a string enum without a custom fallback variant -/
  | oneOf (cs : List Str)

/-- What each scalar type reads and writes back. The string types other than `Base64` accept or
reject and write the accepted string back unchanged (`acceptStr`). -/
def Leaf.schema : Leaf → Schema
  | .str => Schema.str (acceptStr (fun _ => true))
  | .int => Schema.int (-maxInt) maxInt
  | .uint => Schema.int 0 maxInt
  | .bool => Schema.bool
  | .float => Schema.float
  | .intLax => Schema.intLax (-maxInt) maxInt parseV1
  | .voip => Schema.voipVersion
  | .userId => Schema.str (acceptStr (fun s => okRes (Ids.userIdValidate idExt s)))
  | .eventId => Schema.str (acceptStr (fun s => okRes (Ids.eventIdValidate idExt s)))
  | .roomId => Schema.str (acceptStr (fun s => okRes (Ids.roomIdValidate s)))
  | .roomAlias => Schema.str (acceptStr (fun s => okRes (Ids.roomAliasIdValidate idExt s)))
  | .roomAliasOrEmpty => Schema.str (acceptStr (fun s => s.isEmpty || okRes (Ids.roomAliasIdValidate idExt s)))
  | .serverName => Schema.str (acceptStr (fun s => okRes (Ids.serverNameValidate idExt s)))
  | .keyId => Schema.str (acceptStr (fun s => okRes (Ids.keyIdValidate idExt .signingKeyVersion s)))
  | .roomVersion => Schema.str (acceptStr (fun s => okRes (Ids.roomVersionIdValidate s)))
  | .receiptThread => Schema.str (acceptStr (fun s => if s.head? == some 36 then okRes (Ids.eventIdValidate idExt s) else true))
  | .base64 => Schema.str base64Norm
  | .const c => Schema.str (acceptStr (fun s => s == c))
  | .oneOf cs => Schema.str (acceptStr (fun s => cs.contains s))

def Leaf.ofName : String → Option Leaf
  | "Str" => some .str
  | "Int" => some .int
  | "UInt" => some .uint
  | "Bool" => some .bool
  | "Float" => some .float
  | "IntLax" => some .intLax
  | "Voip" => some .voip
  | "UserId" => some .userId
  | "EventId" => some .eventId
  | "RoomId" => some .roomId
  | "RoomAlias" => some .roomAlias
  | "RoomAliasOrEmpty" => some .roomAliasOrEmpty
  | "ServerName" => some .serverName
  | "KeyId" => some .keyId
  | "RoomVersion" => some .roomVersion
  | "ReceiptThread" => some .receiptThread
  | "Base64" => some .base64
  | _ => none

def Leaf.name : Leaf → String
  | .str => "Str" | .int => "Int" | .uint => "UInt" | .bool => "Bool" | .float => "Float"
  | .intLax => "IntLax" | .voip => "Voip" | .userId => "UserId" | .eventId => "EventId"
  | .roomId => "RoomId" | .roomAlias => "RoomAlias" | .roomAliasOrEmpty => "RoomAliasOrEmpty"
  | .serverName => "ServerName" | .keyId => "KeyId" | .roomVersion => "RoomVersion"
  | .receiptThread => "ReceiptThread" | .base64 => "Base64" | .const _ => "K" | .oneOf _ => "E"

/-- The scalar leaf the harness calls `L<name>`. -/
def leafOf (n : String) : Option Schema := (Leaf.ofName n).map Leaf.schema

/-- Key types of the maps that occur. -/
inductive KeyKind where
  | str | userId | eventId | roomId | serverName | keyId

def KeyKind.ok : KeyKind → Str → Bool
  | .str => fun _ => true
  | .userId => fun s => okRes (Ids.userIdValidate idExt s)
  | .eventId => fun s => okRes (Ids.eventIdValidate idExt s)
  | .roomId => fun s => okRes (Ids.roomIdValidate s)
  | .serverName => fun s => okRes (Ids.serverNameValidate idExt s)
  | .keyId => fun s => okRes (Ids.keyIdValidate idExt .signingKeyVersion s)

def KeyKind.name : KeyKind → String
  | .str => "Str" | .userId => "UserId" | .eventId => "EventId" | .roomId => "RoomId"
  | .serverName => "ServerName" | .keyId => "KeyId"

/-! ### First-order descriptions of schemas -/

mutual
inductive Desc where
  | any
  | leaf (l : Leaf)
  | arr (e : Desc)
  | map (k : KeyKind) (v : Desc)
  | obj (fields : List FieldD) (keep : Bool)
  | nullOr (d : Desc)
  | tagged (tag : Str) (cases : List CaseD)
/-- As `Field`, with the values the serialiser leaves out listed (`skips`). -/
inductive FieldD where
  | mk (name : Str) (aliases : List Str) (d : Desc) (req : Bool) (dflt : Option JVal)
      (nullAbsent lenient : Bool) (skips : List JVal) (ghost : Bool)
inductive CaseD where
  | mk (label : Str) (d : Desc)
end

/-- The skip predicate described by a list: the value is one of them. -/
def skipOf (skips : List JVal) : JVal → Bool := fun v => skips.any (fun x => x == v)

mutual
def Desc.toSchema : Desc → Schema
  | .any => .any
  | .leaf l => l.schema
  | .arr e => .arr e.toSchema
  | .map k v => .map k.ok v.toSchema
  | .obj fs keep => .obj (toFields fs) keep
  | .nullOr d => .nullOr d.toSchema
  | .tagged tag cs => .tagged tag (toCases cs)
def toFields : List FieldD → List Field
  | [] => []
  | f :: t => toField f :: toFields t
def toField : FieldD → Field
  | .mk name aliases d req dflt na len skips ghost =>
    .mk name aliases d.toSchema req dflt na len (skipOf skips) ghost
def toCases : List CaseD → List Case
  | [] => []
  | c :: t => toCase c :: toCases t
def toCase : CaseD → Case
  | .mk label d => .mk label d.toSchema
end

/-! ### The decidable well-formedness check -/

/-- `Field.Ok`, second clause: an absent field's written-back value is read back unchanged. -/
def dfltOk (s : Schema) (nullAbsent : Bool) : Option JVal → Bool
  | none => true
  | some d => (nullAbsent && isNull d) ||
    (match project s d with
     | some d' => d' == d
     | none => false)

/-- `Distinct`. -/
def distinctB : List Field → Bool
  | [] => true
  | f :: t => t.all (fun g => !f.spelledBy g.name && !g.spelledBy f.name) && distinctB t

def tagFieldB (tag label : Str) : FieldD → Bool
  | .mk name _ (.leaf (.const c)) req _ _ _ _ ghost => name == tag && req && !ghost && c == label
  | _ => false

/-- `TagFixed`: the case's struct has a required, really read field named `tag` whose type accepts
only the label. -/
def tagFixedB (tag label : Str) : Desc → Bool
  | .obj fs _ => fs.any (tagFieldB tag label)
  | _ => false

mutual
def wfb : Desc → Bool
  | .any => true
  | .leaf _ => true
  | .arr e => wfb e
  | .map _ v => wfb v
  | .nullOr d => wfb d
  | .obj fs keep => wfbFields fs keep && distinctB (toFields fs)
  | .tagged tag cs => wfbCases tag cs
def wfbFields : List FieldD → Bool → Bool
  | [], _ => true
  | f :: t, keep => wfbField f keep && wfbFields t keep
def wfbField : FieldD → Bool → Bool
  | .mk _ _ d req dflt na _ skips ghost, keep =>
    wfb d && (!(req || dflt.isSome) || skips.isEmpty) && dfltOk d.toSchema na dflt && !(keep && ghost)
def wfbCases : Str → List CaseD → Bool
  | _, [] => true
  | tag, .mk label d :: t => wfb d && tagFixedB tag label d && wfbCases tag t
end

end Ruma.ContentSchema
