/-
  Model of `ruma_common::canonical_json::{redact, redact_in_place, redact_content_in_place}`
  (crates/ruma-common/src/canonical_json.rs) and of `RedactionRules`
  (crates/ruma-common/src/room_version_rules.rs). Same statement order, same error cases.
-/
import RumaModel.Model.Json
namespace Ruma.Redact

/-- `RedactionRules` (the `unstable-msc2870` field is not compiled in the default feature set). -/
structure Rules where
  keepAliases : Bool
  keepJoinRulesAllow : Bool
  keepMemberAuthorised : Bool
  keepOriginMembershipPrevState : Bool
  keepCreateContent : Bool
  keepRedactionRedacts : Bool
  keepPowerLevelsInvite : Bool
  keepMemberTpiSigned : Bool
  deriving DecidableEq, Repr

inductive Err where
  | typeNotString
  | typeMissing
  | contentNotObject
  | tpiNotObject
  deriving DecidableEq, Repr

/-- Outcome of a retain-key function on one entry: drop it, or keep it with a (possibly narrowed) value. -/
abbrev RetainFn := Str → JVal → Except Err (Option JVal)

/-- `RetainedKeys`. -/
inductive Retained where
  | all
  | some (f : RetainFn)
  | none

/-- The loop of `RetainedKeys::apply` for `Some`: entries in map order, first error aborts. -/
def applySome (f : RetainFn) : Obj → Except Err Obj
  | [] => .ok []
  | (k, v) :: t =>
    match f k v with
    | .error e => .error e
    | .ok .none => applySome f t
    | .ok (.some v') =>
      match applySome f t with
      | .error e => .error e
      | .ok t' => .ok ((k, v') :: t')

def Retained.apply : Retained → Obj → Except Err Obj
  | .all, o => .ok o
  | .some f, o => applySome f o
  | .none, _ => .ok []

/-- A retain function that only looks at the key. -/
def byKey (p : Str → Bool) : RetainFn := fun k v => .ok (if p k then .some v else .none)

/-- The first arm of the `match` in `is_event_key_retained`. -/
def topAlwaysKeys : List Str :=
  [bs "event_id", bs "type", bs "room_id", bs "sender", bs "state_key", bs "content", bs "hashes",
   bs "signatures", bs "depth", bs "prev_events", bs "auth_events", bs "origin_server_ts"]

/-- The second arm. -/
def topRuleKeys : List Str := [bs "origin", bs "membership", bs "prev_state"]

/-- `is_event_key_retained`. -/
def isEventKeyRetained (r : Rules) (k : Str) : Bool :=
  if topAlwaysKeys.contains k then true
  else if topRuleKeys.contains k then r.keepOriginMembershipPrevState
  else false

/-- `is_room_member_content_key_retained`. -/
def memberKey (r : Rules) : RetainFn := fun k v =>
  if k = bs "membership" then .ok (.some v)
  else if k = bs "join_authorised_via_users_server" then
    .ok (if r.keepMemberAuthorised then .some v else .none)
  else if k = bs "third_party_invite" ∧ r.keepMemberTpiSigned = true then
    match v with
    | .obj tpi =>
      let tpi' := tpi.filter (fun p => p.1 = bs "signed")
      .ok (if tpi'.isEmpty then .none else .some (.obj tpi'))
    | _ => .error .tpiNotObject
  else .ok .none

def powerLevelsAlwaysKeys : List Str :=
  [bs "ban", bs "events", bs "events_default", bs "kick", bs "redact", bs "state_default",
   bs "users", bs "users_default"]

def powerLevelsKey (r : Rules) (k : Str) : Bool :=
  if powerLevelsAlwaysKeys.contains k then true
  else if k = bs "invite" then r.keepPowerLevelsInvite
  else false

def joinRulesKey (r : Rules) (k : Str) : Bool :=
  if k = bs "join_rule" then true
  else if k = bs "allow" then r.keepJoinRulesAllow
  else false

/-- `retained_event_content_keys`. -/
def retainedContentKeys (ty : Str) (r : Rules) : Retained :=
  if ty = bs "m.room.member" then .some (memberKey r)
  else if ty = bs "m.room.create" then
    (if r.keepCreateContent then .all else .some (byKey (fun k => k = bs "creator")))
  else if ty = bs "m.room.join_rules" then .some (byKey (joinRulesKey r))
  else if ty = bs "m.room.power_levels" then .some (byKey (powerLevelsKey r))
  else if ty = bs "m.room.history_visibility" then
    .some (byKey (fun k => k = bs "history_visibility"))
  else if ty = bs "m.room.redaction" then
    (if r.keepRedactionRedacts then .some (byKey (fun k => k = bs "redacts")) else .none)
  else if ty = bs "m.room.aliases" then
    (if r.keepAliases then .some (byKey (fun k => k = bs "aliases")) else .none)
  else .none

/-- `redact_content_in_place`. -/
def redactContent (r : Rules) (ty : Str) (content : Obj) : Except Err Obj :=
  (retainedContentKeys ty r).apply content

/-- Replace the value stored under `k` (the effect of mutating through `get_mut`). -/
def setVal (o : Obj) (k : Str) (v : JVal) : Obj :=
  o.map (fun p => if p.1 = k then (p.1, v) else p)

/-- The `if let Some(content_value) = event.get_mut("content")` block of `redact_in_place`. -/
def redactContentField (r : Rules) (ty : Str) (o : Obj) : Except Err Obj :=
  match Obj.get o (bs "content") with
  | .none => .ok o
  | .some (.obj c) =>
    match redactContent r ty c with
    | .error e => .error e
    | .ok c' => .ok (setVal o (bs "content") (.obj c'))
  | .some _ => .error .contentNotObject

/-- The tail of `redact_in_place`: top-level filter, then the optional `unsigned.redacted_because`. -/
def finish (r : Rules) (o1 : Obj) (because : Option Obj) : Obj :=
  let o2 := o1.filter (fun p => isEventKeyRetained r p.1)
  match because with
  | .none => o2
  | .some b => Obj.insert o2 (bs "unsigned") (.obj [(bs "redacted_because", .obj b)])

/-- `redact_in_place` / `redact`: the new object or the error. `because` is the optional
`RedactedBecause` payload. -/
def redact (r : Rules) (o : Obj) (because : Option Obj) : Except Err Obj :=
  match Obj.get o (bs "type") with
  | .none => .error .typeMissing
  | .some (.str ty) =>
    match redactContentField r ty o with
    | .error e => .error e
    | .ok o1 => .ok (finish r o1 because)
  | .some _ => .error .typeNotString

end Ruma.Redact
