/-
  C10 — executable reference for the two `std::net` parsers the identifier validators call:
  `Ipv6Addr::from_str` (server names `[...]`) and `Ipv4Addr::from_str` (`ServerName::is_ip_literal`),
  transcribed from `core::net::parser` (`Parser::read_ipv6_addr`, `read_groups`, `read_ipv4_addr`,
  `read_number`, `read_separator`), statement by statement. `read_atomically` restores the position on
  failure: here every sub-parser is a function `Str → Option Str` (the rest of the input) and a
  failed alternative simply continues from the original input.

  The property theorems hold for EVERY `Ext` (any behaviour of these parsers); the reference is what
  the real parsers are compared with on every run (`c10.ip6` / `c10.ip4` requests, and every oracle
  entry of every other request), and what `ipv6Ref_chars` (an accepted literal is `2*45IPv6char`) is
  proven about.
-/
import RumaModel.Model.Ids
namespace Ruma.Ids
open Ruma

/-! ## Reference `Ipv6Addr::from_str` / `Ipv4Addr::from_str` (core::net::parser) -/

/-- `char::to_digit(16)` on a byte read as a Latin-1 `char`. -/
def hexDigit (b : Nat) : Bool := isDigit b || (decide (97 ≤ b) && decide (b ≤ 102)) || (decide (65 ≤ b) && decide (b ≤ 70))

/-- The `while let Some(digit)` loop of `read_number` with `max_digits = Some(max)`, radix 10 or 16:
`none` when more than `max` digits follow, otherwise (value, number of digits, rest). The value is
only tracked for radix 10 (`acc`), where it decides `u8::try_from`; four hex digits always fit `u16`. -/
def readDigits (dig : Nat → Bool) (max : Nat) : Str → Nat → Nat → Option (Nat × Nat × Str)
  | [], acc, cnt => some (acc, cnt, [])
  | b :: t, acc, cnt =>
    if dig b then
      if cnt + 1 > max then none else readDigits dig max t (acc * 10 + (b - 48)) (cnt + 1)
    else some (acc, cnt, b :: t)

/-- `read_number(16, Some(4), true)` as `u16`: one to four hex digits. Returns the rest. -/
def readHexGroup (s : Str) : Option Str :=
  match readDigits hexDigit 4 s 0 0 with
  | none => none
  | some (_, cnt, rest) => if cnt = 0 then none else some rest

/-- `read_number(10, Some(3), false)` as `u8`: one to three decimal digits, no leading zero unless
the number is the single digit `0`, value at most 255. -/
def readOctet (s : Str) : Option Str :=
  match readDigits isDigit 3 s 0 0 with
  | none => none
  | some (v, cnt, rest) =>
    if cnt = 0 then none
    else if s.head? = some 48 && decide (cnt > 1) then none
    else if v ≤ 255 then some rest else none

/-- `read_separator(sep, index, inner)`. -/
def readSep (sep : Nat) (index : Nat) (inner : Str → Option Str) (s : Str) : Option Str :=
  if index > 0 then
    match s with
    | c :: t => if c = sep then inner t else none
    | [] => none
  else inner s

/-- `read_ipv4_addr`: four octets separated by `.`. -/
def readIpv4 (s : Str) : Option Str :=
  (readSep 46 0 readOctet s).bind fun r0 =>
  (readSep 46 1 readOctet r0).bind fun r1 =>
  (readSep 46 2 readOctet r1).bind fun r2 =>
  readSep 46 3 readOctet r2

/-- The loop of `read_groups` over a slice of `limit` slots, at slot `i` with `n = limit - i` slots
left: (number of groups read, whether an embedded IPv4 address was read, rest). -/
def readGroupsFrom (limit : Nat) : Nat → Nat → Str → Nat × Bool × Str
  | 0, i, s => (i, false, s)
  | n + 1, i, s =>
    match (if i < limit - 1 then readSep 58 i readIpv4 s else none) with
    | some rest => (i + 2, true, rest)
    | none =>
      match readSep 58 i readHexGroup s with
      | some rest => readGroupsFrom limit n (i + 1) rest
      | none => (i, false, s)

def readGroups (limit : Nat) (s : Str) : Nat × Bool × Str := readGroupsFrom limit limit 0 s

/-- `read_ipv6_addr`: the rest of the input after an IPv6 address. -/
def readIpv6 (s : Str) : Option Str :=
  match readGroups 8 s with
  | (headSize, headIpv4, r) =>
    if headSize = 8 then some r
    else if headIpv4 then none
    else match r with
      | 58 :: 58 :: r2 => some (readGroups (8 - (headSize + 1)) r2).2.2
      | _ => none

/-- `s.parse::<Ipv6Addr>().is_ok()`: the whole input is one IPv6 address. -/
def ipv6Ref (s : Str) : Bool := readIpv6 s == some []

/-- `s.parse::<Ipv4Addr>().is_ok()`: at most 15 bytes and the whole input is one IPv4 address. -/
def ipv4Ref (s : Str) : Bool := decide (s.length ≤ 15) && readIpv4 s == some []

end Ruma.Ids
