/-
  C19 — model of ruma's string-valued enums.

  What is modelled (ruma-macros):
  * `serde/enum_from_string.rs` (`FromString`): `impl From<T: AsRef<str>> for E` is one `match s`
    whose arms are, variant by variant in declaration order, `alias₁ => V, …, aliasₙ => V,
    spelling => V`, closed by `_ => E::_Custom(PrivOwnedStr(s.into()))`. The spelling of a unit
    variant is its `#[ruma_enum(rename = …)]` or the enum's rename rule (`serde/case.rs`) applied to
    the identifier; which string that is for each real enum is *extracted from the running code*
    into `Generated/C19.lean` (T1), so the rename rules appear here only through their results.
  * `serde/enum_as_ref_str.rs` (`AsRefStr`): unit variant ↦ its spelling, `_Custom(s)` ↦ `s`.
    `as_str`, `Display`, `Debug` and `Serialize` all go through `as_ref`; `Deserialize` reads a string
    and calls `From`.
  * `serde/{eq,ord}_as_ref_str.rs`: `PartialEqAsRefStr`, `PartialOrdAsRefStr`, `OrdAsRefStr` compare
    `as_ref()` as `str`s; the std `PartialEq` derive compares variants structurally.
  * `events/event_type.rs`: the seven `…EventType` enums. Same shape, except that an entry whose type
    ends in `.*` becomes a variant carrying the suffix: each of `alias₁, …, aliasₙ, ev_type` gives an
    arm `s if s.starts_with(prefix) => V(s.strip_prefix(prefix))` (prefix = the text without the
    `*`), and `to_cow_str` prints `canonical prefix ++ suffix`. Ordering compares `to_cow_str()`.

  Strings are byte lists (`Str`), as everywhere in this project. A *table* is the declaration-order
  list of the known variants; a value is a variant of the enum.
-/
import RumaModel.Model.Json
namespace Ruma.StringEnum

/-- One known variant. For a fixed row `spelling` is the whole string; for a wildcard (`.*`) row it is
the prefix up to and including the last `.` (the declared type without the `*`), and likewise for its
aliases. `label` is the Rust identifier of the variant (used by the tie and the reports only). -/
structure Row where
  label : String
  spelling : Str
  aliases : List Str
  wildcard : Bool
  deriving DecidableEq, Repr

abbrev Table := List Row

/-- A value of the enum: a unit variant (identified by its row), a `.*` variant with its suffix, or
the hidden `_Custom(PrivOwnedStr)` fallback. -/
inductive Val where
  | unit (r : Row)
  | frag (r : Row) (suffix : Str)
  | custom (s : Str)
  deriving DecidableEq, Repr

/-- The match arms one row contributes, tried in order: aliases first, then the spelling. -/
def Row.keys (r : Row) : List Str := r.aliases ++ [r.spelling]

/-- First prefix in `ps` that `s` starts with (`str::starts_with` is a byte-prefix test), with the
rest of `s` after it (`strip_prefix`). -/
def stripFirst : List Str → Str → Option Str
  | [], _ => none
  | p :: ps, s => if p.isPrefixOf s then some (s.drop p.length) else stripFirst ps s

/-- The arms of one row applied to `s`. -/
def Row.match? (r : Row) (s : Str) : Option Val :=
  if r.wildcard then (stripFirst r.keys s).map (Val.frag r)
  else if r.keys.contains s then some (Val.unit r) else none

/-- `From<&str>` / `From<String>` / `From<Cow<str>>`: the first arm that matches, else `_Custom`. -/
def fromStr : Table → Str → Val
  | [], s => .custom s
  | r :: t, s =>
    match r.match? s with
    | some v => v
    | none => fromStr t s

/-- `AsRef<str>` / `as_str` / `Display` / `to_cow_str`. -/
def asStr : Val → Str
  | .unit r => r.spelling
  | .frag r suffix => r.spelling ++ suffix
  | .custom s => s

/-- `<[u8] as Ord>::cmp`, which is what `str::cmp` is: element-wise, then by length. -/
def cmpBytes : Str → Str → Ordering
  | [], [] => .eq
  | [], _ :: _ => .lt
  | _ :: _, [] => .gt
  | a :: as, b :: bs => if a < b then .lt else if b < a then .gt else cmpBytes as bs

/-- `OrdAsRefStr` / the event-type enums' `Ord`: compare the string forms. -/
def cmpVal (v w : Val) : Ordering := cmpBytes (asStr v) (asStr w)

/-- `PartialEqAsRefStr`. (The std `PartialEq` derive is structural equality of `Val`.) -/
def eqAsRef (v w : Val) : Bool := asStr v == asStr w

/-- `SerializeAsRefStr` / event-type `Serialize`: the JSON string of the string form. -/
def serialize (v : Val) : JVal := .str (asStr v)

/-- `DeserializeFromCowStr` / event-type `Deserialize`: a JSON string goes through `From`; anything
else is a serde type error. -/
def deserialize (tbl : Table) : JVal → Option Val
  | .str s => some (fromStr tbl s)
  | _ => none

/-- Which comparison traits the enum implements (observed by the harness, T1). -/
inductive OrdKind where
  | none        -- no `Ord`
  | asRefStr    -- agrees with the string form on every pair of known spellings and probes
  | structural  -- some pair of known spellings is ordered differently from the strings
  deriving DecidableEq, Repr

/-- One enum as extracted from the running implementation. -/
structure EnumInfo where
  name : String
  hasEq : Bool
  ord : OrdKind
  tbl : Table
  deriving Repr

/-! ### Well-formed tables -/

/-- Every string that selects a fixed row. -/
def fixedKeys (tbl : Table) : List Str := (tbl.filter (fun r => !r.wildcard)).flatMap Row.keys

/-- Every prefix that selects a wildcard row. -/
def wildKeys (tbl : Table) : List Str := (tbl.filter (fun r => r.wildcard)).flatMap Row.keys

/-- Spellings pairwise distinct, aliases disjoint from all spellings and from each other; no wildcard
prefix is a prefix of a fixed spelling or alias; no wildcard prefix is a prefix of another one. -/
def WF (tbl : Table) : Prop :=
  (fixedKeys tbl).Nodup ∧
  (∀ p ∈ wildKeys tbl, ∀ k ∈ fixedKeys tbl, ¬ p <+: k) ∧
  (wildKeys tbl).Pairwise (fun p q => ¬ p <+: q ∧ ¬ q <+: p)

instance (tbl : Table) : Decidable (WF tbl) := by unfold WF; infer_instance

end Ruma.StringEnum
