/-
  C10 — further model pieces on top of `Model/Ids.lean` (kept in a separate file so that the models
  of C11 / C03, which import `Model/Ids.lean`, are not rebuilt when these change):

  * the conformance accessors of `UserId` (`validate_strict`, `validate_historical`,
    `is_historical`, `ruma-common/src/identifiers/user_id.rs`);
  * `OwnedBase64PublicKey::with_bytes` (`base64_public_key.rs`) with the unpadded standard base64
    encoder of crate `base64` as an executable reference (`b64`);
-/
import RumaModel.Model.Ids
namespace Ruma.Ids
open Ruma
open Ruma.Spec.IdGrammar (Kind)

/-! ## `UserId` conformance accessors -/

/-- `UserId::validate_fully_conforming`: length check again, then
`localpart_is_fully_conforming(self.localpart())`. -/
def userFullyConforming (s : Str) : Res Bool :=
  if s.length > 255 then .err
  else match localpart s with
    | .ok lp => localpartFullyConforming lp
    | _ => .panic

/-- `UserId::validate_strict` (the method): `Ok(())` iff fully conforming. -/
def userStrict (s : Str) : Res Unit :=
  match userFullyConforming s with
  | .ok true => .ok ()
  | .ok false => .err
  | .err => .err
  | .panic => .panic

/-- `UserId::validate_historical`: `Ok(())` iff fully conforming or historical. -/
def userHistoricalOk (s : Str) : Res Unit := (userFullyConforming s).void

/-- `UserId::is_historical`: `validate_fully_conforming().is_ok_and(|c| !c)`. -/
def userIsHistorical (s : Str) : Res Bool :=
  match userFullyConforming s with
  | .ok c => .ok (!c)
  | .err => .ok false
  | .panic => .panic

/-! ## Constructors -/

/-- The sigil `UserId::new` / `RoomId::new` / `EventId::new` put in front. -/
def newSigil : Kind → Nat
  | .user => 64
  | .room => 33
  | _ => 36

/-- `VoipVersionId: TryFrom<UInt>` (`voip_version_id::validate`): only `0` (stored as `V0`, whose
string form is `"0"`). -/
def voipVersionFromUInt (u : Nat) : Res Str := if u ≠ 0 then .err else .ok [48]

/-! ## `OwnedBase64PublicKey::with_bytes` -/

/-- The standard base64 alphabet (`base64::alphabet::STANDARD`), symbol `i` (taken mod 64). -/
def b64Char (i : Nat) : Nat :=
  let i := i % 64
  if i < 26 then 65 + i
  else if i < 52 then 97 + (i - 26)
  else if i < 62 then 48 + (i - 52)
  else if i = 62 then 43
  else 47

/-- `Base64::<Standard, _>::new(bytes).encode()` (engine `NO_PAD`): 3 bytes → 4 symbols, a last
group of 1 byte → 2 symbols, of 2 bytes → 3 symbols, no `=`. -/
def b64 : List Nat → Str
  | [] => []
  | [a] => [b64Char (a / 4), b64Char (a % 4 * 16)]
  | [a, b] => [b64Char (a / 4), b64Char (a % 4 * 16 + b / 16), b64Char (b % 16 * 4)]
  | a :: b :: c :: t =>
    b64Char (a / 4) :: b64Char (a % 4 * 16 + b / 16) :: b64Char (b % 16 * 4 + c / 64)
      :: b64Char (c % 64) :: b64 t

/-- `OwnedBase64PublicKey::with_bytes(bytes)` = `Base64::new(bytes).into()` =
`value.to_string().try_into().unwrap_or_else(|_| unreachable!())`: the encoded text goes through
`base64_public_key::validate`; a rejection reaches `unreachable!()` (a panic). -/
def withBytes (x : Ext) (bytes : List Nat) : Res Str :=
  let t := b64 bytes
  match base64PublicKeyValidate x t with
  | .ok () => .ok t
  | _ => .panic

end Ruma.Ids
