/-
  Model of the HTML sanitizer of `ruma-html`
  (crates/ruma-html/src/sanitizer_config/clean.rs, sanitizer_config.rs, html.rs).

  Strings are lists of Unicode code points (`List Nat`); Rust compares `str`, `Atom` and
  `StrTendril` by their UTF-8 bytes, which is the same order as code point order.

  Trees are what `Html::parse` hands to the sanitizer (html5ever's tokenizer, tree builder and
  serializer are external and not modelled). `attrs` is the element's
  `BTreeSet<Attribute>`: a list in the set's iteration order, i.e. ascending by
  (`pfx`, `ns`, `name`, `value`) — the derived `Ord` of `Attribute { name: QualName { prefix,
  ns, local }, value }`. Ordinary HTML attributes have no prefix and the empty namespace;
  html5ever gives `xlink:href`, `xml:lang`, `xmlns`, `xmlns:xlink` inside SVG/MathML content a
  namespace (and the serializer writes them with their prefix). The sanitizer looks at the local
  name (`name`), the `value` and — in the attribute allow-list check — at whether the namespace is
  empty; the set's order decides which attribute a loop meets first, and equality of whole
  attributes decides what `remove`/`take`/`insert` do.
-/
import RumaModel.Model.Json
namespace Ruma.Html

structure Attr where
  /-- `name.prefix : Option<Prefix>` -/
  pfx : Option Str := none
  /-- `name.ns : Namespace` (`ns!()` = the empty string for HTML attributes) -/
  ns : Str := []
  /-- `name.local` -/
  name : Str
  value : Str
  deriving DecidableEq, Repr, Inhabited

/-- `Option<Prefix>`'s derived order: `None` first, then by string. -/
def optStrLt : Option Str → Option Str → Bool
  | none, some _ => true
  | some a, some b => decide (a < b)
  | _, none => false

/-- The derived `Ord` of `html5ever::Attribute`: lexicographic on (prefix, ns, local name, value). -/
def Attr.lt (a b : Attr) : Bool :=
  optStrLt a.pfx b.pfx || (a.pfx == b.pfx &&
    (decide (a.ns < b.ns) || (a.ns == b.ns &&
      (decide (a.name < b.name) || (a.name == b.name && decide (a.value < b.value))))))

/-- `attr.name.ns == ns!()`: an attribute without namespace, i.e. an HTML attribute. -/
def Attr.isHtml (a : Attr) : Bool := a.ns.isEmpty

/-- `NodeData::Element` with its children, `NodeData::Text`, `NodeData::Other` (comments,
processing instructions). -/
inductive Node where
  | elem (name : Str) (attrs : List Attr) (children : List Node)
  | text (s : Str)
  | other
  deriving Repr, Inhabited

mutual
/-- Decidable equality of trees (a nested inductive has no derived instance). -/
def Node.decEq : (a b : Node) → Decidable (a = b)
  | .text s, .text t =>
    if h : s = t then isTrue (by rw [h]) else isFalse (by intro h'; injection h'; contradiction)
  | .other, .other => isTrue rfl
  | .elem n as cs, .elem n' as' cs' =>
    if h1 : n = n' then
      if h2 : as = as' then
        match Node.decEqL cs cs' with
        | isTrue h3 => isTrue (by rw [h1, h2, h3])
        | isFalse h3 => isFalse (by intro h; injection h; contradiction)
      else isFalse (by intro h; injection h; contradiction)
    else isFalse (by intro h; injection h; contradiction)
  | .text _, .other => isFalse (by intro h; cases h)
  | .text _, .elem .. => isFalse (by intro h; cases h)
  | .other, .text _ => isFalse (by intro h; cases h)
  | .other, .elem .. => isFalse (by intro h; cases h)
  | .elem .., .text _ => isFalse (by intro h; cases h)
  | .elem .., .other => isFalse (by intro h; cases h)
def Node.decEqL : (a b : List Node) → Decidable (a = b)
  | [], [] => isTrue rfl
  | [], _ :: _ => isFalse (by intro h; cases h)
  | _ :: _, [] => isFalse (by intro h; cases h)
  | x :: xs, y :: ys =>
    match Node.decEq x y with
    | isTrue h1 =>
      match Node.decEqL xs ys with
      | isTrue h2 => isTrue (by rw [h1, h2])
      | isFalse h2 => isFalse (by intro h; injection h; contradiction)
    | isFalse h1 => isFalse (by intro h; injection h; contradiction)
end
instance : DecidableEq Node := Node.decEq

/-! ## Configuration: every field of `SanitizerConfig`, plus the private static lists -/

inductive Mode where
  | strict | compat
  deriving DecidableEq, Repr

/-- `List<T>`: content with `ListBehavior::Override` (`true`) or `Add` (`false`). -/
structure BList (α : Type) where
  override : Bool
  content : α
  deriving Repr

abbrev NameSet := List Str
abbrev PerElem := List (Str × List Str)
abbrev SchemeMap := List (Str × List (Str × List Str))

/-- `HashMap::get` on a map collected from an iterator of pairs: a later pair with the same key
replaced the earlier one. -/
def mapGet {α : Type} (m : List (Str × α)) (k : Str) : Option α :=
  match m with
  | [] => none
  | (k', v) :: t =>
    match mapGet t k with
    | some w => some w
    | none => if k' = k then some v else none

/-- The private statics of `clean.rs` (lines 6–93). -/
structure Lists where
  /-- `ALLOWED_ELEMENTS_STRICT` -/
  elements : List Str
  /-- `DEPRECATED_ELEMENTS` -/
  deprecatedElements : List (Str × Str)
  /-- `ALLOWED_ATTRIBUTES_STRICT` -/
  attrs : PerElem
  /-- `DEPRECATED_ATTRS` -/
  deprecatedAttrs : List (Str × List (Str × Str))
  /-- `ALLOWED_SCHEMES_STRICT` -/
  schemesStrict : SchemeMap
  /-- `ALLOWED_SCHEMES_COMPAT` -/
  schemesCompat : SchemeMap
  /-- `ALLOWED_CLASSES_STRICT` -/
  classes : PerElem
  /-- `MAX_DEPTH_STRICT` -/
  maxDepth : Nat
  deriving Repr, DecidableEq

/-- `SanitizerConfig`, field for field (sanitizer_config.rs:11-68). -/
structure Cfg where
  mode : Option Mode := none
  replaceElements : Option (BList (List (Str × Str))) := none
  removeElements : Option NameSet := none
  removeReplyFallback : Bool := false
  ignoreElements : Option NameSet := none
  allowElements : Option (BList NameSet) := none
  replaceAttrs : Option (BList (List (Str × List (Str × Str)))) := none
  removeAttrs : Option PerElem := none
  allowAttrs : Option (BList PerElem) := none
  denySchemes : Option SchemeMap := none
  allowSchemes : Option (BList SchemeMap) := none
  removeClasses : Option PerElem := none
  allowClasses : Option (BList PerElem) := none
  maxDepth : Option Nat := none
  deriving Repr

/-- `RICH_REPLY_ELEMENT_NAME` -/
def replyName : Str := bs "mx-reply"
def className : Str := bs "class"

def Cfg.useStrict (c : Cfg) : Bool := c.mode.isSome
def Cfg.useCompat (c : Cfg) : Bool := c.mode == some .compat

/-- `opt.as_ref().is_some_and(|set| set.contains(k))` -/
def optContains (o : Option (List Str)) (k : Str) : Bool :=
  match o with
  | some s => s.contains k
  | none => false

/-- `list.is_override()` of an optional list, `false` when absent (`unwrap_or_default`). -/
def isOverride {α : Type} (l : Option (BList α)) : Bool :=
  match l with
  | some b => b.override
  | none => false

/-- `max_depth_value` -/
def maxDepthValue (L : Lists) (c : Cfg) : Option Nat :=
  match c.maxDepth with
  | some d => some d
  | none => if c.useStrict then some L.maxDepth else none

/-! ## Strings -/

/-- `value.starts_with(&format!("{scheme}:"))` -/
def startsWithScheme (value scheme : Str) : Bool := (scheme ++ [58]).isPrefixOf value

/-- `char::is_whitespace` (Unicode `White_Space`). -/
def isWs (c : Nat) : Bool :=
  (9 ≤ c && c ≤ 13) || c == 32 || c == 0x85 || c == 0xA0 || c == 0x1680 ||
  (0x2000 ≤ c && c ≤ 0x200A) || c == 0x2028 || c == 0x2029 || c == 0x202F || c == 0x205F ||
  c == 0x3000

/-- One right-to-left pass of `split_whitespace`: the (possibly empty) word that starts at the head
of the string, and the words after it. -/
def splitAux : List Nat → Str × List Str
  | [] => ([], [])
  | c :: t =>
    let r := splitAux t
    if isWs c then ([], if r.1.isEmpty then r.2 else r.1 :: r.2) else (c :: r.1, r.2)

/-- `str::split_whitespace().collect::<Vec<_>>()`: the maximal runs of non-whitespace characters. -/
def splitWs (s : Str) : List Str :=
  let r := splitAux s
  if r.1.isEmpty then r.2 else r.1 :: r.2

/-- `classes.join(" ")` -/
def joinSp : List Str → Str
  | [] => []
  | [w] => w
  | w :: t => w ++ 32 :: joinSp t

/-- `WildMatch::new(pattern).matches(text)` (external crate; modelled by its documentation:
`*` matches any number of characters, `?` exactly one, everything else itself). -/
def globMatch : List Nat → List Nat → Bool
  | [], s => s.isEmpty
  | p :: ps, [] => p == 42 && globMatch ps []
  | p :: ps, c :: s =>
    if p == 42 then globMatch ps (c :: s) || globMatch (p :: ps) s
    else (p == 63 || p == c) && globMatch ps s
termination_by p s => p.length + s.length

/-! ## Attribute sets (`BTreeSet<Attribute>` as a sorted list) -/

/-- `BTreeSet::insert`: no change if an equal attribute is present. -/
def setInsert (a : Attr) : List Attr → List Attr
  | [] => [a]
  | b :: t => if a = b then b :: t else if a.lt b then a :: b :: t else b :: setInsert a t

/-- `BTreeSet::remove` / `take`. -/
def setErase (a : Attr) (s : List Attr) : List Attr := s.filter (· ≠ a)

/-- `.into_iter().map(f).collect::<BTreeSet<_>>()` -/
def setCollect (l : List Attr) : List Attr := l.foldl (fun acc a => setInsert a acc) []

/-! ## `apply_replacements` (clean.rs:138-200) -/

/-- The renaming closure of the attribute loop: list replacement first, else mode replacement. -/
def renameAttr (listRepl modeRepl : Option (List (Str × Str))) (a : Attr) : Attr :=
  match (listRepl.bind (mapGet · a.name)).orElse (fun _ => modeRepl.bind (mapGet · a.name)) with
  | some n => { a with name := n }
  | none => a

def replaceAttrsOf (L : Lists) (c : Cfg) (name : Str) (attrs : List Attr) : List Attr :=
  let listRepl := c.replaceAttrs.bind (fun l => mapGet l.content name)
  let modeRepl := if !isOverride c.replaceAttrs && c.useStrict then mapGet L.deprecatedAttrs name else none
  if listRepl.isSome || modeRepl.isSome then setCollect (attrs.map (renameAttr listRepl modeRepl))
  else attrs

def replaceNameOf (L : Lists) (c : Cfg) (name : Str) : Str :=
  match c.replaceElements.bind (fun l => mapGet l.content name) with
  | some n => n
  | none =>
    match (if !isOverride c.replaceElements && c.useStrict then mapGet L.deprecatedElements name else none) with
    | some n => n
    | none => name

/-! ## `node_action` (clean.rs:202-324), element case -/

inductive Action where
  | none | ignore | remove
  deriving DecidableEq, Repr

/-- `schemes.iter().any(|scheme| value.starts_with(&format!("{scheme}:")))` on an optional list. -/
def schemesHit (o : Option (List Str)) (value : Str) : Bool :=
  match o with
  | some s => s.any (startsWithScheme value)
  | none => false

/-- As `schemesHit`, but an absent list lets every value pass. -/
def schemesPass (o : Option (List Str)) (value : Str) : Bool :=
  match o with
  | some s => s.any (startsWithScheme value)
  | none => true

/-- The deny loop: `true` = some attribute carries a denied scheme (`return Ignore`). -/
def denyLoop (deny : List (Str × List Str)) : List Attr → Bool
  | [] => false
  | a :: t => if schemesHit (mapGet deny a.name) a.value then true else denyLoop deny t

def denyCheck (c : Cfg) (name : Str) (attrs : List Attr) : Bool :=
  match c.denySchemes.bind (mapGet · name) with
  | some deny => denyLoop deny attrs
  | none => false

/-- `list_element_schemes`, `strict_mode_element_schemes`, `compat_mode_element_schemes`. -/
structure SchemeCtx where
  listS : Option (List (Str × List Str))
  strictS : Option (List (Str × List Str))
  compatS : Option (List (Str × List Str))

def schemeCtx (L : Lists) (c : Cfg) (name : Str) : SchemeCtx where
  listS := c.allowSchemes.bind (fun l => mapGet l.content name)
  strictS := if !isOverride c.allowSchemes && c.useStrict then mapGet L.schemesStrict name else none
  compatS := if !isOverride c.allowSchemes && c.useCompat then mapGet L.schemesCompat name else none

def SchemeCtx.empty (x : SchemeCtx) : Bool := x.listS.isNone && x.strictS.isNone && x.compatS.isNone

/-- The three per-attribute lists chained (`none`: "we don't check schemes for this attribute"). -/
def attrSchemes (x : SchemeCtx) (a : Str) : Option (List Str) :=
  let l := x.listS.bind (mapGet · a)
  let s := x.strictS.bind (mapGet · a)
  let k := x.compatS.bind (mapGet · a)
  if l.isNone && s.isNone && k.isNone then none else some (l.getD [] ++ s.getD [] ++ k.getD [])

/-- The allow loop over the attributes in set order (after the repair of F3: an attribute
without any scheme list is skipped with `continue`). `true` = `return Ignore`. -/
def allowLoop (x : SchemeCtx) : List Attr → Bool
  | [] => false
  | a :: t => if !schemesPass (attrSchemes x a.name) a.value then true else allowLoop x t

/-- `max_depth_value().is_some_and(|max| depth >= max)` -/
def depthExceeded (L : Lists) (c : Cfg) (depth : Nat) : Bool :=
  match maxDepthValue L c with
  | some m => decide (depth ≥ m)
  | none => false

/-- "Check if element should be removed." -/
def removeCheck (L : Lists) (c : Cfg) (name : Str) (depth : Nat) : Bool :=
  optContains c.removeElements name ||
  (c.removeReplyFallback && name == replyName) ||
  depthExceeded L c depth

/-- "Check if element should be allowed" (`false` = `return Ignore`). -/
def allowCheck (L : Lists) (c : Cfg) (name : Str) : Bool :=
  !(c.allowElements.isSome || c.useStrict) ||
  optContains (c.allowElements.map (·.content)) name ||
  (!isOverride c.allowElements && c.useStrict && L.elements.contains name)

/-- The part of `node_action` after the deny loop. -/
def schemeCheck (L : Lists) (c : Cfg) (name : Str) (attrs : List Attr) : Action :=
  if c.allowSchemes.isNone && !c.useStrict then .none
  else if (schemeCtx L c name).empty then .none
  else if allowLoop (schemeCtx L c name) attrs then .ignore else .none

def nodeAction (L : Lists) (c : Cfg) (name : Str) (attrs : List Attr) (depth : Nat) : Action :=
  if removeCheck L c name depth then .remove
  else if optContains c.ignoreElements name then .ignore
  else if !allowCheck L c name then .ignore
  else if denyCheck c name attrs then .ignore
  else schemeCheck L c name attrs

/-! ## `clean_element_attributes` (clean.rs:326-447) -/

inductive AttrAction where
  | replaceValue (a : Attr) (v : Str)
  | remove (a : Attr)
  deriving Repr

/-- Some pattern of the list matches the class. -/
def anyGlob (pats : List Str) (cl : Str) : Bool := pats.any (fun p => globMatch p cl)

/-- The class matches a remove pattern (no remove list: nothing does). -/
def removedClass (removeC : Option (List Str)) (cl : Str) : Bool :=
  match removeC with
  | some pats => anyGlob pats cl
  | none => false

/-- The class filters: `retain` by the remove patterns (if any), then by the allow patterns. -/
def filterClasses (removeC : Option (List Str)) (whitelist : Bool) (allowC : List Str)
    (classes : List Str) : List Str :=
  let c1 := classes.filter (fun cl => !removedClass removeC cl)
  if whitelist then c1.filter (anyGlob allowC) else c1

/-- Per-element context of `clean_element_attributes`, computed once before the loop. -/
structure AttrCtx where
  removeAttrs : Option (List Str)
  whitelistAttrs : Bool
  listAllow : Option (List Str)
  modeAllow : Option (List Str)
  removeClasses : Option (List Str)
  whitelistClasses : Bool
  allowClasses : List Str

def attrCtx (L : Lists) (c : Cfg) (name : Str) : AttrCtx where
  removeAttrs := c.removeAttrs.bind (mapGet · name)
  whitelistAttrs := c.allowAttrs.isSome || c.useStrict
  listAllow := c.allowAttrs.bind (fun l => mapGet l.content name)
  modeAllow := if !isOverride c.allowAttrs && c.useStrict then mapGet L.attrs name else none
  removeClasses := c.removeClasses.bind (mapGet · name)
  whitelistClasses := c.allowClasses.isSome || c.useStrict
  allowClasses :=
    ((c.allowClasses.bind (fun l => mapGet l.content name)).getD []) ++
    ((if !isOverride c.allowClasses && c.useStrict then mapGet L.classes name else none).getD [])

/-- The body of the `filter_map` closure for one attribute. -/
def attrAction (x : AttrCtx) (a : Attr) : Option AttrAction :=
  if optContains x.removeAttrs a.name then some (.remove a)
  else if x.whitelistAttrs &&
      (!a.isHtml || (!optContains x.listAllow a.name && !optContains x.modeAllow a.name)) then
    -- the lists hold names of HTML attributes: an attribute in a namespace is never on them
    some (.remove a)
  else if a.name == className then
    let classes := splitWs a.value
    let kept := filterClasses x.removeClasses x.whitelistClasses x.allowClasses classes
    if kept.length == classes.length then none
    else if kept.isEmpty then some (.remove a)
    else some (.replaceValue a (joinSp kept))
  else none

/-- The second loop: apply the collected actions to the set, in order. -/
def applyActions : List AttrAction → List Attr → List Attr
  | [], s => s
  | .replaceValue a v :: t, s =>
    if s.contains a then applyActions t (setInsert { a with value := v } (setErase a s))
    else applyActions t s
  | .remove a :: t, s => applyActions t (setErase a s)

def cleanAttrs (L : Lists) (c : Cfg) (name : Str) (attrs : List Attr) : List Attr :=
  applyActions (attrs.filterMap (attrAction (attrCtx L c name))) attrs

/-! ## `clean_node` / `clean` (clean.rs:107-133) -/

mutual
/-- The nodes that stand in the place of `n` after `clean_node(n, depth)`: nothing (removed), its
cleaned children (ignored; they were cleaned at `depth + 1`, as the code passes it), or the
node itself with cleaned children and attributes. -/
def cleanNode (L : Lists) (c : Cfg) (depth : Nat) : Node → List Node
  | .text s => [.text s]
  | .other => []
  | .elem name attrs children =>
    let attrs' := replaceAttrsOf L c name attrs
    let name' := replaceNameOf L c name
    match nodeAction L c name' attrs' depth with
    | .remove => []
    | .ignore => cleanList L c (depth + 1) children
    | .none => [.elem name' (cleanAttrs L c name' attrs') (cleanList L c (depth + 1) children)]
def cleanList (L : Lists) (c : Cfg) (depth : Nat) : List Node → List Node
  | [] => []
  | n :: t => cleanNode L c depth n ++ cleanList L c depth t
end

/-- `SanitizerConfig::clean(&Html)`: the children of the fragment root, at depth 0. -/
def clean (L : Lists) (c : Cfg) (roots : List Node) : List Node := cleanList L c 0 roots

/-! ## The public builder (sanitizer_config.rs:70-397) -/

/-- One call of a builder method of `SanitizerConfig`; `override = true` is
`ListBehavior::Override`, `false` is `ListBehavior::Add`. -/
inductive BuilderCall where
  | replaceElements (l : List (Str × Str)) (override : Bool)
  | removeElements (l : NameSet)
  | removeReplyFallback
  | ignoreElements (l : NameSet)
  | allowElements (l : NameSet) (override : Bool)
  | replaceAttributes (l : List (Str × List (Str × Str))) (override : Bool)
  | removeAttributes (l : PerElem)
  | allowAttributes (l : PerElem) (override : Bool)
  | denySchemes (l : SchemeMap)
  | allowSchemes (l : SchemeMap) (override : Bool)
  | removeClasses (l : PerElem)
  | allowClasses (l : PerElem) (override : Bool)
  | maxDepth (d : Nat)
  deriving Repr

/-- Each builder method overwrites exactly one field (`self.field = Some(…); self`). -/
def BuilderCall.apply (c : Cfg) : BuilderCall → Cfg
  | .replaceElements l o => { c with replaceElements := some ⟨o, l⟩ }
  | .removeElements l => { c with removeElements := some l }
  | .removeReplyFallback => { c with removeReplyFallback := true }
  | .ignoreElements l => { c with ignoreElements := some l }
  | .allowElements l o => { c with allowElements := some ⟨o, l⟩ }
  | .replaceAttributes l o => { c with replaceAttrs := some ⟨o, l⟩ }
  | .removeAttributes l => { c with removeAttrs := some l }
  | .allowAttributes l o => { c with allowAttrs := some ⟨o, l⟩ }
  | .denySchemes l => { c with denySchemes := some l }
  | .allowSchemes l o => { c with allowSchemes := some ⟨o, l⟩ }
  | .removeClasses l => { c with removeClasses := some l }
  | .allowClasses l o => { c with allowClasses := some ⟨o, l⟩ }
  | .maxDepth d => { c with maxDepth := some d }

/-- `SanitizerConfig::new()` (`none`), `strict()`, `compat()` / `with_mode(m)`, followed by any
sequence of builder calls. -/
def build (start : Option Mode) (calls : List BuilderCall) : Cfg :=
  calls.foldl BuilderCall.apply { mode := start }

/-! ## Containers for the behavioural extraction (T1) -/

structure Universe where
  elements : List Str
  attrs : List Str
  schemes : List Str
  classes : List Str
  deriving Repr, DecidableEq

/-- What one mode does on every point of a `Universe` (see `Generated/C14.lean`). -/
structure ModeTable where
  /-- element names that are kept -/
  elements : List Str
  /-- per element (made allowed by an added list): the attributes that are kept; non-empty rows -/
  attrs : List (Str × List Str)
  /-- (element, attribute) pairs that reject a fresh scheme, with the scheme spellings accepted -/
  schemes : List (Str × Str × List Str)
  /-- per element: the classes that are kept; non-empty rows -/
  classes : List (Str × List Str)
  /-- smallest number of element ancestors at which an allowed element is removed -/
  maxDepth : Nat
  /-- element renamings -/
  replElements : List (Str × Str)
  /-- attribute renamings (element, attribute, new name) -/
  replAttrs : List (Str × Str × Str)
  deriving Repr, DecidableEq

end Ruma.Html
