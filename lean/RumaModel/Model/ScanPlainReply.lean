/-
  C17 — model of `remove_plain_reply_fallback`
  (`crates/ruma-events/src/room/message/sanitize.rs`): strips the `> <@user> …` quote lines a remote
  user put in front of a plain-text reply.

  No index or slice; the site is the `while s.starts_with("> ")` loop, whose fuel is `len + 1`
  (`hang` = fuel exhausted).
-/
import RumaModel.Model.ScanCommon
namespace Ruma.ScanPlainReply
open Ruma Ruma.Scan

/-- `s.split_once('\n')`: the text after the first newline, if there is one. -/
def afterNewline : Str → Option Str
  | [] => none
  | b :: t => if b = 10 then some t else afterNewline t

/-- The `while s.starts_with("> ")` loop: the remaining text, or `""` when a quoted line has no
newline. -/
def stripQuoted : Nat → Str → Out Str
  | 0, _ => .hang
  | fuel + 1, s =>
    if ([62, 32] : Str).isPrefixOf s then
      match afterNewline s with
      | some rest => stripQuoted fuel rest
      | none => .ok []
    else .ok s

/-- `remove_plain_reply_fallback`. -/
def removeFallback (s : Str) : Out Str :=
  if (!(bs "> <").isPrefixOf s && !(bs "> * <").isPrefixOf s) || !s.contains 10 then .ok s
  else
    match stripQuoted (s.length + 1) s with
    | .ok r =>
      -- "Strip the first line after the fallback if it is empty."
      match r with
      | 10 :: rest => .ok rest
      | _ => .ok r
    | .err => .err
    | .panic => .panic
    | .hang => .hang

end Ruma.ScanPlainReply
