/-
  C20 — model of the power-level helpers of `ruma-events`
  (crates/ruma-events/src/room/power_levels.rs):

  * `RoomPowerLevels`                                   → `Levels`
  * serde `Deserialize` of `RoomPowerLevelsEventContent` followed by
    `From<RoomPowerLevelsEventContent> for RoomPowerLevels`           → `ofContent`
    (what a client gets from the `content` of the room's `m.room.power_levels` event)
  * `for_user`, `for_action`, `for_message`, `for_state`, `user_can_*`, `user_can_do`,
    `user_can_do_to_user`                                              → `Levels.*`
  * `PowerLevelAction`, `PowerLevelUserAction`, `NotificationPowerLevelType`
  * `NotificationPowerLevels` (ruma-common/src/power_levels.rs)        → `notificationsField`

  and the *setting* of the property: the Boolean predicates that say "this (rules, state, event)
  is a room with those power levels, the sender a joined member, the event the one that corresponds
  to the helper" — evaluated by the driver on every request and used, verbatim, as the hypotheses
  of the theorems in `Props/C20.lean`.

  Conventions as in `Model/Auth.lean`: strings are UTF-8 byte lists; a `BTreeMap<K, Int>` is the
  list of its insertions and `lastGet` is `BTreeMap::get`; event types are carried in their string
  form (`TimelineEventType`'s `Ord` compares the string forms, so map lookup is by string).

  Level values: every level field of the content is deserialized by
  `ruma_common::serde::deserialize_v1_powerlevel` (an integer in the js_int range, or a string in
  the v1 format) — the function the authorization rules use when `integer_power_levels` is off, i.e.
  `Auth.plInt` under a rule set with that flag off (`serdeRules`).
-/
import RumaModel.Model.Auth
import RumaModel.Model.Redact
namespace Ruma.PowerLevels
open Ruma Ruma.Auth Ruma.Ident

/-- A rule set with `integer_power_levels` off: under it `Auth.plInt` is
`deserialize_v1_powerlevel`, the `deserialize_with` of every level in the content type. (Only that
flag is read by the accessors used here.) -/
def serdeRules : AuthRules := AuthRules.v1

/-- `RoomPowerLevels`. -/
structure Levels where
  ban : Int
  events : PLMap
  eventsDefault : Int
  invite : Int
  kick : Int
  redact : Int
  stateDefault : Int
  users : PLMap
  usersDefault : Int
  /-- `notifications.room` -/
  notificationsRoom : Int
  deriving Repr

/-- `ruma_common::power_levels::default_power_level()`. -/
def defaultPowerLevel : Int := 50

/-! ## Deserialization (`#[derive(Deserialize)]` with `default` + `deserialize_with`) -/

/-- An integer field: absent → the field's serde default, present → `deserialize_v1_powerlevel`
(so `null`, floats, booleans, arrays, objects and unreadable strings fail the whole content). -/
def intField (c : Obj) (key : Str) (dflt : Int) : Res Int :=
  match Obj.get c key with
  | none => .ok dflt
  | some v => plInt serdeRules v

/-- A map field (`btreemap_deserialize_v1_powerlevel_values`): absent → empty, otherwise it must be
an object whose keys deserialize as the key type and whose values are levels. -/
def mapField (c : Obj) (key : Str) (keyOf : Str → Option Str) : Res PLMap :=
  match Obj.get c key with
  | none => .ok []
  | some (.obj kvs) => intMapEntries serdeRules keyOf kvs
  | some _ => .error ()

/-- `notifications: NotificationPowerLevels` (`#[serde(default)]`): a derived struct with the one
field `room` (default 50). serde accepts a struct as a map or as a sequence of its fields; a
sequence with more elements than fields is an error. -/
def notificationsField (c : Obj) : Res Int :=
  match Obj.get c (bs "notifications") with
  | none => .ok defaultPowerLevel
  | some (.obj o) => intField o (bs "room") defaultPowerLevel
  | some (.arr []) => .ok defaultPowerLevel
  | some (.arr [v]) => plInt serdeRules v
  | some _ => .error ()

/-- `serde_json::from_str::<RoomPowerLevelsEventContent>(content)` then `RoomPowerLevels::from`. -/
def ofContentR (c : Obj) : Res Levels := do
  let ban ← intField c (bs "ban") defaultPowerLevel
  let events ← mapField c (bs "events") (fun k => some (canonType k))
  let eventsDefault ← intField c (bs "events_default") 0
  let invite ← intField c (bs "invite") 0
  let kick ← intField c (bs "kick") defaultPowerLevel
  let redact ← intField c (bs "redact") defaultPowerLevel
  let stateDefault ← intField c (bs "state_default") defaultPowerLevel
  let users ← mapField c (bs "users") (fun k => if validUserId k then some k else none)
  let usersDefault ← intField c (bs "users_default") 0
  let notificationsRoom ← notificationsField c
  .ok { ban, events, eventsDefault, invite, kick, redact, stateDefault, users, usersDefault,
        notificationsRoom }

def ofContent (c : Obj) : Option Levels :=
  match ofContentR c with
  | .ok l => some l
  | .error _ => none

/-! ## The redacted event (`RedactedRoomPowerLevelsEventContent`) -/

/-- `serde_json::from_str::<RedactedRoomPowerLevelsEventContent>(content)` then
`From<RedactedRoomPowerLevelsEventContent> for RoomPowerLevels`: the redacted content type has the
same nine level fields with the same serde attributes (`invite` included: it survives redaction from
room version 11 on) and no `notifications` field (an unknown key is ignored by the derive); the
conversion fills `notifications` with its default. -/
def ofRedactedContentR (c : Obj) : Res Levels := do
  let ban ← intField c (bs "ban") defaultPowerLevel
  let events ← mapField c (bs "events") (fun k => some (canonType k))
  let eventsDefault ← intField c (bs "events_default") 0
  let invite ← intField c (bs "invite") 0
  let kick ← intField c (bs "kick") defaultPowerLevel
  let redact ← intField c (bs "redact") defaultPowerLevel
  let stateDefault ← intField c (bs "state_default") defaultPowerLevel
  let users ← mapField c (bs "users") (fun k => if validUserId k then some k else none)
  let usersDefault ← intField c (bs "users_default") 0
  .ok { ban, events, eventsDefault, invite, kick, redact, stateDefault, users, usersDefault,
        notificationsRoom := defaultPowerLevel }

/-- `redact_content_in_place(content, rules, "m.room.power_levels")` as a total function: the entries
whose key `retained_event_content_keys` keeps (`Lemmas/PowerLevelsRedacted.redactContent_powerLevels`
proves that this is what the model of the redaction algorithm returns, and that it never fails). -/
def redactedPL (r : Redact.Rules) (c : Obj) : Obj :=
  c.filter (fun e => Redact.powerLevelsKey r e.1)

def ofRedactedContent (c : Obj) : Option Levels :=
  match ofRedactedContentR c with
  | .ok l => some l
  | .error _ => none

/-- `RedactContent::redact(self, rules)` on the typed content followed by the conversion to
`RoomPowerLevels`: `invite` is kept iff `rules.keep_room_power_levels_invite`, otherwise it becomes 0;
`notifications` is dropped (default 50); every other field is copied. -/
def redactLevels (keepInvite : Bool) (l : Levels) : Levels :=
  { l with invite := if keepInvite then l.invite else 0, notificationsRoom := defaultPowerLevel }

/-! ## Event-type arguments -/

/-- `TimelineEventType::from(MessageLikeEventType::from(s)).to_string()`: the message-like enum knows
the one alias spelling, so the key is the canonical string. -/
def messageTypeKey (s : Str) : Str := canonType s

/-- `TimelineEventType::from(StateEventType::from(s)).to_string()`: no state event type has an alias
spelling; any other string is carried through `_Custom` unchanged. -/
def stateTypeKey (s : Str) : Str := s

/-! ## The helpers -/

namespace Levels

/-- `for_user`. -/
def forUser (p : Levels) (u : Str) : Int :=
  match lastGet p.users u with
  | some l => l
  | none => p.usersDefault

/-- `for_message` (argument: the type's key, see `messageTypeKey`). -/
def forMessage (p : Levels) (t : Str) : Int :=
  match lastGet p.events t with
  | some l => l
  | none => p.eventsDefault

/-- `for_state`. -/
def forState (p : Levels) (t : Str) : Int :=
  match lastGet p.events t with
  | some l => l
  | none => p.stateDefault

end Levels

/-- `PowerLevelAction` (`NotificationPowerLevelType` has the single variant `Room`). -/
inductive Action where
  | ban | unban | invite | kick | redactOwn | redactOther
  | sendMessage (t : Str)
  | sendState (t : Str)
  | triggerNotificationRoom
  deriving DecidableEq, Repr

/-- `PowerLevelUserAction`. -/
inductive UserAction where
  | ban | unban | invite | kick | changePowerLevel
  deriving DecidableEq, Repr

namespace Levels

/-- `for_action`. -/
def forAction (p : Levels) : Action → Int
  | .ban => p.ban
  | .unban => max p.ban p.kick
  | .invite => p.invite
  | .kick => p.kick
  | .redactOwn => p.forMessage tRedaction
  | .redactOther => max p.redact (p.forMessage tRedaction)
  | .sendMessage t => p.forMessage t
  | .sendState t => p.forState t
  | .triggerNotificationRoom => p.notificationsRoom

/-- `user_can_ban`. -/
def userCanBan (p : Levels) (u : Str) : Bool := decide (p.forUser u ≥ p.ban)

/-- `user_can_ban_user`. -/
def userCanBanUser (p : Levels) (acting target : Str) : Bool :=
  let actingPl := p.forUser acting
  let targetPl := p.forUser target
  decide (actingPl ≥ p.ban) && decide (targetPl < actingPl)

/-- `user_can_unban`. -/
def userCanUnban (p : Levels) (u : Str) : Bool :=
  let pl := p.forUser u
  decide (pl ≥ p.ban) && decide (pl ≥ p.kick)

/-- `user_can_unban_user`. -/
def userCanUnbanUser (p : Levels) (acting target : Str) : Bool :=
  let actingPl := p.forUser acting
  let targetPl := p.forUser target
  decide (actingPl ≥ p.ban) && decide (actingPl ≥ p.kick) && decide (targetPl < actingPl)

/-- `user_can_invite`. -/
def userCanInvite (p : Levels) (u : Str) : Bool := decide (p.forUser u ≥ p.invite)

/-- `user_can_kick`. -/
def userCanKick (p : Levels) (u : Str) : Bool := decide (p.forUser u ≥ p.kick)

/-- `user_can_kick_user`. -/
def userCanKickUser (p : Levels) (acting target : Str) : Bool :=
  let actingPl := p.forUser acting
  let targetPl := p.forUser target
  decide (actingPl ≥ p.kick) && decide (targetPl < actingPl)

/-- `user_can_send_message`. -/
def userCanSendMessage (p : Levels) (u : Str) (t : Str) : Bool := decide (p.forUser u ≥ p.forMessage t)

/-- `user_can_send_state`. -/
def userCanSendState (p : Levels) (u : Str) (t : Str) : Bool := decide (p.forUser u ≥ p.forState t)

/-- `user_can_redact_own_event`. -/
def userCanRedactOwnEvent (p : Levels) (u : Str) : Bool := p.userCanSendMessage u tRedaction

/-- `user_can_redact_event_of_other`. -/
def userCanRedactEventOfOther (p : Levels) (u : Str) : Bool :=
  p.userCanRedactOwnEvent u && decide (p.forUser u ≥ p.redact)

/-- `user_can_trigger_room_notification`. -/
def userCanTriggerRoomNotification (p : Levels) (u : Str) : Bool :=
  decide (p.forUser u ≥ p.notificationsRoom)

/-- `user_can_change_user_power_level`. -/
def userCanChangeUserPowerLevel (p : Levels) (acting target : Str) : Bool :=
  if !p.userCanSendState acting tPowerLevels then false
  else if acting == target then true
  else
    match lastGet p.users target with
    | some targetPl => decide (p.forUser acting > targetPl)
    | none => true

/-- `user_can_do`. -/
def userCanDo (p : Levels) (u : Str) : Action → Bool
  | .ban => p.userCanBan u
  | .unban => p.userCanUnban u
  | .invite => p.userCanInvite u
  | .kick => p.userCanKick u
  | .redactOwn => p.userCanRedactOwnEvent u
  | .redactOther => p.userCanRedactEventOfOther u
  | .sendMessage t => p.userCanSendMessage u t
  | .sendState t => p.userCanSendState u t
  | .triggerNotificationRoom => p.userCanTriggerRoomNotification u

/-- `user_can_do_to_user`. -/
def userCanDoToUser (p : Levels) (acting target : Str) : UserAction → Bool
  | .ban => p.userCanBanUser acting target
  | .unban => p.userCanUnbanUser acting target
  | .invite => p.userCanInvite acting
  | .kick => p.userCanKickUser acting target
  | .changePowerLevel => p.userCanChangeUserPowerLevel acting target

end Levels

/-! ## The setting of the property

Everything below is a `Bool` so that the driver evaluates on each request exactly the hypotheses
the theorems are stated under. -/

def okB {α} : Res α → Bool
  | .ok _ => true
  | .error _ => false

/-- The power-levels content is one the authorization rules of that rule set can read in full: it
passes the parsing stage of `check_room_power_levels` (so the event carrying it can itself have
been authorized in that room version). String levels make this false from room version 10 on. -/
def authWF (rules : AuthRules) (c : Obj) : Bool :=
  PLField.all.all (fun fld => okB (getAsInt rules c fld)) &&
  okB (plEvents rules c) && okB (plUsers rules c) && okB (plNotifications rules c)

/-- The content of the room's power-levels event. -/
def plContent (f : Fetch) : Option Obj := (fetchPowerLevels f).map (·.content)

/-- The state has a create event that the candidate event cites, that lets the sender's server
take part, and from which the rules can tell the creator. -/
def createOk (rules : AuthRules) (f : Fetch) (ev : Event) : Bool :=
  match f tCreate [] with
  | none => false
  | some create =>
    ev.authEvents.contains create.eventId &&
    (match createFederate create.content with
      | .ok fed => fed || userServer create.sender == userServer ev.sender
      | .error _ => false) &&
    okB (createCreator rules create)

/-- The sender is a joined member. -/
def senderJoined (f : Fetch) (ev : Event) : Bool :=
  match userMembership f ev.sender with
  | .ok m => m == mJoin
  | .error _ => false

/-- "A room with those power levels, the user a joined member": create event, joined sender, and a
power-levels event whose content the helper can deserialize and the rules can read. -/
def settingOk (rules : AuthRules) (f : Fetch) (ev : Event) : Bool :=
  createOk rules f ev && senderJoined f ev &&
  match plContent f with
  | some c => (ofContent c).isSome && authWF rules c
  | none => false

/-- The helper's levels for the room (when the content deserializes). -/
def roomLevels (f : Fetch) : Option Levels := (plContent f).bind ofContent

/-- The target of an `m.room.member` event with membership `m`: its state key, a user id. -/
def memberTarget (ev : Event) (m : Str) : Option Str :=
  if ev.type == tMember then
    match ev.stateKey, contentMembership ev.content with
    | some t, .ok m' => if validUserId t && m' == m then some t else none
    | _, _ => none
  else none

/-- The target's current membership, when readable. -/
def membershipOf (f : Fetch) (u : Str) : Option Str :=
  match userMembership f u with
  | .ok m => some m
  | .error _ => none

/-- `ev` is a ban of some user by a joined member. -/
def domBan (rules : AuthRules) (f : Fetch) (ev : Event) : Bool :=
  settingOk rules f ev && (memberTarget ev mBan).isSome

/-- `ev` is a kick: a `leave` of another user who is not banned. -/
def domKick (rules : AuthRules) (f : Fetch) (ev : Event) : Bool :=
  settingOk rules f ev &&
  match memberTarget ev mLeave with
  | some t =>
    t != ev.sender &&
    (match membershipOf f t with
      | some m => m != mBan
      | none => false)
  | none => false

/-- `ev` is an unban: a `leave` of another user who is banned. -/
def domUnban (rules : AuthRules) (f : Fetch) (ev : Event) : Bool :=
  settingOk rules f ev &&
  match memberTarget ev mLeave with
  | some t => t != ev.sender && membershipOf f t == some mBan
  | none => false

/-- `ev` is a plain invite (no third-party invite) of a user who is neither joined nor banned. -/
def domInvite (rules : AuthRules) (f : Fetch) (ev : Event) : Bool :=
  settingOk rules f ev &&
  match memberTarget ev mInvite with
  | some t =>
    (match contentThirdPartyInvite ev.content with
      | .ok none => true
      | _ => false) &&
    (match membershipOf f t with
      | some m => m != mJoin && m != mBan
      | none => false)
  | none => false

/-- Event types that the authorization rules do not treat by the required-power rule alone when
sent without a state key: the state event types with a rule of their own (they are not message-like
types; `MessageLikeEventType` has no variant for them), `m.room.aliases` while it is special-cased
(room versions 1–5) and `m.room.redaction` while it is (room versions 1–2). -/
def msgOwnRule (rules : AuthRules) (t : Str) : Bool :=
  t == tCreate || t == tMember || t == tPowerLevels || t == tThirdPartyInvite ||
  (rules.specialCaseRoomAliases && t == tAliases) ||
  (rules.specialCaseRoomRedaction && t == tRedaction)

/-- `ev` is a message-like event. -/
def domMsg (rules : AuthRules) (f : Fetch) (ev : Event) : Bool :=
  settingOk rules f ev && ev.stateKey.isNone && !msgOwnRule rules ev.type

/-- State event types outside the statement about `user_can_send_state`: `m.room.create` (never
sent into an existing room), `m.room.member` (has the helpers of its own), `m.room.power_levels`
(theorem of its own), and `m.room.redaction` as a state event while it is special-cased. -/
def stateOutside (rules : AuthRules) (t : Str) : Bool :=
  t == tCreate || t == tMember || t == tPowerLevels ||
  (rules.specialCaseRoomRedaction && t == tRedaction)

/-- `ev` is a state event whose state key is not another user's id — the FULL statement about
`user_can_send_state` (includes `m.room.third_party_invite` and `m.room.aliases`). -/
def domState (rules : AuthRules) (f : Fetch) (ev : Event) : Bool :=
  settingOk rules f ev && ev.stateKey.isSome && !foreignUserStateKey ev && !stateOutside rules ev.type

/-- State event types with an authorization rule of their own that ignores `events` /
`state_default`: `m.room.third_party_invite` (invite level) and, while special-cased (room
versions 1–5), `m.room.aliases` (no level at all). -/
def stateOwnRule (rules : AuthRules) (t : Str) : Bool :=
  t == tThirdPartyInvite || (rules.specialCaseRoomAliases && t == tAliases)

/-- `ev` is an `m.room.third_party_invite` event. -/
def domTpi (rules : AuthRules) (f : Fetch) (ev : Event) : Bool :=
  settingOk rules f ev && ev.type == tThirdPartyInvite

/-- The redaction and the redacted event are from the same server (room versions 1–2 let a user
redact events of their own server without the `redact` level). -/
def redactsSameServer (ev : Event) : Bool := eventServer ev.eventId == ev.redacts.bind eventServer

/-- `ev` is a redaction the sender's own kind: any redaction from room version 3 on (whether it
takes effect is decided when it is applied), a same-server one before. -/
def domRedactOwn (rules : AuthRules) (f : Fetch) (ev : Event) : Bool :=
  settingOk rules f ev && ev.type == tRedaction && ev.stateKey.isNone &&
  (!rules.specialCaseRoomRedaction || redactsSameServer ev)

/-- `ev` is a redaction of another server's event in room versions 1–2. -/
def domRedactOther (rules : AuthRules) (f : Fetch) (ev : Event) : Bool :=
  settingOk rules f ev && ev.type == tRedaction && ev.stateKey.isNone &&
  rules.specialCaseRoomRedaction && !redactsSameServer ev

/-- `ev` is a power-levels event that re-sends the current content unchanged. -/
def domPl (rules : AuthRules) (f : Fetch) (ev : Event) : Bool :=
  settingOk rules f ev && ev.type == tPowerLevels && ev.stateKey == some [] &&
  match plContent f with
  | some c => JVal.obj c == JVal.obj ev.content
  | none => false

/-- The canonical change of `target`'s level in a power-levels content: an existing entry of
`users` is removed; a missing one is added at level `sl` (the sender's own level, as an integer);
an absent `users` object is created. `none` when `users` is present but not an object. -/
def canonicalChange (c : Obj) (target : Str) (sl : Int) : Option Obj :=
  match Obj.get c (bs "users") with
  | none => some (Obj.insert c (bs "users") (.obj [(target, .int sl)]))
  | some (.obj u) =>
    if Obj.contains u target then some (Obj.insert c (bs "users") (.obj (Obj.erase u target)))
    else some (Obj.insert c (bs "users") (.obj (Obj.insert u target (.int sl))))
  | some _ => none

/-- `ev` is a power-levels event whose content is the current content with the canonical change of
`target`'s level and nothing else. -/
def domChpl (rules : AuthRules) (f : Fetch) (ev : Event) (target : Str) : Bool :=
  settingOk rules f ev && ev.type == tPowerLevels && ev.stateKey == some [] && validUserId target &&
  match plContent f, roomLevels f with
  | some c, some p =>
    (match canonicalChange c target (p.forUser ev.sender) with
      | some c' => JVal.obj c' == JVal.obj ev.content
      | none => false)
  | _, _ => false

end Ruma.PowerLevels
