/-
  Model of `crates/ruma-common/src/identifiers/matrix_uri.rs` and `src/percent_encode.rs`
  (the code after the repairs F7 `.first()`, F8 `%` in the path set, F9 encoded query values,
  F16 trailing slash before an empty last identifier).

  Text is bytes (`Str = List Nat`, every element < 256: the UTF-8 bytes of a Rust `str`).
  Every Rust `[]`, `expect`, `unreachable` that the code contains is an explicit `Res.panic`.

  Not ruma's code, and therefore parameters of the model:
  * the identifier validators (`<&UserId>::try_from`, …, `ServerName::parse`) — a record of
    decision functions `Validators`; property C10 is about them;
  * `url::Url::parse` — a function `UrlParser` returning scheme / path / query text or failure.
  Small executable models of exactly the part used are given for `percent_encoding::percent_encode`
  / `percent_decode`, `str::from_utf8` / `String::from_utf8_lossy` and `form_urlencoded::parse`.
-/
import RumaModel.Model.Json
namespace Ruma.MatrixUri
open Ruma

/-- Outcome of a modelled Rust function: a value, `Err(_)` (error kinds are one class), or a panic. -/
inductive Res (α : Type) where
  | ok (a : α)
  | err
  | panic
  deriving Repr, DecidableEq

/-- Every element is a byte. -/
def Bytes (s : Str) : Prop := ∀ b ∈ s, b < 256

/-! ## `percent_encoding` -/

/-- Upper-case hex digit, as written by `percent_encode` (`%XX`). -/
def hexUpper (n : Nat) : Nat := if n < 10 then 48 + n else 55 + n

/-- `char::to_digit(16)` on one byte. -/
def hexVal (c : Nat) : Option Nat :=
  if 48 ≤ c ∧ c ≤ 57 then some (c - 48)
  else if 65 ≤ c ∧ c ≤ 70 then some (c - 55)
  else if 97 ≤ c ∧ c ≤ 102 then some (c - 87)
  else none

/-- `percent_encode(bytes, set)`: non-ASCII bytes and the ASCII bytes in `set` become `%XX`. -/
def percentEncode (set : Nat → Bool) : Str → Str
  | [] => []
  | b :: t =>
    if 128 ≤ b || set b then 37 :: hexUpper (b / 16) :: hexUpper (b % 16) :: percentEncode set t
    else b :: percentEncode set t

/-- `after_percent_sign`: the byte denoted by the two hex digits (either case) that follow a `%`,
if there are two. -/
def escapeAt : Str → Option Nat
  | h :: l :: _ =>
    match hexVal h, hexVal l with
    | some x, some y => some (16 * x + y)
    | _, _ => none
  | _ => none

/-- `percent_decode`, with `skip` = number of bytes already consumed as hex digits of an escape:
`%` followed by two hex digits is one byte; any other `%` stays. -/
def decodeFrom : Nat → Str → Str
  | _, [] => []
  | skip + 1, _ :: t => decodeFrom skip t
  | 0, b :: t =>
    if b = 37 then
      match escapeAt t with
      | some v => v :: decodeFrom 2 t
      | none => 37 :: decodeFrom 0 t
    else b :: decodeFrom 0 t

def percentDecode (s : Str) : Str := decodeFrom 0 s

/-- `percent_encoding::CONTROLS`: C0 controls and DEL. -/
def controls (b : Nat) : Bool := b < 32 || b == 127

/-- `PATH_PERCENT_ENCODE_SET` before the repair F8 (no `%`); kept to state why it failed. -/
def pathSetOld (b : Nat) : Bool :=
  controls b || b == 32 || b == 34 || b == 35 || b == 60 || b == 62 || b == 63 || b == 96
    || b == 123 || b == 125 || b == 47

/-- `PATH_PERCENT_ENCODE_SET`: controls, space `%` `"` `#` `<` `>` `?` `` ` `` `{` `}` `/`. -/
def pathSet (b : Nat) : Bool := pathSetOld b || b == 37

/-- `QUERY_VALUE_PERCENT_ENCODE_SET`: the path set plus `&` `+` `=`. -/
def queryValueSet (b : Nat) : Bool := pathSet b || b == 38 || b == 43 || b == 61

/-! ## UTF-8 (`str::from_utf8`, `String::from_utf8_lossy`) -/

def isCont (b : Nat) : Bool := 128 ≤ b && b ≤ 191

/-- Allowed second byte of a three-byte sequence (no overlong forms, no surrogates). -/
def second3 (b0 b1 : Nat) : Bool :=
  (b0 == 224 && 160 ≤ b1 && b1 ≤ 191) || (225 ≤ b0 && b0 ≤ 236 && isCont b1)
    || (b0 == 237 && 128 ≤ b1 && b1 ≤ 159) || (238 ≤ b0 && b0 ≤ 239 && isCont b1)

/-- Allowed second byte of a four-byte sequence (no overlong forms, at most U+10FFFF). -/
def second4 (b0 b1 : Nat) : Bool :=
  (b0 == 240 && 144 ≤ b1 && b1 ≤ 191) || (241 ≤ b0 && b0 ≤ 243 && isCont b1)
    || (b0 == 244 && 128 ≤ b1 && b1 ≤ 143)

/-- One step of `core::str::Utf8Chunks`: for lead byte `b0` followed by `t`, whether a valid
sequence starts here, and how many bytes of `t` belong to the chunk (for an invalid chunk: the
bytes that were accepted before the sequence broke — "maximal subpart"). -/
def utf8Step (b0 : Nat) (t : Str) : Bool × Nat :=
  if b0 < 128 then (true, 0)
  else if 194 ≤ b0 ∧ b0 ≤ 223 then
    match t with
    | b1 :: _ => if isCont b1 then (true, 1) else (false, 0)
    | [] => (false, 0)
  else if 224 ≤ b0 ∧ b0 ≤ 239 then
    match t with
    | b1 :: t1 =>
      if second3 b0 b1 then
        match t1 with
        | b2 :: _ => if isCont b2 then (true, 2) else (false, 1)
        | [] => (false, 1)
      else (false, 0)
    | [] => (false, 0)
  else if 240 ≤ b0 ∧ b0 ≤ 244 then
    match t with
    | b1 :: t1 =>
      if second4 b0 b1 then
        match t1 with
        | b2 :: t2 =>
          if isCont b2 then
            match t2 with
            | b3 :: _ => if isCont b3 then (true, 3) else (false, 2)
            | [] => (false, 2)
          else (false, 1)
        | [] => (false, 1)
      else (false, 0)
    | [] => (false, 0)
  else (false, 0)

/-- `str::from_utf8(s).is_ok()`; `skip` = bytes still belonging to the current chunk. -/
def validFrom : Nat → Str → Bool
  | _, [] => true
  | skip + 1, _ :: t => validFrom skip t
  | 0, b :: t => (utf8Step b t).1 && validFrom (utf8Step b t).2 t

def validUtf8 (s : Str) : Bool := validFrom 0 s

/-- U+FFFD in UTF-8. -/
def replacement : Str := [239, 191, 189]

/-- `String::from_utf8_lossy`: every invalid chunk becomes one U+FFFD. -/
def lossyFrom : Nat → Str → Str
  | _, [] => []
  | skip + 1, _ :: t => lossyFrom skip t
  | 0, b :: t =>
    (if (utf8Step b t).1 then b :: t.take (utf8Step b t).2 else replacement)
      ++ lossyFrom (utf8Step b t).2 t

def utf8Lossy (s : Str) : Str := lossyFrom 0 s

/-- `percent_decode_str(s).decode_utf8()`; `none` is the `Utf8Error`. -/
def decodeUtf8 (s : Str) : Option Str :=
  if validUtf8 (percentDecode s) then some (percentDecode s) else none

/-! ## `str` helpers -/

/-- `s.strip_prefix(c).unwrap_or(s)` for one byte. -/
def stripPrefixByte (c : Nat) : Str → Str
  | [] => []
  | b :: t => if b = c then t else b :: t

/-- `s.strip_suffix(c).unwrap_or(s)` for one byte. -/
def stripSuffixByte (c : Nat) (s : Str) : Str :=
  if s.getLast? = some c then s.dropLast else s

/-- `s.strip_prefix(p)`. -/
def stripPrefix : Str → Str → Option Str
  | [], s => some s
  | _ :: _, [] => none
  | p :: ps, b :: t => if p = b then stripPrefix ps t else none

/-- First piece and remaining pieces of `s.split(c)`. -/
def splitHT (c : Nat) : Str → Str × List Str
  | [] => ([], [])
  | b :: t => if b = c then ([], (splitHT c t).1 :: (splitHT c t).2)
              else (b :: (splitHT c t).1, (splitHT c t).2)

/-- `s.split(c)` collected: never empty. -/
def splitOn (c : Nat) (s : Str) : List Str := (splitHT c s).1 :: (splitHT c s).2

/-- `s.split_once(c)`. -/
def splitOnce (c : Nat) : Str → Option (Str × Str)
  | [] => none
  | b :: t => if b = c then some ([], t) else
      match splitOnce c t with
      | some (a, r) => some (b :: a, r)
      | none => none

/-! ## `form_urlencoded::parse` -/

/-- `decode`: `+` is a space, then percent-decoding, then lossy UTF-8. -/
def formDecode (s : Str) : Str :=
  utf8Lossy (percentDecode (s.map (fun b => if b = 43 then 32 else b)))

/-- One non-empty `&`-separated sequence: split at the first `=`. -/
def formPair (seq : Str) : Str × Str :=
  match splitOnce 61 seq with
  | some (n, v) => (formDecode n, formDecode v)
  | none => (formDecode seq, formDecode [])

/-- `form_urlencoded::parse(q).collect()`: empty sequences are skipped. -/
def formParse (q : Str) : List (Str × Str) :=
  ((splitOn 38 q).filter (fun seq => seq ≠ [])).map formPair

/-! ## Values -/

/-- `MatrixId`. The identifier strings include their sigil. -/
inductive MatrixId where
  | room (id : Str)
  | roomAlias (id : Str)
  | user (id : Str)
  | event (room : Str) (ev : Str)
  deriving Repr, DecidableEq

/-- `UriAction` (`_Custom` holds any other string). -/
inductive Action where
  | join
  | chat
  | custom (s : Str)
  deriving Repr, DecidableEq

/-- `UriAction::from`. -/
def Action.ofStr (s : Str) : Action :=
  if s = bs "join" then .join else if s = bs "chat" then .chat else .custom s

/-- `UriAction::as_str`. -/
def Action.asStr : Action → Str
  | .join => bs "join"
  | .chat => bs "chat"
  | .custom s => s

structure ToUri where
  id : MatrixId
  via : List Str
  deriving Repr, DecidableEq

structure Uri where
  id : MatrixId
  via : List Str
  action : Option Action
  deriving Repr, DecidableEq

/-- The identifier parsers, as decisions on the whole identifier string (sigil included). -/
structure Validators where
  user : Str → Bool
  room : Str → Bool
  alias : Str → Bool
  event : Str → Bool
  server : Str → Bool

/-- `<&RoomOrAliasId>::try_from`: dispatch on the first byte (`room_id_or_alias_id::validate`). -/
def Validators.roomOrAlias (V : Validators) (s : Str) : Bool :=
  match s.head? with
  | some 35 => V.alias s
  | some 33 => V.room s
  | _ => false

/-! ## `MatrixId::parse_with_sigil`, `parse_with_type` -/

def isRoomSigil (o : Option Nat) : Bool := o == some 33 || o == some 35

/-- `MatrixId::parse_with_sigil`. The first byte of a decoded segment is read with `.first()`
(repair F7; the code before indexed `[0]` and panicked on an empty segment). -/
def parseWithSigil (V : Validators) (s0 : Str) : Res MatrixId :=
  let s := stripSuffixByte 47 (stripPrefixByte 47 s0)
  if s = [] then .err
  else if 1 < s.count 47 then .err
  else
    match splitOnce 47 s with
    | some (firstRaw, secondRaw) =>
      match decodeUtf8 firstRaw with
      | none => .err
      | some first =>
        match decodeUtf8 secondRaw with
        | none => .err
        | some second =>
          if isRoomSigil first.head? && second.head? == some 36 then
            if V.roomOrAlias first then
              if V.event second then .ok (.event first second) else .err
            else .err
          else if first.head? == some 36 && isRoomSigil second.head? then
            if V.roomOrAlias second then
              if V.event first then .ok (.event second first) else .err
            else .err
          else .err
    | none =>
      match decodeUtf8 s with
      | none => .err
      | some id =>
        match id.head? with
        | some 64 => if V.user id then .ok (.user id) else .err
        | some 33 => if V.room id then .ok (.room id) else .err
        | some 35 => if V.alias id then .ok (.roomAlias id) else .err
        | some 36 => .err
        | _ => .err

/-- The `type_` table of `parse_with_type`. -/
def sigilOfType (ty : Str) : Option Nat :=
  if ty = bs "u" || ty = bs "user" then some 64
  else if ty = bs "r" || ty = bs "room" then some 35
  else if ty = bs "e" || ty = bs "event" then some 36
  else if ty = bs "roomid" then some 33
  else none

/-- The `while let (Some(type_), Some(id_without_sigil))` loop building `"{id}/{sigil}{rest}"`. -/
def typeLoop : List Str → Str → Option Str
  | ty :: idw :: rest, id =>
    match sigilOfType ty with
    | none => none
    | some sg => typeLoop rest (id ++ 47 :: sg :: idw)
  | _, id => some id

/-- The trailing-slash rule of `parse_with_type`: one trailing `/` is dropped, unless dropping it
leaves a number of separators other than 1 or 3 — then it is the separator in front of an empty
last identifier (`roomid/`, `roomid/x/e/`) and stays (repair F16). -/
def stripTypeSuffix (s : Str) : Str :=
  if s.getLast? = some 47 ∧ (s.dropLast.count 47 = 1 ∨ s.dropLast.count 47 = 3) then s.dropLast
  else s

/-- `MatrixId::parse_with_type`. -/
def parseWithType (V : Validators) (s0 : Str) : Res MatrixId :=
  let s := stripTypeSuffix (stripPrefixByte 47 s0)
  if s = [] then .err
  else if s.count 47 ≠ 1 ∧ s.count 47 ≠ 3 then .err
  else
    match typeLoop (splitOn 47 s) [] with
    | none => .err
    | some id => parseWithSigil V id

/-! ## `to_string_with_sigil`, `to_string_with_type` -/

def encPath (s : Str) : Str := percentEncode pathSet s
def encQuery (s : Str) : Str := percentEncode queryValueSet s

def toStringWithSigil : MatrixId → Str
  | .room id => encPath id
  | .roomAlias id => encPath id
  | .user id => encPath id
  | .event r e => encPath r ++ 47 :: encPath e

/-- `to_string_with_type`. `&id.as_bytes()[1..]` panics on an empty identifier;
`RoomOrAliasId::is_room_id` is `unreachable_unchecked` unless the first byte is `!` or `#`
(modelled as a panic). -/
def toStringWithType : MatrixId → Res Str
  | .room [] => .panic
  | .room (_ :: t) => .ok (bs "roomid/" ++ encPath t)
  | .roomAlias [] => .panic
  | .roomAlias (_ :: t) => .ok (bs "r/" ++ encPath t)
  | .user [] => .panic
  | .user (_ :: t) => .ok (bs "u/" ++ encPath t)
  | .event [] _ => .panic
  | .event (_ :: _) [] => .panic
  | .event (s :: rt) (_ :: et) =>
    if s = 33 then .ok (bs "roomid/" ++ encPath rt ++ bs "/e/" ++ encPath et)
    else if s = 35 then .ok (bs "r/" ++ encPath rt ++ bs "/e/" ++ encPath et)
    else .panic

/-! ## `MatrixToUri` -/

def matrixToBase : Str := bs "https://matrix.to/#/"

/-- The `for server_name in &self.via` loop of both `Display` impls with its `first` flag:
returns the text written and the flag afterwards. -/
def fmtVias : Bool → List Str → Str × Bool
  | first, [] => ([], first)
  | first, v :: vs =>
    ((if first then bs "?via=" else bs "&via=") ++ encQuery v ++ (fmtVias false vs).1,
      (fmtVias false vs).2)

/-- `Display for MatrixToUri`. -/
def formatTo (u : ToUri) : Str :=
  matrixToBase ++ toStringWithSigil u.id ++ (fmtVias true u.via).1

/-- The closure over the query pairs of `MatrixToUri::parse`, collected into a `Result<Vec>`. -/
def viaOfPairs (V : Validators) : List (Str × Str) → Option (List Str)
  | [] => some []
  | (k, v) :: t =>
    if k = bs "via" then
      if V.server v then
        match viaOfPairs V t with
        | some vs => some (v :: vs)
        | none => none
      else none
    else none

/-- `MatrixToUri::parse`. -/
def parseTo (V : Validators) (s : Str) : Res ToUri :=
  match stripPrefix matrixToBase s with
  | none => .err
  | some s1 =>
    match splitOn 63 (stripSuffixByte 47 s1) with
    | [] => .panic
    | idsPart :: rest =>
      match parseWithSigil V idsPart with
      | .err => .err
      | .panic => .panic
      | .ok id =>
        let via : Option (List Str) :=
          match rest with
          | [] => some []
          | query :: _ => viaOfPairs V (formParse query)
        match via with
        | none => .err
        | some via =>
          match rest with
          | _ :: _ :: _ => .err
          | _ => .ok ⟨id, via⟩

/-! ## `MatrixUri` -/

/-- What `MatrixUri::parse` reads from a parsed `url::Url`. -/
structure UrlParts where
  scheme : Str
  path : Str
  query : Option Str
  deriving Repr, DecidableEq

/-- The text of an optional query: nothing, or `?` and the query. -/
def queryText : Option Str → Str
  | none => []
  | some q => 63 :: q

/-- `Url::parse`: `none` is a parse error. -/
abbrev UrlParser := Str → Option UrlParts

/-- `Display for MatrixUri`; the panic outcome is `to_string_with_type`'s. -/
def formatUri (u : Uri) : Res Str :=
  match toStringWithType u.id with
  | .panic => .panic
  | .err => .err
  | .ok p =>
    let vq := fmtVias true u.via
    .ok (bs "matrix:" ++ p ++ vq.1 ++
      (match u.action with
       | none => []
       | some a => (if vq.2 then bs "?action=" else bs "&action=") ++ encQuery a.asStr))

/-- The `for (key, value) in url.query_pairs()` loop. -/
def queryLoop (V : Validators) : List (Str × Str) → List Str → Option Action →
    Option (List Str × Option Action)
  | [], via, action => some (via, action)
  | (k, v) :: t, via, action =>
    if k = bs "via" then
      if V.server v then queryLoop V t (via ++ [v]) action else none
    else if k = bs "action" then
      match action with
      | some _ => none
      | none => queryLoop V t via (some (Action.ofStr v))
    else none

/-- `MatrixUri::parse`. -/
def parseUri (U : UrlParser) (V : Validators) (s : Str) : Res Uri :=
  match U s with
  | none => .err
  | some url =>
    if url.scheme ≠ bs "matrix" then .err
    else
      match parseWithType V url.path with
      | .err => .err
      | .panic => .panic
      | .ok id =>
        let pairs := match url.query with
          | none => formParse []
          | some q => formParse q
        match queryLoop V pairs [] none with
        | none => .err
        | some (via, action) => .ok ⟨id, via, action⟩

/-! ## Reference `Url::parse` on the part of its domain that formatted URIs use -/

/-- Bytes that `Url::parse` copies unchanged into an opaque path and into a query of a
non-special scheme: printable ASCII except space `"` `#` `<` `>` `?`. -/
def urlSafe (c : Nat) : Bool :=
  33 ≤ c && c ≤ 126 && c != 34 && c != 35 && c != 60 && c != 62 && c != 63

/-- `Url::parse` restricted to texts `matrix:<p>[?<q>][#<f>]` whose bytes after the scheme are
printable ASCII other than space `"` `<` `>` and whose path does not start with `/`:
the path runs to the first `?` or `#`, the query from `?` to `#`. Outside that class: `none`
(which the driver never uses: there the real parser's answer is taken from the request). -/
def urlParseRef (s : Str) : Option UrlParts :=
  match stripPrefix (bs "matrix:") s with
  | none => none
  | some rest =>
    if rest.all (fun c => 33 ≤ c && c ≤ 126 && c != 34 && c != 60 && c != 62)
        && rest.head? != some 47 then
      let noFrag := (splitHT 35 rest).1
      match splitOnce 63 noFrag with
      | some (p, q) => some ⟨bs "matrix", p, some q⟩
      | none => some ⟨bs "matrix", noFrag, none⟩
    else none

end Ruma.MatrixUri
