/-
  Model of the `Content-Disposition` parser and its helpers
  (crates/ruma-common/src/http_headers.rs, http_headers/content_disposition.rs,
  http_headers/rfc8187.rs) and of the ring-compat DER fix-up
  (crates/ruma-signatures/src/keys/compat.rs).

  Cursor style: the Rust code walks `bytes` with a `pos: &mut usize`; here every function takes the
  remaining suffix `bytes[pos..]` and returns the new suffix, so "`pos` advanced" is "the suffix got
  shorter" and `*pos = bytes.len()` is "the suffix is `[]`". Every `bytes[*pos]` in the Rust is
  preceded by a `*pos == bytes.len()` test; the model has the same tests as matches on `[]`.
  In this style an index out of range cannot be written down, so this file proves termination and the
  functional statements only. The index sites themselves (four `bytes[*pos]`, three `&bytes[a..b]`)
  are explicit panic outcomes in `Model/ScanCd.lean`, which keeps the `pos` cursor; that model is
  proven never to panic and to be equal to this one (`Lemmas/ScanCdEquiv.lean`).
  External: `String::from_utf8_lossy` / `percent_decode(..).decode_utf8_lossy()` (std,
  percent-encoding) are modelled executably by `utf8Lossy`/`percentDecode` and tied by T2 only.
-/
import RumaModel.Model.Json
namespace Ruma.HttpHeaders

/-- `u8::is_ascii_whitespace`: space, \t, \n, \x0C, \r. -/
def isWs (b : Nat) : Bool := b = 32 || b = 9 || b = 10 || b = 12 || b = 13

def isAlnum (b : Nat) : Bool :=
  (48 ≤ b && b ≤ 57) || (65 ≤ b && b ≤ 90) || (97 ≤ b && b ≤ 122)

/-- `is_tchar`. -/
def isTchar (b : Nat) : Bool :=
  isAlnum b || [33, 35, 36, 37, 38, 39, 42, 43, 45, 46, 94, 95, 96, 124, 126].contains b

def lower (b : Nat) : Nat := if 65 ≤ b && b ≤ 90 then b + 32 else b

def eqIgnoreCase (a b : List Nat) : Bool := a.map lower == b.map lower

/-- `skip_ascii_whitespaces`. -/
def skipWs : List Nat → List Nat
  | [] => []
  | b :: t => if isWs b then skipWs t else b :: t

/-- Longest prefix satisfying `p`, and the rest (`while let Some(byte) = bytes.get(*pos)` scans). -/
def spanP (p : Nat → Bool) : List Nat → List Nat × List Nat
  | [] => ([], [])
  | b :: t => if p b then let r := spanP p t; (b :: r.1, r.2) else ([], b :: t)

/-- `parse_param_name`: the name (if any) and the remaining input. -/
def parseParamName (s : List Nat) : Option (List Nat) × List Nat :=
  match skipWs s with
  | [] => (none, [])
  | s1 =>
    let r := spanP isTchar s1
    match r.2 with
    | [] => (none, [])
    | b :: t =>
      if b = 59 then (none, t)
      else if r.1.isEmpty then (none, [])
      else (some r.1, b :: t)

/-- The value scan of `parse_param_value`: returns the value bytes and the rest, which starts at the
terminator (not consumed). `esc` is `escape_next`. -/
def scanValue (quoted : Bool) : Bool → List Nat → List Nat × List Nat
  | _, [] => ([], [])
  | esc, b :: t =>
    if !quoted && (isWs b || b = 59) then ([], b :: t)
    else if quoted && b = 34 && !esc then ([], b :: t)
    else
      let r := scanValue quoted (b = 92 && !esc) t
      (b :: r.1, r.2)

/-- "Skip the end double quote": `if is_quoted_string && *pos != bytes.len() { *pos += 1 }` — one byte
is dropped only when the value was quoted and the input has not ended. -/
def dropQuote (quoted : Bool) (r : List Nat) : List Nat :=
  match quoted, r with
  | true, _ :: t => t
  | _, r => r

/-- The tail of `parse_param_value` after the value was scanned: skip whitespace, then expect the
end of input or a `;` (consumed); anything else abandons the rest of the header. -/
def finishValue (v : List Nat) (quoted : Bool) (r : List Nat) : Option (List Nat × Bool) × List Nat :=
  match skipWs r with
  | [] => (some (v, quoted), [])
  | c :: t' => if c = 59 then (some (v, quoted), t') else (none, [])

/-- `parse_param_value`: `(value, is_quoted_string)` if any, and the remaining input. -/
def parseParamValue (s : List Nat) : Option (List Nat × Bool) × List Nat :=
  match skipWs s with
  | [] => (none, [])
  | b :: t =>
    let quoted : Bool := decide (b = 34)
    let r := scanValue quoted false (if quoted then t else b :: t)
    finishValue r.1 quoted (dropQuote quoted r.2)

structure RawParam where
  name : List Nat
  value : List Nat
  quoted : Bool
  deriving Repr, DecidableEq

/-- `RawParam::parse_next`. -/
def parseNext (s : List Nat) : Option RawParam × List Nat :=
  match parseParamName s with
  | (none, r) => (none, r)
  | (some name, r) =>
    match skipWs r with
    | [] => (none, [])
    | b :: t =>
      if b ≠ 61 then (none, [])
      else
        match parseParamValue (skipWs t) with
        | (none, r3) => (none, r3)
        | (some (v, q), r3) => (some ⟨name, v, q⟩, r3)

/-! ### UTF-8 lossy decoding (std `String::from_utf8_lossy`, modelled; tied by T2) -/

def isCont (b : Nat) : Bool := 128 ≤ b && b ≤ 191

/-- One step of `Utf8Chunks`: the length of the valid sequence at the head, or the number of bytes
of the maximal invalid prefix to replace by U+FFFD. -/
def utf8Step : List Nat → Bool × Nat
  | [] => (true, 0)
  | b0 :: t =>
    if b0 < 128 then (true, 1)
    else if 194 ≤ b0 && b0 ≤ 223 then
      match t with
      | b1 :: _ => if isCont b1 then (true, 2) else (false, 1)
      | [] => (false, 1)
    else if 224 ≤ b0 && b0 ≤ 239 then
      match t with
      | b1 :: t1 =>
        let ok1 := if b0 = 224 then 160 ≤ b1 && b1 ≤ 191
                   else if b0 = 237 then 128 ≤ b1 && b1 ≤ 159
                   else isCont b1
        if !ok1 then (false, 1)
        else match t1 with
          | b2 :: _ => if isCont b2 then (true, 3) else (false, 2)
          | [] => (false, 2)
      | [] => (false, 1)
    else if 240 ≤ b0 && b0 ≤ 244 then
      match t with
      | b1 :: t1 =>
        let ok1 := if b0 = 240 then 144 ≤ b1 && b1 ≤ 191
                   else if b0 = 244 then 128 ≤ b1 && b1 ≤ 143
                   else isCont b1
        if !ok1 then (false, 1)
        else match t1 with
          | b2 :: t2 =>
            if !isCont b2 then (false, 2)
            else match t2 with
              | b3 :: _ => if isCont b3 then (true, 4) else (false, 3)
              | [] => (false, 3)
          | [] => (false, 2)
      | [] => (false, 1)
    else (false, 1)

/-- `String::from_utf8_lossy` on bytes, result as UTF-8 bytes. Fuel = input length suffices because
every step consumes at least one byte. -/
def utf8LossyAux : Nat → List Nat → List Nat
  | 0, _ => []
  | _, [] => []
  | fuel + 1, s =>
    let r := utf8Step s
    let n := if r.2 = 0 then 1 else r.2
    if r.1 then s.take n ++ utf8LossyAux fuel (s.drop n)
    else [239, 191, 189] ++ utf8LossyAux fuel (s.drop n)

def utf8Lossy (s : List Nat) : List Nat := utf8LossyAux s.length s

/-- `unescape_string`: drop each backslash that is not itself escaped. -/
def unescapeAux : Bool → List Nat → List Nat
  | _, [] => []
  | esc, b :: t =>
    let esc' := (b = 92 && !esc)
    if esc' then unescapeAux esc' t else b :: unescapeAux esc' t

def unescape (s : List Nat) : List Nat := unescapeAux false s

def hexVal (b : Nat) : Option Nat :=
  if 48 ≤ b && b ≤ 57 then some (b - 48)
  else if 65 ≤ b && b ≤ 70 then some (b - 55)
  else if 97 ≤ b && b ≤ 102 then some (b - 87)
  else none

/-- `percent_encoding::percent_decode`: `%XY` with two hex digits becomes one byte, everything else
(including a `%` not followed by two hex digits) is copied. -/
def percentDecode : List Nat → List Nat
  | [] => []
  | [a] => [a]
  | [a, b] => [a, b]
  | a :: b :: c :: t =>
    if a = 37 then
      match hexVal b, hexVal c with
      | some x, some y => (16 * x + y) :: percentDecode t
      | _, _ => a :: percentDecode (b :: c :: t)
    else a :: percentDecode (b :: c :: t)

/-- `slice::split(|b| *b == b'\'')`. -/
def splitQuote : List Nat → List (List Nat)
  | [] => [[]]
  | b :: t =>
    match splitQuote t with
    | [] => [[]]            -- unreachable: `splitQuote` never returns `[]`
    | h :: r => if b = 39 then [] :: h :: r else (b :: h) :: r

/-- `rfc8187::decode`: `none` = any of the three errors. -/
def rfc8187Decode (s : List Nat) : Option (List Nat) :=
  if s.isEmpty then none
  else
    match splitQuote s with
    | [charset, _lang, encoded] =>
      if eqIgnoreCase charset (bs "utf-8") then some (utf8Lossy (percentDecode encoded)) else none
    | _ => none

/-- `RawParam::decode_value`. -/
def decodeValue (p : RawParam) : Option (List Nat) :=
  if p.name.getLast? = some 42 then rfc8187Decode p.value
  else
    let s := utf8Lossy p.value
    if p.quoted then some (unescape s) else some s

inductive DispType where
  | inline
  | attachment
  | custom (s : List Nat)
  deriving Repr, DecidableEq

inductive ParseErr where
  | missingType
  | invalidType
  deriving Repr, DecidableEq

/-- `ContentDispositionType::try_from(&[u8])`. -/
def parseType (s : List Nat) : Except ParseErr DispType :=
  if eqIgnoreCase s (bs "inline") then .ok .inline
  else if eqIgnoreCase s (bs "attachment") then .ok .attachment
  else if s.isEmpty then .error .invalidType
  else if s.all isTchar then .ok (.custom s)
  else .error .invalidType

structure ContentDisposition where
  dtype : DispType
  filename : Option (List Nat)
  deriving Repr, DecidableEq

theorem spanP_snd_le (p : Nat → Bool) (s : List Nat) : (spanP p s).2.length ≤ s.length := by
  induction s with
  | nil => simp [spanP]
  | cons b t ih => simp only [spanP]; split <;> simp <;> omega

theorem skipWs_le (s : List Nat) : (skipWs s).length ≤ s.length := by
  induction s with
  | nil => simp [skipWs]
  | cons b t ih => simp only [skipWs]; split <;> simp <;> omega

end Ruma.HttpHeaders

namespace Ruma.HttpHeaders

theorem spanP_length (p : Nat → Bool) (s : List Nat) :
    (spanP p s).1.length + (spanP p s).2.length = s.length := by
  induction s with
  | nil => simp [spanP]
  | cons b t ih => simp only [spanP]; split <;> simp <;> omega

theorem parseParamName_lt (s : List Nat) (h : s ≠ []) :
    (parseParamName s).2.length < s.length := by
  have hs : 0 < s.length := List.length_pos_iff.mpr h
  have hws := skipWs_le s
  unfold parseParamName
  split
  · simpa using hs
  · rename_i s1 hne
    have hlen := spanP_length isTchar (skipWs s)
    have hle := spanP_snd_le isTchar (skipWs s)
    simp only
    split
    · simpa using hs
    · rename_i b t hr
      rw [hr] at hlen hle
      simp only [List.length_cons] at hlen hle
      split
      · simp only; omega
      · split
        · simpa using hs
        · rename_i hne'
          simp only [List.length_cons]
          have : (spanP isTchar (skipWs s)).1.length ≠ 0 := by
            intro h0
            apply hne'
            simp [List.isEmpty_iff, List.length_eq_zero_iff.mp h0]
          omega

theorem scanValue_le (q : Bool) (esc : Bool) (s : List Nat) :
    (scanValue q esc s).2.length ≤ s.length := by
  induction s generalizing esc with
  | nil => simp [scanValue]
  | cons b t ih =>
    simp only [scanValue]
    split
    · simp
    · split
      · simp
      · simp only [List.length_cons]
        have := ih (b = 92 && !esc)
        omega

theorem dropQuote_le (q : Bool) (r : List Nat) : (dropQuote q r).length ≤ r.length := by
  unfold dropQuote; split <;> simp

theorem finishValue_le (v : List Nat) (q : Bool) (r : List Nat) :
    (finishValue v q r).2.length ≤ r.length := by
  have h := skipWs_le r
  unfold finishValue
  split
  · simp
  · rename_i c t' hc
    rw [hc] at h
    simp only [List.length_cons] at h
    split <;> simp <;> omega

theorem parseParamValue_le (s : List Nat) : (parseParamValue s).2.length ≤ s.length := by
  have hws := skipWs_le s
  unfold parseParamValue
  split
  · simp
  · rename_i b t hsk
    rw [hsk] at hws
    simp only [List.length_cons] at hws
    simp only
    have h1 := finishValue_le (scanValue (decide (b = 34)) false (if decide (b = 34) = true then t else b :: t)).1
      (decide (b = 34)) (dropQuote (decide (b = 34))
        (scanValue (decide (b = 34)) false (if decide (b = 34) = true then t else b :: t)).2)
    have h2 := dropQuote_le (decide (b = 34))
      (scanValue (decide (b = 34)) false (if decide (b = 34) = true then t else b :: t)).2
    have h3 := scanValue_le (decide (b = 34)) false (if decide (b = 34) = true then t else b :: t)
    have h4 : (if decide (b = 34) = true then t else b :: t).length ≤ t.length + 1 := by
      split <;> simp
    omega

theorem parseNext_lt (s : List Nat) (h : s ≠ []) : (parseNext s).2.length < s.length := by
  have h1 := parseParamName_lt s h
  unfold parseNext
  split
  · rename_i r hr; rw [hr] at h1; exact h1
  · rename_i name r hr
    rw [hr] at h1
    simp only at h1
    have h2 := skipWs_le r
    split
    · simp; omega
    · rename_i b t hb
      rw [hb] at h2
      simp only [List.length_cons] at h2
      split
      · simp; omega
      · have h3 := skipWs_le t
        have h4 := parseParamValue_le (skipWs t)
        split
        · rename_i r3 hr3; rw [hr3] at h4; simp only at h4 ⊢; omega
        · rename_i v q r3 hr3; rw [hr3] at h4; simp only at h4 ⊢; omega

/-- The parameter loop of `TryFrom<&[u8]> for ContentDisposition`
(`while pos != value.len() { … }`), returning `(filename_ext, filename)`.
Its termination proof is `parseNext_lt`: every iteration shortens the remaining input. -/
def paramsLoop (s : List Nat) (fn : Option (List Nat)) : Option (List Nat) × Option (List Nat) :=
  if h : s = [] then (none, fn)
  else
    have _hlt : (parseNext s).2.length < s.length := parseNext_lt s h
    match (parseNext s).1 with
    | none => paramsLoop (parseNext s).2 fn
    | some p =>
      if eqIgnoreCase p.name (bs "filename*") then
        match decodeValue p with
        | some v => (some v, fn)          -- `break`
        | none => paramsLoop (parseNext s).2 fn
      else if eqIgnoreCase p.name (bs "filename") then
        match decodeValue p with
        | some v => paramsLoop (parseNext s).2 (some v)
        | none => paramsLoop (parseNext s).2 fn
      else paramsLoop (parseNext s).2 fn
termination_by s.length

/-- `ContentDisposition::try_from(&[u8])`. -/
def parse (s : List Nat) : Except ParseErr ContentDisposition :=
  match skipWs s with
  | [] => .error .missingType
  | s1 =>
    let r := spanP (fun b => !(isWs b || b = 59)) s1
    match parseType r.1 with
    | .error e => .error e
    | .ok ty =>
      let fns := paramsLoop r.2 none
      .ok ⟨ty, match fns.1 with | some v => some v | none => fns.2⟩

end Ruma.HttpHeaders
