/-
  Model of `ruma_state_res::lexicographical_topological_sort` (lib.rs 274-381).

  `graph : &HashMap<Id, HashSet<Id>>` is a list of `(node, edges)` pairs **in arbitrary order**,
  each edge set again a list in arbitrary order (the order a `HashMap`/`HashSet` happens to
  iterate). `BinaryHeap<Reverse<TieBreaker>>` is a list with `popMin` under `TieBreaker::cmp`.
  `outdegree_map` is the cloned graph; `reverse_graph.get(node)` is `parentsOf`.
  Both `expect`s are explicit `panic` outcomes; the loop runs on fuel = number of nodes and running
  out of it is the explicit outcome `fuel` (`Lemmas/StateResTopo` shows neither is reachable).
-/
import RumaModel.Model.Json
namespace Ruma.StateRes

abbrev Id := Str

/-- What can go wrong: `err` = a Rust `Err(_)` returned to the caller; `panic` = an `expect`/
`unwrap` fired; `fuel` = the model's loop bound was too small (never, see lemmas). -/
inductive Fail where
  | err | panic | fuel
  deriving DecidableEq, Repr

/-- `struct TieBreaker { power_level, origin_server_ts, event_id }`. -/
structure TB where
  pl : Int
  ts : Int
  id : Id
  deriving DecidableEq, Repr

/-- `TieBreaker::cmp(a, b) == Less`:
`other.power_level.cmp(self.power_level).then(self.ts.cmp(other.ts)).then(self.id.cmp(other.id))`. -/
def TB.lt (a b : TB) : Bool :=
  if a.pl ≠ b.pl then decide (b.pl < a.pl)
  else if a.ts ≠ b.ts then decide (a.ts < b.ts)
  else decide (a.id < b.id)

/-- `BinaryHeap<Reverse<T>>::pop` on the heap seen as a list: the least element under `lt` and the
remaining elements. -/
def popMin (lt : α → α → Bool) : List α → Option (α × List α)
  | [] => none
  | x :: xs =>
    match popMin lt xs with
    | none => some (x, [])
    | some (m, rest) => if lt m x then some (m, x :: rest) else some (x, xs)

/-- `HashMap<Id, HashSet<Id>>` in iteration order. -/
abbrev Graph := List (Id × List Id)

def Graph.nodes (g : Graph) : List Id := g.map (·.1)

/-- `HashMap::get`. -/
def Graph.edges? (g : Graph) (n : Id) : Option (List Id) :=
  match g with
  | [] => none
  | (q, es) :: t => if q = n then some es else Graph.edges? t n

/-- `reverse_graph.get(n)`: the nodes that have `n` among their edges, as iterated. `none` when
`reverse_graph` has no entry for `n` (it has one for every node and every edge target). -/
def parentsOf (g : Graph) (n : Id) : Option (List Id) :=
  if g.any (fun p => p.1 = n || p.2.contains n) then
    some ((g.filter (fun p => p.2.contains n)).map (·.1))
  else none

/-- `outdegree_map.get_mut(p)` then `out.remove(n)`; reports `out.is_empty()`. `none` = no entry. -/
def removeEdge : Graph → Id → Id → Option (Graph × Bool)
  | [], _, _ => none
  | (q, es) :: t, p, n =>
    if q = p then
      let es' := es.filter (· ≠ n)
      some ((q, es') :: t, es'.isEmpty)
    else
      match removeEdge t p n with
      | none => none
      | some (t', b) => some ((q, es) :: t', b)

/-- `key_fn(id)?` wrapped into a `TieBreaker`. -/
def keyTB (key : Id → Option (Int × Int)) (n : Id) : Except Fail TB :=
  match key n with
  | some (pl, ts) => .ok ⟨pl, ts, n⟩
  | none => .error .err

/-- First loop: every node without edges goes on `zero_outdegree`. -/
def initHeap (key : Id → Option (Int × Int)) : Graph → Except Fail (List TB)
  | [] => .ok []
  | (n, es) :: t =>
    if es.isEmpty then
      match keyTB key n with
      | .error e => .error e
      | .ok k =>
        match initHeap key t with
        | .error e => .error e
        | .ok h => .ok (k :: h)
    else initHeap key t

/-- `for &parent in reverse_graph.get(node)`: drop `n` from the parent's out-set; push the parent
when it became empty. -/
def relax (key : Id → Option (Int × Int)) (n : Id) :
    List Id → Graph → List TB → Except Fail (Graph × List TB)
  | [], od, h => .ok (od, h)
  | p :: ps, od, h =>
    match removeEdge od p n with
    | none => .error .panic   -- "outdegree_map knows of all referenced EventIds"
    | some (od', nowEmpty) =>
      if nowEmpty then
        match keyTB key p with
        | .error e => .error e
        | .ok k => relax key n ps od' (k :: h)
      else relax key n ps od' h

/-- `while let Some(Reverse(item)) = heap.pop()`. `acc` is `sorted` reversed. -/
def kahnLoop (psh : Id → List Id → List Id) (key : Id → Option (Int × Int)) (g : Graph) :
    Nat → Graph → List TB → List Id → Except Fail (List Id)
  | fuel, od, h, acc =>
    match popMin TB.lt h with
    | none => .ok acc.reverse
    | some (m, h') =>
      match fuel with
      | 0 => .error .fuel
      | fuel + 1 =>
        match parentsOf g m.id with
        | none => .error .panic   -- "EventId in heap is also in reverse_graph"
        | some ps =>
          match relax key m.id (psh m.id ps) od h' with
          | .error e => .error e
          | .ok (od', h'') => kahnLoop psh key g fuel od' h'' (m.id :: acc)

/-- `lexicographical_topological_sort(graph, key_fn)`. `psh n` is the iteration order of the hash
set `reverse_graph[n]` (any function that permutes its argument). -/
def lexTopoSort (psh : Id → List Id → List Id) (g : Graph) (key : Id → Option (Int × Int)) :
    Except Fail (List Id) :=
  match initHeap key g with
  | .error e => .error e
  | .ok h => kahnLoop psh key g g.length g h []

end Ruma.StateRes
