/-
  C17 — model of the `class` attribute scan of `CodeData::parse`
  (`crates/ruma-html/src/html/matrix.rs`, feature `matrix`): find the first class `language-…` in the
  `class` attribute of a `<code>` element of an HTML message sent by a remote user.

  Sites: `value_str.as_bytes()[match_start - 1]` (index), `&value_str[language_start..]` (`str`
  slice), `language_end - language_start` (usize subtraction), `attr.value.subtendril(offset, len)`
  (tendril: panics on bounds or on a split inside a character). The `as u32` casts cannot truncate:
  a `StrTendril` is at most `u32::MAX` bytes long.
-/
import RumaModel.Model.ScanCommon
namespace Ruma.ScanLang
open Ruma Ruma.Scan

/-- `CLASS_LANGUAGE_PREFIX` = `"language-"`. -/
def langPrefix : Str := [108, 97, 110, 103, 117, 97, 103, 101, 45]

/-- What the scan contributes to `CodeData::parse`: the language, and whether the whole `class`
attribute is also kept in the remaining attributes. -/
structure LangRes where
  language : Option Str
  keep : Bool
  deriving Repr, DecidableEq

/-- `str_end.find(|c: char| c.is_ascii_whitespace()).map(|pos| language_start + pos)
.unwrap_or(value_str.len())`. -/
def languageEnd (v strEnd : Str) (languageStart : Nat) : Nat :=
  match findP isAsciiWs strEnd with
  | some pos => languageStart + pos
  | none => v.length

/-- `match_start != 0 && !value_str.as_bytes()[match_start - 1].is_ascii_whitespace()` (the `continue`
condition); `none` = the index panicked. -/
def startGuard (v : Str) (matchStart : Nat) : Option Bool :=
  if matchStart ≠ 0 then
    match v[matchStart - 1]? with
    | none => none
    | some b => some (!isAsciiWs b)
  else some false

/-- The `for (match_start, _) in value_str.match_indices("language-")` loop; `none` = the loop ended
without a `break`. -/
def langLoop (v : Str) : List Nat → Out (Option (Str × Bool))
  | [] => .ok none
  | matchStart :: rest =>
    match startGuard v matchStart with
    | none => .panic
    | some true => langLoop v rest
    | some false =>
      let languageStart := matchStart + langPrefix.length
      match strFrom v languageStart with                 -- `&value_str[language_start..]`
      | none => .panic
      | some strEnd =>
        let le := languageEnd v strEnd languageStart
        if le = languageStart then langLoop v rest                   -- `continue`
        else if le < languageStart then .panic                       -- `language_end - language_start`
        else
          match strSlice v languageStart le with                      -- `subtendril`
          | none => .panic
          | some lang => .ok (some (lang, decide (matchStart ≠ 0 ∨ le ≠ v.length)))

/-- The `b"class"` arm of `CodeData::parse` for the attribute value `v`. -/
def scanClass (v : Str) : Out LangRes :=
  match langLoop v (findIter langPrefix v) with
  | .ok (some (lang, keep)) => .ok ⟨some lang, keep⟩
  | .ok none => .ok ⟨none, true⟩                          -- "keep the whole attribute"
  | .err => .err
  | .panic => .panic
  | .hang => .hang

end Ruma.ScanLang
