/-
  C17 — byte-level model of the index arithmetic in `StrExt` of
  `crates/ruma-common/src/push/condition.rs`: `char_len`, `char_at`, `find_prev_char` and the literal
  branch of `matches_word_impl` (`has_wildcards == false`), which run on the `content.body` of every
  event against patterns chosen by push rules.

  Property C12's model (`Model/Glob.lean`) is at code-point level and *argues* that every byte index the
  Rust computes is a char boundary; here the indices are byte indices and that argument is a theorem.

  Sites:
  * `char_len`: `while !self.is_char_boundary(index + len) { len += 1 }` — does not terminate when
    `index ≥ self.len()` (`is_char_boundary` is false for every index beyond the length): fuel
    `len + 1`, exhaustion = `hang`.
  * `char_at`: `&self[index..end]` (`str` slice) and
    `char::from_str(char_str).unwrap_or_else(|_| panic!(..))`: `from_str` fails unless the slice holds
    exactly one character, i.e. (a `&str` being well-formed) exactly one non-continuation byte.
  * `find_prev_char`: `pos -= 1` in `while !self.is_char_boundary(pos)` (underflow), fuel `index + 1`.
  * `matches_word_impl`: `find_prev_char(end).unwrap()`, `&self[start..]`, `&non_word_str[non_word..]`,
    `&word_str[word..]`, and the recursion on the rest of the text (fuel `len + 1`).
  A character is a word character iff it is one ASCII byte in `[A-Za-z0-9_]`, so `is_word_char` is
  evaluated on the bytes of the character (`isWordCh`).
-/
import RumaModel.Model.ScanCommon
namespace Ruma.ScanWordBytes
open Ruma Ruma.Scan

/-- `is_word_char` of the character whose UTF-8 bytes are `cs`. -/
def isWordCh (cs : Str) : Bool :=
  match cs with
  | [b] => isWordByte b
  | _ => false

/-- The `while` loop of `char_len`; `len` is the loop variable. -/
def charLenGo (s : Str) (index : Nat) : Nat → Nat → Out Nat
  | 0, _ => .hang
  | fuel + 1, len =>
    if Ids.isBoundary s (index + len) then .ok len else charLenGo s index fuel (len + 1)

/-- `char_len(index)`. -/
def charLen (s : Str) (index : Nat) : Out Nat := charLenGo s index (s.length + 1) 1

/-- `char_at(index)`: the bytes of the character. -/
def charAt (s : Str) (index : Nat) : Out Str :=
  match charLen s index with
  | .ok n =>
    match strSlice s index (index + n) with              -- `&self[index..end]`
    | none => .panic
    | some cs => if Ids.charCount cs = 1 then .ok cs else .panic   -- `char::from_str(..)` else `panic!`
  | .err => .err
  | .panic => .panic
  | .hang => .hang

/-- The `while` loop of `find_prev_char`; `pos` is the loop variable. -/
def prevGo (s : Str) : Nat → Nat → Out Nat
  | 0, _ => .hang
  | fuel + 1, pos =>
    if Ids.isBoundary s pos then .ok pos
    else if pos = 0 then .panic                          -- `pos -= 1`
    else prevGo s fuel (pos - 1)

/-- `find_prev_char(index)`. -/
def findPrevChar (s : Str) (index : Nat) : Out (Option Str) :=
  if index = 0 then .ok none
  else
    match prevGo s (index + 1) (index - 1) with
    | .ok pos => (charAt s pos).bind (fun c => .ok (some c))
    | .err => .err
    | .panic => .panic
    | .hang => .hang

/-- `word_boundary_start`: `!self.char_at(start).is_word_char() ||
!self.find_prev_char(start).is_some_and(|c| c.is_word_char())`. -/
def wordBoundaryStart (s : Str) (start : Nat) : Out Bool :=
  (charAt s start).bind fun c0 =>
    if !isWordCh c0 then .ok true
    else (findPrevChar s start).bind fun pc =>
      .ok (!(match pc with | some c => isWordCh c | none => false))

/-- `word_boundary_end`: `end == self.len() || !self.find_prev_char(end).unwrap().is_word_char() ||
!self.char_at(end).is_word_char()`. -/
def wordBoundaryEnd (s : Str) (end_ : Nat) : Out Bool :=
  if end_ = s.length then .ok true
  else (findPrevChar s end_).bind fun pc =>
    match pc with
    | none => .panic                                      -- `.unwrap()`
    | some c =>
      if !isWordCh c then .ok true
      else (charAt s end_).bind fun c2 => .ok (!isWordCh c2)

/-- "Find next word": the text from the first word character behind the first non-word character on
(`none` = one of the two `find`s returned `None`). -/
def nextWord (s : Str) (start : Nat) : Out (Option Str) :=
  match strFrom s start with                              -- `&self[start..]`
  | none => .panic
  | some nonWordStr =>
    match findP (fun b => !isWordByte b) nonWordStr with
    | none => .ok none
    | some nonWord =>
      match strFrom nonWordStr nonWord with               -- `&non_word_str[non_word..]`
      | none => .panic
      | some wordStr =>
        match findP isWordByte wordStr with
        | none => .ok none
        | some word =>
          match strFrom wordStr word with                 -- `&word_str[word..]`
          | none => .panic
          | some rest => .ok (some rest)

/-- `matches_word_impl(pattern, false)`: recursion on the rest of the text, fuel = one per call. -/
def matchesWordLit : Nat → Str → Str → Out Bool
  | 0, _, _ => .hang
  | fuel + 1, s, p =>
    if s = p then .ok true
    else if p = [] then .ok false
    else
      match findSub p s with
      | none => .ok false
      | some start =>
        let end_ := start + p.length
        (wordBoundaryStart s start).bind fun wbs =>
          (if wbs then wordBoundaryEnd s end_ else .ok false).bind fun wbe =>
            if wbe then .ok true
            else (nextWord s start).bind fun r =>
              match r with
              | none => .ok false
              | some rest => matchesWordLit fuel rest p

/-- `value.matches_word_impl(pattern, false)` with the fuel the theorems show to suffice. -/
def matchesWord (s p : Str) : Out Bool := matchesWordLit (s.length + 1) s p

end Ruma.ScanWordBytes
