/-
  Model of the type dispatch of ruma's event enums and of `Raw<T>`.

  Code modelled (branch for branch):

  * `event_enum!` → `expand_deserialize_impl` (ruma-macros/src/events/event_enum.rs:160-228): the
    generated `Deserialize` of every `Any*Event` enum reads the `type` field with
    `EventTypeDeHelper`, then runs one `match` whose arms are, per declared event and in
    declaration order, `alias₁ | … | aliasₙ | type` (string literal patterns), or — for a type that
    ends in `.*` — guards `t if t.starts_with(prefix)` with the `*` stripped; the fall-through arm
    builds `_Custom`.  `expand_content_enum` generates the same `match` for
    `Any*EventContent::from_parts`.
  * `EventContent` derive, `generate_event_content_impl` (event_content.rs:810-1010):
    `event_type()` of a statically typed content is the declared type; of a `.*` content it is
    `main prefix ++ fragment` where the fragment is what is left after stripping the first of
    `[aliases…, type]` (each without its `*`) that is a prefix of the event's type.
  * `impl_possibly_redacted_event!` (ruma-events/src/kinds.rs:592-650) with `RedactionDeHelper` /
    `UnsignedDeHelper` (lib.rs:118-146): `unsigned.and_then(|u| u.redacted_because).is_some()`
    chooses `Redacted` over `Original`.
  * `AnyTimelineEvent` / `AnySyncTimelineEvent` (enums.rs:315-347): `EventDeHelper { state_key }`;
    `state_key.is_some()` chooses the state enum, otherwise the message-like enum.
  * `Raw<T>` (ruma-common/src/serde/raw.rs): boxed `RawValue`; `json()` hands the stored text back;
    `get_field` is one pass over the top-level entries in text order, `res = Some(value)` whenever
    the key equals the field name (so the LAST duplicate wins), every other value skipped.

  What serde contributes and is modelled as such: a field of a `#[derive(Deserialize)]` struct read
  from a JSON object is `None` if the key is absent, its value if the key occurs once, and the
  whole struct fails with "duplicate field" if it occurs twice (`field1`); unknown keys are ignored;
  `Option<_>` maps JSON `null` to `None` (`optSome`); a derived struct is also readable from a
  JSON array (positional), which `unsignedHelper` keeps for the one-field helper.

  Not modelled: the per-type field code (serde derives of ≈150 content types) that runs *after* the
  dispatch — whether the selected struct then accepts the event is outside this model.
-/
import RumaModel.Model.Json
namespace Ruma.EventDispatch
open Ruma

/-! ## Match arms -/

/-- One entry of an `event_enum!` block: the Rust variant identifier, the declared type string
(ending in `.*` for types with a fragment) and the `alias = "…"` strings. -/
structure Row where
  variant : Str
  ty : Str
  aliases : List Str
  deriving Repr, DecidableEq

abbrev Table := List Row

/-- `has_type_fragment`: `ev_type.ends_with(".*")`. -/
def Row.hasFragment (r : Row) : Bool := (bs ".*").isSuffixOf r.ty

/-- `strip_suffix('*')`. (On a pattern without a trailing `*` the macro panics at compile time, so
such a table does not exist; here the string is returned unchanged.) -/
def stripStar (s : Str) : Str := if s.getLast? = some 42 then s.dropLast else s

/-- Patterns of the arm in emission order: `event.aliases.iter().chain([&event.ev_type])`. -/
def Row.patterns (r : Row) : List Str := r.aliases ++ [r.ty]

/-- Does the arm of `r` accept type `t`, and if so, what will `event_type()` of the built variant
report? Literal arm: `t` is one of the patterns; reports the declared type. Prefix arm: some
pattern (without `*`) is a prefix of `t`; `from_parts` strips the *first* such pattern and
`event_type()` formats the main prefix followed by the remaining fragment. -/
def Row.select (r : Row) (t : Str) : Option Str :=
  if r.hasFragment then
    (r.patterns.find? (fun p => (stripStar p).isPrefixOf t)).map
      (fun p => stripStar r.ty ++ t.drop (stripStar p).length)
  else if r.patterns.contains t then some r.ty
  else none

/-- The generated `match &*ev_type { arms… }`: first arm that accepts, in declaration order. -/
def selectRow : Table → Str → Option (Row × Str)
  | [], _ => none
  | r :: rest, t =>
    match r.select t with
    | some rt => some (r, rt)
    | none => selectRow rest t

/-! ## serde helpers -/

inductive Err where
  | missingType
  | typeNotString
  | duplicateField
  | badUnsigned
  deriving DecidableEq, Repr

/-- A field of a serde-derived struct read from a JSON object. -/
def field1 (o : Obj) (k : Str) : Except Err (Option JVal) :=
  match o.filter (fun e => e.1 == k) with
  | [] => .ok none
  | [e] => .ok (some e.2)
  | _ :: _ :: _ => .error .duplicateField

def isNull : JVal → Bool
  | .null => true
  | _ => false

/-- `Option<IgnoredAny>` after deserialisation, `.is_some()`: absent or `null` is `None`. -/
def optSome : Option JVal → Bool
  | none => false
  | some v => !isNull v

/-- `EventTypeDeHelper { ev_type: Cow<str> }`. -/
def typeHelper (o : Obj) : Except Err Str :=
  match field1 o (bs "type") with
  | .error e => .error e
  | .ok none => .error .missingType
  | .ok (some (.str s)) => .ok s
  | .ok (some _) => .error .typeNotString

/-- `UnsignedDeHelper { redacted_because: Option<IgnoredAny> }` read from the value of `unsigned`,
then `.redacted_because.is_some()`. Serde-derived structs are readable from an object or,
positionally, from an array whose length is the number of fields (here 1). -/
def unsignedHelper : JVal → Except Err Bool
  | .obj u =>
    match field1 u (bs "redacted_because") with
    | .error e => .error e
    | .ok v => .ok (optSome v)
  | .arr [x] => .ok (!isNull x)
  | _ => .error .badUnsigned

/-- `RedactionDeHelper { unsigned: Option<UnsignedDeHelper> }` then
`unsigned.and_then(|u| u.redacted_because).is_some()`. -/
def redactionHelper (o : Obj) : Except Err Bool :=
  match field1 o (bs "unsigned") with
  | .error e => .error e
  | .ok none => .ok false
  | .ok (some u) => if isNull u then .ok false else unsignedHelper u

/-! ## The enums -/

inductive Kind where
  | globalAccountData | roomAccountData | ephemeralRoom | messageLike | state | toDevice
  deriving DecidableEq, Repr

/-- The deserialisable event enums. -/
inductive Enum where
  | anyGlobalAccountData | anyRoomAccountData
  | anyEphemeralRoom | anySyncEphemeralRoom
  | anyMessageLike | anySyncMessageLike
  | anyState | anySyncState | anyStrippedState | anyInitialState
  | anyToDevice
  | anyTimeline | anySyncTimeline
  deriving DecidableEq, Repr

/-- What a successful dispatch selected: which kind's enum, which variant (`none` = `_Custom`),
`Redacted` or `Original` (always `false` for enums that have no redacted form), and what
`event_type()` reports. -/
structure Sel where
  kind : Kind
  variant : Option Str
  redacted : Bool
  ty : Str
  deriving DecidableEq, Repr

/-- The macro-generated `Deserialize` of one kind's enum. `maybeRedacted` is
`kind.is_timeline() && var ∈ {None, Sync}`: the variant payload is `MessageLikeEvent<C>` /
`StateEvent<C>` …, whose `Deserialize` does the redaction detection. -/
def dispatchKind (tbl : Kind → Table) (k : Kind) (maybeRedacted : Bool) (o : Obj) : Except Err Sel :=
  match typeHelper o with
  | .error e => .error e
  | .ok t =>
    let (variant, rt) := match selectRow (tbl k) t with
      | some (r, rt) => (some r.variant, rt)
      | none => (none, t)
    if maybeRedacted then
      match redactionHelper o with
      | .error e => .error e
      | .ok red => .ok ⟨k, variant, red, rt⟩
    else .ok ⟨k, variant, false, rt⟩

/-- `AnyTimelineEvent` / `AnySyncTimelineEvent`: `state_key.is_some()` decides. -/
def dispatchTimeline (tbl : Kind → Table) (o : Obj) : Except Err Sel :=
  match field1 o (bs "state_key") with
  | .error e => .error e
  | .ok sk =>
    if optSome sk then dispatchKind tbl .state true o else dispatchKind tbl .messageLike true o

/-- How an enum's `Deserialize` is built: macro-generated for one kind (with or without a redacted
form), or the hand-written timeline split. -/
inductive Shape where
  | single (k : Kind) (maybeRedacted : Bool)
  | timeline
  deriving DecidableEq, Repr

def Enum.shape : Enum → Shape
  | .anyGlobalAccountData => .single .globalAccountData false
  | .anyRoomAccountData => .single .roomAccountData false
  | .anyEphemeralRoom => .single .ephemeralRoom false
  | .anySyncEphemeralRoom => .single .ephemeralRoom false
  | .anyMessageLike => .single .messageLike true
  | .anySyncMessageLike => .single .messageLike true
  | .anyState => .single .state true
  | .anySyncState => .single .state true
  | .anyStrippedState => .single .state false
  | .anyInitialState => .single .state false
  | .anyToDevice => .single .toDevice false
  | .anyTimeline => .timeline
  | .anySyncTimeline => .timeline

/-- Has the enum a redacted form? -/
def Enum.maybeRedacted (e : Enum) : Bool :=
  match e.shape with
  | .single _ mr => mr
  | .timeline => true

def Enum.isTimeline (e : Enum) : Bool :=
  match e.shape with
  | .single _ _ => false
  | .timeline => true

def dispatch (tbl : Kind → Table) (e : Enum) (o : Obj) : Except Err Sel :=
  match e.shape with
  | .single k mr => dispatchKind tbl k mr o
  | .timeline => dispatchTimeline tbl o

/-- `Any*EventContent::from_parts(event_type, json)`: the same `match`, no envelope. -/
def contentDispatch (tbl : Kind → Table) (k : Kind) (t : Str) : Option Str × Str :=
  match selectRow (tbl k) t with
  | some (r, rt) => (some r.variant, rt)
  | none => (none, t)

/-! ## `Raw<T>` -/

/-- `Raw::get_field::<U>` for a `U` that accepts every JSON value (`Box<RawValue>`, `Value`): one
pass in text order, `res = Some(v)` at every matching key. `o` is the top-level object's entry list
as it stands in the text (duplicates possible). -/
def getField (o : Obj) (k : Str) : Option JVal :=
  o.foldl (fun res e => if e.1 == k then some e.2 else res) none

mutual
/-- A full `serde_json::Value` parse of the same text: every object becomes a map into which the
entries are inserted in text order (`Map::insert` replaces). -/
def fullParse : JVal → JVal
  | .obj kvs => .obj (fullParseO [] kvs)
  | .arr xs => .arr (fullParseL xs)
  | .null => .null
  | .bool b => .bool b
  | .int i => .int i
  | .float => .float
  | .str s => .str s
def fullParseL : List JVal → List JVal
  | [] => []
  | v :: t => fullParse v :: fullParseL t
/-- `acc` is the map built so far. -/
def fullParseO (acc : Obj) : List (Str × JVal) → Obj
  | [] => acc
  | (k, v) :: t => fullParseO (Obj.insert acc k (fullParse v)) t
end

/-- JSON whitespace: space, `\n`, `\r`, `\t`. -/
def isWs (b : Nat) : Bool := b == 32 || b == 10 || b == 13 || b == 9

/-- The text a `Raw` holds after `Raw::from_json_string(text)` / `serde_json::from_str::<Raw<_>>`
for a `text` that is one JSON value: serde_json's `RawValue` keeps the bytes of the value itself,
i.e. the text without the whitespace around it; nothing inside is touched. `Raw::json().get()`,
`Clone`, `cast`, `into_json` and `Serialize` hand these bytes on unchanged. -/
def rawText (text : Str) : Str :=
  ((text.dropWhile isWs).reverse.dropWhile isWs).reverse

end Ruma.EventDispatch
