/-
  Model of the code the `#[request]` / `#[response]` attribute macros of `ruma-macros` generate
  (`crates/ruma-macros/src/api/request/{outgoing,incoming}.rs`, `response/{outgoing,incoming}.rs`,
  the checks of `request.rs` / `response.rs`) and of the helpers that code calls in `ruma-common`
  (`Metadata::make_endpoint_url`, `authorization_header`, `empty_request_body`), in the order of
  the generated code.

  Two things the generated code does are NOT statements of this model:
    * `serde_html_form::to_string(request_query)?` can fail (a query field whose `Serialize` writes
      something a query string cannot hold); `requestQueryString` is total. A value is given here by
      its wire forms — for a query field the list of strings the serializer wrote —, so a value
      whose query serialisation fails has no wire form and is not a `ReqVal` at all: that error
      path is outside the model, not contradicted by it;
    * a body field with `#[serde(flatten)]` (`ReqKind.flattenBody` / `RespKind.flattenBody`): the
      macro's checks see it (`macroAccepts`), the conversions below do not write or read it.
      Descriptors with such a field are outside the model (`inModel = false`), and every theorem
      about the conversions carries `inModel` as a hypothesis.

  An endpoint is described the way the macro sees it: an ordered list of fields, each with the
  kind the `#[ruma_api(..)]` attribute gives it. What the macro cannot see — the field's Rust type
  and its `Display`/`FromStr`/`Serialize`/`Deserialize` — appears as a `Codec` on the field's
  *wire form* (string for path and header fields, list of values for a query field, list of pairs
  for `query_all`, optional JSON value for a body field, JSON value for a newtype body, bytes for a
  raw body): `norm w` is what the receiving side reads from wire form `w`, written back as a wire
  form (`none`: rejected). A *value* of an endpoint assigns each field the wire form of its
  content, grouped by kind in declaration order (`ReqVal`, `RespVal`).

  Code that is not ruma's is a parameter, never an axiom:
    * `FormCodec`  — `serde_html_form` / `form_urlencoded` on lists of key/value pairs; a reference
                     implementation (`refForm`) is below and proved lawful in `Lemmas/EndpointForm`;
    * `JsonCodec`  — `serde_json::{to_writer, from_slice}`;
    * `HttpLib`    — `http::Uri` parsing of the produced URL;
    * `http::HeaderValue::{from_str, to_str}` are two byte predicates (`headerValueOk`,
      `headerToStrOk`), `http::HeaderMap::{insert, append, get, remove}` are list functions.
  Every `expect` / `assert!` reachable from the generated code (all of them are in
  `make_endpoint_url` / `select_path`) is the outcome `panic`.
-/
import RumaModel.Model.Endpoint
namespace Ruma.Glue
open Ruma Ruma.Endpoint
open Ruma.Spec.Endpoint (Version AuthScheme percentDecode)

/-! ## `application/x-www-form-urlencoded`: reference codec -/

/-- `byte_serialized_unchanged`: `* - . 0-9 A-Z _ a-z`. -/
def formUnchanged (b : Nat) : Bool :=
  b = 42 || b = 45 || b = 46 || (48 ≤ b && b ≤ 57) || (65 ≤ b && b ≤ 90) || b = 95
  || (97 ≤ b && b ≤ 122)

/-- `form_urlencoded::byte_serialize`: unreserved bytes are kept, space becomes `+`, everything
else `%XX` (upper-case hex). -/
def formByteSerialize : Str → Str
  | [] => []
  | b :: t =>
    if formUnchanged b then b :: formByteSerialize t
    else if b = 32 then 43 :: formByteSerialize t
    else 37 :: hexUpper (b / 16) :: hexUpper (b % 16) :: formByteSerialize t

/-- One `name=value`. -/
def formPair (p : Str × Str) : Str := formByteSerialize p.1 ++ 61 :: formByteSerialize p.2

/-- `Serializer::append_pair` for every pair: pairs are joined with `&`. -/
def formSerialize : List (Str × Str) → Str
  | [] => []
  | p :: rest =>
    match rest with
    | [] => formPair p
    | _ :: _ => formPair p ++ 38 :: formSerialize rest

/-- `slice.splitn(2, sep)`: the part before the first separator, and the part after it if there is
one. -/
def splitFirst (sep : Nat) : Str → Str × Option Str
  | [] => ([], none)
  | b :: t =>
    if b = sep then ([], some t)
    else let r := splitFirst sep t; (b :: r.1, r.2)

/-- `replace_plus`. -/
def replacePlus (s : Str) : Str := s.map (fun b => if b = 43 then 32 else b)

/-- `decode` without the final `decode_utf8_lossy`: `+` is a space, then `percent_decode`. -/
def formDecodeBytes (s : Str) : Str := percentDecode (replacePlus s)

/-- One non-empty `&`-separated sequence: name before the first `=`, value after it
(`split2.next().unwrap_or(&[])`: no `=` means an empty value). -/
def formParsePair (seq : Str) : Str × Str :=
  let r := splitFirst 61 seq
  (formDecodeBytes r.1, match r.2 with | some v => formDecodeBytes v | none => [])

/-- `form_urlencoded::parse` on bytes, before UTF-8 decoding: split on `&`, skip empty sequences. -/
def formParseBytes (s : Str) : List (Str × Str) :=
  ((splitOn 38 s).filter (fun seq => seq ≠ [])).map formParsePair

/-! ### `String::from_utf8_lossy` -/

/-- State of the UTF-8 reader: `need` continuation bytes are still expected (0: between
characters), the next one must lie in `lo..=hi`, `held` are the bytes of the character read so
far. -/
structure U8St where
  need : Nat
  lo : Nat
  hi : Nat
  held : Str
  deriving Repr, DecidableEq

def u8Start : U8St := ⟨0, 0, 0, []⟩

/-- U+FFFD. -/
def fffd : Str := [239, 191, 189]

/-- A byte read between characters: what is written at once, and the new state
(`utf8_char_width` and the second-byte ranges of `core::str::lossy`). -/
def utf8Lead (b : Nat) : Str × U8St :=
  if b < 128 then ([b], u8Start)
  else if 0xC2 ≤ b && b ≤ 0xDF then ([], ⟨1, 0x80, 0xBF, [b]⟩)
  else if b = 0xE0 then ([], ⟨2, 0xA0, 0xBF, [b]⟩)
  else if (0xE1 ≤ b && b ≤ 0xEC) || b = 0xEE || b = 0xEF then ([], ⟨2, 0x80, 0xBF, [b]⟩)
  else if b = 0xED then ([], ⟨2, 0x80, 0x9F, [b]⟩)
  else if b = 0xF0 then ([], ⟨3, 0x90, 0xBF, [b]⟩)
  else if 0xF1 ≤ b && b ≤ 0xF3 then ([], ⟨3, 0x80, 0xBF, [b]⟩)
  else if b = 0xF4 then ([], ⟨3, 0x80, 0x8F, [b]⟩)
  else (fffd, u8Start)

/-- `String::from_utf8_lossy`: a maximal invalid prefix of a character becomes one U+FFFD, and the
offending byte is read again as the start of a character. -/
def utf8LossyGo : U8St → Str → Str
  | st, [] => if st.need = 0 then [] else fffd
  | st, b :: t =>
    if st.need = 0 then
      let r := utf8Lead b
      r.1 ++ utf8LossyGo r.2 t
    else if st.lo ≤ b && b ≤ st.hi then
      if st.need = 1 then (st.held ++ [b]) ++ utf8LossyGo u8Start t
      else utf8LossyGo ⟨st.need - 1, 0x80, 0xBF, st.held ++ [b]⟩ t
    else
      let r := utf8Lead b
      fffd ++ r.1 ++ utf8LossyGo r.2 t

def utf8Lossy (s : Str) : Str := utf8LossyGo u8Start s

/-- The same reader as a recogniser: `true` iff the bytes are well-formed UTF-8 (RFC 3629: no
overlong forms, no surrogates, nothing above U+10FFFF, no truncated character). -/
def utf8ValidGo : U8St → Str → Bool
  | st, [] => st.need = 0
  | st, b :: t =>
    if st.need = 0 then
      let r := utf8Lead b
      (b < 128 || r.2.need ≠ 0) && utf8ValidGo r.2 t
    else if st.lo ≤ b && b ≤ st.hi then
      if st.need = 1 then utf8ValidGo u8Start t
      else utf8ValidGo ⟨st.need - 1, 0x80, 0xBF, st.held ++ [b]⟩ t
    else false

/-- The byte strings that are Rust `String`s. -/
def utf8Valid (s : Str) : Bool := utf8ValidGo u8Start s

/-- `form_urlencoded::parse` as `serde_html_form` consumes it: names and values are `Cow<str>`,
decoded lossily. -/
def formParse (s : Str) : List (Str × Str) :=
  (formParseBytes s).map (fun p => (utf8Lossy p.1, utf8Lossy p.2))

/-! ## Parameters: code outside ruma -/

/-- `serde_html_form::to_string` / `from_str` below the level of struct fields: a list of
key/value pairs to the query string and back. `text` are the byte strings that are Rust `String`s. -/
structure FormCodec where
  ser : List (Str × Str) → Str
  parse : Str → List (Str × Str)
  text : Str → Prop

/-- The only facts about the two functions the theorems use. `law`: what was written is read
back. `no_hash`: the produced query contains no `#` (so `http::Uri` does not cut a fragment off). -/
structure FormCodec.Lawful (F : FormCodec) : Prop where
  law : ∀ ps : List (Str × Str), (∀ p ∈ ps, F.text p.1 ∧ F.text p.2) → F.parse (F.ser ps) = ps
  no_hash : ∀ ps : List (Str × Str), 35 ∉ F.ser ps

/-- `serde_json::to_writer` (`none`: the serializer reports an error) and `serde_json::from_slice`
as a struct visitor sees the text: objects as their entries in text order, duplicates included. -/
structure JsonCodec where
  ser : JVal → Option Str
  parse : Str → Option JVal

/-- What was written is read back; nothing is written as zero bytes; `{}` is the empty object. -/
structure JsonCodec.Lawful (J : JsonCodec) : Prop where
  law : ∀ v b, J.ser v = some b → J.parse b = some v
  ser_ne : ∀ v b, J.ser v = some b → b ≠ []
  empty_obj : J.parse (bs "{}") = some (.obj [])

/-- `http::Uri::try_from(String)`, evaluated inside `http::request::Builder`. -/
structure HttpLib where
  uriOk : Str → Bool

/-! ## `http::HeaderMap` and `http::HeaderValue` -/

abbrev Headers := List (Str × Str)

/-- `HeaderMap::insert`: all earlier values of the name are dropped. -/
def hInsert (hs : Headers) (n v : Str) : Headers := hs.filter (fun p => p.1 ≠ n) ++ [(n, v)]

/-- `HeaderMap::append`. -/
def hAppend (hs : Headers) (n v : Str) : Headers := hs ++ [(n, v)]

/-- `HeaderMap::get`: the first value of the name. -/
def hGet : Headers → Str → Option Str
  | [], _ => none
  | (k, v) :: t, n => if k = n then some v else hGet t n

/-- `HeaderMap::remove`: every value of the name is removed (the first one is returned, see
`hGet`). -/
def hRemove (hs : Headers) (n : Str) : Headers := hs.filter (fun p => p.1 ≠ n)

/-- `HeaderValue::to_str`: succeeds iff every byte is visible ASCII, space or tab. -/
def headerToStrOk (s : Str) : Bool := s.all (fun b => (decide (32 ≤ b) && decide (b < 127)) || b == 9)

def contentType : Str := bs "content-type"
def applicationJson : Str := bs "application/json"
def authorization : Str := bs "authorization"
def mGET : Str := bs "GET"
def mHEAD : Str := bs "HEAD"

/-! ## Endpoint descriptors -/

/-- What the receiving side makes of a field's wire form: `none` = rejected, `some w'` = the wire
form of the value it read (the field type's `Deserialize`/`FromStr` followed by its
`Serialize`/`Display`). -/
structure Codec (W : Type) where
  norm : W → Option W

/-- A wire form is the wire form *of a value* when reading it changes nothing. -/
def Codec.Canon (c : Codec W) (w : W) : Prop := c.norm w = some w

/-- `RequestFieldKind` (`request.rs`), each with the codec of the field's type. -/
inductive ReqKind where
  /-- no attribute: a member of the JSON body object; wire form `none` = not written
  (`skip_serializing_if`), for the reader = key absent -/
  | body (c : Codec (Option JVal))
  /-- `#[ruma_api(header = NAME)]`; `optional` = the field's type is `Option<_>` -/
  | header (name : Str) (optional : Bool) (c : Codec Str)
  /-- `#[ruma_api(body)]`: the body is this field's JSON -/
  | newtypeBody (c : Codec JVal)
  /-- `#[ruma_api(raw_body)]` -/
  | rawBody
  /-- `#[ruma_api(path)]` -/
  | path (c : Codec Str)
  /-- `#[ruma_api(query)]`: the values written under the field's key (none when skipped, several
  for a sequence) -/
  | query (c : Codec (List Str))
  /-- `#[ruma_api(query_all)]`: the whole query string is this field -/
  | queryAll (c : Codec (List (Str × Str)))
  /-- no `ruma_api` attribute and `#[serde(flatten)]`: the members of the field's own JSON object
  stand directly in the body object. For the macro it is a `Body` field; the conversions of this
  model do not handle it (`ReqDesc.inModel`). -/
  | flattenBody

structure ReqField where
  /-- the serde name: JSON key, query key, path placeholder -/
  name : Str
  kind : ReqKind

structure HeaderField where
  header : Str
  optional : Bool
  codec : Codec Str

/-- The input of `#[request]` together with the `METADATA` constant next to it. -/
structure ReqDesc where
  method : Str
  auth : AuthScheme
  history : VersionHistory
  fields : List ReqField

/-! ### The views the macro takes of the field list -/

/-- `path_fields()` -/
def ReqField.asPath (f : ReqField) : Option (Codec Str) :=
  match f.kind with | .path c => some c | _ => none
/-- `as_query_field` -/
def ReqField.asQuery (f : ReqField) : Option (Str × Codec (List Str)) :=
  match f.kind with | .query c => some (f.name, c) | _ => none
/-- `as_query_all_field` -/
def ReqField.asQueryAll (f : ReqField) : Option (Codec (List (Str × Str))) :=
  match f.kind with | .queryAll c => some c | _ => none
/-- `as_header_field` -/
def ReqField.asHeader (f : ReqField) : Option HeaderField :=
  match f.kind with | .header n o c => some ⟨n, o, c⟩ | _ => none
/-- the `Body` kind alone -/
def ReqField.asBody (f : ReqField) : Option (Str × Codec (Option JVal)) :=
  match f.kind with | .body c => some (f.name, c) | _ => none
def ReqField.asNewtype (f : ReqField) : Option (Codec JVal) :=
  match f.kind with | .newtypeBody c => some c | _ => none
def ReqField.isRaw (f : ReqField) : Bool :=
  match f.kind with | .rawBody => true | _ => false
def ReqField.isFlatten (f : ReqField) : Bool :=
  match f.kind with | .flattenBody => true | _ => false

def ReqDesc.pathFields (d : ReqDesc) := d.fields.filterMap ReqField.asPath
def ReqDesc.queryFields (d : ReqDesc) := d.fields.filterMap ReqField.asQuery
def ReqDesc.queryAllFields (d : ReqDesc) := d.fields.filterMap ReqField.asQueryAll
def ReqDesc.headerFields (d : ReqDesc) := d.fields.filterMap ReqField.asHeader
def ReqDesc.bodyFields (d : ReqDesc) := d.fields.filterMap ReqField.asBody
def ReqDesc.newtypeFields (d : ReqDesc) := d.fields.filterMap ReqField.asNewtype
def ReqDesc.rawFields (d : ReqDesc) := d.fields.filter ReqField.isRaw
def ReqDesc.flattenFields (d : ReqDesc) := d.fields.filter ReqField.isFlatten

/-- `has_body_fields()`: any `Body` or `NewtypeBody` field. -/
def ReqDesc.hasBodyFields (d : ReqDesc) : Bool := !d.bodyFields.isEmpty || !d.newtypeFields.isEmpty
/-- `has_newtype_body()` -/
def ReqDesc.hasNewtypeBody (d : ReqDesc) : Bool := !d.newtypeFields.isEmpty
/-- `raw_body_field().is_some()` -/
def ReqDesc.hasRawBody (d : ReqDesc) : Bool := !d.rawFields.isEmpty
def ReqDesc.hasQueryFields (d : ReqDesc) : Bool := !d.queryFields.isEmpty
def ReqDesc.hasQueryAll (d : ReqDesc) : Bool := !d.queryAllFields.isEmpty
def ReqDesc.hasPathFields (d : ReqDesc) : Bool := !d.pathFields.isEmpty

/-- Some body field carries `#[serde(flatten)]`. -/
def ReqDesc.hasFlatten (d : ReqDesc) : Bool := !d.flattenFields.isEmpty

/-- The conversions below are a model of the generated code for this description: no flattened
body field. (A description with one is accepted by the macro — see `macroAccepts` — but written
and read by serde's buffered flatten visitor, which is not modelled.) -/
def ReqDesc.inModel (d : ReqDesc) : Bool := !d.hasFlatten

/-- The two places where `Request::check` looks at flattened body fields (they are `Body` fields
for it): they count for "both a newtype body field and regular body fields", and a *single* body
field that is flattened is refused ("Use `#[ruma_api(body)]` to represent the JSON body as a single
field"). -/
def ReqDesc.flattenOk (d : ReqDesc) : Bool :=
  !(decide (d.newtypeFields.length + d.rawFields.length = 1) && d.hasFlatten)
  && !(d.bodyFields.isEmpty && decide (d.flattenFields.length = 1))

/-- `Request::check` (`request.rs`): what the macro refuses to expand. -/
def ReqDesc.macroAccepts (d : ReqDesc) : Bool :=
  -- "Can't have more than one newtype body field" (NewtypeBody and RawBody counted together)
  decide (d.newtypeFields.length + d.rawFields.length ≤ 1)
  -- "Can't have more than one query_all field"
  && decide (d.queryAllFields.length ≤ 1)
  -- "Can't have both a newtype body field and regular body fields"
  && !(decide (d.newtypeFields.length + d.rawFields.length = 1) && !d.bodyFields.isEmpty)
  -- "Can't have both a query_all field and regular query fields"
  && !(d.hasQueryAll && d.hasQueryFields)
  -- flattened body fields: counted as body fields; refused when it is the only one
  && d.flattenOk

/-- The two `#[test]`s the macro generates next to every request (`path_parameters`,
`request_is_not_get`), and Rust's own rule that the fields of a struct have distinct names. -/
def ReqDesc.testsPass (d : ReqDesc) : Bool :=
  (match refPath d.history with
   | some r => pathArgNames r == d.fields.filterMap (fun f => f.asPath.map (fun _ => f.name))
   | none => false)
  && !((d.hasBodyFields || d.hasRawBody || d.hasFlatten) && d.method == mGET)
  && decide (d.fields.map (·.name)).Nodup

/-! ### Values -/

/-- A request value: the wire form of every field, grouped by kind, each group in declaration
order. -/
structure ReqVal where
  path : List Str := []
  query : List (List Str) := []
  queryAll : List (List (Str × Str)) := []
  header : List (Option Str) := []
  body : List (Option JVal) := []
  newtype : List JVal := []
  raw : List Str := []

/-- A mandatory header field has a value. -/
def headerShapeOk : List HeaderField → List (Option Str) → Bool
  | [], [] => true
  | f :: fs, v :: vs => (f.optional || v.isSome) && headerShapeOk fs vs
  | _, _ => false

/-- `v` is a value of the struct `d` describes (Rust's type checker guarantees this). -/
def ReqVal.shapeOk (d : ReqDesc) (v : ReqVal) : Bool :=
  v.path.length == d.pathFields.length
  && v.query.length == d.queryFields.length
  && v.queryAll.length == d.queryAllFields.length
  && headerShapeOk d.headerFields v.header
  && v.body.length == d.bodyFields.length
  && v.newtype.length == d.newtypeFields.length
  && v.raw.length == d.rawFields.length

/-! ## Messages and outcomes -/

/-- `http::Request<Vec<u8>>` as produced. -/
structure HttpRequest where
  method : Str
  uri : Str
  headers : Headers
  body : Str
  deriving Repr, DecidableEq

/-- `IntoHttpError` classes. -/
inductive IntoErr where
  | removed (v : Version)
  | noUnstablePath
  | needsAuth
  /-- `HeaderValue::from_str` refused a header field or the token -/
  | headerValue
  /-- `serde_json` reported an error -/
  | json
  /-- `http::request::Builder::body`: the URL is not a URI -/
  | http
  deriving Repr, DecidableEq

/-- Result of a conversion. `illTyped`: the value is not a value of the endpoint's struct (not a
behaviour of the code; excluded by `shapeOk`). -/
inductive Outcome (ε α : Type) where
  | ok (a : α)
  | err (e : ε)
  | panic
  | illTyped
  deriving Repr, DecidableEq

/-! ## `OutgoingRequest::try_into_http_request` -/

/-- `RequestQuery { .. }` through the struct serializer of `serde_html_form`: the values of each
field under the field's key, fields in declaration order. -/
def queryPairs : List (Str × Codec (List Str)) → List (List Str) → List (Str × Str)
  | (n, _) :: fs, vs :: vss => vs.map (fun x => (n, x)) ++ queryPairs fs vss
  | _, _ => []

/-- `request_query_string` (`none`: ill-typed value). -/
def requestQueryString (F : FormCodec) (d : ReqDesc) (v : ReqVal) : Option Str :=
  if d.hasQueryAll then
    -- `RequestQuery(self.field)`
    v.queryAll.head?.map F.ser
  else if d.hasQueryFields then some (F.ser (queryPairs d.queryFields v.query))
  else some []

/-- The loop over `header_fields()`: `req_headers.insert(NAME, HeaderValue::from_str(..)?)`, for an
`Option` field only `if let Some(..)`. -/
def putHeaderFields : List HeaderField → List (Option Str) → Headers → Except IntoErr Headers
  | f :: fs, v :: vs, hs =>
    match v with
    | none => putHeaderFields fs vs hs
    | some s =>
      if headerValueOk s then putHeaderFields fs vs (hInsert hs f.header s)
      else .error .headerValue
  | _, _, hs => .ok hs

/-- `req_headers.extend(METADATA.authorization_header(access_token)?)` — `extend` appends. -/
def putAuthorization (scheme : AuthScheme) (sat : SendAccessToken) (hs : Headers) :
    Except IntoErr Headers :=
  match authorizationHeader scheme sat with
  | .noHeader => .ok hs
  | .header value => .ok (hAppend hs authorization value)
  | .errNeedsAuth => .error .needsAuth
  | .errHeaderValue => .error .headerValue

/-- The `header_kvs` block. -/
def requestHeaders (d : ReqDesc) (v : ReqVal) (sat : SendAccessToken) : Except IntoErr Headers :=
  let hs0 : Headers := if d.hasRawBody || d.hasBodyFields then [(contentType, applicationJson)] else []
  match putHeaderFields d.headerFields v.header hs0 with
  | .error e => .error e
  | .ok hs => putAuthorization d.auth sat hs

/-- The members of `RequestBody { .. }` that are written: a field whose wire form is `none` is
skipped. -/
def bodyEntries : List (Str × Codec (Option JVal)) → List (Option JVal) → List (Str × JVal)
  | (n, _) :: fs, w :: ws =>
    (match w with | some j => [(n, j)] | none => []) ++ bodyEntries fs ws
  | _, _ => []

/-- The JSON `RequestBody` serialises to: with `#[serde(transparent)]` the single field's JSON. -/
def requestBodyJson (d : ReqDesc) (v : ReqVal) : Option JVal :=
  if d.hasNewtypeBody then v.newtype.head?
  else some (.obj (bodyEntries d.bodyFields v.body))

/-- `request_body`: raw bytes, `json_to_buf(&RequestBody{..})?`, or `empty_request_body`
(nothing for `GET`, `{}` otherwise). -/
def requestBody (J : JsonCodec) (d : ReqDesc) (v : ReqVal) : Outcome IntoErr Str :=
  if d.hasRawBody then
    match v.raw.head? with
    | some r => .ok r
    | none => .illTyped
  else if d.hasBodyFields then
    match requestBodyJson d v with
    | none => .illTyped
    | some j =>
      match J.ser j with
      | some b => .ok b
      | none => .err .json
  else .ok (if d.method = mGET then [] else bs "{}")

/-- `try_into_http_request`. Order of the generated code: the query string (an argument of
`make_endpoint_url`), `make_endpoint_url`, the builder (which remembers an invalid URI), the
header block — skipped when the builder already holds an error —, the body, `Builder::body`. -/
def tryIntoHttpRequest (F : FormCodec) (J : JsonCodec) (H : HttpLib) (d : ReqDesc) (v : ReqVal)
    (base : Str) (sat : SendAccessToken) (vs : List Version) : Outcome IntoErr HttpRequest :=
  if !v.shapeOk d then .illTyped
  else
    match requestQueryString F d v with
    | none => .illTyped
    | some q =>
      match makeEndpointUrl d.history vs base v.path q with
      | .errRemoved r => .err (.removed r)
      | .errNoUnstable => .err .noUnstablePath
      | .panic => .panic
      | .ok url =>
        let uriOk := H.uriOk url
        -- `if let Some(req_headers) = req_builder.headers_mut() { .. }`
        match (if uriOk then requestHeaders d v sat else .ok []) with
        | .error e => .err e
        | .ok hs =>
          match requestBody J d v with
          | .illTyped => .illTyped
          | .panic => .panic
          | .err e => .err e
          | .ok body =>
            if uriOk then .ok ⟨d.method, url, hs, body⟩ else .err .http

/-! ## Transport: what lies between the two conversions (not ruma code) -/

/-- The request as `try_from_http_request` gets it: `path_args` is what the router extracted. -/
structure Arrived where
  method : Str
  /-- `request.uri().query().unwrap_or("")` -/
  query : Str
  headers : Headers
  body : Str
  pathArgs : List Str
  deriving Repr, DecidableEq

/-- `http::Uri`: the path is what precedes the first `?`, the query what follows it up to a `#`. -/
def splitUri (u : Str) : Str × Str :=
  let r := splitFirst 63 u
  (r.1, match r.2 with | some q => (splitFirst 35 q).1 | none => [])

/-- A server that registered the template `tmpl` under the base URL: cut the base off, split path
and query, match the path against the template and percent-decode the placeholder segments. -/
def deliver (base tmpl : Str) (m : HttpRequest) : Option Arrived :=
  let r := splitUri (m.uri.drop (stripSlashSuffix base).length)
  (routeArgs tmpl r.1).map (fun args => ⟨m.method, r.2, m.headers, m.body, args⟩)

/-! ## `IncomingRequest::try_from_http_request` -/

/-- `FromHttpRequestError` classes, plus `outside`: a JSON *array* where a struct of body fields is
expected — serde's derived visitor reads it positionally; that path is not modelled and the check
does not generate such bodies. -/
inductive FromOut (α : Type) where
  | ok (a : α)
  | methodMismatch
  | deser
  | outside

/-- The tuple `(a, b, ..)` deserialised from `SeqDeserializer::new(path_args)`: one argument per
path field, no more, no fewer. -/
def decodePathArgs : List (Codec Str) → List Str → Option (List Str)
  | [], [] => some []
  | c :: cs, a :: as =>
    match c.norm a with
    | none => none
    | some x => (decodePathArgs cs as).map (x :: ·)
  | _, _ => none

/-- `group_entries`: the values of one key, in order of appearance. -/
def valuesFor (n : Str) (ps : List (Str × Str)) : List Str :=
  ps.filterMap (fun p => if p.1 = n then some p.2 else none)

/-- `RequestQuery` through `serde_html_form::from_str`: every field reads the values grouped under
its key (none: the key is absent); unknown keys are ignored. -/
def decodeQueryFields : List (Str × Codec (List Str)) → List (Str × Str) → Option (List (List Str))
  | [], _ => some []
  | (n, c) :: fs, ps =>
    match c.norm (valuesFor n ps) with
    | none => none
    | some x => (decodeQueryFields fs ps).map (x :: ·)

/-- One header field of a request: `headers.get(NAME)`; a value that is not visible ASCII is an
error (`to_str()?`) whether or not the field is optional; then `parse::<T>()` — `.ok()` for an
`Option` field (a value that does not parse is dropped), an error otherwise; a missing header is
`None` resp. `MissingHeader`. Outer `none` = error. -/
def decodeReqHeader (hs : Headers) (f : HeaderField) : Option (Option Str) :=
  match hGet hs f.header with
  | some hv =>
    if !headerToStrOk hv then none
    else if f.optional then some (f.codec.norm hv)
    else (f.codec.norm hv).map some
  | none => if f.optional then some none else none

def decodeReqHeaders (hs : Headers) : List HeaderField → Option (List (Option Str))
  | [] => some []
  | f :: fs =>
    match decodeReqHeader hs f with
    | none => none
    | some x => (decodeReqHeaders hs fs).map (x :: ·)

/-- The derived `visit_map` for one field of `RequestBody`: absent → the codec decides (`None`,
`#[serde(default)]` or "missing field"), present once → its value, present twice → "duplicate
field". -/
def fieldFromObj (o : List (Str × JVal)) (f : Str × Codec (Option JVal)) : Option (Option JVal) :=
  match o.filter (fun p => p.1 = f.1) with
  | [] => f.2.norm none
  | [(_, j)] => f.2.norm (some j)
  | _ :: _ :: _ => none

def fieldsFromObj (o : List (Str × JVal)) :
    List (Str × Codec (Option JVal)) → Option (List (Option JVal))
  | [] => some []
  | f :: fs =>
    match fieldFromObj o f with
    | none => none
    | some x => (fieldsFromObj o fs).map (x :: ·)

/-- The empty-body rule: `match body { [] => b"{}", b => b }`. -/
def bodyOrEmptyObject (body : Str) : Str := if body = [] then bs "{}" else body

/-- `extract_body` + `parse_body` for the JSON cases: the values of the `Body` fields and of the
newtype body field. -/
def decodeJsonBody (J : JsonCodec) (bodyFields : List (Str × Codec (Option JVal)))
    (newtypeFields : List (Codec JVal)) (body : Str) : FromOut (List (Option JVal) × List JVal) :=
  match J.parse (bodyOrEmptyObject body) with
  | none => .deser
  | some j =>
    match newtypeFields with
    | c :: _ =>
      -- `#[serde(transparent)]`
      match c.norm j with
      | some x => .ok ([], [x])
      | none => .deser
    | [] =>
      match j with
      | .obj o =>
        match fieldsFromObj o bodyFields with
        | some xs => .ok (xs, [])
        | none => .deser
      | .arr _ => .outside
      | _ => .deser

/-- `parse_query`: `serde_html_form::from_str(request.uri().query().unwrap_or(""))` into the
`query_all` field, or into `RequestQuery` and from there into the query fields; nothing is parsed
when the request has neither. Result: the values of the query fields and of the `query_all`
field. -/
def decodeQuery (F : FormCodec) (d : ReqDesc) (query : Str) :
    Option (List (List Str) × List (List (Str × Str))) :=
  match d.queryAllFields with
  | c :: _ => (c.norm (F.parse query)).map (fun x => ([], [x]))
  | [] =>
    if d.hasQueryFields then (decodeQueryFields d.queryFields (F.parse query)).map (fun x => (x, []))
    else some ([], [])

/-- `try_from_http_request`. -/
def tryFromHttpRequest (F : FormCodec) (J : JsonCodec) (d : ReqDesc) (a : Arrived) :
    FromOut ReqVal :=
  -- HEAD is accepted for GET
  if !(a.method = d.method || (a.method = mHEAD && d.method = mGET)) then .methodMismatch
  else
    -- parse_request_path (only `if self.has_path_fields()`)
    match (if d.hasPathFields then decodePathArgs d.pathFields a.pathArgs else some []) with
    | none => .deser
    | some pathVars =>
      -- parse_query
      match decodeQuery F d a.query with
      | none => .deser
      | some (queryVars, queryAllVars) =>
        -- parse_headers
        match decodeReqHeaders a.headers d.headerFields with
        | none => .deser
        | some headerVars =>
          -- extract_body (only `self.has_body_fields()`), parse_body
          match (if d.hasBodyFields then decodeJsonBody J d.bodyFields d.newtypeFields a.body
                 else .ok ([], [])) with
          | .methodMismatch => .methodMismatch
          | .deser => .deser
          | .outside => .outside
          | .ok (bodyVars, newtypeVars) =>
            let rawVars := if d.hasRawBody then [a.body] else []
            .ok ⟨pathVars, queryVars, queryAllVars, headerVars, bodyVars, newtypeVars, rawVars⟩

/-! ## Responses -/

/-- `ResponseFieldKind` (`response.rs`). -/
inductive RespKind where
  | body (c : Codec (Option JVal))
  | header (name : Str) (optional : Bool) (c : Codec Str)
  | newtypeBody (c : Codec JVal)
  | rawBody
  /-- a body field with `#[serde(flatten)]`: see `ReqKind.flattenBody` -/
  | flattenBody

structure RespField where
  name : Str
  kind : RespKind

/-- The input of `#[response]`: `status = ..` (default 200), `manual_body_serde` (then the
`Serialize`/`Deserialize` of the whole `ResponseBody` struct are hand-written: one codec for the
body fields together), the fields. -/
structure RespDesc where
  status : Nat
  manualBody : Option (Codec JVal)
  fields : List RespField

def RespField.asHeader (f : RespField) : Option HeaderField :=
  match f.kind with | .header n o c => some ⟨n, o, c⟩ | _ => none
def RespField.asBody (f : RespField) : Option (Str × Codec (Option JVal)) :=
  match f.kind with | .body c => some (f.name, c) | _ => none
def RespField.asNewtype (f : RespField) : Option (Codec JVal) :=
  match f.kind with | .newtypeBody c => some c | _ => none
def RespField.isRaw (f : RespField) : Bool :=
  match f.kind with | .rawBody => true | _ => false
def RespField.isFlatten (f : RespField) : Bool :=
  match f.kind with | .flattenBody => true | _ => false

def RespDesc.headerFields (d : RespDesc) := d.fields.filterMap RespField.asHeader
def RespDesc.bodyFields (d : RespDesc) := d.fields.filterMap RespField.asBody
def RespDesc.newtypeFields (d : RespDesc) := d.fields.filterMap RespField.asNewtype
def RespDesc.rawFields (d : RespDesc) := d.fields.filter RespField.isRaw
def RespDesc.flattenFields (d : RespDesc) := d.fields.filter RespField.isFlatten
def RespDesc.hasFlatten (d : RespDesc) : Bool := !d.flattenFields.isEmpty
/-- No flattened body field: the conversions below model the generated code (see
`ReqDesc.inModel`). -/
def RespDesc.inModel (d : RespDesc) : Bool := !d.hasFlatten
def RespDesc.hasBodyFields (d : RespDesc) : Bool := !d.bodyFields.isEmpty || !d.newtypeFields.isEmpty
def RespDesc.hasNewtypeBody (d : RespDesc) : Bool := !d.newtypeFields.isEmpty
def RespDesc.hasRawBody (d : RespDesc) : Bool := !d.rawFields.isEmpty

/-- `Response::check`. The last two clauses are its treatment of flattened body fields (counted as
body fields; a single body field that is flattened is refused). -/
def RespDesc.macroAccepts (d : RespDesc) : Bool :=
  decide (d.newtypeFields.length + d.rawFields.length ≤ 1)
  && !(decide (d.newtypeFields.length + d.rawFields.length = 1) && !d.bodyFields.isEmpty)
  && !(decide (d.newtypeFields.length + d.rawFields.length = 1) && d.hasFlatten)
  && !(d.bodyFields.isEmpty && decide (d.flattenFields.length = 1))

/-- The whole-body codec applies: a newtype body, or hand-written body serde. With
`manual_body_serde` and no body field at all the receiving side never reads the body; that
combination carries no value and is left out (`supported`). -/
def RespDesc.wholeBodyCodec (d : RespDesc) : Option (Codec JVal) :=
  match d.newtypeFields with
  | c :: _ => some c
  | [] => d.manualBody

def RespDesc.supported (d : RespDesc) : Bool :=
  decide (d.fields.map (·.name)).Nodup && (d.manualBody.isNone || !d.bodyFields.isEmpty)

/-- A response value. `whole`: the JSON of a newtype body, or of the `ResponseBody` struct under
`manual_body_serde`; `body`: the wire forms of the body fields otherwise. -/
structure RespVal where
  header : List (Option Str) := []
  body : List (Option JVal) := []
  whole : List JVal := []
  raw : List Str := []

def RespVal.shapeOk (d : RespDesc) (v : RespVal) : Bool :=
  headerShapeOk d.headerFields v.header
  && (match d.wholeBodyCodec with
      | some _ => v.whole.length == 1 && v.body.isEmpty
      | none => v.whole.isEmpty && v.body.length == d.bodyFields.length)
  && v.raw.length == d.rawFields.length

structure HttpResponse where
  status : Nat
  headers : Headers
  body : Str
  deriving Repr, DecidableEq

/-- The JSON `ResponseBody` serialises to. -/
def responseBodyJson (d : RespDesc) (v : RespVal) : Option JVal :=
  match d.wholeBodyCodec with
  | some _ => v.whole.head?
  | none => some (.obj (bodyEntries d.bodyFields v.body))

/-- `try_into_http_response`: status and `Content-Type: application/json` on the builder, every
header field `insert`ed over it, then the raw bytes or `json_to_buf(&ResponseBody{..})?`. -/
def tryIntoHttpResponse (J : JsonCodec) (d : RespDesc) (v : RespVal) : Outcome IntoErr HttpResponse :=
  if !v.shapeOk d then .illTyped
  else
    match putHeaderFields d.headerFields v.header [(contentType, applicationJson)] with
    | .error e => .err e
    | .ok hs =>
      if d.hasRawBody then
        match v.raw.head? with
        | some r => .ok ⟨d.status, hs, r⟩
        | none => .illTyped
      else
        match responseBodyJson d v with
        | none => .illTyped
        | some j =>
          match J.ser j with
          | some b => .ok ⟨d.status, hs, b⟩
          | none => .err .json

/-- One header field of a response, given what `headers.remove(NAME)` returned. Optional:
`to_str().ok()?.parse().ok()` — anything unreadable is dropped; mandatory: missing, not visible
ASCII or unparsable are errors (outer `none`). -/
def readRespHeader (got : Option Str) (f : HeaderField) : Option (Option Str) :=
  match got with
  | some hv =>
    if f.optional then some (if headerToStrOk hv then f.codec.norm hv else none)
    else if headerToStrOk hv then (f.codec.norm hv).map some else none
  | none => if f.optional then some none else none

/-- The header fields of a response in declaration order, on the cloned header map:
`headers.remove(NAME)` takes every value of the name away and yields the first. -/
def decodeRespHeaders : Headers → List HeaderField → Option (List (Option Str))
  | _, [] => some []
  | hs, f :: fs =>
    match readRespHeader (hGet hs f.header) f with
    | none => none
    | some x => (decodeRespHeaders (hRemove hs f.header) fs).map (x :: ·)

/-- `typed_response_body_decl` (only `has_body_fields()`): the values of the body fields, and the
whole-body value (newtype body / `manual_body_serde`). -/
def decodeRespBody (J : JsonCodec) (d : RespDesc) (body : Str) :
    FromOut (List (Option JVal) × List JVal) :=
  if d.hasBodyFields then
    match J.parse (bodyOrEmptyObject body) with
    | none => .deser
    | some j =>
      match d.wholeBodyCodec with
      | some c =>
        match c.norm j with
        | some x => .ok ([], [x])
        | none => .deser
      | none =>
        match j with
        | .obj o =>
          match fieldsFromObj o d.bodyFields with
          | some xs => .ok (xs, [])
          | none => .deser
        | .arr _ => .outside
        | _ => .deser
  else .ok ([], [])

/-- Result of `try_from_http_response`. `server`: the error path (`FromHttpResponseError::Server`,
built by the endpoint's error type from the whole response). -/
inductive FromResp where
  | ok (v : RespVal)
  | server
  | deser
  | outside

/-- `try_from_http_response`: a status below 400 is the success path (body, then the fields in
declaration order, the raw body last), anything else the error path. -/
def tryFromHttpResponse (J : JsonCodec) (d : RespDesc) (r : HttpResponse) : FromResp :=
  if r.status < 400 then
    match decodeRespBody J d r.body with
    | .methodMismatch => .deser
    | .deser => .deser
    | .outside => .outside
    | .ok (bodyVars, wholeVars) =>
      match decodeRespHeaders r.headers d.headerFields with
      | none => .deser
      | some headerVars =>
        .ok ⟨headerVars, bodyVars, wholeVars, if d.hasRawBody then [r.body] else []⟩
  else .server

/-! ## The shape of finding G17 (optional header field the generated code sets itself)

Computed from the description alone: the `Option` header fields whose header the generated code
writes by itself — `Content-Type` whenever there is a body, `Authorization` whenever the
authentication scheme can send a token (every scheme but `ServerSignatures`, since
`SendAccessToken::Always` sends one even for `AuthScheme::None`). When such a field holds `None`,
the receiving side reads `Some(..)`. -/

def ReqDesc.g17Fields (d : ReqDesc) : List Str :=
  (d.headerFields.filter (fun f =>
    f.optional && ((f.header = contentType && (d.hasRawBody || d.hasBodyFields))
      || (f.header = authorization && d.auth != .serverSignatures)))).map (·.header)

/-- The response builder always sets `Content-Type: application/json` first. -/
def RespDesc.g17Fields (d : RespDesc) : List Str :=
  (d.headerFields.filter (fun f => f.optional && f.header = contentType)).map (·.header)

/-! ## Field types of the check's synthetic endpoints

The codecs of the Rust types the synthetic endpoints of `harness/h-c16` use, i.e. what serde, std
and `serde_html_form` do for `String`, `Option<String>`, `Vec<String>`, `u64`/`UInt`,
`BTreeMap<String, String>`. They instantiate the generic model for the differential check and for
the recorded findings; the theorems hold for arbitrary codecs. -/

/-- `str::parse::<u64>()`: an optional `+`, then at least one ASCII digit. -/
def parseDigits : Str → Nat → Option Nat
  | [], acc => some acc
  | b :: t, acc => if 48 ≤ b && b ≤ 57 then parseDigits t (10 * acc + (b - 48)) else none

def parseU64 (s : Str) : Option Nat :=
  let digits := match s with | 43 :: t => t | _ => s
  if digits = [] then none
  else match parseDigits digits 0 with
    | some n => if n < 2 ^ 64 then some n else none
    | none => none

/-- `u64`'s `Display`. -/
def showNat (n : Nat) : Str := (Nat.toDigits 10 n).map Char.toNat

/-- `js_int::UInt`: a `u64` not above 2^53 − 1. -/
def parseUInt (s : Str) : Option Nat := (parseU64 s).bind (fun n => if n < 2 ^ 53 then some n else none)

namespace Ty

/-- `String` in a path or header position: any text, unchanged. (A `js_int::UInt` path field cannot
be received at all: the path arguments are deserialised from strings, which `u64` refuses.) -/
def str : Codec Str := ⟨some⟩

/-- `u64` in a header position (`FromStr`, `Display`). -/
def u64 : Codec Str := ⟨fun s => (parseU64 s).map showNat⟩

/-- `String` query field: exactly one value. -/
def qStr : Codec (List Str) := ⟨fun vs => match vs with | [s] => some [s] | _ => none⟩

/-- `Option<String>` query field (with or without `skip_serializing_if`: `serialize_none` writes
nothing either way). `serde_html_form` reads an *empty* value as `None` (finding G18). -/
def qOptStr : Codec (List Str) :=
  ⟨fun vs => match vs with | [] => some [] | [s] => if s = [] then some [] else some [s] | _ => none⟩

/-- `Vec<String>` query field with `#[serde(default, skip_serializing_if = "Vec::is_empty")]`. -/
def qVecStr : Codec (List Str) := ⟨some⟩

/-- `Option<UInt>` query field. -/
def qOptUInt : Codec (List Str) :=
  ⟨fun vs => match vs with
    | [] => some []
    | [s] => if s = [] then some [] else (parseUInt s).map (fun n => [showNat n])
    | _ => none⟩

/-- Insertion into a `BTreeMap<String, String>` kept as a sorted list; a later key replaces. -/
def mapInsert (k v : Str) : List (Str × Str) → List (Str × Str)
  | [] => [(k, v)]
  | (k', v') :: t =>
    if k' = k then (k, v) :: t
    else if k < k' then (k, v) :: (k', v') :: t
    else (k', v') :: mapInsert k v t

/-- `BTreeMap<String, String>` as `query_all`: a key given twice is grouped into a sequence, which
a `String` value refuses; otherwise the pairs sorted by key. -/
def qaMapStr : Codec (List (Str × Str)) :=
  ⟨fun ps => if decide (ps.map (·.1)).Nodup then some (ps.foldl (fun m p => mapInsert p.1 p.2 m) []) else none⟩

/-- `String` body field. -/
def bStr : Codec (Option JVal) :=
  ⟨fun w => match w with | some (.str s) => some (some (.str s)) | _ => none⟩

/-- `Option<String>` body field with `skip_serializing_if = "Option::is_none"`. -/
def bOptStr : Codec (Option JVal) :=
  ⟨fun w => match w with
    | none => some none
    | some .null => some none
    | some (.str s) => some (some (.str s))
    | _ => none⟩

/-- `Option<String>` body field without `skip_serializing_if`: `None` is written as `null`. -/
def bOptStrNull : Codec (Option JVal) :=
  ⟨fun w => match w with
    | none => some (some .null)
    | some .null => some (some .null)
    | some (.str s) => some (some (.str s))
    | _ => none⟩

def allStr : List JVal → Bool
  | [] => true
  | .str _ :: t => allStr t
  | _ :: _ => false

/-- `Vec<String>` body field with `#[serde(default, skip_serializing_if = "Vec::is_empty")]`. -/
def bVecStr : Codec (Option JVal) :=
  ⟨fun w => match w with
    | none => some none
    | some (.arr xs) => if allStr xs then (if xs.isEmpty then some none else some (some (.arr xs))) else none
    | _ => none⟩

/-- `js_int::UInt` body field. -/
def bUInt : Codec (Option JVal) :=
  ⟨fun w => match w with
    | some (.int i) => if 0 ≤ i && i < 2 ^ 53 then some (some (.int i)) else none
    | _ => none⟩

/-- Newtype body `struct Data { x: String, #[serde(default, skip_serializing_if = "Vec::is_empty")]
ys: Vec<String> }`: an object read field by field, written as `x` then `ys`. -/
def nData : Codec JVal :=
  ⟨fun j => match j with
    | .obj o =>
      match fieldFromObj o (bs "x", bStr), fieldFromObj o (bs "ys", bVecStr) with
      | some x, some ys => some (.obj (bodyEntries [(bs "x", bStr), (bs "ys", bVecStr)] [x, ys]))
      | _, _ => none
    | _ => none⟩

/-- The hand-written body serde of the synthetic response `g_man` (`manual_body_serde`): the one
body field `s: String` is written as `{"wrap": <s>}`. -/
def mWrap : Codec JVal :=
  ⟨fun j => match j with
    | .obj o =>
      match fieldFromObj o (bs "wrap", bStr) with
      | some (some x) => some (.obj [(bs "wrap", x)])
      | _ => none
    | _ => none⟩

/-! ### The identity codecs

For a REAL endpoint the field types are whatever the crate declares; the check instantiates its
extracted description with the codecs that take a wire form as it is. On a wire form that *is* the
wire form of a value (`Codec.Canon`, the hypothesis of the round-trip theorems) every codec acts
like these. -/

def anyQ : Codec (List Str) := ⟨some⟩
def anyQA : Codec (List (Str × Str)) := ⟨some⟩
def anyB : Codec (Option JVal) := ⟨some⟩
def anyJ : Codec JVal := ⟨some⟩

end Ty

/-- The reference form codec without its laws (the laws are proved in `Lemmas/EndpointForm`). -/
def refFormSer := formSerialize
def refFormParse := formParse

end Ruma.Glue
