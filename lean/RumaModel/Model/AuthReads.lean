/-
  The state reads of `auth_check`, in call order: which `(type, state_key)` pairs the real
  `fetch_state` closure is asked for, given the event and the state (reads depend on earlier
  answers). Mirrors the control flow of `Model/Auth.lean`; tied to the recorded reads of the real
  `auth_check` by T2 (`c09.reads`). `Props/C09.lean` proves that these reads lie inside the selected
  auth types (`model_reads_within_selection`); non-interference itself is proven on `authCheck`
  directly (`authCheck_reads_subset`) and does not depend on this file.
-/
import RumaModel.Model.Auth
namespace Ruma.Auth
open Ruma.Ident

abbrev Key := Str × Str

/-- Continue with `k` when `r` is `ok`, stop (no further reads) on an error. -/
def thenReads {α} (r : Res α) (k : α → List Key) : List Key :=
  match r with
  | .ok a => k a
  | .error _ => []

def readsJoin (rules : AuthRules) (ev : Event) (target : Str) (create : Event) (f : Fetch) : List Key :=
  thenReads (createCreator rules create) fun creator =>
  if ev.prevEvents == [create.eventId] && target == creator then []
  else if !(ev.sender == target) then []
  else
    (tMember, target) :: thenReads (userMembership f target) fun current =>
    if !(current != mBan) then []
    else
      (tJoinRules, []) :: thenReads (joinRule f) fun jr =>
      if (jr == jrInvite || rules.knocking && jr == jrKnock) && (current == mInvite || current == mJoin) then []
      else if rules.restrictedJoinRule && jr == jrRestricted
            || rules.knockRestrictedJoinRule && jr == jrKnockRestricted then
        if current == mJoin || current == mInvite then []
        else
          thenReads (contentJoinAuthorised ev.content) fun via =>
          match via with
          | none => []
          | some u =>
            (tMember, u) :: thenReads (userMembership f u) fun um =>
            if !(um == mJoin) then [] else [(tPowerLevels, [])]
      else []

def readsThirdPartyInvite (signed : Obj) (target : Str) (f : Fetch) : List Key :=
  (tMember, target) :: thenReads (userMembership f target) fun tm =>
  if !(tm != mBan) then []
  else
    thenReads (tpiToken signed) fun token =>
    thenReads (tpiMxid signed) fun mxid =>
    if !(target == mxid) then [] else [(tThirdPartyInvite, token)]

def readsInvite (rules : AuthRules) (ev : Event) (target : Str) (create : Event) (f : Fetch) : List Key :=
  thenReads (contentThirdPartyInvite ev.content) fun tpi =>
  match tpi with
  | some signed => readsThirdPartyInvite signed target f
  | none =>
    (tMember, ev.sender) :: thenReads (userMembership f ev.sender) fun sm =>
    if !(sm == mJoin) then []
    else
      (tMember, target) :: thenReads (userMembership f target) fun tm =>
      if !(!(tm == mJoin || tm == mBan)) then []
      else thenReads (createCreator rules create) fun _ => [(tPowerLevels, [])]

def readsLeave (rules : AuthRules) (ev : Event) (target : Str) (create : Event) (f : Fetch) : List Key :=
  (tMember, ev.sender) :: thenReads (userMembership f ev.sender) fun sm =>
  if ev.sender == target then []
  else if !(sm == mJoin) then []
  else thenReads (createCreator rules create) fun _ => [(tPowerLevels, []), (tMember, target)]

def readsBan (rules : AuthRules) (ev : Event) (create : Event) (f : Fetch) : List Key :=
  (tMember, ev.sender) :: thenReads (userMembership f ev.sender) fun sm =>
  if !(sm == mJoin) then []
  else thenReads (createCreator rules create) fun _ => [(tPowerLevels, [])]

def readsKnock (rules : AuthRules) (ev : Event) (target : Str) (f : Fetch) : List Key :=
  (tJoinRules, []) :: thenReads (joinRule f) fun jr =>
  if !(jr == jrKnock || rules.knockRestrictedJoinRule && jr == jrKnockRestricted) then []
  else if !(ev.sender == target) then []
  else [(tMember, ev.sender)]

def readsMember (rules : AuthRules) (ev : Event) (create : Event) (f : Fetch) : List Key :=
  match ev.stateKey with
  | none => []
  | some target =>
    if !validUserId target then []
    else
      thenReads (contentMembership ev.content) fun m =>
      if m == mJoin then readsJoin rules ev target create f
      else if m == mInvite then readsInvite rules ev target create f
      else if m == mLeave then readsLeave rules ev target create f
      else if m == mBan then readsBan rules ev create f
      else if m == mKnock && rules.knocking then readsKnock rules ev target f
      else []

/-- The `(type, state_key)` arguments of the `fetch_state` calls of `auth_check`, in order. -/
def authReads (rules : AuthRules) (ev : Event) (f : Fetch) : List Key :=
  if ev.type == tCreate then []
  else
    (tCreate, []) :: thenReads (fetchCreate f) fun create =>
    if !(ev.authEvents.contains create.eventId) then []
    else
      thenReads (createFederate create.content) fun federate =>
      if !(federate || Ident.userServer create.sender == Ident.userServer ev.sender) then []
      else if rules.specialCaseRoomAliases && ev.type == tAliases then []
      else if ev.type == tMember then readsMember rules ev create f
      else
        (tMember, ev.sender) :: thenReads (userMembership f ev.sender) fun sm =>
        if !(sm == mJoin) then []
        else thenReads (createCreator rules create) fun _ => [(tPowerLevels, [])]

end Ruma.Auth
