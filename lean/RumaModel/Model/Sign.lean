/-
  Model of JSON signing and verification: `crates/ruma-signatures/src/functions.rs`
  (`sign_json`, `canonical_json`, `verify_json`, `verify_canonical_json_for_entity`,
  `verify_canonical_json_bytes`, `verify_canonical_json_with`), `verification.rs`
  (`Ed25519Verifier::verify_json`, `verifier_from_algorithm`), `signatures.rs` (`Signature::id`,
  `Signature::base64`), `keys.rs` (`Ed25519KeyPair::sign`).

  What is ruma's own code is modelled statement by statement. What is not ruma's code is a
  parameter or a reference implementation:
  * Ed25519 (ed25519-dalek) is the parameter `SigScheme`; the assumption used by the theorems is the
    separate structure `SigScheme.Lawful` (never an axiom).
  * base64 (crate `base64` 0.22 with ruma's configuration: standard alphabet, encode without
    padding, decode with padding optional and trailing bits allowed) is the executable reference
    `b64` / `unb64`, proven `unb64 (b64 x) = some x` in `Lemmas/SignB64.lean` and compared with the
    real crate on every run.

  `&mut` functions return the `Result` together with the object after the call, so "an error
  leaves the object as it was" is a statement about the returned pair.
-/
import RumaModel.Model.Json
import RumaModel.Model.Canonical
namespace Ruma.Sign
open Ruma

/-! ## The signature scheme (external: ed25519-dalek) -/

/-- The operations of a signature scheme on byte strings. `sign secret message`,
`verify publicKey message signature`, `pub secret`. `verify` stands for
`VerifyingKey::from_bytes(pk)` (point decoding) followed by `verify(message, signature)` for a
32-byte key and a 64-byte signature; the length checks themselves are ruma's code and are in
`verifyBytes`. -/
structure SigScheme where
  sign : Str → List Nat → List Nat
  verify : Str → List Nat → List Nat → Bool
  pub : Str → Str

/-- The assumptions about the scheme that the theorems use: a signature made with a secret key
verifies under the matching public key (correctness of Ed25519), public keys are 32 bytes and
signatures 64 bytes (RFC 8032 §5.1.5/5.1.6). Unforgeability is *not* stated here: soundness theorems
are reduced to `S.verify` and the rest is a recorded assumption of the trusted base. -/
structure SigScheme.Lawful (S : SigScheme) : Prop where
  verify_sign : ∀ k m, S.verify (S.pub k) m (S.sign k m) = true
  pub_len : ∀ k, (S.pub k).length = 32
  sig_len : ∀ k m, (S.sign k m).length = 64
  sig_bytes : ∀ k m, ∀ b ∈ S.sign k m, b < 256

/-! ## Unpadded standard base64 (external: crate `base64`; executable reference) -/

/-- Alphabet `A–Z a–z 0–9 + /` (RFC 4648 §4). -/
def b64Char (i : Nat) : Nat :=
  if i < 26 then 65 + i
  else if i < 52 then 97 + (i - 26)
  else if i < 62 then 48 + (i - 52)
  else if i = 62 then 43
  else 47

def b64Val (c : Nat) : Option Nat :=
  if 65 ≤ c ∧ c ≤ 90 then some (c - 65)
  else if 97 ≤ c ∧ c ≤ 122 then some (c - 97 + 26)
  else if 48 ≤ c ∧ c ≤ 57 then some (c - 48 + 52)
  else if c = 43 then some 62
  else if c = 47 then some 63
  else none

/-- `Base64::<Standard, _>::new(bytes).encode()`: 3 bytes → 4 symbols, a last group of 1 byte → 2
symbols, of 2 bytes → 3 symbols, no `=` padding. -/
def b64 : List Nat → Str
  | [] => []
  | [a] => [b64Char (a / 4), b64Char (a % 4 * 16)]
  | [a, b] => [b64Char (a / 4), b64Char (a % 4 * 16 + b / 16), b64Char (b % 16 * 4)]
  | a :: b :: c :: t =>
    b64Char (a / 4) :: b64Char (a % 4 * 16 + b / 16) :: b64Char (b % 16 * 4 + c / 64)
      :: b64Char (c % 64) :: b64 t

/-- The last group (1–4 characters) of the input, `decode_suffix` with
`DecodePaddingMode::Indifferent` and `decode_allow_trailing_bits(true)`: symbols, then only `=`;
at least two symbols; `⌊6·symbols/8⌋` bytes come out; surplus low bits are ignored. -/
def unb64Last (l : List Nat) : Option (List Nat) :=
  let syms := l.takeWhile (· ≠ 61)
  let pads := l.dropWhile (· ≠ 61)
  if pads.all (· = 61) then
    match syms.map b64Val with
    | [some p, some q] => some [p * 4 + q / 16]
    | [some p, some q, some r] => some [p * 4 + q / 16, q % 16 * 16 + r / 4]
    | [some p, some q, some r, some s] => some [p * 4 + q / 16, q % 16 * 16 + r / 4, r % 4 * 64 + s]
    | _ => none
  else none

/-- `Base64::<Standard>::parse`: every group of four characters except the last group is decoded
strictly (four alphabet symbols); the last 1–4 characters go through `unb64Last`. -/
def unb64 : Str → Option (List Nat)
  | [] => some []
  | a :: b :: c :: d :: e :: t =>
    match b64Val a, b64Val b, b64Val c, b64Val d, unb64 (e :: t) with
    | some p, some q, some r, some s, some rest =>
      some ((p * 4 + q / 16) :: (q % 16 * 16 + r / 4) :: (r % 4 * 64 + s) :: rest)
    | _, _, _, _, _ => none
  | l => unb64Last l

/-! ## Key identifiers -/

/-- Split at the first `:`. -/
def splitColon : Str → Option (Str × Str)
  | [] => none
  | c :: t =>
    if c = 58 then some ([], t)
    else match splitColon t with
      | some (a, b) => some (c :: a, b)
      | none => none

/-- `<&SigningKeyId<AnyKeyName>>::try_from(key_id)` followed by `.algorithm()`: the key id must
contain a `:` that is not its first byte (`AnyKeyName::validate` accepts everything after it); the
algorithm is the text before the first `:`.
(The validator narrows the colon index with `as u8`; for an index ≥ 256 that can only turn a
parsable id with a ≥ 256-byte algorithm name into an unparsable one or the reverse, and neither is
the supported algorithm, so `supportedKeyId` is unaffected. The slicing panic that the narrowing can
cause on multi-byte text is defect F6 of property C10/C17, outside this model.) -/
def keyIdAlgorithm (keyId : Str) : Option Str :=
  match splitColon keyId with
  | some (a, _) => if a = [] then none else some a
  | none => none

/-- `verifier_from_algorithm`: only `SigningKeyAlgorithm::Ed25519` (the string `ed25519`) has a
verifier. Both `continue`s of the per-entity loop: unparsable id, or no verifier. -/
def supportedKeyId (keyId : Str) : Bool :=
  match keyIdAlgorithm keyId with
  | some a => a = bs "ed25519"
  | none => false

/-- `Signature::id()` of a signature made by an `Ed25519KeyPair` with this version:
`SigningKeyId::from_parts(Ed25519, version)` = `ed25519:<version>` (no validation of `version`). -/
def ed25519KeyId (version : Str) : Str := bs "ed25519" ++ 58 :: version

/-! ## Errors, keys -/

inductive Err where
  | signaturesNotObject      -- `signatures` is not a JSON object
  | signatureSetNotObject    -- `signatures[entity]` is not a JSON object
  | signaturesMissing
  | noSignaturesForEntity
  | noPublicKeysForEntity
  | publicKeyNotFound
  | signatureNotString
  | base64
  | noSupportedSignature
  | publicKeyLength
  | signatureLength
  | signatureInvalid
  | unsupportedAlgorithm
  deriving DecidableEq, Repr

/-- `Ed25519KeyPair`: the secret key and the key "version". -/
structure KeyPair where
  secret : Str
  version : Str

/-- `PublicKeyMap = BTreeMap<String, BTreeMap<String, Base64>>`: entity ↦ key id ↦ public key bytes. -/
abbrev KeyMap := List (Str × List (Str × Str))

def sigKey : Str := bs "signatures"
def unsKey : Str := bs "unsigned"

/-! ## Canonical JSON of the signed content -/

/-- `canonical_json(object)`: clone, remove `signatures`, remove `unsigned`, compact serialisation.
These are the bytes that are signed and verified. -/
def canonicalJson (obj : Obj) : List Nat :=
  Canonical.encodeObj (Obj.erase (Obj.erase obj sigKey) unsKey)

/-! ## Signing -/

/-- `Ed25519KeyPair::sign` then `Signature::base64()`: the string stored under the key id. -/
def signatureString (S : SigScheme) (kp : KeyPair) (msg : List Nat) : Str :=
  b64 (S.sign kp.secret msg)

/-- The body of `sign_json` from `remove_entry("signatures")` on, with the object's `signatures`
value already matched as `signatureMap` (`none` = field absent). -/
def signCore (S : SigScheme) (entity : Str) (kp : KeyPair) (obj : Obj) (signatureMap : Obj) :
    Except Err Unit × Obj :=
  -- `object.remove_entry("signatures")`, `object.remove_entry("unsigned")`
  let o1 := Obj.erase obj sigKey
  let maybeUnsigned := Obj.get o1 unsKey
  let o2 := Obj.erase o1 unsKey
  -- `to_json_string(object)`, `key_pair.sign(json.as_bytes())`
  let json := Canonical.encodeObj o2
  let sigStr := signatureString S kp json
  -- `signature_map.entry(entity_id).or_insert_with(|| Object(BTreeMap::new()))`
  let setVal := match Obj.get signatureMap entity with
    | some v => v
    | none => JVal.obj []
  match setVal with
  | .obj set =>
    -- `signature_set.insert(signature.id(), String(signature.base64()))`
    let set' := Obj.insert set (ed25519KeyId kp.version) (.str sigStr)
    let map' := Obj.insert signatureMap entity (.obj set')
    -- put `signatures` and `unsigned` back in
    let o3 := Obj.insert o2 sigKey (.obj map')
    let o4 := match maybeUnsigned with
      | some u => Obj.insert o3 unsKey u
      | none => o3
    (.ok (), o4)
  | _ =>
    -- `return Err(not_multiples_of_type(..))` with `signatures` and `unsigned` already removed
    -- (unreachable after the up-front validation in `signJson`: `Props.C02.sign_error_atomic`;
    -- this branch alone is defect F11, see the last `example` of `Props/C02.lean`)
    (.error .signatureSetNotObject, o2)

/-- `sign_json(entity_id, key_pair, object)` of the repaired code (F11): the shape of `signatures`
and of `signatures[entity_id]` is validated before anything is removed from the object. Returns the
`Result` and the object after the call. -/
def signJson (S : SigScheme) (entity : Str) (kp : KeyPair) (obj : Obj) : Except Err Unit × Obj :=
  match Obj.get obj sigKey with
  | some (.obj signatures) =>
    match Obj.get signatures entity with
    | none => signCore S entity kp obj signatures
    | some (.obj _) => signCore S entity kp obj signatures
    | some _ => (.error .signatureSetNotObject, obj)
  | some _ => (.error .signaturesNotObject, obj)
  | none => signCore S entity kp obj []

/-! ## Verification -/

/-- `Ed25519Verifier::verify_json(public_key, signature, message)`: the key must be 32 bytes and
decode to a point, the signature must be 64 bytes, and the scheme must accept. -/
def verifyBytes (S : SigScheme) (publicKey signature message : List Nat) : Except Err Unit :=
  if publicKey.length ≠ 32 then .error .publicKeyLength
  else if signature.length ≠ 64 then .error .signatureLength
  else if S.verify publicKey message signature then .ok ()
  else .error .signatureInvalid

/-- `verify_canonical_json_bytes(algorithm, public_key, signature, canonical_json)`. -/
def verifyCanonicalJsonBytes (S : SigScheme) (algorithm : Str) (publicKey signature message : List Nat) :
    Except Err Unit :=
  if algorithm = bs "ed25519" then verifyBytes S publicKey signature message
  else .error .unsupportedAlgorithm

/-- The `for (key_id, signature) in signature_set` loop of `verify_canonical_json_for_entity`,
carrying `checked`. -/
def checkSet (S : SigScheme) (publicKeys : List (Str × Str)) (message : List Nat) :
    List (Str × JVal) → Bool → Except Err Bool
  | [], checked => .ok checked
  | (keyId, signature) :: rest, checked =>
    -- unparsable key id → `continue`; unknown algorithm → `continue`
    if supportedKeyId keyId = false then checkSet S publicKeys message rest checked
    else
      match Obj.get publicKeys keyId with
      | none => .error .publicKeyNotFound
      | some publicKey =>
        match signature with
        | .str s =>
          match unb64 s with
          | none => .error .base64
          | some raw =>
            match verifyBytes S publicKey raw message with
            | .error e => .error e
            | .ok () => checkSet S publicKeys message rest true
        | _ => .error .signatureNotString

/-- `verify_canonical_json_for_entity`. -/
def verifyForEntity (S : SigScheme) (entity : Str) (keys : KeyMap) (signatureMap : Obj)
    (message : List Nat) : Except Err Unit :=
  match Obj.get signatureMap entity with
  | some (.obj set) =>
    match Obj.get keys entity with
    | none => .error .noPublicKeysForEntity
    | some publicKeys =>
      match checkSet S publicKeys message set false with
      | .error e => .error e
      | .ok true => .ok ()
      | .ok false => .error .noSupportedSignature
  | some _ => .error .signatureSetNotObject
  | none => .error .noSignaturesForEntity

/-- `for entity_id in signature_map.keys() { verify_canonical_json_for_entity(..)?; }` -/
def verifyEntities (S : SigScheme) (keys : KeyMap) (signatureMap : Obj) (message : List Nat) :
    List Str → Except Err Unit
  | [] => .ok ()
  | entity :: rest =>
    match verifyForEntity S entity keys signatureMap message with
    | .error e => .error e
    | .ok () => verifyEntities S keys signatureMap message rest

/-- `verify_json(public_key_map, object)`. -/
def verifyJson (S : SigScheme) (keys : KeyMap) (obj : Obj) : Except Err Unit :=
  match Obj.get obj sigKey with
  | some (.obj signatureMap) =>
    verifyEntities S keys signatureMap (canonicalJson obj) (Obj.keys signatureMap)
  | some _ => .error .signaturesNotObject
  | none => .error .signaturesMissing

end Ruma.Sign
