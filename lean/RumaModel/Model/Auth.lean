/-
  Model of event authorization as implemented in `ruma-state-res`:

  * `auth_types_for_event`  crates/ruma-state-res/src/event_auth.rs:49-130   → `authTypesForEvent`
  * `auth_check`            event_auth.rs:146-319                            → `authCheckR`, `authCheck`
  * `check_room_create`     event_auth.rs:322-357                            → `checkRoomCreate`
  * `check_room_power_levels`, `check_power_level_maps` event_auth.rs:360-533
  * `check_room_redaction`  event_auth.rs:536-562
  * `FetchStateExt`         event_auth.rs:564-605                            → `fetchCreate`, `userMembership`, …
  * `check_room_member*`, `check_third_party_invite` event_auth/room_member.rs
  * lazy content accessors  events/{create,member,join_rules,third_party_invite,power_levels}.rs
  * string power levels     ruma-common/src/serde/strings.rs:133-198          → `parseV1String`

  `Result<_, String>` is `Except Unit _` (`Res`): only allow / reject is observable, messages are
  not. Branch order, laziness of content parsing (a malformed field is an error only when it is
  read) and defaults follow the Rust. Every state read goes through `f : Fetch`.

  Conventions: `content` of every event is a JSON object with unique keys. Membership and join
  rule are compared as strings (`MembershipState` / `JoinRule` are string enums whose equality is
  string equality).
-/
import RumaModel.Model.Event
import RumaModel.Model.Canonical
namespace Ruma.Auth
open Ruma Ruma.Ident

abbrev Res := Except Unit

/-- `if !cond { return Err(..) }`. -/
def require (b : Bool) : Res Unit := if b then .ok () else .error ()

/-! ## Event type and field names -/

def tCreate : Str := bs "m.room.create"
def tMember : Str := bs "m.room.member"
def tPowerLevels : Str := bs "m.room.power_levels"
def tJoinRules : Str := bs "m.room.join_rules"
def tThirdPartyInvite : Str := bs "m.room.third_party_invite"
def tAliases : Str := bs "m.room.aliases"
def tRedaction : Str := bs "m.room.redaction"

def mJoin : Str := bs "join"
def mInvite : Str := bs "invite"
def mLeave : Str := bs "leave"
def mBan : Str := bs "ban"
def mKnock : Str := bs "knock"

def jrPublic : Str := bs "public"
def jrInvite : Str := bs "invite"
def jrKnock : Str := bs "knock"
def jrRestricted : Str := bs "restricted"
def jrKnockRestricted : Str := bs "knock_restricted"

/-- `TimelineEventType::from(&str)` followed by `to_string()`: with the default feature set the one
alias is the unstable spelling of `m.call.sdp_stream_metadata_changed`. Applied to the keys of the
`events` map of a power-levels content (the map's key type is `TimelineEventType`). -/
def canonType (s : Str) : Str :=
  if s = bs "org.matrix.call.sdp_stream_metadata_changed" then bs "m.call.sdp_stream_metadata_changed"
  else s

/-! ## Lazy content accessors -/

/-- A required string field (`field: SomeStringEnum`). -/
def strField (c : Obj) (k : Str) : Res Str :=
  match Obj.get c k with
  | some (.str s) => .ok s
  | _ => .error ()

/-- `RoomMemberEventContent::membership`. -/
def contentMembership (c : Obj) : Res Str := strField c (bs "membership")

/-- `RoomJoinRulesEvent::join_rule`. -/
def contentJoinRule (c : Obj) : Res Str := strField c (bs "join_rule")

/-- `field: Option<OwnedUserId>`. -/
def optUserIdField (c : Obj) (k : Str) : Res (Option Str) :=
  match Obj.get c k with
  | none => .ok none
  | some .null => .ok none
  | some (.str s) => if validUserId s then .ok (some s) else .error ()
  | some _ => .error ()

/-- `RoomMemberEventContent::join_authorised_via_users_server`. -/
def contentJoinAuthorised (c : Obj) : Res (Option Str) :=
  optUserIdField c (bs "join_authorised_via_users_server")

/-- `signed: CanonicalJsonObject` deserialized from a JSON value. -/
def toCanonObj (v : JVal) : Res Obj :=
  match v with
  | .obj kvs =>
    match Canonical.normalizeMap kvs with
    | .ok o => .ok o
    | .error _ => .error ()
  | _ => .error ()

/-- `RoomMemberEventContent::third_party_invite`: `Option<ThirdPartyInvite { signed }>`; the result is
the `signed` object. (serde also accepts the one-element sequence form of a struct.) -/
def contentThirdPartyInvite (c : Obj) : Res (Option Obj) :=
  match Obj.get c (bs "third_party_invite") with
  | none => .ok none
  | some .null => .ok none
  | some (.obj o) =>
    match Obj.get o (bs "signed") with
    | some v => (toCanonObj v).map some
    | none => .error ()
  | some (.arr [v]) => (toCanonObj v).map some
  | some _ => .error ()

/-- `ThirdPartyInvite::token`. -/
def tpiToken (signed : Obj) : Res Str := strField signed (bs "token")
/-- `ThirdPartyInvite::mxid`. -/
def tpiMxid (signed : Obj) : Res Str := strField signed (bs "mxid")
/-- `ThirdPartyInvite::signatures`. -/
def tpiSignatures (signed : Obj) : Res Obj :=
  match Obj.get signed (bs "signatures") with
  | some (.obj o) => .ok o
  | _ => .error ()

/-- One element of `public_keys: Vec<PublicKey { public_key }>`. -/
def publicKeyEntry : JVal → Res Str
  | .obj o => strField o (bs "public_key")
  | .arr [.str s] => .ok s
  | _ => .error ()

def publicKeyEntries : List JVal → Res (List Str)
  | [] => .ok []
  | v :: t => do
    let k ← publicKeyEntry v
    let ks ← publicKeyEntries t
    .ok (k :: ks)

/-- `RoomThirdPartyInviteEvent::public_keys` (as a list; the code collects a set). -/
def tpiPublicKeys (c : Obj) : Res (List Str) := do
  let pk ← match Obj.get c (bs "public_key") with
    | none => Except.ok none
    | some .null => .ok none
    | some (.str s) => .ok (some s)
    | some _ => .error ()
  let pks ← match Obj.get c (bs "public_keys") with
    | none => Except.ok []
    | some (.arr xs) => publicKeyEntries xs
    | some _ => .error ()
  .ok (pk.toList ++ pks)

/-- One entity of the signature loop: some (key id, signature) of it verifies against some public
key. Anything that does not parse is skipped (`verified` only lists triples that parse). -/
def entityVerifies (verified : List (Str × Str × Str)) (pks : List Str) (ent : List (Str × JVal)) : Bool :=
  ent.any fun kv =>
    match kv.2 with
    | .str sig => pks.any (fun pk => verified.contains (kv.1, sig, pk))
    | _ => false

/-- The signature loop of `check_third_party_invite`: entities in map order; an entity that is not
an object is an error at the moment it is reached; the first verifying (key id, signature, public
key) allows. The cryptographic check is the oracle `verified` (see `Event.tpiVerified`). -/
def tpiSignatureOk (verified : List (Str × Str × Str)) (pks : List Str) : Obj → Res Bool
  | [] => .ok false
  | (_, .obj ent) :: t =>
    if entityVerifies verified pks ent then .ok true else tpiSignatureOk verified pks t
  | (_, _) :: _ => .error ()

/-- `RoomCreateEvent::federate`. -/
def createFederate (c : Obj) : Res Bool :=
  match Obj.get c (bs "m.federate") with
  | none => .ok true
  | some .null => .ok true
  | some (.bool b) => .ok b
  | some _ => .error ()

/-- `RoomCreateEvent::has_creator` (`creator: Option<IgnoredAny>`). -/
def createHasCreator (c : Obj) : Bool :=
  match Obj.get c (bs "creator") with
  | none => false
  | some .null => false
  | some _ => true

/-- `RoomCreateEvent::creator`. -/
def createCreator (rules : AuthRules) (create : Event) : Res Str :=
  if rules.useRoomCreateSender then .ok create.sender
  else
    match Obj.get create.content (bs "creator") with
    | some (.str s) => if validUserId s then .ok s else .error ()
    | _ => .error ()

/-! ## Power levels -/

/-- `js_int::MAX_SAFE_INT`. -/
def maxInt : Int := 9007199254740991

def inRange (i : Int) : Bool := decide (-maxInt ≤ i) && decide (i ≤ maxInt)

/-- `js_int` range check on a parsed value. -/
def checkedLevel : Option Int → Res Int
  | some v => if inRange v then .ok v else .error ()
  | none => .error ()

/-- `visit_str` of `deserialize_v1_powerlevel`: trim; with a leading `+` the rest must not start with
another `+` and is parsed as `UInt`; otherwise parse as `Int`. -/
def parseV1String (s : Str) : Res Int :=
  match trim s with
  | 43 :: rest => if rest.head? = some 43 then .error () else checkedLevel (unsignedDecimal rest)
  | t => checkedLevel (signedDecimal t)

/-- One power level value: `from_json_value::<Int>` when `integer_power_levels`, else
`deserialize_v1_powerlevel`. -/
def plInt (rules : AuthRules) (v : JVal) : Res Int :=
  match v with
  | .int i => if inRange i then .ok i else .error ()
  | .str s => if rules.integerPowerLevels then .error () else parseV1String s
  | _ => .error ()

/-- `RoomPowerLevelsIntField`. -/
inductive PLField where
  | usersDefault | eventsDefault | stateDefault | ban | redact | kick | invite
  deriving DecidableEq, Repr

/-- `RoomPowerLevelsIntField::ALL`. -/
def PLField.all : List PLField :=
  [.usersDefault, .eventsDefault, .stateDefault, .ban, .redact, .kick, .invite]

def PLField.key : PLField → Str
  | .usersDefault => bs "users_default"
  | .eventsDefault => bs "events_default"
  | .stateDefault => bs "state_default"
  | .ban => bs "ban"
  | .redact => bs "redact"
  | .kick => bs "kick"
  | .invite => bs "invite"

/-- `RoomPowerLevelsIntField::default_value`. -/
def PLField.default : PLField → Int
  | .usersDefault | .eventsDefault | .invite => 0
  | .stateDefault | .kick | .ban | .redact => 50

/-- `RoomPowerLevelsEvent::get_as_int`. -/
def getAsInt (rules : AuthRules) (c : Obj) (fld : PLField) : Res (Option Int) :=
  match Obj.get c fld.key with
  | none => .ok none
  | some v => (plInt rules v).map some

/-- `RoomPowerLevelsEvent::get_as_int_or_default`. -/
def getAsIntOrDefault (rules : AuthRules) (c : Obj) (fld : PLField) : Res Int :=
  (getAsInt rules c fld).map (fun o => o.getD fld.default)

/-- A deserialized `BTreeMap<K, Int>` as the list of its insertions, in order. -/
abbrev PLMap := List (Str × Int)

/-- `BTreeMap::get` on the insertion list: the last insertion with that key. -/
def lastGet : PLMap → Str → Option Int
  | [], _ => none
  | (k', v) :: t, k =>
    match lastGet t k with
    | some x => some x
    | none => if k' = k then some v else none

def intMapEntries (rules : AuthRules) (keyOf : Str → Option Str) : List (Str × JVal) → Res PLMap
  | [] => .ok []
  | (k, v) :: t =>
    match keyOf k with
    | none => .error ()
    | some k' => do
      let i ← plInt rules v
      let rest ← intMapEntries rules keyOf t
      .ok ((k', i) :: rest)

/-- `RoomPowerLevelsEvent::get_as_int_map`: absent → `None`; otherwise it must be an object whose
keys deserialize as `K` (`keyOf`) and whose values are power levels. -/
def getAsIntMap (rules : AuthRules) (c : Obj) (field : Str) (keyOf : Str → Option Str) :
    Res (Option PLMap) :=
  match Obj.get c field with
  | none => .ok none
  | some (.obj kvs) => (intMapEntries rules keyOf kvs).map some
  | some _ => .error ()

/-- `events(rules)`: keys are `TimelineEventType`s. -/
def plEvents (rules : AuthRules) (c : Obj) : Res (Option PLMap) :=
  getAsIntMap rules c (bs "events") (fun k => some (canonType k))

/-- `notifications(rules)`: keys are strings. -/
def plNotifications (rules : AuthRules) (c : Obj) : Res (Option PLMap) :=
  getAsIntMap rules c (bs "notifications") some

/-- `users(rules)`: keys are `OwnedUserId`s. -/
def plUsers (rules : AuthRules) (c : Obj) : Res (Option PLMap) :=
  getAsIntMap rules c (bs "users") (fun k => if validUserId k then some k else none)

/-- `DEFAULT_CREATOR_POWER_LEVEL`. -/
def defaultCreatorPowerLevel : Int := 100

/-- `Option<RoomPowerLevelsEvent>::user_power_level`. -/
def plUserLevel (rules : AuthRules) (pl : Option Event) (user creator : Str) : Res Int :=
  match pl with
  | some e => do
    let users ← plUsers rules e.content
    match users.bind (lastGet · user) with
    | some l => .ok l
    | none => getAsIntOrDefault rules e.content .usersDefault
  | none => .ok (if user = creator then defaultCreatorPowerLevel else PLField.usersDefault.default)

/-- `Option<RoomPowerLevelsEvent>::get_as_int_or_default`. -/
def plIntOrDefault (rules : AuthRules) (pl : Option Event) (fld : PLField) : Res Int :=
  match pl with
  | some e => getAsIntOrDefault rules e.content fld
  | none => .ok fld.default

/-- `Option<RoomPowerLevelsEvent>::event_power_level`. -/
def plEventLevel (rules : AuthRules) (pl : Option Event) (type : Str) (hasStateKey : Bool) : Res Int :=
  let dflt : PLField := if hasStateKey then .stateDefault else .eventsDefault
  match pl with
  | some e => do
    let events ← plEvents rules e.content
    match events.bind (lastGet · type) with
    | some l => .ok l
    | none => getAsIntOrDefault rules e.content dflt
  | none => .ok dflt.default

/-- `RoomPowerLevelsEvent::int_fields_map`: every present field must parse. -/
def intFieldsMap (rules : AuthRules) (c : Obj) : List PLField → Res (List (PLField × Int))
  | [] => .ok []
  | fld :: t => do
    let v ← getAsInt rules c fld
    let rest ← intFieldsMap rules c t
    .ok (match v with
      | some i => (fld, i) :: rest
      | none => rest)

def fieldsGet (m : List (PLField × Int)) (fld : PLField) : Option Int :=
  (m.find? (·.1 = fld)).map (·.2)

def plKeys (m : Option PLMap) : List Str :=
  match m with
  | some l => l.map (·.1)
  | none => []

/-- `check_power_level_maps`: `true` = no key is rejected. -/
def checkPowerLevelMaps (current new : Option PLMap) (senderLevel : Int)
    (rejectCurrent : Str → Int → Bool) : Bool :=
  (plKeys current ++ plKeys new).all fun k =>
    let c := current.bind (lastGet · k)
    let n := new.bind (lastGet · k)
    c == n ||
      !((match c with
          | some x => rejectCurrent k x
          | none => false) ||
        (match n with
          | some y => decide (y > senderLevel)
          | none => false))

/-- The loop over `RoomPowerLevelsIntField::ALL` in `check_room_power_levels`. -/
def checkIntFields (rules : AuthRules) (curContent : Obj) (newInts : List (PLField × Int))
    (senderLevel : Int) : List PLField → Res Unit
  | [] => .ok ()
  | fld :: t => do
    let cur ← getAsInt rules curContent fld
    let new := fieldsGet newInts fld
    if cur == new then checkIntFields rules curContent newInts senderLevel t
    else if cur.getD fld.default > senderLevel || new.getD fld.default > senderLevel then .error ()
    else checkIntFields rules curContent newInts senderLevel t

/-- `check_room_power_levels`. -/
def checkRoomPowerLevels (rules : AuthRules) (ev : Event) (pl : Option Event) (senderLevel : Int) :
    Res Unit := do
  let newInts ← intFieldsMap rules ev.content PLField.all
  let newEvents ← plEvents rules ev.content
  let newNotifications ← plNotifications rules ev.content
  let newUsers ← plUsers rules ev.content
  match pl with
  | none => .ok ()
  | some cur => do
    checkIntFields rules cur.content newInts senderLevel PLField.all
    let curEvents ← plEvents rules cur.content
    require (checkPowerLevelMaps curEvents newEvents senderLevel (fun _ l => decide (l > senderLevel)))
    if rules.limitNotificationsPowerLevels then do
      let curNotifications ← plNotifications rules cur.content
      require (checkPowerLevelMaps curNotifications newNotifications senderLevel
        (fun _ l => decide (l > senderLevel)))
      let curUsers ← plUsers rules cur.content
      require (checkPowerLevelMaps curUsers newUsers senderLevel
        (fun u l => u ≠ ev.sender && decide (l ≥ senderLevel)))
    else do
      let curUsers ← plUsers rules cur.content
      require (checkPowerLevelMaps curUsers newUsers senderLevel
        (fun u l => u ≠ ev.sender && decide (l ≥ senderLevel)))

/-- `check_room_redaction` (room versions 1–2). -/
def checkRoomRedaction (rules : AuthRules) (ev : Event) (pl : Option Event) (senderLevel : Int) :
    Res Unit := do
  let redactLevel ← plIntOrDefault rules pl .redact
  if senderLevel ≥ redactLevel then .ok ()
  else require (eventServer ev.eventId == ev.redacts.bind eventServer)

/-! ## State reads (`FetchStateExt`) -/

/-- `fetch_state.room_create_event()`. -/
def fetchCreate (f : Fetch) : Res Event :=
  match f tCreate [] with
  | some e => .ok e
  | none => .error ()

/-- `fetch_state.user_membership(user)`: `leave` without a member event. -/
def userMembership (f : Fetch) (user : Str) : Res Str :=
  match f tMember user with
  | some e => contentMembership e.content
  | none => .ok mLeave

/-- `fetch_state.room_power_levels_event()`. -/
def fetchPowerLevels (f : Fetch) : Option Event := f tPowerLevels []

/-- `fetch_state.join_rule()`. -/
def joinRule (f : Fetch) : Res Str :=
  match f tJoinRules [] with
  | some e => contentJoinRule e.content
  | none => .error ()

/-- `fetch_state.room_third_party_invite_event(token)`. -/
def fetchThirdPartyInvite (f : Fetch) (token : Str) : Option Event := f tThirdPartyInvite token

/-! ## `m.room.create` -/

/-- `check_room_create`. -/
def checkRoomCreate (rules : AuthRules) (ev : Event) : Res Unit := do
  require ev.prevEvents.isEmpty
  match roomServer ev.roomId with
  | none => .error ()
  | some s => do
    require (some s == userServer ev.sender)
    require (rules.useRoomCreateSender || createHasCreator ev.content)

/-! ## `m.room.member` -/

/-- `check_room_member_join`. -/
def checkMemberJoin (rules : AuthRules) (ev : Event) (target : Str) (create : Event) (f : Fetch) :
    Res Unit := do
  let creator ← createCreator rules create
  if ev.prevEvents == [create.eventId] && target == creator then .ok ()
  else do
    require (ev.sender == target)
    let current ← userMembership f target
    require (current != mBan)
    let jr ← joinRule f
    if (jr == jrInvite || rules.knocking && jr == jrKnock) && (current == mInvite || current == mJoin) then
      .ok ()
    else if rules.restrictedJoinRule && jr == jrRestricted
          || rules.knockRestrictedJoinRule && jr == jrKnockRestricted then
      if current == mJoin || current == mInvite then .ok ()
      else do
        let via ← contentJoinAuthorised ev.content
        match via with
        | none => .error ()
        | some u => do
          let um ← userMembership f u
          require (um == mJoin)
          let pl := fetchPowerLevels f
          let ul ← plUserLevel rules pl u creator
          let inviteLevel ← plIntOrDefault rules pl .invite
          require (decide (ul ≥ inviteLevel))
    else require (jr == jrPublic)

/-- `check_third_party_invite`. -/
def checkThirdPartyInvite (ev : Event) (signed : Obj) (target : Str) (f : Fetch) : Res Unit := do
  let tm ← userMembership f target
  require (tm != mBan)
  let token ← tpiToken signed
  let mxid ← tpiMxid signed
  require (target == mxid)
  match fetchThirdPartyInvite f token with
  | none => .error ()
  | some te => do
    require (ev.sender == te.sender)
    let pks ← tpiPublicKeys te.content
    let sigs ← tpiSignatures signed
    let good ← tpiSignatureOk ev.tpiVerified pks sigs
    require good

/-- `check_room_member_invite`. -/
def checkMemberInvite (rules : AuthRules) (ev : Event) (target : Str) (create : Event) (f : Fetch) :
    Res Unit := do
  let tpi ← contentThirdPartyInvite ev.content
  match tpi with
  | some signed => checkThirdPartyInvite ev signed target f
  | none => do
    let sm ← userMembership f ev.sender
    require (sm == mJoin)
    let tm ← userMembership f target
    require (!(tm == mJoin || tm == mBan))
    let creator ← createCreator rules create
    let pl := fetchPowerLevels f
    let sl ← plUserLevel rules pl ev.sender creator
    let inviteLevel ← plIntOrDefault rules pl .invite
    require (decide (sl ≥ inviteLevel))

/-- `check_room_member_leave`. -/
def checkMemberLeave (rules : AuthRules) (ev : Event) (target : Str) (create : Event) (f : Fetch) :
    Res Unit := do
  let sm ← userMembership f ev.sender
  if ev.sender == target then
    require (sm == mJoin || sm == mInvite || rules.knocking && sm == mKnock)
  else do
    require (sm == mJoin)
    let creator ← createCreator rules create
    let pl := fetchPowerLevels f
    let tm ← userMembership f target
    let sl ← plUserLevel rules pl ev.sender creator
    let banLevel ← plIntOrDefault rules pl .ban
    require (!(tm == mBan && decide (sl < banLevel)))
    let kickLevel ← plIntOrDefault rules pl .kick
    let tl ← plUserLevel rules pl target creator
    require (decide (sl ≥ kickLevel) && decide (tl < sl))

/-- `check_room_member_ban`. -/
def checkMemberBan (rules : AuthRules) (ev : Event) (target : Str) (create : Event) (f : Fetch) :
    Res Unit := do
  let sm ← userMembership f ev.sender
  require (sm == mJoin)
  let creator ← createCreator rules create
  let pl := fetchPowerLevels f
  let sl ← plUserLevel rules pl ev.sender creator
  let banLevel ← plIntOrDefault rules pl .ban
  let tl ← plUserLevel rules pl target creator
  require (decide (sl ≥ banLevel) && decide (tl < sl))

/-- `check_room_member_knock`. -/
def checkMemberKnock (rules : AuthRules) (ev : Event) (target : Str) (f : Fetch) : Res Unit := do
  let jr ← joinRule f
  require (jr == jrKnock || rules.knockRestrictedJoinRule && jr == jrKnockRestricted)
  require (ev.sender == target)
  let sm ← userMembership f ev.sender
  require (!(sm == mBan || sm == mInvite || sm == mJoin))

/-- `check_room_member`. -/
def checkRoomMember (rules : AuthRules) (ev : Event) (create : Event) (f : Fetch) : Res Unit :=
  match ev.stateKey with
  | none => .error ()
  | some target => do
    require (validUserId target)
    let m ← contentMembership ev.content
    if m == mJoin then checkMemberJoin rules ev target create f
    else if m == mInvite then checkMemberInvite rules ev target create f
    else if m == mLeave then checkMemberLeave rules ev target create f
    else if m == mBan then checkMemberBan rules ev target create f
    else if m == mKnock && rules.knocking then checkMemberKnock rules ev target f
    else .error ()

/-! ## `auth_check` -/

/-- `state_key.is_some_and(|k| k.starts_with('@')) && state_key != Some(sender)`. -/
def foreignUserStateKey (ev : Event) : Bool :=
  match ev.stateKey with
  | some k => k.head? == some 64 && k != ev.sender
  | none => false

/-- `auth_check`, as a `Result`. -/
def authCheckR (rules : AuthRules) (ev : Event) (f : Fetch) : Res Unit :=
  if ev.type == tCreate then checkRoomCreate rules ev
  else do
    let create ← fetchCreate f
    require (ev.authEvents.contains create.eventId)
    let federate ← createFederate create.content
    require (federate || userServer create.sender == userServer ev.sender)
    if rules.specialCaseRoomAliases && ev.type == tAliases then
      -- `state_key() != Some(sender.server_name())`: no state key never matches
      require (match ev.stateKey with
        | some k => some k == userServer ev.sender
        | none => false)
    else if ev.type == tMember then checkRoomMember rules ev create f
    else do
      let sm ← userMembership f ev.sender
      require (sm == mJoin)
      let creator ← createCreator rules create
      let pl := fetchPowerLevels f
      let senderLevel ← plUserLevel rules pl ev.sender creator
      if ev.type == tThirdPartyInvite then do
        let inviteLevel ← plIntOrDefault rules pl .invite
        require (decide (senderLevel ≥ inviteLevel))
      else do
        let required ← plEventLevel rules pl ev.type ev.stateKey.isSome
        require (decide (senderLevel ≥ required))
        require (!foreignUserStateKey ev)
        if ev.type == tPowerLevels then checkRoomPowerLevels rules ev pl senderLevel
        else if rules.specialCaseRoomRedaction && ev.type == tRedaction then
          checkRoomRedaction rules ev pl senderLevel
        else .ok ()

/-- `auth_check(...).is_ok()`: `true` = allowed. -/
def authCheck (rules : AuthRules) (ev : Event) (f : Fetch) : Bool :=
  match authCheckR rules ev f with
  | .ok _ => true
  | .error _ => false

/-! ## `auth_types_for_event` -/

/-- `if !auth_types.contains(&key) { auth_types.push(key) }`. -/
def pushNew (l : List (Str × Str)) (k : Str × Str) : List (Str × Str) :=
  if l.contains k then l else l ++ [k]

/-- The third-party-invite item of `auth_types_for_event` (`membership == invite`). -/
def tpiAuthType (c : Obj) (l : List (Str × Str)) : Res (List (Str × Str)) := do
  let tpi ← contentThirdPartyInvite c
  match tpi with
  | some signed => do
    let token ← tpiToken signed
    .ok (pushNew l (tThirdPartyInvite, token))
  | none => .ok l

/-- The `join_authorised_via_users_server` item (`membership == join && rules.restricted_join_rule`). -/
def authorisedAuthType (c : Obj) (l : List (Str × Str)) : Res (List (Str × Str)) := do
  let via ← contentJoinAuthorised c
  match via with
  | some u => .ok (pushNew l (tMember, u))
  | none => .ok l

/-- `auth_types_for_event(event_type, sender, state_key, content, rules)`. -/
def authTypesForEvent (rules : AuthRules) (ev : Event) : Except Unit (List (Str × Str)) :=
  if ev.type == tCreate then .ok []
  else
    let base : List (Str × Str) := [(tPowerLevels, []), (tMember, ev.sender), (tCreate, [])]
    if ev.type == tMember then
      match ev.stateKey with
      | none => .error ()
      | some sk => do
        let l1 := pushNew base (tMember, sk)
        let m ← contentMembership ev.content
        let l2 := if m == mJoin || m == mInvite || m == mKnock then pushNew l1 (tJoinRules, []) else l1
        (if m == mInvite then tpiAuthType ev.content l2 else .ok l2) >>= fun l3 =>
          if m == mJoin && rules.restrictedJoinRule then authorisedAuthType ev.content l3 else .ok l3
    else .ok base

end Ruma.Auth
