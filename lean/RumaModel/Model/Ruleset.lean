/-
  Model of the push ruleset edit functions of `crates/ruma-common/src/push.rs`
  (`Ruleset::{insert, get, set_enabled, set_actions, remove}`, `insert_and_move_rule`) and of the
  server-default ruleset of `push/predefined.rs`, branch for branch, in the statement order of the
  Rust. Every `&mut self` function returns the new value together with the result.

  `IndexSet<Rule>` (rules hash and compare by `rule_id` only) is a `List Rule`; the indexmap
  operations are modelled from their documentation (trusted, exercised by T2 on every run):
    * `get_index_of(id)` / `get(id)`  — index / value of the entry with that key;
    * `replace_full(v)`   — "replacing the existing value, if any, that is equal to the given one,
                            without altering its insertion order"; otherwise appended. Returns the
                            index and the replaced value;
    * `move_index(from, to)` — "moves the position of a value from one index to another by shifting
                            all other values in-between. Panics if `from` or `to` are out of bounds";
    * `shift_remove(id)`  — removes the entry, "shifting all of the elements that follow it".
  Panics (`move_index` out of bounds, `unreachable!()` in `remove`) are explicit outcomes.
-/
import RumaModel.Spec.RulesetPlacement
namespace Ruma.Ruleset

/-! ### indexmap -/

/-- `IndexSet::get_index_of(rule_id)`. -/
def getIndexOf : List Rule → Str → Option Nat
  | [], _ => none
  | r :: t, id => if r.id = id then some 0 else (getIndexOf t id).map (· + 1)

/-- `IndexSet::get(rule_id)`. -/
def getRule : List Rule → Str → Option Rule
  | [], _ => none
  | r :: t, id => if r.id = id then some r else getRule t id

/-- `IndexSet::replace_full(rule)`: the new set, the index of the rule, the replaced value. -/
def replaceFull (set : List Rule) (rule : Rule) : List Rule × Nat × Option Rule :=
  match getIndexOf set rule.id with
  | some i => (set.set i rule, i, set[i]?)
  | none => (set ++ [rule], set.length, none)

/-- `IndexSet::replace(rule)` (the replaced value is not used by the callers). -/
def replace (set : List Rule) (rule : Rule) : List Rule := (replaceFull set rule).1

/-- `IndexSet::move_index(from, to)`; `none` = panic (an index is out of bounds). -/
def moveIndex (set : List Rule) (frm to : Nat) : Option (List Rule) :=
  if h : frm < set.length ∧ to < set.length then
    some ((set.eraseIdx frm).insertIdx to set[frm])
  else none

/-- `IndexSet::shift_remove(rule_id)`. -/
def shiftRemove (set : List Rule) (id : Str) : List Rule :=
  match getIndexOf set id with
  | some i => set.eraseIdx i
  | none => set

/-! ### `str` predicates used by `Ruleset::insert` -/

/-- `s.starts_with('.')` -/
def startsWithDot : Str → Bool
  | 46 :: _ => true
  | _ => false

/-- `s.contains('/')`, `s.contains('\\')` -/
def containsSlash (s : Str) : Bool := s.contains 47
def containsBackslash (s : Str) : Bool := s.contains 92

/-- `opt.is_some_and(|s| s.starts_with('.'))` -/
def optStartsWithDot : Option Str → Bool
  | some s => startsWithDot s
  | none => false

/-! ### errors -/

/-- `InsertPushRuleError` -/
inductive InsertErr where
  | serverDefaultRuleId | invalidRuleId | relativeToServerDefaultRule | unknownRuleId
  | beforeHigherThanAfter
  deriving DecidableEq, Repr

/-- `RemovePushRuleError` -/
inductive RemoveErr where
  | serverDefault | notFound
  deriving DecidableEq, Repr

/-- The class under which the correspondence check (and the property) sees an error. -/
def InsertErr.cls : InsertErr → ErrClass
  | .serverDefaultRuleId => .prot
  | .relativeToServerDefaultRule => .prot
  | .invalidRuleId => .invalid
  | .unknownRuleId => .unknown
  | .beforeHigherThanAfter => .order

def RemoveErr.cls : RemoveErr → ErrClass
  | .serverDefault => .prot
  | .notFound => .unknown

/-- Result of `insert_and_move_rule`. -/
inductive InsRes where
  | ok
  | err (e : InsertErr)
  | panic
  deriving DecidableEq, Repr

def InsRes.outcome : InsRes → Outcome
  | .ok => .ok
  | .err e => .err e.cls
  | .panic => .panic

/-! ### `insert_and_move_rule` -/

/-- The closure `position_of`: index of the rule `rule_id` in the set without the rule being
inserted (`current` = index of that rule, if it exists). -/
def positionOf (set : List Rule) (current : Option Nat) (ruleId : Str) : Except InsertErr Nat :=
  match getIndexOf set ruleId, current with
  | some idx, some cur =>
    if idx = cur then .error .unknownRuleId      -- a rule can't be placed relative to itself
    else if idx > cur then .ok (idx - 1)
    else .ok idx
  | some idx, none => .ok idx
  | none, _ => .error .unknownRuleId

/-- `to` after the `if let Some(rule_id) = after` statement. -/
def toAfter (set : List Rule) (current : Option Nat) (to0 : Nat) : Option Str → Except InsertErr Nat
  | some ruleId =>
    match positionOf set current ruleId with
    | .ok idx => .ok (idx + 1)
    | .error e => .error e
  | none => .ok to0

/-- `to` after the `if let Some(rule_id) = before` statement. -/
def toBefore (set : List Rule) (current : Option Nat) (after : Option Str) (to1 : Nat) :
    Option Str → Except InsertErr Nat
  | some ruleId =>
    match positionOf set current ruleId with
    | .ok idx => if after.isSome && decide (idx < to1) then .error .beforeHigherThanAfter else .ok idx
    | .error e => .error e
  | none => .ok to1

/-- The last statements of `insert_and_move_rule`, once `to` is known:
`let (from, replaced) = set.replace_full(rule);` and the conditional `set.move_index(from, to)`. -/
def replaceAndMove (set : List Rule) (rule : Rule) (after before : Option Str) (to : Nat) :
    List Rule × InsRes :=
  let rf := replaceFull set rule          -- the set afterwards, `from`, `replaced`
  -- Only move the item if it's new or if it was positioned.
  if rf.2.2.isNone || after.isSome || before.isSome then
    match moveIndex rf.1 rf.2.1 to with
    | some set' => (set', .ok)
    | none => (rf.1, .panic)
  else (rf.1, .ok)

/-- `insert_and_move_rule(set, rule, default_position, after, before)`. -/
def insertAndMoveRule (set : List Rule) (rule : Rule) (defaultPosition : Nat)
    (after before : Option Str) : List Rule × InsRes :=
  let current := getIndexOf set rule.id
  let len := set.length - (if current.isSome then 1 else 0)
  let to0 := min defaultPosition len
  match toAfter set current to0 after with
  | .error e => (set, .err e)
  | .ok to1 =>
    match toBefore set current after to1 before with
    | .error e => (set, .err e)
    | .ok to => replaceAndMove set rule after before to

/-! ### `Ruleset` methods -/

/-- The `default_position` argument chosen per kind in `Ruleset::insert`. -/
def defaultPositionOf : Kind → Nat
  | .override => 1
  | _ => 0

/-- `let mut rule = …PushRule::from(r);` (`default: false, enabled: true`) followed by
`if let Some(prev_rule) = set.get(rule.rule_id) { rule.enabled = prev_rule.enabled; }`. -/
def ruleToInsert (set : List Rule) (id : Str) (actions : Nat) : Rule :=
  let rule : Rule := { id := id, enabled := true, dflt := false, actions := actions }
  match getRule set id with
  | some prev => { rule with enabled := prev.enabled }
  | none => rule

/-- `Ruleset::insert(rule, after, before)` for a new rule of kind `k` with id `id` and actions
`actions` (`From<New…PushRule>` sets `default: false, enabled: true`). -/
def insert (s : State) (k : Kind) (id : Str) (actions : Nat) (after before : Option Str) :
    State × Outcome :=
  if startsWithDot id then (s, .err InsertErr.serverDefaultRuleId.cls)
  else if containsSlash id then (s, .err InsertErr.invalidRuleId.cls)
  else if containsBackslash id then (s, .err InsertErr.invalidRuleId.cls)
  else if optStartsWithDot after then (s, .err InsertErr.relativeToServerDefaultRule.cls)
  else if optStartsWithDot before then (s, .err InsertErr.relativeToServerDefaultRule.cls)
  else
    let rule := ruleToInsert (s.get k) id actions
    let res := insertAndMoveRule (s.get k) rule (defaultPositionOf k) after before
    (s.set k res.1, res.2.outcome)

/-- `Ruleset::get(kind, rule_id)`. -/
def get (s : State) : KindArg → Str → Option Rule
  | .known k, id => getRule (s.get k) id
  | .custom, _ => none

/-- `Ruleset::set_enabled(kind, rule_id, enabled)`. -/
def setEnabled (s : State) : KindArg → Str → Bool → State × Outcome
  | .known k, id, on =>
    match getRule (s.get k) id with
    | none => (s, .err .unknown)
    | some rule => (s.set k (replace (s.get k) { rule with enabled := on }), .ok)
  | .custom, _, _ => (s, .err .unknown)

/-- `Ruleset::set_actions(kind, rule_id, actions)`. -/
def setActions (s : State) : KindArg → Str → Nat → State × Outcome
  | .known k, id, actions =>
    match getRule (s.get k) id with
    | none => (s, .err .unknown)
    | some rule => (s.set k (replace (s.get k) { rule with actions := actions }), .ok)
  | .custom, _, _ => (s, .err .unknown)

/-- `Ruleset::remove(kind, rule_id)`. `is_server_default()` reads the rule's `default` flag. -/
def remove (s : State) (kind : KindArg) (id : Str) : State × Outcome :=
  match get s kind id with
  | some rule =>
    if rule.dflt then (s, .err RemoveErr.serverDefault.cls)
    else
      match kind with
      | .known k => (s.set k (shiftRemove (s.get k) id), .ok)
      | .custom => (s, .panic)            -- `unreachable!()`
  | none => (s, .err RemoveErr.notFound.cls)

/-- One operation. -/
def step (s : State) : Op → State × Outcome
  | .insert k id actions after before => insert s k id actions after before
  | .remove k id => remove s k id
  | .setEnabled k id on => setEnabled s k id on
  | .setActions k id actions => setActions s k id actions
  | .get k id => (s, .got (get s k id))

/-- A whole operation sequence: the final ruleset and the outcomes in order. (The caller of a Rust
program does not continue after a panic; the trace printed by the driver stops there.) -/
def run (s : State) : List Op → State × List Outcome
  | [] => (s, [])
  | op :: ops =>
    let (s', o) := step s op
    let (s'', os) := run s' ops
    (s'', o :: os)

/-- The ruleset reached by an operation sequence. -/
def exec (s : State) (ops : List Op) : State := (run s ops).1

/-! ### `Ruleset::server_default(user_id)` (default feature set) -/

/-- A server-default rule: `default: true`. -/
def dr (id : String) (enabled : Bool) (actions : Nat) : Rule :=
  { id := bs id, enabled := enabled, dflt := true, actions := actions }

def State.serverDefault : State :=
  { override :=
      [dr ".m.rule.master" false 0,
       dr ".m.rule.suppress_notices" true 0,
       dr ".m.rule.invite_for_me" true 3,
       dr ".m.rule.member_event" true 0,
       dr ".m.rule.is_user_mention" true 3,
       dr ".m.rule.contains_display_name" true 3,
       dr ".m.rule.is_room_mention" true 2,
       dr ".m.rule.roomnotif" true 2,
       dr ".m.rule.tombstone" true 2,
       dr ".m.rule.reaction" true 0,
       dr ".m.rule.room.server_acl" true 0,
       dr ".m.rule.suppress_edits" true 0],
    content := [dr ".m.rule.contains_user_name" true 3],
    room := [],
    sender := [],
    underride :=
      [dr ".m.rule.call" true 3,
       dr ".m.rule.encrypted_room_one_to_one" true 3,
       dr ".m.rule.room_one_to_one" true 3,
       dr ".m.rule.message" true 2,
       dr ".m.rule.encrypted" true 2] }

end Ruma.Ruleset
