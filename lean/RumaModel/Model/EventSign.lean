/-
  Model of event hashing/signing/verification in `crates/ruma-signatures/src/functions.rs`:
  `hash_and_sign_event`, `verify_event`, `servers_to_check_signatures`,
  `is_invite_via_third_party_id`, statement by statement, same error cases.

  Reused models: `Sign` (C02: `signJson`, `verifyEntities`/`verifyForEntity`, `canonicalJson`,
  the scheme `SigScheme`, base64 `b64`/`unb64` with ruma's decoding configuration), `Hash` (C05:
  `contentHash`, SHA-256 as a parameter), `Redact` (C04), `Ids` (C10: `<&UserId>::try_from`,
  `EventId::parse`, `server_name()`; `Ipv6Addr` parsing is the parameter `Ids.Ext`).

  `&mut` functions return the `Result` together with the object after the call. The one `unwrap()`
  of the modelled code is the explicit outcome `Err.panic`, proven unreachable in `Props/C03.lean`.
-/
import RumaModel.Model.Json
import RumaModel.Model.Canonical
import RumaModel.Model.Redact
import RumaModel.Model.Hash
import RumaModel.Model.Sign
import RumaModel.Model.Ids
namespace Ruma.EventSign
open Ruma Ruma.Sign

/-- `SignaturesRules`. -/
structure SigRules where
  checkEventIdServer : Bool
  checkJoinAuthorised : Bool
  deriving DecidableEq, Repr

/-- `Verified`. -/
inductive Verified where
  /-- signatures and content hash valid -/
  | all
  /-- signatures valid, content hash not (the event was redacted or altered in stripped parts) -/
  | signatures
  deriving DecidableEq, Repr

inductive Err where
  /-- `Error::PduSize` from `content_hash` -/
  | pduSize
  /-- `redact` failed -/
  | redact (e : Redact.Err)
  /-- `sign_json` / `verify_canonical_json_for_entity` failed -/
  | sign (e : Sign.Err)
  /-- `JsonError::{not_of_type, field_missing_from_object}` on the named field -/
  | json (field : Str)
  /-- `ParseError::{UserId, EventId}`: the identifier does not parse -/
  | parse (field : Str)
  /-- `ParseError::server_name_from_event_id`: an event ID without server part where one is needed -/
  | eventIdNoServer
  /-- a Rust panic (`unwrap()` on `None`, out-of-range slice) -/
  | panic
  deriving DecidableEq, Repr

def hashesKey : Str := bs "hashes"
def sha256Key : Str := bs "sha256"

/-! ### Which servers must have signed -/

/-- `is_invite_via_third_party_id`. -/
def isInviteViaThirdPartyId (o : Obj) : Except Err Bool :=
  match Obj.get o (bs "type") with
  | some (.str rawType) =>
    if rawType ≠ bs "m.room.member" then .ok false
    else
      match Obj.get o (bs "content") with
      | some (.obj content) =>
        match Obj.get content (bs "membership") with
        | some (.str membership) =>
          if membership ≠ bs "invite" then .ok false
          else
            match Obj.get content (bs "third_party_invite") with
            | some (.obj _) => .ok true
            | none => .ok false
            | some _ => .error (.json (bs "third_party_invite"))
        | _ => .error (.json (bs "membership"))
      | _ => .error (.json (bs "content"))
  | _ => .error (.json (bs "type"))

/-- `BTreeSet::insert` on a set kept as a strictly ascending list. -/
def insertSet (l : List Str) (s : Str) : List Str :=
  match l with
  | [] => [s]
  | a :: t => if a = s then a :: t else if s < a then s :: a :: t else a :: insertSet t s

/-- `<&UserId>::try_from(raw)` then `.server_name().to_owned()`. -/
def userServer (x : Ids.Ext) (field raw : Str) : Except Err Str :=
  match Ids.userIdValidate x raw with
  | .err => .error (.parse field)
  | .panic => .error .panic
  | .ok () =>
    match Ids.serverNameOf raw with
    | .ok srv => .ok srv
    | _ => .error .panic

/-- `raw.parse::<OwnedEventId>()` then `.server_name()` (an `Option`). -/
def eventIdServer (x : Ids.Ext) (raw : Str) : Except Err Str :=
  match Ids.eventIdValidate x raw with
  | .err => .error (.parse (bs "event_id"))
  | .panic => .error .panic
  | .ok () =>
    match Ids.eventServerName raw with
    | .ok (some srv) => .ok srv
    | .ok none => .error .eventIdNoServer
    | _ => .error .panic

/-- First block of `servers_to_check_signatures`: the sender's server unless the event is an invite
via a third-party invite. -/
def senderStep (x : Ids.Ext) (o : Obj) (acc : List Str) : Except Err (List Str) :=
  match isInviteViaThirdPartyId o with
  | .error e => .error e
  | .ok true => .ok acc
  | .ok false =>
    match Obj.get o (bs "sender") with
    | some (.str rawSender) =>
      match userServer x (bs "sender") rawSender with
      | .ok srv => .ok (insertSet acc srv)
      | .error e => .error e
    | _ => .error (.json (bs "sender"))

/-- Second block: `if rules.check_event_id_server`. -/
def eventIdStep (x : Ids.Ext) (o : Obj) (sr : SigRules) (acc : List Str) : Except Err (List Str) :=
  if sr.checkEventIdServer then
    match Obj.get o (bs "event_id") with
    | some (.str rawEventId) =>
      match eventIdServer x rawEventId with
      | .ok srv => .ok (insertSet acc srv)
      | .error e => .error e
    | _ => .error (.json (bs "event_id"))
  else .ok acc

/-- `object.get("content").and_then(|c| c.as_object()).and_then(|c| c.get("join_authorised_via_users_server"))`. -/
def authorisedField (o : Obj) : Option JVal :=
  match Obj.get o (bs "content") with
  | some (.obj content) => Obj.get content (bs "join_authorised_via_users_server")
  | _ => none

/-- Third block: `if rules.check_join_authorised_via_users_server`. -/
def authorisedStep (x : Ids.Ext) (o : Obj) (sr : SigRules) (acc : List Str) : Except Err (List Str) :=
  if sr.checkJoinAuthorised then
    match authorisedField o with
    | none => .ok acc
    | some (.str raw) =>
      match userServer x (bs "join_authorised_via_users_server") raw with
      | .ok srv => .ok (insertSet acc srv)
      | .error e => .error e
    | some _ => .error (.json (bs "join_authorised_via_users_server"))
  else .ok acc

/-- `servers_to_check_signatures`: the `BTreeSet` as an ascending list. -/
def serversToCheck (x : Ids.Ext) (o : Obj) (sr : SigRules) : Except Err (List Str) :=
  match senderStep x o [] with
  | .error e => .error e
  | .ok s1 =>
    match eventIdStep x o sr s1 with
    | .error e => .error e
    | .ok s2 => authorisedStep x o sr s2

/-! ### `hash_and_sign_event` -/

/-- `hash_and_sign_event(entity_id, key_pair, object, redaction_rules)`: the `Result` and the object
after the call. -/
def hashAndSignEvent (S : SigScheme) (sha256 : List Nat → List Nat) (entity : Str) (kp : KeyPair)
    (o : Obj) (rr : Redact.Rules) : Except Err Unit × Obj :=
  -- `let hash = content_hash(object)?;`
  match Hash.contentHash sha256 o with
  | .error _ => (.error .pduSize, o)
  | .ok hash =>
    -- `object.entry("hashes").or_insert_with(|| Object(BTreeMap::new()))`
    let hashesValue := match Obj.get o hashesKey with
      | some v => v
      | none => JVal.obj []
    match hashesValue with
    | .obj hashes =>
      -- `hashes.insert("sha256", String(hash.encode()))`
      let o1 := Obj.insert o hashesKey (.obj (Obj.insert hashes sha256Key (.str (b64 hash))))
      -- `let mut redacted = redact(object.clone(), redaction_rules, None)?;`
      match Redact.redact rr o1 none with
      | .error e => (.error (.redact e), o1)
      | .ok redacted =>
        -- `sign_json(entity_id, key_pair, &mut redacted)?;`
        match signJson S entity kp redacted with
        | (.error e, _) => (.error (.sign e), o1)
        | (.ok (), signed) =>
          -- `object.insert("signatures", mem::take(redacted.get_mut("signatures").unwrap()))`
          match Obj.get signed sigKey with
          | some sigs => (.ok (), Obj.insert o1 sigKey sigs)
          | none => (.error .panic, o1)
    | _ => (.error (.json hashesKey), o)

/-! ### `verify_event` -/

/-- The `let hash = match object.get("hashes") …` block: the string under `hashes.sha256`. -/
def storedHash (o : Obj) : Except Err Str :=
  match Obj.get o hashesKey with
  | some (.obj hashes) =>
    match Obj.get hashes sha256Key with
    | some (.str hash) => .ok hash
    | some _ => .error (.json sha256Key)
    | none => .error (.json hashesKey)
  | some _ => .error (.json sha256Key)
  | none => .error (.json hashesKey)

/-- `verify_event(public_key_map, object, rules)`. -/
def verifyEvent (S : SigScheme) (sha256 : List Nat → List Nat) (x : Ids.Ext) (keys : KeyMap)
    (o : Obj) (rr : Redact.Rules) (sr : SigRules) : Except Err Verified :=
  match Redact.redact rr o none with
  | .error e => .error (.redact e)
  | .ok redacted =>
    match storedHash o with
    | .error e => .error e
    | .ok hash =>
      match Obj.get o sigKey with
      | some (.obj signatureMap) =>
        match serversToCheck x o sr with
        | .error e => .error e
        | .ok servers =>
          -- `let canonical_json = canonical_json(&redacted)?;` then the loop over the servers
          match verifyEntities S keys signatureMap (canonicalJson redacted) servers with
          | .error e => .error (.sign e)
          | .ok () =>
            -- `let calculated_hash = content_hash(object)?;`
            match Hash.contentHash sha256 o with
            | .error _ => .error .pduSize
            | .ok calculated =>
              -- `if let Ok(hash) = Base64::parse(hash) { if hash == calculated { return All } }`
              match unb64 hash with
              | some decoded => if decoded = calculated then .ok .all else .ok .signatures
              | none => .ok .signatures
      | some _ => .error (.json sigKey)
      | none => .error (.json sigKey)

end Ruma.EventSign
