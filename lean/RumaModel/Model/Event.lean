/-
  Events, authorization rule flags and the identifier facts authorization needs.

  * `AuthRules` — the nine booleans of `ruma_common::room_version_rules::AuthorizationRules`
    (crates/ruma-common/src/room_version_rules.rs:172-291) and the constants `V1 … V11`.
  * `Event` — what `ruma_state_res::Event` (crates/ruma-state-res/src/events/traits.rs) exposes of a
    PDU. `content` is the parsed JSON object of the event's `content` (a PDU's content is a JSON
    object; keys unique — it is built from a `serde_json::Map`).
  * user-id / server-name validity (`ruma-identifiers-validation`), because authorization parses
    user ids out of contents (`creator`, `state_key`, `join_authorised_via_users_server`, keys of
    `users`) and rejects when they do not parse.

  Strings are UTF-8 byte lists (`Str`).
-/
import RumaModel.Model.Json
namespace Ruma

/-- `AuthorizationRules`, field for field. -/
structure AuthRules where
  specialCaseRoomRedaction : Bool
  specialCaseRoomAliases : Bool
  strictCanonicalJson : Bool
  limitNotificationsPowerLevels : Bool
  knocking : Bool
  restrictedJoinRule : Bool
  knockRestrictedJoinRule : Bool
  integerPowerLevels : Bool
  useRoomCreateSender : Bool
  deriving DecidableEq, Repr, Inhabited

namespace AuthRules

/-- `AuthorizationRules::V1`. -/
def v1 : AuthRules := ⟨true, true, false, false, false, false, false, false, false⟩
/-- `AuthorizationRules::V3 = { special_case_room_redaction: false, ..V1 }`. -/
def v3 : AuthRules := { v1 with specialCaseRoomRedaction := false }
/-- `AuthorizationRules::V6`. -/
def v6 : AuthRules :=
  { v3 with specialCaseRoomAliases := false, strictCanonicalJson := true,
            limitNotificationsPowerLevels := true }
/-- `AuthorizationRules::V7`. -/
def v7 : AuthRules := { v6 with knocking := true }
/-- `AuthorizationRules::V8`. -/
def v8 : AuthRules := { v7 with restrictedJoinRule := true }
/-- `AuthorizationRules::V10`. -/
def v10 : AuthRules := { v8 with knockRestrictedJoinRule := true, integerPowerLevels := true }
/-- `AuthorizationRules::V11`. -/
def v11 : AuthRules := { v10 with useRoomCreateSender := true }

/-- `RoomVersionId::V<n>.rules().authorization` (`RoomVersionRules::V1 … V11`). Room versions are
1 … 11; any other number has no rules. -/
def ofVersion? : Nat → Option AuthRules
  | 1 | 2 => some v1
  | 3 | 4 | 5 => some v3
  | 6 => some v6
  | 7 => some v7
  | 8 | 9 => some v8
  | 10 => some v10
  | 11 => some v11
  | _ => none

/-- What every real room version satisfies and what `auth_types_for_event` silently relies on:
`knock_restricted` support implies `restricted` support. -/
def Consistent (r : AuthRules) : Prop := r.knockRestrictedJoinRule = true → r.restrictedJoinRule = true

instance (r : AuthRules) : Decidable r.Consistent := by unfold Consistent; exact inferInstance

end AuthRules

/-- A PDU as seen through `ruma_state_res::Event`. `type` is `event_type().to_string()`.
`rejected` is carried for state resolution (authorization itself does not read it).
`tpiVerified` is the oracle for the external signature check inside third-party invites: the
triples (key id, signature string, public key string) for which
`SigningKeyId::parse`, base64 decoding of both strings and
`verify_canonical_json_bytes(alg, key, sig, canonical_json(content.third_party_invite.signed))`
all succeed. It is not part of a PDU; it stands for Ed25519 (DESIGN §3 "external code is a
parameter"). -/
structure Event where
  eventId : Str
  roomId : Str
  sender : Str
  type : Str
  stateKey : Option Str
  content : Obj
  prevEvents : List Str := []
  authEvents : List Str := []
  originServerTs : Int := 0
  redacts : Option Str := none
  rejected : Bool := false
  tpiVerified : List (Str × Str × Str) := []
  deriving Inhabited

/-- The state a check runs against: `fetch_state(type, state_key)`. -/
abbrev Fetch := Str → Str → Option Event

/-! ## Identifier syntax -/

namespace Ident

/-- Everything after the first `:` (`s[s.find(':')? + 1 ..]`). -/
def afterColon : Str → Option Str
  | [] => none
  | c :: t => if c = 58 then some t else afterColon t

/-- Everything before the first `:`; `none` if there is no `:`. -/
def beforeColon : Str → Option Str
  | [] => none
  | c :: t => if c = 58 then some [] else (beforeColon t).map (c :: ·)

def isDigit (b : Nat) : Bool := 48 ≤ b && b ≤ 57
def isHex (b : Nat) : Bool := isDigit b || (97 ≤ b && b ≤ 102) || (65 ≤ b && b ≤ 70)
def isAlnum (b : Nat) : Bool := isDigit b || (97 ≤ b && b ≤ 122) || (65 ≤ b && b ≤ 90)

/-- Value of a string of ASCII digits (most significant first). -/
def digitsVal (ds : Str) : Nat := ds.foldl (fun acc d => 10 * acc + (d - 48)) 0

/-- `is_valid_port`: 1 to 5 ASCII digits whose value fits in a `u16`. -/
def validPort (s : Str) : Bool :=
  1 ≤ s.length && s.length ≤ 5 && s.all isDigit && digitsVal s ≤ 65535

/-- `Parser::read_number(10, Some(3), false)` into a `u8`: 1–3 digits, no leading zero unless the
number is a single `0`, value ≤ 255. Returns the rest. -/
def readDec8 (s : Str) : Option Str :=
  let ds := s.takeWhile isDigit
  let n := ds.length
  if n = 0 || n > 3 then none
  else if n > 1 && ds.head? = some 48 then none
  else if digitsVal ds > 255 then none
  else some (s.drop n)

/-- `Parser::read_number(16, Some(4), true)`: 1–4 hex digits (a fifth digit fails the group). -/
def readHex16 (s : Str) : Option Str :=
  let n := (s.takeWhile isHex).length
  if n = 0 || n > 4 then none else some (s.drop n)

def readChar (c : Nat) (s : Str) : Option Str :=
  match s with
  | b :: t => if b = c then some t else none
  | [] => none

/-- `read_separator(sep, index, inner)`. -/
def readSep (sep : Nat) (index : Nat) (inner : Str → Option Str) (s : Str) : Option Str :=
  if index > 0 then (readChar sep s).bind inner else inner s

/-- `Parser::read_ipv4_addr`. -/
def readIpv4 (s : Str) : Option Str :=
  (readSep 46 0 readDec8 s).bind fun s1 =>
  (readSep 46 1 readDec8 s1).bind fun s2 =>
  (readSep 46 2 readDec8 s2).bind fun s3 =>
  readSep 46 3 readDec8 s3

/-- `read_groups` of `Parser::read_ipv6_addr`: slots `i … limit-1` (`fuel = limit - i`). Returns
(number of 16-bit groups read, whether an embedded IPv4 address ended it, rest). -/
def readGroups (limit : Nat) : Nat → Nat → Str → Nat × Bool × Str
  | 0, i, s => (i, false, s)
  | fuel + 1, i, s =>
    match (if i + 1 < limit then readSep 58 i readIpv4 s else none) with
    | some rest => (i + 2, true, rest)
    | none =>
      match readSep 58 i readHex16 s with
      | some rest => readGroups limit fuel (i + 1) rest
      | none => (i, false, s)

/-- `Ipv6Addr::from_str` succeeds (Rust `core::net::parser`, no scope id). -/
def ipv6Valid (s : Str) : Bool :=
  match readGroups 8 8 0 s with
  | (headSize, headV4, r) =>
    if headSize = 8 then r.isEmpty
    else if headV4 then false
    else
      match (readChar 58 r).bind (readChar 58) with
      | none => false
      | some r' =>
        let limit := 8 - (headSize + 1)
        match readGroups limit limit 0 r' with
        | (_, _, r'') => r''.isEmpty

/-- Index of the first `]`, with the text before it. -/
def splitBracket : Str → Option (Str × Str)
  | [] => none
  | c :: t => if c = 93 then some ([], t) else (splitBracket t).map fun p => (c :: p.1, p.2)

/-- After the host: nothing, or `:` and a port. -/
def portOk (rest : Str) : Bool :=
  match rest with
  | [] => true
  | c :: t => c = 58 && validPort t

/-- `ruma_identifiers_validation::server_name::validate`. -/
def validServerName (s : Str) : Bool :=
  match s with
  | [] => false
  | 91 :: t =>
    match splitBracket t with
    | none => false
    | some (inside, rest) => ipv6Valid inside && portOk rest
  | _ =>
    let host := s.takeWhile (· ≠ 58)
    !host.isEmpty && host.all (fun b => isAlnum b || b = 45 || b = 46) && portOk (s.drop host.length)

/-! ### Text primitives shared by model and spec (Unicode white space, decimal numerals) -/

/-- Leading Unicode `White_Space` code point of a UTF-8 string: its length in bytes, or 0. -/
def wsLen : Str → Nat
  | 0xC2 :: 0x85 :: _ => 2
  | 0xC2 :: 0xA0 :: _ => 2
  | 0xE1 :: 0x9A :: 0x80 :: _ => 3
  | 0xE2 :: 0x80 :: b :: _ => if (0x80 ≤ b ∧ b ≤ 0x8A) ∨ b = 0xA8 ∨ b = 0xA9 ∨ b = 0xAF then 3 else 0
  | 0xE2 :: 0x81 :: 0x9F :: _ => 3
  | 0xE3 :: 0x80 :: 0x80 :: _ => 3
  | b :: _ => if (9 ≤ b ∧ b ≤ 13) ∨ b = 32 then 1 else 0
  | [] => 0

/-- The same, for the reversed byte string (so: a trailing white-space code point). -/
def wsLenRev : Str → Nat
  | 0x85 :: 0xC2 :: _ => 2
  | 0xA0 :: 0xC2 :: _ => 2
  | 0x80 :: 0x9A :: 0xE1 :: _ => 3
  | 0x9F :: 0x81 :: 0xE2 :: _ => 3
  | 0x80 :: 0x80 :: 0xE3 :: _ => 3
  | b :: 0x80 :: 0xE2 :: _ =>
    if (0x80 ≤ b ∧ b ≤ 0x8A) ∨ b = 0xA8 ∨ b = 0xA9 ∨ b = 0xAF then 3
    else if (9 ≤ b ∧ b ≤ 13) ∨ b = 32 then 1 else 0
  | b :: _ => if (9 ≤ b ∧ b ≤ 13) ∨ b = 32 then 1 else 0
  | [] => 0

/-- Drop leading white space; `fuel` ≥ length suffices. -/
def dropWs (len : Str → Nat) : Nat → Str → Str
  | 0, s => s
  | fuel + 1, s => if len s = 0 then s else dropWs len fuel (s.drop (len s))

/-- `str::trim`. -/
def trim (s : Str) : Str :=
  let a := dropWs wsLen s.length s
  (dropWs wsLenRev a.length a.reverse).reverse

/-- A numeral made of ASCII digits only (at least one). -/
def natOfDigits (ds : Str) : Option Nat :=
  if ds.isEmpty || !ds.all isDigit then none else some (digitsVal ds)

/-- A base-10 integer with an optional single `+` or `-` sign (the shape `i64::from_str` accepts;
overflow of the 64-bit type needs no separate case where the js_int range is checked next). -/
def signedDecimal (s : Str) : Option Int :=
  match s with
  | 43 :: t => (natOfDigits t).map Int.ofNat
  | 45 :: t => (natOfDigits t).map fun n => -(Int.ofNat n)
  | _ => (natOfDigits s).map Int.ofNat

/-- A base-10 natural number with an optional single `+` sign (the shape `u64::from_str` accepts). -/
def unsignedDecimal (s : Str) : Option Int :=
  match s with
  | 43 :: t => (natOfDigits t).map Int.ofNat
  | _ => (natOfDigits s).map Int.ofNat

/-- `ID_MAX_BYTES`. -/
def idMaxBytes : Nat := 255

/-- `ruma_identifiers_validation::user_id::validate` (the historical grammar: `@`, a localpart
without `:` or NUL, `:`, a valid server name; at most 255 bytes). -/
def validUserId (s : Str) : Bool :=
  s.length ≤ idMaxBytes &&
  match s with
  | 64 :: t =>
    match beforeColon t, afterColon t with
    | some lp, some srv => !lp.contains 0 && validServerName srv
    | _, _ => false
  | _ => false

/-- `UserId::server_name()` (the text after the first `:`; a valid user id always has one). -/
def userServer (u : Str) : Option Str := afterColon u

/-- `RoomId::server_name()`: `None` when there is no `:` or what follows is not a server name. -/
def roomServer (r : Str) : Option Str :=
  match afterColon r with
  | some s => if validServerName s then some s else none
  | none => none

/-- `EventId::server_name()`. -/
def eventServer (e : Str) : Option Str := afterColon e

end Ident
end Ruma
