/-
  C17 — model of `impl FromStr for CallMemberStateKeyEnum`
  (`crates/ruma-events/src/call/member/member_state_key.rs`, feature `unstable-msc3401`): the state key
  of an `m.call.member` event, `[_]{UserId}[_{DeviceId}]`, chosen by a remote user.

  Sites: `&state_key[colon_idx + 1..]`, `&state_key[..colon_idx + 1 + suffix_idx]`,
  `&state_key[colon_idx + 2 + suffix_idx..]` (`str` slices: in range and on a char boundary, else
  panic). `UserId::parse` is C10's model (`Ids.userIdValidate`), which has its own panic outcome.
-/
import RumaModel.Model.ScanCommon
namespace Ruma.ScanCallMember
open Ruma Ruma.Scan

/-- `CallMemberStateKeyEnum`. -/
inductive Key where
  | underscoreUserDevice (u d : Str)
  | userDevice (u d : Str)
  | user (u : Str)
  deriving Repr, DecidableEq

/-- `CallMemberStateKeyEnum::new`. -/
def Key.new (u : Str) (d : Option Str) (underscore : Bool) : Key :=
  match d, underscore with
  | some d, true => .underscoreUserDevice u d
  | some d, false => .userDevice u d
  | none, _ => .user u

/-- `impl Display for CallMemberStateKeyEnum`. -/
def Key.display : Key → Str
  | .underscoreUserDevice u d => 95 :: (u ++ 95 :: d)
  | .userDevice u d => u ++ 95 :: d
  | .user u => u

/-- `UserId::parse(s)`: `user_id::validate` (C10's model). -/
def userParse (x : Ids.Ext) (s : Str) : Out Unit :=
  match Ids.userIdValidate x s with
  | .ok _ => .ok ()
  | .err => .err
  | .panic => .panic

/-- `state_key.strip_prefix('_')`: the rest and whether the prefix was there. -/
def stripUnderscore : Str → Str × Bool
  | 95 :: t => (t, true)
  | s => (s, false)

/-- The part of `from_str` after the leading underscore was stripped. -/
def parseStripped (x : Ids.Ext) (sk : Str) (underscore : Bool) : Out Key :=
  match findByte 58 sk with
  | none => .err                                         -- `InvalidUser { MissingColon }`
  | some colonIdx =>
    match strFrom sk (colonIdx + 1) with                 -- `state_key[colon_idx + 1..]`
    | none => .panic
    | some afterColon =>
      match findByte 95 afterColon with
      | none =>
        match userParse x sk with
        | .ok () => if underscore then .err else .ok (Key.new sk none underscore)
        | .err => .err
        | .panic => .panic
        | .hang => .hang
      | some suffixIdx =>
        -- `(&state_key[..colon_idx + 1 + suffix_idx], &state_key[colon_idx + 2 + suffix_idx..])`
        match strTo sk (colonIdx + 1 + suffixIdx), strFrom sk (colonIdx + 2 + suffixIdx) with
        | some userId, some deviceId =>
          match userParse x userId with
          | .ok () =>
            if deviceId = [] then .err                   -- `EmptyDevice`
            else .ok (Key.new userId (some deviceId) underscore)
          | .err => .err
          | .panic => .panic
          | .hang => .hang
        | _, _ => .panic

/-- `CallMemberStateKeyEnum::from_str` (and with it `CallMemberStateKey::from_str`, which keeps the
input as `raw`). -/
def fromStr (x : Ids.Ext) (stateKey : Str) : Out Key :=
  parseStripped x (stripUnderscore stateKey).1 (stripUnderscore stateKey).2

end Ruma.ScanCallMember
