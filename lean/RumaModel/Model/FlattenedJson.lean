/-
  C12 — model of `crates/ruma-common/src/push/condition/flattened_json.rs`:
  `FlattenedJson::{from_raw, flatten_value, get, get_str, contains_mentions}`, `escape_key`,
  `FlattenedJsonValue::from_json_value`, `ScalarJsonValue::try_from_json_value` and the two
  `PartialEq` impls between them.

  JSON string values and keys are `List Char`. `PJ` is the `serde_json::Value` that
  `to_json_value(raw)` yields (`float` = every number for which `as_i64()` is `None` or that is a
  float; an `int` outside ±(2^53−1) fails `Int::try_from`).
-/
import RumaModel.Model.Glob
namespace Ruma.Push

inductive PJ where
  | null
  | bool (b : Bool)
  | int (i : Int)
  | float
  | str (s : Text)
  | arr (xs : List PJ)
  | obj (kvs : List (Text × PJ))
  deriving Inhabited

/-- `ScalarJsonValue`. -/
inductive Scalar where
  | null
  | bool (b : Bool)
  | int (i : Int)
  | str (s : Text)
  deriving DecidableEq, Repr

/-- `FlattenedJsonValue`. -/
inductive FVal where
  | null
  | bool (b : Bool)
  | int (i : Int)
  | str (s : Text)
  | arr (xs : List Scalar)
  | emptyObj
  deriving DecidableEq, Repr

/-- `js_int::Int::try_from(i64)` succeeds. -/
def intOk (i : Int) : Bool := decide (-9007199254740991 ≤ i) && decide (i ≤ 9007199254740991)

/-- `ScalarJsonValue::try_from_json_value(..).ok()`. -/
def Scalar.ofJson : PJ → Option Scalar
  | .bool b => some (.bool b)
  | .int i => if intOk i then some (.int i) else none
  | .float => none
  | .str s => some (.str s)
  | .null => some .null
  | .arr _ => none
  | .obj _ => none

/-- `FlattenedJsonValue::from_json_value` (not called on objects by `flatten_value`). -/
def FVal.ofJson : PJ → Option FVal
  | .bool b => some (.bool b)
  | .int i => if intOk i then some (.int i) else none
  | .float => none
  | .str s => some (.str s)
  | .null => some .null
  | .arr xs => some (.arr (xs.filterMap Scalar.ofJson))
  | .obj _ => none

/-- `str::replace(c, with)` for a single-character needle. -/
def replaceChar (c : Char) (w : Text) (s : Text) : Text :=
  s.flatMap fun x => if x = c then w else [x]

/-- `escape_key`: `key.replace('\\', r"\\").replace('.', r"\.")`. -/
def escapeKey (key : Text) : Text :=
  replaceChar '.' ['\\', '.'] (replaceChar '\\' ['\\', '\\'] key)

/-- The `BTreeMap<String, FlattenedJsonValue>` as the list of insertions, newest first: `insert`
replaces an existing entry, so `get` is the newest entry with that key. The order of the map's keys
is never observed (`get`, `keys().any`). -/
abbrev FMap := List (Text × FVal)

def FMap.get (m : FMap) (k : Text) : Option FVal :=
  match m with
  | [] => none
  | (k', v) :: t => if k' = k then some v else FMap.get t k

/-- `get_str`. -/
def FMap.getStr (m : FMap) (k : Text) : Option Text :=
  match FMap.get m k with
  | some (.str s) => some s
  | _ => none

/-- The child path in `flatten_value`: the escaped key at the root, `{path}.{key}` below it. -/
def childPath (path : Option Text) (key : Text) : Text :=
  match path with
  | none => escapeKey key
  | some p => p ++ '.' :: escapeKey key

/-- `if let Some(v) = FlattenedJsonValue::from_json_value(value) { self.map.insert(path, v) }`. -/
def insertLeaf (fv : Option FVal) (path : Option Text) (m : FMap) : FMap :=
  match fv with
  | some v => (path.getD [], v) :: m
  | none => m

mutual
/-- `flatten_value(value, path)`; `path = none` at the root. -/
def flattenValue (v : PJ) (path : Option Text) (m : FMap) : FMap :=
  match v with
  | .obj [] => (path.getD [], .emptyObj) :: m
  | .obj (kv :: kvs) => flattenFields (kv :: kvs) path m
  | .null => insertLeaf (FVal.ofJson .null) path m
  | .bool b => insertLeaf (FVal.ofJson (.bool b)) path m
  | .int i => insertLeaf (FVal.ofJson (.int i)) path m
  | .float => insertLeaf (FVal.ofJson .float) path m
  | .str s => insertLeaf (FVal.ofJson (.str s)) path m
  | .arr xs => insertLeaf (FVal.ofJson (.arr xs)) path m
/-- The `for (key, value) in fields` loop. -/
def flattenFields (kvs : List (Text × PJ)) (path : Option Text) (m : FMap) : FMap :=
  match kvs with
  | [] => m
  | (k, v) :: rest => flattenFields rest path (flattenValue v (some (childPath path k)) m)
end

/-- `FlattenedJson::from_raw`. -/
def flatten (event : PJ) : FMap := flattenValue event none []

def mentionsKey : Text := "content.m\\.mentions".toList
def mentionsPrefix : Text := "content.m\\.mentions.".toList

/-- `contains_mentions`. -/
def containsMentions (m : FMap) : Bool :=
  m.any fun e => e.1 == mentionsKey || mentionsPrefix.isPrefixOf e.1

/-- `impl PartialEq<ScalarJsonValue> for FlattenedJsonValue`. -/
def FVal.eqScalar : FVal → Scalar → Bool
  | .null, s => s == .null
  | .bool b, .bool b' => b == b'
  | .int i, .int i' => i == i'
  | .str s, .str s' => s == s'
  | _, _ => false

end Ruma.Push
