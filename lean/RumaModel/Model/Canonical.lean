/-
  Model of canonical JSON: `TryFrom<serde_json::Value> for CanonicalJsonValue`
  (crates/ruma-common/src/canonical_json/value.rs:174-196), `try_from_json_map`, and the compact
  serializer output (`to_string` of a `CanonicalJsonValue` / `BTreeMap`), which is what
  `ruma_signatures::canonical_json` and every hash/signature is computed over.

  `JVal` is used both for the parsed `serde_json::Value` (objects: pairs in text order, duplicates
  possible, numbers `int`/`float`) and for the canonical value (objects: ascending keys, no `float`).
-/
import RumaModel.Model.Json
namespace Ruma.Canonical

inductive Err where
  | intConvert
  deriving DecidableEq, Repr

/-- `js_int::MAX_SAFE_INT` = 2^53 − 1. -/
def maxInt : Int := 9007199254740991

/-- `Int::try_from(num.as_i64()?)`: an integer is accepted iff it is within ±(2^53−1). Numbers that
are not `i64` (fractions, exponents, `-0`, > i64::MAX) arrive as `float`/out-of-range and fail. -/
def intOk (i : Int) : Bool := decide (-maxInt ≤ i) && decide (i ≤ maxInt)

mutual
/-- `CanonicalJsonValue::try_from(serde_json::Value)`. -/
def normalize : JVal → Except Err JVal
  | .null => .ok .null
  | .bool b => .ok (.bool b)
  | .int i => if intOk i then .ok (.int i) else .error .intConvert
  | .float => .error .intConvert
  | .str s => .ok (.str s)
  | .arr xs =>
    match normalizeL xs with
    | .ok ys => .ok (.arr ys)
    | .error e => .error e
  | .obj kvs =>
    match normalizeO kvs with
    | .ok l => .ok (.obj (Obj.ofList l))
    | .error e => .error e
/-- Elements in order; the first error aborts. -/
def normalizeL : List JVal → Except Err (List JVal)
  | [] => .ok []
  | v :: t =>
    match normalize v with
    | .error e => .error e
    | .ok v' =>
      match normalizeL t with
      | .error e => .error e
      | .ok t' => .ok (v' :: t')
/-- Entries in order with normalised values; collecting into the `BTreeMap` (`Obj.ofList`: sorted,
a later duplicate wins) happens in `normalize`. -/
def normalizeO : List (Str × JVal) → Except Err (List (Str × JVal))
  | [] => .ok []
  | (k, v) :: t =>
    match normalize v with
    | .error e => .error e
    | .ok v' =>
      match normalizeO t with
      | .error e => .error e
      | .ok t' => .ok ((k, v') :: t')
end

/-- `try_from_json_map`. -/
def normalizeMap (kvs : List (Str × JVal)) : Except Err Obj :=
  match normalizeO kvs with
  | .ok l => .ok (Obj.ofList l)
  | .error e => .error e

def hexLower (n : Nat) : Nat := if n < 10 then 48 + n else 87 + n

/-- serde_json's string escaping, per byte: `"` `\` and the C0 controls are escaped (short forms
for \b \f \n \r \t, `\u00xx` lower-case otherwise); every other byte (including 0x7f and all bytes
of multi-byte UTF-8 sequences) is emitted raw. -/
def escapeByte (b : Nat) : List Nat :=
  if b = 34 then [92, 34]
  else if b = 92 then [92, 92]
  else if b = 8 then [92, 98]
  else if b = 12 then [92, 102]
  else if b = 10 then [92, 110]
  else if b = 13 then [92, 114]
  else if b = 9 then [92, 116]
  else if b < 32 then [92, 117, 48, 48, hexLower (b / 16), hexLower (b % 16)]
  else [b]

def escape (s : Str) : List Nat := s.flatMap escapeByte

def encodeStr (s : Str) : List Nat := 34 :: (escape s ++ [34])

/-- Decimal digits of a natural number, most significant first (`itoa`). -/
def natDigits (n : Nat) : List Nat := (Nat.toDigits 10 n).map Char.toNat

def encodeInt (i : Int) : List Nat :=
  match i with
  | .ofNat n => natDigits n
  | .negSucc n => 45 :: natDigits (n + 1)

mutual
/-- Compact serialisation: no whitespace, `,` and `:` separators, keys in the object's own order. -/
def encode : JVal → List Nat
  | .null => bs "null"
  | .bool true => bs "true"
  | .bool false => bs "false"
  | .int i => encodeInt i
  | .float => []            -- not a canonical value; never produced by `normalize`
  | .str s => encodeStr s
  | .arr xs => 91 :: (encodeL xs ++ [93])
  | .obj kvs => 123 :: (encodeO kvs ++ [125])
def encodeL : List JVal → List Nat
  | [] => []
  | [v] => encode v
  | v :: t => encode v ++ (44 :: encodeL t)
def encodeO : List (Str × JVal) → List Nat
  | [] => []
  | [(k, v)] => encodeStr k ++ (58 :: encode v)
  | (k, v) :: t => encodeStr k ++ (58 :: encode v) ++ (44 :: encodeO t)
end

/-- `to_string(&BTreeMap)` of an object. -/
def encodeObj (o : Obj) : List Nat := encode (.obj o)

/-- `ruma_signatures::canonical_json` (functions.rs `canonical_json_with_fields_to_remove` with
`["signatures", "unsigned"]`): clone, `remove` each field, compact `to_string`. -/
def sigCanonicalJson (o : Obj) : List Nat :=
  encodeObj (Obj.erase (Obj.erase o (bs "signatures")) (bs "unsigned"))

mutual
/-- External code, modelled as an assumption: the `serde_json::Value` that serde_json's
deserializer builds from a JSON text whose object entries *in text order* are the given pairs.
`serde_json::Map` (a `BTreeMap<String, Value>`) is filled by `insert` per entry, so a later
duplicate key replaces the earlier value before ruma's code sees anything. -/
def serdeValue : JVal → JVal
  | .null => .null
  | .bool b => .bool b
  | .int i => .int i
  | .float => .float
  | .str s => .str s
  | .arr xs => .arr (serdeValueL xs)
  | .obj kvs => .obj (Obj.ofList (serdeValueO kvs))
def serdeValueL : List JVal → List JVal
  | [] => []
  | v :: t => serdeValue v :: serdeValueL t
def serdeValueO : List (Str × JVal) → List (Str × JVal)
  | [] => []
  | (k, v) :: t => (k, serdeValue v) :: serdeValueO t
end

end Ruma.Canonical
