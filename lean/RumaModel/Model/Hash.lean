/-
  Model of `ruma_signatures::{content_hash, reference_hash}`
  (crates/ruma-signatures/src/functions.rs) together with the two unpadded base64 encodings
  (`base64::alphabet::{STANDARD, URL_SAFE}` with `NO_PAD`, as used by `reference_hash` and by
  `ruma_common::serde::Base64::encode`) and an executable reference SHA-256.

  In every theorem `sha256 : List Nat → List Nat` is a PARAMETER (the `sha2` crate is not ruma's
  code). `sha256Ref` below is an executable reference (FIPS 180-4) used only by the driver as a
  differential oracle; no theorem mentions it.
-/
import RumaModel.Model.Json
import RumaModel.Model.Canonical
import RumaModel.Model.Redact
namespace Ruma.Hash
open Ruma Ruma.Canonical

/-! ### Base64 (RFC 4648 §4 and §5, without padding) -/

/-- `base64::alphabet::STANDARD` / `URL_SAFE`. -/
inductive Alphabet where
  | standard
  | urlSafe
  deriving DecidableEq, Repr

/-- The character (as a byte) for the sextet `i`. Both alphabets share `A–Z a–z 0–9` for 0–61 and
differ in the last two characters: `+ /` (standard) versus `- _` (URL-safe). Only called with
`i < 64` (every caller reduces modulo 64 or divides a byte by 4). -/
def charOf (a : Alphabet) (i : Nat) : Nat :=
  if i < 26 then 65 + i
  else if i < 52 then 97 + (i - 26)
  else if i < 62 then 48 + (i - 52)
  else if i = 62 then (match a with | .standard => 43 | .urlSafe => 45)
  else (match a with | .standard => 47 | .urlSafe => 95)

/-- `Engine::encode` with `NO_PAD`: three bytes become four characters; a trailing group of one or
two bytes becomes two or three characters, the unused low bits being zero. -/
def b64 (a : Alphabet) : List Nat → List Nat
  | x :: y :: z :: rest =>
    charOf a (x / 4) :: charOf a ((x % 4) * 16 + y / 16) :: charOf a ((y % 16) * 4 + z / 64)
      :: charOf a (z % 64) :: b64 a rest
  | [x, y] => [charOf a (x / 4), charOf a ((x % 4) * 16 + y / 16), charOf a ((y % 16) * 4)]
  | [x] => [charOf a (x / 4), charOf a ((x % 4) * 16)]
  | [] => []

/-- The sextet a character stands for, `none` if the character is not in the alphabet. -/
def valOf (a : Alphabet) (c : Nat) : Option Nat :=
  if 65 ≤ c ∧ c ≤ 90 then some (c - 65)
  else if 97 ≤ c ∧ c ≤ 122 then some (c - 97 + 26)
  else if 48 ≤ c ∧ c ≤ 57 then some (c - 48 + 52)
  else match a with
    | .standard => if c = 43 then some 62 else if c = 47 then some 63 else none
    | .urlSafe => if c = 45 then some 62 else if c = 95 then some 63 else none

/-- Strict unpadded decoding: every character must be in the alphabet, a single leftover character
is refused, and the unused low bits of a final partial group must be zero. (The inverse of `b64`;
the more permissive decoder used by `verify_event` is modelled with C03.) -/
def unb64 (a : Alphabet) : List Nat → Option (List Nat)
  | c0 :: c1 :: c2 :: c3 :: rest =>
    match valOf a c0, valOf a c1, valOf a c2, valOf a c3, unb64 a rest with
    | some s0, some s1, some s2, some s3, some t =>
      some ((s0 * 4 + s1 / 16) :: ((s1 % 16) * 16 + s2 / 4) :: ((s2 % 4) * 64 + s3) :: t)
    | _, _, _, _, _ => none
  | [c0, c1, c2] =>
    match valOf a c0, valOf a c1, valOf a c2 with
    | some s0, some s1, some s2 =>
      if s2 % 4 = 0 then some [s0 * 4 + s1 / 16, (s1 % 16) * 16 + s2 / 4] else none
    | _, _, _ => none
  | [c0, c1] =>
    match valOf a c0, valOf a c1 with
    | some s0, some s1 => if s1 % 16 = 0 then some [s0 * 4 + s1 / 16] else none
    | _, _ => none
  | [_] => none
  | [] => some []

/-! ### The two hash functions -/

/-- `MAX_PDU_BYTES`. -/
def maxPduBytes : Nat := 65535

/-- `CONTENT_HASH_FIELDS_TO_REMOVE`. -/
def contentHashFields : List Str := [bs "hashes", bs "signatures", bs "unsigned"]

/-- `REFERENCE_HASH_FIELDS_TO_REMOVE` (and `CANONICAL_JSON_FIELDS_TO_REMOVE`). -/
def referenceHashFields : List Str := [bs "signatures", bs "unsigned"]

/-- The loop `for field in fields { owned_object.remove(*field); }`. -/
def removeFields (o : Obj) (fields : List Str) : Obj := fields.foldl Obj.erase o

/-- `canonical_json_with_fields_to_remove`: clone, remove the fields, compact serialisation.
(Serialising a `CanonicalJsonObject` cannot fail, so the `Error::Json` arm is not an outcome.) -/
def canonicalWithout (o : Obj) (fields : List Str) : List Nat := encodeObj (removeFields o fields)

inductive Err where
  /-- `Error::PduSize`. -/
  | pduSize
  /-- `redact` failed (`Error::Json(JsonError::…)`), only possible in `reference_hash`. -/
  | redact (e : Redact.Err)
  deriving DecidableEq, Repr

/-- `content_hash`: the 32 digest bytes (the Rust value is a `Base64<Standard, [u8; 32]>` holding
them), or `PduSize`. -/
def contentHash (sha256 : List Nat → List Nat) (o : Obj) : Except Err (List Nat) :=
  let json := canonicalWithout o contentHashFields
  if json.length > maxPduBytes then .error .pduSize
  else .ok (sha256 json)

/-- `content_hash(..)?.encode()`: what `hash_and_sign_event` stores under `hashes.sha256`. -/
def contentHashB64 (sha256 : List Nat → List Nat) (o : Obj) : Except Err (List Nat) :=
  match contentHash sha256 o with
  | .ok h => .ok (b64 .standard h)
  | .error e => .error e

/-- `EventIdFormatVersion`. -/
inductive EventIdFormat where
  | v1
  | v2
  | v3
  deriving DecidableEq, Repr

/-- The `match rules.event_id_format` in `reference_hash`. -/
def alphabetOf : EventIdFormat → Alphabet
  | .v1 => .standard
  | .v2 => .standard
  | .v3 => .urlSafe

/-- `reference_hash`: redact with the room version's rules, drop `signatures`/`unsigned`, size check,
SHA-256, unpadded base64 in the alphabet the event-ID format selects. -/
def referenceHash (sha256 : List Nat → List Nat) (r : Redact.Rules) (fmt : EventIdFormat) (o : Obj) :
    Except Err (List Nat) :=
  match Redact.redact r o none with
  | .error e => .error (.redact e)
  | .ok redacted =>
    let json := canonicalWithout redacted referenceHashFields
    if json.length > maxPduBytes then .error .pduSize
    else .ok (b64 (alphabetOf fmt) (sha256 json))

/-- The event ID of an event in a room version whose event IDs are hashes (`EventIdFormatVersion`
`V2` / `V3`, i.e. room version 3 onwards): `$` followed by the reference hash. ruma has no function
for this step: its callers write `format!("${}", reference_hash(object, rules)?)` and parse the
result as an `EventId` (the harness op `c05.eventid` does exactly that, with the real
`reference_hash` and the real `EventId` parser). With format `V1` (room versions 1 and 2) the ID is
`$opaque:server`, chosen by the origin server and not a function of the event: `none`. -/
def eventId (sha256 : List Nat → List Nat) (r : Redact.Rules) (fmt : EventIdFormat) (o : Obj) :
    Except Err (Option (List Nat)) :=
  match fmt with
  | .v1 => .ok none
  | _ =>
    match referenceHash sha256 r fmt o with
    | .ok h => .ok (some (36 :: h))
    | .error e => .error e

/-! ### Executable reference SHA-256 (FIPS 180-4), `UInt32` arithmetic

Bytes are `Nat`s below 256 (larger values are reduced modulo 256 when packed into words). -/

namespace Sha

def k : List UInt32 := [
  0x428a2f98, 0x71374491, 0xb5c0fbcf, 0xe9b5dba5, 0x3956c25b, 0x59f111f1, 0x923f82a4, 0xab1c5ed5,
  0xd807aa98, 0x12835b01, 0x243185be, 0x550c7dc3, 0x72be5d74, 0x80deb1fe, 0x9bdc06a7, 0xc19bf174,
  0xe49b69c1, 0xefbe4786, 0x0fc19dc6, 0x240ca1cc, 0x2de92c6f, 0x4a7484aa, 0x5cb0a9dc, 0x76f988da,
  0x983e5152, 0xa831c66d, 0xb00327c8, 0xbf597fc7, 0xc6e00bf3, 0xd5a79147, 0x06ca6351, 0x14292967,
  0x27b70a85, 0x2e1b2138, 0x4d2c6dfc, 0x53380d13, 0x650a7354, 0x766a0abb, 0x81c2c92e, 0x92722c85,
  0xa2bfe8a1, 0xa81a664b, 0xc24b8b70, 0xc76c51a3, 0xd192e819, 0xd6990624, 0xf40e3585, 0x106aa070,
  0x19a4c116, 0x1e376c08, 0x2748774c, 0x34b0bcb5, 0x391c0cb3, 0x4ed8aa4a, 0x5b9cca4f, 0x682e6ff3,
  0x748f82ee, 0x78a5636f, 0x84c87814, 0x8cc70208, 0x90befffa, 0xa4506ceb, 0xbef9a3f7, 0xc67178f2]

/-- The eight working variables / the intermediate hash value. -/
structure St where
  (a b c d e f g h : UInt32)

def init : St :=
  ⟨0x6a09e667, 0xbb67ae85, 0x3c6ef372, 0xa54ff53a, 0x510e527f, 0x9b05688c, 0x1f83d9ab, 0x5be0cd19⟩

/-- Sixteen consecutive words of the message schedule, `W[t] … W[t+15]`. -/
structure Win where
  (w0 w1 w2 w3 w4 w5 w6 w7 w8 w9 w10 w11 w12 w13 w14 w15 : UInt32)

def rotr (x n : UInt32) : UInt32 := (x >>> n) ||| (x <<< (32 - n))
def bsig0 (x : UInt32) : UInt32 := rotr x 2 ^^^ rotr x 13 ^^^ rotr x 22
def bsig1 (x : UInt32) : UInt32 := rotr x 6 ^^^ rotr x 11 ^^^ rotr x 25
def ssig0 (x : UInt32) : UInt32 := rotr x 7 ^^^ rotr x 18 ^^^ (x >>> 3)
def ssig1 (x : UInt32) : UInt32 := rotr x 17 ^^^ rotr x 19 ^^^ (x >>> 10)
def ch (x y z : UInt32) : UInt32 := (x &&& y) ^^^ (~~~x &&& z)
def maj (x y z : UInt32) : UInt32 := (x &&& y) ^^^ (x &&& z) ^^^ (y &&& z)

/-- Slide the schedule window by one: `W[t+16] = σ1(W[t+14]) + W[t+9] + σ0(W[t+1]) + W[t]`. -/
def Win.next (w : Win) : Win :=
  ⟨w.w1, w.w2, w.w3, w.w4, w.w5, w.w6, w.w7, w.w8, w.w9, w.w10, w.w11, w.w12, w.w13, w.w14, w.w15,
   ssig1 w.w14 + w.w9 + ssig0 w.w1 + w.w0⟩

/-- One round with constant `kt` and schedule word `wt`. -/
def round (s : St) (kt wt : UInt32) : St :=
  let t1 := s.h + bsig1 s.e + ch s.e s.f s.g + kt + wt
  let t2 := bsig0 s.a + maj s.a s.b s.c
  ⟨t1 + t2, s.a, s.b, s.c, s.d + t1, s.e, s.f, s.g⟩

/-- One round per constant in the list, the window sliding along. -/
def rounds : List UInt32 → Win → St → St
  | [], _, s => s
  | kt :: ks, w, s => rounds ks w.next (round s kt w.w0)

/-- The compression function on one 16-word block. -/
def compress (s : St) (w : Win) : St :=
  let r := rounds k w s
  ⟨s.a + r.a, s.b + r.b, s.c + r.c, s.d + r.d, s.e + r.e, s.f + r.f, s.g + r.g, s.h + r.h⟩

/-- Big-endian bytes to words, four at a time (accumulator reversed). A trailing group of fewer
than four bytes does not occur: the padded message length is a multiple of 64. -/
def wordsAux : List Nat → List UInt32 → List UInt32
  | b0 :: b1 :: b2 :: b3 :: rest, acc =>
    wordsAux rest (((b0 % 256) * 16777216 + (b1 % 256) * 65536 + (b2 % 256) * 256 + b3 % 256).toUInt32 :: acc)
  | _, acc => acc.reverse

/-- Fold the compression function over the blocks. A trailing group of fewer than sixteen words
does not occur (see `wordsAux`). -/
def blocks : List UInt32 → St → St
  | w0 :: w1 :: w2 :: w3 :: w4 :: w5 :: w6 :: w7 :: w8 :: w9 :: w10 :: w11 :: w12 :: w13 :: w14
      :: w15 :: rest, s =>
    blocks rest (compress s ⟨w0, w1, w2, w3, w4, w5, w6, w7, w8, w9, w10, w11, w12, w13, w14, w15⟩)
  | _, s => s

/-- Big-endian bytes of a natural number, exactly `n` of them (higher bytes are dropped). -/
def beBytes : Nat → Nat → List Nat
  | 0, _ => []
  | n + 1, x => (x / 256 ^ n) % 256 :: beBytes n x

/-- FIPS 180-4 §5.1.1: append the bit `1`, then `k` zero bits, then the 64-bit bit length, so that
the total length is a multiple of 512 bits. -/
def pad (m : List Nat) : List Nat :=
  m ++ 128 :: (List.replicate ((119 - m.length % 64) % 64) 0 ++ beBytes 8 (8 * m.length))

def wordBytes (w : UInt32) : List Nat := beBytes 4 w.toNat

def St.bytes (s : St) : List Nat :=
  wordBytes s.a ++ wordBytes s.b ++ wordBytes s.c ++ wordBytes s.d ++ wordBytes s.e
    ++ wordBytes s.f ++ wordBytes s.g ++ wordBytes s.h

end Sha

/-- Reference SHA-256 of a byte string: the 32 digest bytes. -/
def sha256Ref (m : List Nat) : List Nat :=
  (Sha.blocks (Sha.wordsAux (Sha.pad m) []) Sha.init).bytes

end Ruma.Hash
