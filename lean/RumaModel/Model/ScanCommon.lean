/-
  C17 — primitives shared by the models of ruma's hand-written scanners (`Model/Scan*.lean`).

  Byte strings are `Str = List Nat` (the bytes of a Rust `&[u8]` / the UTF-8 bytes of a `&str`).
  Every Rust indexing / slicing operation is a function into `Option`: `none` is the panic of that
  operation (`index out of bounds`, `slice index starts at … but ends at …`, `byte index … is not a
  char boundary`). The callers turn `none` into their explicit `panic` outcome; nothing is defaulted.

  `Out` has four outcomes: a returned value, a returned error, a panic, and `hang` = the fuel of a
  modelled `loop`/`while` ran out. Each model states its fuel as a function of the input, and the
  theorems show `hang` is unreachable, which is the proof that the Rust loop terminates.
-/
import RumaModel.Model.Ids
namespace Ruma.Scan
open Ruma

/-- Outcome of a modelled Rust call. -/
inductive Out (α : Type) where
  | ok (a : α)
  /-- the function returned `Err(_)` / `None` -/
  | err
  /-- a Rust panic: index, slice, `unwrap`, `expect`, `assert!`, arithmetic overflow -/
  | panic
  /-- the fuel of a modelled loop ran out: the Rust loop would still be running -/
  | hang
  deriving Repr, DecidableEq

/-- The outcome is a returned value or a returned error. -/
def Out.Returns : Out α → Prop
  | .ok _ => True
  | .err => True
  | .panic => False
  | .hang => False

def Out.bind (o : Out α) (f : α → Out β) : Out β :=
  match o with
  | .ok a => f a
  | .err => .err
  | .panic => .panic
  | .hang => .hang

/-- `&bytes[i..j]` on a byte slice (`&[u8]`): panics when `i > j` or `j > len`. -/
def bytesSlice (s : Str) (i j : Nat) : Option Str :=
  if i ≤ j ∧ j ≤ s.length then some ((s.take j).drop i) else none

/-- `&s[i..]` on a `&str`: panics unless `i` is a char boundary (in particular when `i > len`). -/
def strFrom (s : Str) (i : Nat) : Option Str :=
  if Ids.isBoundary s i then some (s.drop i) else none

/-- `&s[..j]` on a `&str`. -/
def strTo (s : Str) (j : Nat) : Option Str :=
  if Ids.isBoundary s j then some (s.take j) else none

/-- `&s[i..j]` on a `&str`. -/
def strSlice (s : Str) (i j : Nat) : Option Str :=
  if decide (i ≤ j) && Ids.isBoundary s i && Ids.isBoundary s j then some ((s.take j).drop i) else none

/-- `memchr(c, s)` / `s.find(c)` for an ASCII `c` / `iter().position(|b| b == c)`. -/
abbrev findByte (c : Nat) (s : Str) : Option Nat := Ids.find c s

/-- Byte index of the first byte satisfying `p` (`str::find(|c: char| …)` for predicates that are
decided by the first byte of a character, `iter().position(p)`). -/
def findP (p : Nat → Bool) : Str → Option Nat
  | [] => none
  | b :: t => if p b then some 0 else (findP p t).map (· + 1)

/-- `s.rfind(c)` for an ASCII `c`: byte index of the last occurrence. -/
def rfindByte (c : Nat) : Str → Option Nat
  | [] => none
  | b :: t =>
    match rfindByte c t with
    | some i => some (i + 1)
    | none => if b = c then some 0 else none

/-- `memchr::memmem::find_iter(hay, needle)` / `str::match_indices(needle)` for a non-empty needle:
the start positions of the non-overlapping occurrences, left to right (after a match the search
resumes behind it). `pos` is the absolute position of the head of the remaining haystack, `skip`
the number of bytes still covered by the previous match. -/
def findIterGo (nd : Str) : Str → Nat → Nat → List Nat
  | [], _, _ => []
  | _ :: t, pos, skip + 1 => findIterGo nd t (pos + 1) skip
  | c :: t, pos, 0 =>
    if nd.isPrefixOf (c :: t) then pos :: findIterGo nd t (pos + 1) (nd.length - 1)
    else findIterGo nd t (pos + 1) 0

def findIter (nd hay : Str) : List Nat := findIterGo nd hay 0 0

/-- `str::find(pattern)` for a non-empty pattern: byte index of the first occurrence. -/
def findSub (p : Str) : Str → Option Nat
  | [] => none
  | c :: t => if p.isPrefixOf (c :: t) then some 0 else (findSub p t).map (· + 1)

/-- `u8::is_ascii_whitespace` / `char::is_ascii_whitespace`: space, \t, \n, \x0C, \r. -/
def isAsciiWs (b : Nat) : Bool := b = 32 || b = 9 || b = 10 || b = 12 || b = 13

/-- `char::is_ascii_alphanumeric() || == '_'` on a byte (`CharExt::is_word_char` for the character
that starts with this byte: only a one-byte character can be a word character). -/
def isWordByte (b : Nat) : Bool := Ids.isAlnum b || b = 95

end Ruma.Scan
