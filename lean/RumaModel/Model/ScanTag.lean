/-
  C17 — model of `TagName::from(&str)` and `TagName::display_name`
  (`crates/ruma-events/src/tag.rs`): the keys of the `tags` object of an `m.tag` event.

  Sites: `&self.as_ref()[start..]` with `start = rfind('.') + 1`, and `&self.as_ref()[2..]` for the
  `m.*` / `u.*` variants (`str` slices).
-/
import RumaModel.Model.ScanCommon
namespace Ruma.ScanTag
open Ruma Ruma.Scan

inductive TagName where
  | favorite
  | lowPriority
  | serverNotice
  | user (name : Str)
  | custom (s : Str)
  deriving Repr, DecidableEq

def sFavourite : Str := bs "m.favourite"
def sLowPriority : Str := bs "m.lowpriority"
def sServerNotice : Str := bs "m.server_notice"

/-- `impl From<T> for TagName`. -/
def TagName.from (s : Str) : TagName :=
  if s = sFavourite then .favorite
  else if s = sLowPriority then .lowPriority
  else if s = sServerNotice then .serverNotice
  else if ([117, 46] : Str).isPrefixOf s then .user s
  else .custom s

/-- `impl AsRef<str> for TagName`. -/
def TagName.asRef : TagName → Str
  | .favorite => sFavourite
  | .lowPriority => sLowPriority
  | .serverNotice => sServerNotice
  | .user n => n
  | .custom s => s

/-- `TagName::display_name`. -/
def TagName.displayName (t : TagName) : Out Str :=
  match t with
  | .custom s =>
    let start := match rfindByte 46 s with
      | some p => p + 1
      | none => 0
    match strFrom t.asRef start with
    | some r => .ok r
    | none => .panic
  | _ =>
    match strFrom t.asRef 2 with
    | some r => .ok r
    | none => .panic

/-- `TagName::from(s).display_name()`. -/
def displayNameOf (s : Str) : Out Str := (TagName.from s).displayName

end Ruma.ScanTag
