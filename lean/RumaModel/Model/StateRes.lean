/-
  Model of `ruma_state_res::resolve` (crates/ruma-state-res/src/lib.rs), stage by stage in the
  code's order: `separate`, `get_auth_chain_diff`, the full conflicted set, `is_power_event`,
  `reverse_topological_power_sort` (graph building, `get_power_level_for_sender` with the
  `creator_lock` cache, `lexicographical_topological_sort`), `iterative_auth_check`,
  `mainline_sort` / `get_mainline_depth` (as the code is: the oldest mainline event has depth 0 and
  so has an event without mainline ancestor — finding F4), final overlay of the unconflicted state.

  Conventions (DESIGN §3).
  * `fetch_event` is lookup in a finite list of events (`fetchOf store`).
  * Every `HashMap`/`HashSet` is a list; whenever the code *iterates* one, the model first applies
    a `Shuffle` taken from `Orders` — an arbitrary function that permutes its argument. Theorems
    quantify over all `Orders` (`Orders.Valid`): that is "all hash-iteration orders".
  * The authorization check, the auth-type selection (C08/C09) and the integer parser of
    power-level content are parameters (`Params`).
  * `Err(_)` is `.error .err`; `unwrap`/`expect` sites are `.error .panic`; the loops that walk the
    store (`while let Some(..)`) run on fuel, exhausting it is `.error .fuel` (the real code would
    not terminate there: a cyclic `auth_events` chain).
-/
import RumaModel.Model.TopoSort
import RumaModel.Model.Event
import RumaModel.Model.Auth
namespace Ruma.StateRes
open Ruma

/-- `(StateEventType, String)`. -/
abbrev SKey := Str × Str
/-- `StateMap<Id>` in iteration order. -/
abbrev StateMap := List (SKey × Id)

/-- Parameters: code outside `lib.rs` (the event-content accessors of `events/*.rs` and the
authorization functions of `event_auth.rs`, all already specialised to the room version's
`AuthorizationRules`). `none` stands for `Err(_)`. The drivers instantiate them with
`Model/Auth.lean`. -/
structure Params where
  /-- `RoomCreateEvent::creator(rules)`. -/
  creatorOf : Event → Option Str
  /-- `Option<RoomPowerLevelsEvent>::user_power_level(user, creator, rules)`. -/
  userLevel : Option Event → Str → Str → Option Int
  /-- `Option<RoomPowerLevelsEvent>::get_as_int_or_default(UsersDefault, rules)`. -/
  usersDefault : Option Event → Option Int
  /-- `RoomMemberEvent::membership()` (as the string). -/
  membership : Event → Option Str
  /-- `auth_types_for_event(type, sender, state_key, content, rules)`. -/
  authTypes : Event → Option (List SKey)
  /-- `auth_check(rules, event, fetch_state).is_ok()`. -/
  auth : Event → (Str → Str → Option Event) → Bool

/-- An iteration order of a hash container: any function that permutes its argument. -/
structure Shuffle where
  sh : {α : Type} → List α → List α

def Shuffle.id : Shuffle := ⟨fun l => l⟩

/-- The iteration orders of all hash containers of one `resolve` call. -/
structure Orders where
  /-- `occurrences` (outer map). -/
  occ : Shuffle
  /-- `occurrences[k]` (inner maps, one hasher each). -/
  occIn : SKey → Shuffle
  /-- `id_counts`. -/
  idCounts : Shuffle
  /-- `conflicting.into_values()`. -/
  confVals : Shuffle
  /-- `all_conflicted`. -/
  allConf : Shuffle
  /-- `graph` (outer map; both `graph.keys()` and the iteration inside the sort). -/
  graph : Shuffle
  /-- `graph[n]` (edge sets). -/
  edges : Id → Shuffle
  /-- `reverse_graph[n]`. -/
  parents : Id → Shuffle
  /-- `order_map.keys()`. -/
  orderMap : Shuffle

def Orders.id : Orders :=
  ⟨.id, fun _ => .id, .id, .id, .id, .id, fun _ => .id, fun _ => .id, .id⟩

def Shuffle.Valid (s : Shuffle) : Prop := ∀ {α : Type} (l : List α), (s.sh l).Perm l

structure Orders.Valid (o : Orders) : Prop where
  occ : o.occ.Valid
  occIn : ∀ k, (o.occIn k).Valid
  idCounts : o.idCounts.Valid
  confVals : o.confVals.Valid
  allConf : o.allConf.Valid
  graph : o.graph.Valid
  edges : ∀ n, (o.edges n).Valid
  parents : ∀ n, (o.parents n).Valid
  orderMap : o.orderMap.Valid

/-! ### association lists as hash maps -/
namespace AL

/-- `HashMap::get`. -/
def get [DecidableEq κ] : List (κ × β) → κ → Option β
  | [], _ => none
  | (q, v) :: t, k => if q = k then some v else get t k

/-- `HashMap::insert`: replace the value of an existing key, else add the entry. -/
def insert [DecidableEq κ] : List (κ × β) → κ → β → List (κ × β)
  | [], k, v => [(k, v)]
  | (q, w) :: t, k, v => if q = k then (q, v) :: t else (q, w) :: insert t k v

def contains [DecidableEq κ] (m : List (κ × β)) (k : κ) : Bool := m.any (fun p => p.1 = k)

end AL

/-- `*map.entry(k).or_default() += 1`. -/
def bump [DecidableEq κ] : List (κ × Nat) → κ → List (κ × Nat)
  | [], k => [(k, 1)]
  | (q, c) :: t, k => if q = k then (q, c + 1) :: t else (q, c) :: bump t k

/-- `HashSet` built from a sequence: first occurrences. -/
def dedup [DecidableEq α] : List α → List α
  | [] => []
  | x :: xs => if x ∈ xs then dedup xs else x :: dedup xs

def fetchOf (store : List Event) (id : Id) : Option Event := store.find? (fun e => e.eventId = id)

/-! ### `separate` (167-198) -/

/-- `occurrences.entry(k).or_default().entry(v).and_modify(|x| *x += 1).or_insert(1)`. -/
def occAdd : List (SKey × List (Id × Nat)) → SKey → Id → List (SKey × List (Id × Nat))
  | [], k, v => [(k, [(v, 1)])]
  | (q, m) :: t, k, v => if q = k then (q, bump m v) :: t else (q, m) :: occAdd t k v

/-- `conflicted_state.entry(k).and_modify(|x| x.push(id)).or_insert(vec![id])`. -/
def confPush : List (SKey × List Id) → SKey → Id → List (SKey × List Id)
  | [], k, v => [(k, [v])]
  | (q, m) :: t, k, v => if q = k then (q, m ++ [v]) :: t else (q, m) :: confPush t k v

def occurrences (sets : List StateMap) : List (SKey × List (Id × Nat)) :=
  sets.flatten.foldl (fun acc kv => occAdd acc kv.1 kv.2) []

/-- The body of the two nested `for` loops for one `(k, id, count)`. -/
def separateStep (n : Nat) (k : SKey) (acc : StateMap × List (SKey × List Id)) (ic : Id × Nat) :
    StateMap × List (SKey × List Id) :=
  if ic.2 = n then (AL.insert acc.1 k ic.1, acc.2) else (acc.1, confPush acc.2 k ic.1)

/-- `separate(state_sets)` = `(unconflicted_state, conflicted_state)`. -/
def separate (o : Orders) (sets : List StateMap) : StateMap × List (SKey × List Id) :=
  (o.occ.sh (occurrences sets)).foldl
    (fun acc kv => ((o.occIn kv.1).sh kv.2).foldl (separateStep sets.length kv.1) acc) ([], [])

/-! ### `get_auth_chain_diff` (201-213) -/

def idCounts (chains : List (List Id)) : List (Id × Nat) := chains.flatten.foldl bump []

def authChainDiff (o : Orders) (chains : List (List Id)) : List Id :=
  (o.idCounts.sh (idCounts chains)).filterMap
    (fun ic => if ic.2 < chains.length then some ic.1 else none)

/-! ### full conflicted set (87-91), power events (640-668) -/

def fullConflicted (o : Orders) (fetch : Id → Option Event) (diff : List Id)
    (conf : List (SKey × List Id)) : List Id :=
  o.allConf.sh (dedup ((diff ++ ((o.confVals.sh conf).map (·.2)).flatten).filter
    (fun id => (fetch id).isSome)))

def tPowerLevels : Str := bs "m.room.power_levels"
def tJoinRules : Str := bs "m.room.join_rules"
def tCreate : Str := bs "m.room.create"
def tMember : Str := bs "m.room.member"

def isTypeAndKey (e : Event) (ty sk : Str) : Bool := e.type = ty && e.stateKey = some sk

def isPowerEvent (p : Params) (e : Event) : Bool :=
  if e.type = tPowerLevels ∨ e.type = tJoinRules ∨ e.type = tCreate then e.stateKey = some []
  else if e.type = tMember then
    match p.membership e with
    | some m => if m = bs "leave" ∨ m = bs "ban" then some e.sender ≠ e.stateKey else false
    | none => false
  else false

def isPowerEventId (p : Params) (fetch : Id → Option Event) (id : Id) : Bool :=
  match fetch id with
  | some e => isPowerEvent p e
  | none => false

/-! ### `add_event_and_auth_chain_to_graph` (615-638) -/

/-- `graph.entry(eid).or_default()`. -/
def graphInsertNode (g : Graph) (n : Id) : Graph := if AL.contains g n then g else g ++ [(n, [])]

/-- `graph.get_mut(eid).unwrap().insert(aid)`; `none` = the `unwrap` fired. -/
def graphAddEdge : Graph → Id → Id → Option Graph
  | [], _, _ => none
  | (q, es) :: t, n, a =>
    if q = n then some ((q, if a ∈ es then es else es ++ [a]) :: t)
    else match graphAddEdge t n a with
      | none => none
      | some t' => some ((q, es) :: t')

/-- `for aid in fetch_event(eid).auth_events()`. The stack's top is the list head. -/
def addAuthEdges (allConf : List Id) (eid : Id) :
    List Id → Graph → List Id → Except Fail (Graph × List Id)
  | [], g, st => .ok (g, st)
  | aid :: rest, g, st =>
    if aid ∈ allConf then
      let st' := if AL.contains g aid then st else aid :: st
      match graphAddEdge g eid aid with
      | none => .error .panic
      | some g' => addAuthEdges allConf eid rest g' st'
    else addAuthEdges allConf eid rest g st

def authEventsOf (fetch : Id → Option Event) (id : Id) : List Id :=
  match fetch id with
  | some e => e.authEvents
  | none => []

/-- `while let Some(eid) = state.pop()`. -/
def dfs (fetch : Id → Option Event) (allConf : List Id) : Nat → List Id → Graph → Except Fail Graph
  | _, [], g => .ok g
  | 0, _ :: _, _ => .error .fuel
  | f + 1, eid :: st, g =>
    match addAuthEdges allConf eid (authEventsOf fetch eid) (graphInsertNode g eid) st with
    | .error e => .error e
    | .ok (g', st') => dfs fetch allConf f st' g'

/-- Enough fuel for one `add_event_and_auth_chain_to_graph` call (see `Lemmas`). -/
def dfsFuel (fetch : Id → Option Event) (allConf : List Id) : Nat :=
  (allConf.length + 1) * ((allConf.map (fun id => (authEventsOf fetch id).length)).sum + 1) + 1

/-- `for event_id in events_to_sort { add_event_and_auth_chain_to_graph(..) }`. -/
def buildGraph (fetch : Id → Option Event) (allConf : List Id) : List Id → Graph → Except Fail Graph
  | [], g => .ok g
  | c :: cs, g =>
    match dfs fetch allConf (dfsFuel fetch allConf) [c] g with
    | .error e => .error e
    | .ok g' => buildGraph fetch allConf cs g'

/-! ### `get_power_level_for_sender` (388-432) -/

/-- The `for aid in event.auth_events()` loop with its `break`. `lockSet` = `creator_lock.get().is_some()`. -/
def scanAuth (fetch : Id → Option Event) (lockSet : Bool) :
    List Id → Option Event → Option Event → Option Event × Option Event
  | [], pl, cr => (pl, cr)
  | aid :: rest, pl, cr =>
    match fetch aid with
    | none => scanAuth fetch lockSet rest pl cr
    | some aev =>
      let pc : Option Event × Option Event :=
        if isTypeAndKey aev tPowerLevels [] then (some aev, cr)
        else if !lockSet && isTypeAndKey aev tCreate [] then (pl, some aev)
        else (pl, cr)
      if pc.1.isSome && (lockSet || pc.2.isSome) then pc
      else scanAuth fetch lockSet rest pc.1 pc.2

/-- Returns the power level and the new content of `creator_lock`. -/
def powerLevelForSender (p : Params) (fetch : Id → Option Event) (lock : Option Str) (eid : Id) :
    Except Fail (Int × Option Str) :=
  let event := fetch eid
  let sc := scanAuth fetch lock.isSome (match event with | some e => e.authEvents | none => []) none none
  let creator : Except Fail (Option Str) :=
    match lock with
    | some c => .ok (some c)
    | none => match sc.2 with
      | some ce => match p.creatorOf ce with
        | some c => .ok (some c)
        | none => .error .err
      | none => .ok none
  match creator with
  | .error e => .error e
  | .ok cr =>
    let pl : Option Int :=
      match event, cr with
      | some ev, some c => p.userLevel sc.1 ev.sender c
      | _, _ => p.usersDefault sc.1
    match pl with
    | none => .error .err
    | some v => .ok (v, cr)

/-- `for event_id in graph.keys()` filling `event_to_pl`, threading `creator_lock`. -/
def powerLevels (p : Params) (fetch : Id → Option Event) :
    List Id → Option Str → List (Id × Int) → Except Fail (List (Id × Int))
  | [], _, m => .ok m
  | n :: ns, lock, m =>
    match powerLevelForSender p fetch lock n with
    | .error e => .error e
    | .ok (pl, lock') => powerLevels p fetch ns lock' (AL.insert m n pl)

/-! ### `reverse_topological_power_sort` (223-267) -/

def powerSort (p : Params) (o : Orders) (fetch : Id → Option Event) (allConf control : List Id) :
    Except Fail (List Id) :=
  match buildGraph fetch allConf control [] with
  | .error e => .error e
  | .ok g0 =>
    let g : Graph := o.graph.sh (g0.map (fun ne => (ne.1, (o.edges ne.1).sh ne.2)))
    match powerLevels p fetch g.nodes none [] with
    | .error e => .error e
    | .ok pls =>
      lexTopoSort (fun n => (o.parents n).sh) g (fun id =>
        match fetch id, AL.get pls id with
        | some ev, some pl => some (pl, ev.originServerTs)
        | _, _ => none)

/-! ### `iterative_auth_check` (443-514) -/

/-- `for aid in event.auth_events() { auth_events.insert(..) }`. -/
def authEventsMap (fetch : Id → Option Event) :
    List Id → List (SKey × Event) → Except Fail (List (SKey × Event))
  | [], m => .ok m
  | aid :: rest, m =>
    match fetch aid with
    | none => authEventsMap fetch rest m
    | some ev =>
      match ev.stateKey with
      | none => .error .err
      | some sk => authEventsMap fetch rest (AL.insert m (ev.type, sk) ev)

/-- `for key in auth_types { .. auth_events.insert(key, event) }`. -/
def overlayState (fetch : Id → Option Event) (st : StateMap) :
    List SKey → List (SKey × Event) → List (SKey × Event)
  | [], m => m
  | k :: ks, m =>
    match AL.get st k with
    | some id =>
      match fetch id with
      | some e => overlayState fetch st ks (AL.insert m k e)
      | none => overlayState fetch st ks m
    | none => overlayState fetch st ks m

def iterativeAuthCheck (p : Params) (fetch : Id → Option Event) :
    List Id → StateMap → Except Fail StateMap
  | [], st => .ok st
  | id :: rest, st =>
    match fetch id with
    | none => .error .err
    | some ev =>
      match ev.stateKey with
      | none => .error .err
      | some sk =>
        match authEventsMap fetch ev.authEvents [] with
        | .error e => .error e
        | .ok am =>
          match p.authTypes ev with
          | none => iterativeAuthCheck p fetch rest st
          | some tys =>
            let am' := overlayState fetch st tys am
            if p.auth ev (fun ty k => AL.get am' (ty, k)) then
              iterativeAuthCheck p fetch rest (AL.insert st (ev.type, sk) id)
            else iterativeAuthCheck p fetch rest st

/-! ### `mainline_sort`, `get_mainline_depth` (523-613) -/

/-- `for aid in event.auth_events() { fetch_event(aid)?; if PL { Some(aid); break } }`. -/
def firstPlAuth (fetch : Id → Option Event) : List Id → Except Fail (Option Event)
  | [] => .ok none
  | aid :: rest =>
    match fetch aid with
    | none => .error .err
    | some ev => if isTypeAndKey ev tPowerLevels [] then .ok (some ev) else firstPlAuth fetch rest

/-- `while let Some(p) = pl { mainline.push(p); .. }`. -/
def mainlineChain (fetch : Id → Option Event) : Nat → Option Id → List Id → Except Fail (List Id)
  | _, none, acc => .ok acc
  | 0, some _, _ => .error .fuel
  | f + 1, some pid, acc =>
    match fetch pid with
    | none => .error .err
    | some ev =>
      match firstPlAuth fetch ev.authEvents with
      | .error e => .error e
      | .ok nxt => mainlineChain fetch f (nxt.map (·.eventId)) (acc ++ [pid])

/-- `mainline.iter().rev().enumerate().map(|(idx, eid)| (eid, idx)).collect::<HashMap>()`. -/
def mainlineMap (mainline : List Id) : List (Id × Nat) :=
  (mainline.reverse.zipIdx).foldl (fun m p => AL.insert m p.1 p.2) []

/-- `get_mainline_depth`. -/
def mainlineDepth (fetch : Id → Option Event) (mm : List (Id × Nat)) :
    Nat → Option Event → Except Fail Nat
  | _, none => .ok 0
  | 0, some _ => .error .fuel
  | f + 1, some ev =>
    match AL.get mm ev.eventId with
    | some d => .ok d
    | none =>
      match firstPlAuth fetch ev.authEvents with
      | .error e => .error e
      | .ok nxt => mainlineDepth fetch mm f nxt

/-- The sort key `(depth, origin_server_ts, event_id)`. -/
structure MKey where
  depth : Nat
  ts : Int
  id : Id
  deriving DecidableEq, Repr

/-- `<=` of the tuple order. -/
def MKey.le (a b : MKey) : Bool :=
  if a.depth ≠ b.depth then decide (a.depth < b.depth)
  else if a.ts ≠ b.ts then decide (a.ts < b.ts)
  else decide (a.id ≤ b.id)

/-- `for ev_id in to_sort { .. order_map.insert(ev_id, (depth, ts, ev_id)) }`; an `Err` from
`get_mainline_depth` drops the event (`if let Ok`). -/
def orderMap (fetch : Id → Option Event) (mm : List (Id × Nat)) (fuel : Nat) :
    List Id → List (Id × MKey) → Except Fail (List (Id × MKey))
  | [], m => .ok m
  | id :: rest, m =>
    match fetch id with
    | none => orderMap fetch mm fuel rest m
    | some ev =>
      match mainlineDepth fetch mm fuel (some ev) with
      | .ok d => orderMap fetch mm fuel rest (AL.insert m id ⟨d, ev.originServerTs, id⟩)
      | .error .fuel => .error .fuel
      | .error _ => orderMap fetch mm fuel rest m

def mainlineSort (o : Orders) (fetch : Id → Option Event) (fuel : Nat) (toSort : List Id)
    (resolvedPl : Option Id) : Except Fail (List Id) :=
  if toSort.isEmpty then .ok []
  else
    match mainlineChain fetch fuel resolvedPl [] with
    | .error e => .error e
    | .ok mainline =>
      match orderMap fetch (mainlineMap mainline) fuel toSort [] with
      | .error e => .error e
      | .ok om => .ok (((o.orderMap.sh om).mergeSort (fun a b => MKey.le a.2 b.2)).map (·.1))

/-! ### `resolve` (58-158) -/

/-- `resolved_state.extend(clean)`. -/
def extend (st clean : StateMap) : StateMap := clean.foldl (fun m kv => AL.insert m kv.1 kv.2) st

def resolve (p : Params) (o : Orders) (store : List Event) (sets : List StateMap)
    (chains : List (List Id)) : Except Fail StateMap :=
  let fetch := fetchOf store
  let fuel := store.length + 1
  let sep := separate o sets
  let clean := sep.1
  if sep.2.isEmpty then .ok clean
  else
    let allConf := fullConflicted o fetch (authChainDiff o chains) sep.2
    let control := allConf.filter (isPowerEventId p fetch)
    match powerSort p o fetch allConf control with
    | .error e => .error e
    | .ok sortedControl =>
      match iterativeAuthCheck p fetch sortedControl clean with
      | .error e => .error e
      | .ok resolvedControl =>
        let toResolve := allConf.filter (fun id => !sortedControl.contains id)
        let powerEvent := AL.get resolvedControl (tPowerLevels, [])
        match mainlineSort o fetch fuel toResolve powerEvent with
        | .error e => .error e
        | .ok sortedLeft =>
          match iterativeAuthCheck p fetch sortedLeft resolvedControl with
          | .error e => .error e
          | .ok resolved => .ok (extend resolved clean)

/-! ### the parameters as they are in the repository -/

/-- `Params` instantiated with the model of `event_auth.rs` / `events/*.rs` (C08/C09,
`Model/Auth.lean`) for one set of `AuthorizationRules`: what `resolve` actually calls. The drivers
evaluate `resolve` and the specification with these parameters. -/
def realParams (r : AuthRules) : Params :=
  { creatorOf := fun e => (Auth.createCreator r e).toOption
    userLevel := fun pl u c => (Auth.plUserLevel r pl u c).toOption
    usersDefault := fun pl => (Auth.plIntOrDefault r pl .usersDefault).toOption
    membership := fun e => (Auth.contentMembership e.content).toOption
    authTypes := fun e => (Auth.authTypesForEvent r e).toOption
    auth := fun e f => Auth.authCheck r e f }

end Ruma.StateRes
