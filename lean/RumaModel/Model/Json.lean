/-
  Shared JSON value model.

  Strings are byte strings (`List Nat`, every element < 256 — the UTF-8 bytes of a Rust `String`).
  Rust's `BTreeMap<String, _>` orders keys by their bytes, which is `List.lt` on these lists.
  Objects are association lists; a `CanonicalJsonObject` is one whose keys are strictly ascending
  (`Obj.Sorted`), kept as a separate predicate rather than a subtype.
-/
namespace Ruma

abbrev Str := List Nat

/-- `serde_json::Value` after parsing / `CanonicalJsonValue`. `float` stands for every number that
is not an integer fitting `i64`/`u64` (fractions, exponents, `-0`, > u64). -/
inductive JVal where
  | null
  | bool (b : Bool)
  | int (i : Int)
  | float
  | str (s : Str)
  | arr (xs : List JVal)
  | obj (kvs : List (Str × JVal))
  deriving Repr, Inhabited

abbrev Obj := List (Str × JVal)

mutual
def JVal.beq : JVal → JVal → Bool
  | .null, .null => true
  | .bool a, .bool b => a == b
  | .int a, .int b => a == b
  | .float, .float => true
  | .str a, .str b => a == b
  | .arr a, .arr b => JVal.beqL a b
  | .obj a, .obj b => JVal.beqO a b
  | _, _ => false
def JVal.beqL : List JVal → List JVal → Bool
  | [], [] => true
  | a :: as, b :: bs => a.beq b && JVal.beqL as bs
  | _, _ => false
def JVal.beqO : List (Str × JVal) → List (Str × JVal) → Bool
  | [], [] => true
  | (k, a) :: as, (l, b) :: bs => k == l && a.beq b && JVal.beqO as bs
  | _, _ => false
end

instance : BEq JVal := ⟨JVal.beq⟩

/-- ASCII string literal to bytes. Only used with ASCII literals in models and specs. -/
def bs (s : String) : Str := s.toList.map Char.toNat

namespace Obj

/-- `BTreeMap::get`. Written for arbitrary association lists: first entry with the key. -/
def get (o : List (Str × α)) (k : Str) : Option α :=
  match o with
  | [] => none
  | (k', v) :: t => if k' = k then some v else get t k

def contains (o : List (Str × α)) (k : Str) : Bool := (get o k).isSome

/-- `BTreeMap::remove` (drops every entry with that key; on a sorted object there is at most one). -/
def erase (o : List (Str × α)) (k : Str) : List (Str × α) :=
  o.filter (fun p => p.1 ≠ k)

/-- `BTreeMap::insert`: replace in place if present, else insert at the sorted position. -/
def insert (o : List (Str × α)) (k : Str) (v : α) : List (Str × α) :=
  match o with
  | [] => [(k, v)]
  | (k', v') :: t =>
    if k' = k then (k, v) :: t
    else if k < k' then (k, v) :: (k', v') :: t
    else (k', v') :: insert t k v

def keys (o : List (Str × α)) : List Str := o.map (·.1)

/-- Strictly ascending keys (hence duplicate-free): the `BTreeMap` invariant. -/
def Sorted (o : List (Str × α)) : Prop := List.Pairwise (· < ·) (keys o)

/-- Build a sorted object from entries in text order; a later duplicate wins
(`BTreeMap: FromIterator`, `serde_json::Map` → `CanonicalJsonObject`). -/
def ofList (l : List (Str × α)) : List (Str × α) :=
  l.foldl (fun acc p => insert acc p.1 p.2) []

end Obj

end Ruma
