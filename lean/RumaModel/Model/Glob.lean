/-
  C12 — model of the string matching in `crates/ruma-common/src/push/condition.rs`:
  `StrExt::{matches_pattern, contains_word, matches_word, matches_word_impl, wildcards_to_regex}`,
  `CharExt::is_word_char`.

  Text is `List Char`. The Rust code indexes `&str` by bytes, but every index it computes is a
  char boundary (`find` of a valid UTF-8 needle, `char_indices`, `char_len`), and it only ever
  looks at whole `char`s (`char_at`, `find_prev_char`), so positions are modelled as code-point
  positions. `is_word_char` is ASCII-only and every byte of a multi-byte character is ≥ 0x80, so
  byte-level and char-level word tests agree.

  External code is a parameter (`Ext`):
  * `lower`   — `str::to_lowercase`;
  * `wild`    — `wildmatch::WildMatch::new(p).matches(s)` (whole-value mode);
  * `rxMatch` — `regex::bytes::Regex::new(r).is_match(s)` for the regex that `matches_word`
                builds from the chunk list, `(?-u:^|\W|\b) chunks (?-u:\b|\W|$)`;
  * `isUserId` — `<&UserId>::try_from` succeeds (identifier validation, property C10).
  The assumptions made about `wild` and `rxMatch` are the fields of `ExtOk`
  (`Lemmas/PushPattern.lean`); `lower` and `isUserId` are arbitrary functions in every theorem.
-/
set_option linter.unusedVariables false
namespace Ruma.Push

abbrev Text := List Char

/-- `CharExt::is_word_char`: `is_ascii_alphanumeric() || == '_'`. -/
def isWordChar (c : Char) : Bool := c.isAlphanum || c == '_'

/-- `matches!(c, '?' | '*')`. -/
def isWild (c : Char) : Bool := c == '?' || c == '*'

/-- A panic site of the Rust code that the model contains. -/
inductive Panic where
  /-- `char_at(index)` with `index == len` (slice out of range). -/
  | charAt
  /-- `find_prev_char(end).unwrap()` on `None`. -/
  | unwrapPrev
  deriving DecidableEq, Repr

abbrev Res := Except Panic Bool

/-! ### The generated regular expression -/

/-- One element of `chunks` in `matches_word`. -/
inductive Chunk where
  /-- `regex::escape(l)`: exactly the text `l`. -/
  | lit (l : Text)
  /-- `wildcards_to_regex`: `(?s:.){n}` (`open_ = false`) or `(?s:.){n,}` (`open_ = true`). -/
  | dots (n : Nat) (open_ : Bool)
  deriving DecidableEq, Repr

/-- `wildcards_to_regex` on a run of wildcards: count the `?`, and `{n,}` iff there is a `*`. -/
def wildcardsToRegex (run : Text) : Chunk :=
  .dots (run.filter (· == '?')).length (run.contains '*')

/-- The loop over `pattern.char_indices()` in `matches_word`, followed by the final push.
`pw` = `prev_wildcard`, `cur` = `pattern[chunk_start..i]`, `first` = (`i == 0`).
Chunks are produced in the order the Rust code pushes them. -/
def chunksGo (pw : Bool) (cur : Text) (first : Bool) : Text → List Chunk
  | [] => if pw then [wildcardsToRegex cur] else [.lit cur]
  | c :: rest =>
    if isWild c then
      if !pw then
        if first then chunksGo true (cur ++ [c]) false rest
        else .lit cur :: chunksGo true [c] false rest
      else chunksGo true (cur ++ [c]) false rest
    else if pw then wildcardsToRegex cur :: chunksGo false [c] false rest
    else chunksGo false (cur ++ [c]) false rest

def chunks (pattern : Text) : List Chunk := chunksGo false [] true pattern

/-- What a chunk list denotes (standard regex semantics of concatenation, literals and
`(?s:.){n}` / `(?s:.){n,}`; `(?s:.)` matches every code point). -/
def ChunksMatch : List Chunk → Text → Prop
  | [], t => t = []
  | .lit l :: cs, t => ∃ r, t = l ++ r ∧ ChunksMatch cs r
  | .dots n false :: cs, t => ∃ u r, t = u ++ r ∧ u.length = n ∧ ChunksMatch cs r
  | .dots n true :: cs, t => ∃ u r, t = u ++ r ∧ n ≤ u.length ∧ ChunksMatch cs r

def slice (s : Text) (i j : Nat) : Text := (s.drop i).take (j - i)

def wordAt (s : Text) (k : Nat) : Bool :=
  match s[k]? with
  | some c => isWordChar c
  | none => false

/-- `(?-u:\b)` at position `k`: exactly one side is a word character. -/
def asciiWordBoundary (s : Text) (k : Nat) : Bool :=
  (k ≠ 0 && wordAt s (k - 1)) != wordAt s k

/-- `(?-u:^|\W|\b)` ends at position `i`: start of text, or the character before `i` is consumed
by `\W`, or `\b` holds at `i`. -/
def startEdge (s : Text) (i : Nat) : Bool :=
  i == 0 || (i ≠ 0 && i ≤ s.length && !wordAt s (i - 1)) || asciiWordBoundary s i

/-- `(?-u:\b|\W|$)` starts at position `j`: `\b` holds at `j`, or the character at `j` is consumed
by `\W`, or end of text. -/
def endEdge (s : Text) (j : Nat) : Bool :=
  asciiWordBoundary s j || (j < s.length && !wordAt s j) || j == s.length

/-- The meaning of `Regex::new("(?-u:^|\W|\b)" + chunks + "(?-u:\b|\W|$)").is_match(s)`. -/
def RegexMatches (cs : List Chunk) (s : Text) : Prop :=
  ∃ i j, i ≤ j ∧ j ≤ s.length ∧ startEdge s i = true ∧ ChunksMatch cs (slice s i j) ∧ endEdge s j = true

/-! ### External functions -/

structure Ext where
  lower : Text → Text
  wild : Text → Text → Bool
  rxMatch : List Chunk → Text → Bool
  isUserId : Text → Bool

/-! ### `matches_word`, literal branch -/

/-- `str::find(pattern)`: the text before the first occurrence and the text from it on. -/
def findSub (p : Text) : Text → Option (Text × Text)
  | [] => if p.isEmpty then some ([], []) else none
  | c :: t =>
    if p.isPrefixOf (c :: t) then some ([], c :: t)
    else (findSub p t).map fun (a, b) => (c :: a, b)

/-- The two `find`s of "Find next word": skip to the first non-word character, then to the first
word character after it. `none` = one of the two `find`s returned `None`. -/
def nextWord (rest : Text) : Option Text :=
  match rest.dropWhile isWordChar with
  | [] => none
  | nw :: t =>
    match (nw :: t).dropWhile (fun c => !isWordChar c) with
    | [] => none
    | w :: t' => some (w :: t')

theorem dropWhile_length_le (f : Char → Bool) (l : Text) : (l.dropWhile f).length ≤ l.length := by
  induction l with
  | nil => simp
  | cons a t ih =>
    simp only [List.dropWhile_cons]
    split
    · simp only [List.length_cons]; omega
    · simp

theorem nextWord_length {rest t : Text} (h : nextWord rest = some t) : t.length < rest.length := by
  unfold nextWord at h
  cases rest with
  | nil => simp at h
  | cons a r =>
    by_cases ha : isWordChar a = true
    · -- the word run is non-empty
      have h1 : ((a :: r).dropWhile isWordChar).length ≤ r.length := by
        simp only [List.dropWhile_cons, ha, if_true]; exact dropWhile_length_le _ _
      revert h
      cases hd : (a :: r).dropWhile isWordChar with
      | nil => simp
      | cons nw t1 =>
        intro h
        simp only at h
        cases hd2 : (nw :: t1).dropWhile (fun c => !isWordChar c) with
        | nil => rw [hd2] at h; simp at h
        | cons w t' =>
          rw [hd2] at h
          simp only [Option.some.injEq] at h
          subst h
          have := dropWhile_length_le (fun c => !isWordChar c) (nw :: t1)
          rw [hd2] at this
          rw [hd] at h1
          simp only [List.length_cons] at *
          omega
    · have hd : (a :: r).dropWhile isWordChar = a :: r := by
        simp only [List.dropWhile_cons, ha]; simp
      rw [hd] at h
      simp only at h
      have h2 : (a :: r).dropWhile (fun c => !isWordChar c) = r.dropWhile (fun c => !isWordChar c) := by
        simp only [List.dropWhile_cons, ha]; simp
      rw [h2] at h
      cases hd2 : r.dropWhile (fun c => !isWordChar c) with
      | nil => rw [hd2] at h; simp at h
      | cons w t' =>
        rw [hd2] at h
        simp only [Option.some.injEq] at h
        subst h
        have := dropWhile_length_le (fun c => !isWordChar c) r
        rw [hd2] at this
        simp only [List.length_cons] at *
        omega

theorem findSub_length {p s a b : Text} (h : findSub p s = some (a, b)) : b.length ≤ s.length := by
  induction s generalizing a b with
  | nil =>
    unfold findSub at h
    split at h <;> simp at h
    simp [h.2]
  | cons c t ih =>
    unfold findSub at h
    split at h
    · simp only [Option.some.injEq, Prod.mk.injEq] at h; simp [← h.2]
    · cases hf : findSub p t with
      | none => rw [hf] at h; simp at h
      | some ab =>
        rw [hf] at h
        obtain ⟨a', b'⟩ := ab
        simp only [Option.map_some, Option.some.injEq, Prod.mk.injEq] at h
        have := ih hf
        rw [← h.2]
        simp only [List.length_cons]; omega

/-- `word_boundary_start`: `!self.char_at(start).is_word_char()
|| !self.find_prev_char(start).is_some_and(|c| c.is_word_char())`; `pre` is the text before
`start`, `rest` the text from `start` on. -/
def wordBoundaryStart (pre rest : Text) : Res :=
  match rest.head? with
  | none => .error .charAt
  | some c0 =>
    .ok (!isWordChar c0 || !(match pre.getLast? with | some c => isWordChar c | none => false))

/-- `word_boundary_end`: `end == self.len() || !self.find_prev_char(end).unwrap().is_word_char()
|| !self.char_at(end).is_word_char()`; `upto` is the text before `end`, `post` the text from it on. -/
def wordBoundaryEnd (upto post : Text) : Res :=
  if post.isEmpty then .ok true
  else
    match upto.getLast? with
    | none => .error .unwrapPrev
    | some cl =>
      if !isWordChar cl then .ok true
      else
        match post.head? with
        | none => .error .charAt
        | some ce => .ok (!isWordChar ce)

/-- `matches_word` for a pattern without wildcards (`has_wildcards == false`), including the
`self == pattern` test at the head of every recursive call. `p` is non-empty here. -/
def scanLit (p : Text) (s : Text) : Res :=
  if s = p then .ok true
  else
    match h : findSub p s with
    | none => .ok false
    | some (pre, rest) =>
      -- start = |pre|, end = start + |p|
      match wordBoundaryStart pre rest with
      | .error e => .error e
      | .ok wbs =>
        match (if wbs then wordBoundaryEnd (pre ++ p) (rest.drop p.length) else .ok false) with
        | .error e => .error e
        | .ok true => .ok true
        | .ok false =>
          -- "Find next word"
          match h2 : nextWord rest with
          | none => .ok false
          | some next => scanLit p next
termination_by s.length
decreasing_by
  have h1 := findSub_length h
  have h3 := nextWord_length h2
  omega

/-- `StrExt::matches_word_impl` (value and pattern already lower-cased): the `self == pattern`
shortcut, the empty pattern, then the chunked regular expression if `hasWildcards`, else the scanner
(whose recursive call passes `has_wildcards = false` again). -/
def matchesWordImpl (E : Ext) (hasWildcards : Bool) (p s : Text) : Res :=
  if s = p then .ok true
  else if p.isEmpty then .ok false
  else if hasWildcards then .ok (E.rxMatch (chunks p) s)
  else scanLit p s

/-- `StrExt::matches_word`: `has_wildcards = pattern.contains(['?', '*'])`. -/
def matchesWord (E : Ext) (p s : Text) : Res := matchesWordImpl E (p.any isWild) p s

/-- `StrExt::contains_word`: the word is literal text (`has_wildcards = false` whatever it contains);
both sides are lower-cased. Used for `contains_display_name`. -/
def containsWord (E : Ext) (value word : Text) : Res :=
  matchesWordImpl E false (E.lower word) (E.lower value)

/-- `StrExt::matches_pattern`. -/
def matchesPattern (E : Ext) (value pattern : Text) (matchWords : Bool) : Res :=
  let v := E.lower value
  let p := E.lower pattern
  if matchWords then matchesWord E p v else .ok (E.wild p v)

/-! ### Reference instances of the external functions

Small executable references, used by the driver (T2 compares them with the real `regex` and
`wildmatch` on every generated input) and shown in `Props/C12.lean` to satisfy `ExtOk`. -/

/-- `f` holds of some suffix of the text. -/
def anySuffix (f : Text → Bool) : Text → Bool
  | [] => f []
  | c :: t => f (c :: t) || anySuffix f t

/-- Matcher for a chunk list against a whole text. -/
def chunksDecide : List Chunk → Text → Bool
  | [], t => t.isEmpty
  | .lit l :: cs, t => l.isPrefixOf t && chunksDecide cs (t.drop l.length)
  | .dots n false :: cs, t => decide (n ≤ t.length) && chunksDecide cs (t.drop n)
  | .dots n true :: cs, t => decide (n ≤ t.length) && anySuffix (chunksDecide cs) (t.drop n)

/-- Reference for `Regex::is_match` of the generated regex. -/
def rxDecide (cs : List Chunk) (s : Text) : Bool :=
  (List.range (s.length + 1)).any fun i =>
    startEdge s i &&
      (List.range (s.length + 1)).any fun j =>
        decide (i ≤ j) && endEdge s j && chunksDecide cs (slice s i j)

end Ruma.Push
