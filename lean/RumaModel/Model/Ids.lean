/-
  C10 — model of Matrix identifier parsing
  (`ruma-identifiers-validation/src/*.rs`, accessors of `ruma-common/src/identifiers/*.rs`).

  Strings are byte strings (`Str = List Nat`, the UTF-8 bytes of a Rust `&str`). Rust's `str` API is
  byte indexed: `find(':')` returns a byte index, `&s[a..b]` panics when `a > b`, `b > len` or an index
  is not a char boundary. Every index / slice / `unwrap` / `assert!` / `unreachable!` of the modelled
  code is an explicit `Res.panic` outcome; "never panics" is the theorem that this outcome is
  unreachable (Props/C10.lean).

  External code is a parameter (`Ext`): `Ipv6Addr::from_str`, `Ipv4Addr::from_str` and
  `char::is_alphanumeric` on non-ASCII characters.

  Feature set: default (`compat-arbitrary-length-ids` and `compat-server-signing-key-version` off).
-/
import RumaModel.Model.Json
import RumaModel.Spec.IdGrammar
namespace Ruma.Ids
open Ruma
open Ruma.Spec.IdGrammar (Kind)

/-- Outcome of a modelled Rust call: `Ok(a)` / returned value, `Err(_)`, or a panic. -/
inductive Res (α : Type) where
  | ok (a : α)
  | err
  | panic
  deriving Repr, DecidableEq

def Res.isOk : Res α → Bool
  | .ok _ => true
  | _ => false

/-- Forget the value (`.map(|_| ())`). -/
def Res.void : Res α → Res Unit
  | .ok _ => .ok ()
  | .err => .err
  | .panic => .panic

/-- Code that is not ruma's, as parameters. -/
structure Ext where
  /-- `s.parse::<std::net::Ipv6Addr>().is_ok()` -/
  isIpv6 : Str → Bool
  /-- `s.parse::<std::net::Ipv4Addr>().is_ok()` -/
  isIpv4 : Str → Bool
  /-- every non-ASCII `char` of `s` satisfies `char::is_alphanumeric` -/
  uniAlnum : Str → Bool

/-! ## `str` primitives -/

/-- UTF-8 continuation byte `10xxxxxx`. -/
def isCont (b : Nat) : Bool := decide (128 ≤ b) && decide (b < 192)

/-- `str::is_char_boundary`. -/
def isBoundary (s : Str) (i : Nat) : Bool :=
  if i = 0 then true
  else match s[i]? with
    | some b => !isCont b
    | none => decide (i = s.length)

/-- `&s[i..]` -/
def sliceFrom (s : Str) (i : Nat) : Res Str :=
  if isBoundary s i then .ok (s.drop i) else .panic

/-- `&s[..j]` -/
def sliceTo (s : Str) (j : Nat) : Res Str :=
  if isBoundary s j then .ok (s.take j) else .panic

/-- `&s[i..j]` -/
def slice (s : Str) (i j : Nat) : Res Str :=
  if decide (i ≤ j) && isBoundary s i && isBoundary s j then .ok ((s.take j).drop i) else .panic

/-- `s.find(c)` for an ASCII `c`: byte index of the first occurrence. -/
def find (c : Nat) : Str → Option Nat
  | [] => none
  | b :: t => if b = c then some 0 else (find c t).map (· + 1)

/-- `s.contains(c)` / `s.as_bytes().contains(&c)` for an ASCII `c`. -/
def has (c : Nat) (s : Str) : Bool := s.any (· == c)

def isDigit (b : Nat) : Bool := decide (48 ≤ b) && decide (b ≤ 57)
def isLower (b : Nat) : Bool := decide (97 ≤ b) && decide (b ≤ 122)
def isUpper (b : Nat) : Bool := decide (65 ≤ b) && decide (b ≤ 90)
/-- `u8::is_ascii_alphanumeric` -/
def isAlnum (b : Nat) : Bool := isDigit b || isLower b || isUpper b

/-- Decimal digits to a number; `none` on a non-digit (`IntErrorKind::InvalidDigit`). -/
def digitsVal : Str → Nat → Option Nat
  | [], acc => some acc
  | b :: t, acc => if isDigit b then digitsVal t (acc * 10 + (b - 48)) else none

/-- `from_str_radix` for an unsigned type strips one leading `+` (a `-` stays and is an invalid
digit). -/
def stripPlus : Str → Str
  | 43 :: t => t
  | s => s

/-- `s.parse::<u16>()` exactly: empty fails, a lone sign fails, one leading `+` is accepted, `-` is
an invalid digit, any number of leading zeros, overflow beyond 65535 fails. -/
def parseU16 (s : Str) : Option Nat :=
  if s = [] ∨ s = [43] ∨ s = [45] then none
  else match digitsVal (stripPlus s) 0 with
    | some v => if v ≤ 65535 then some v else none
    | none => none

/-! ## `server_name::validate` -/

def hostByteOk (b : Nat) : Bool := isAlnum b || b == 45 || b == 46

/-- `is_valid_port`: 1 to 5 ASCII digits that fit a `u16`. -/
def isValidPort (p : Str) : Bool :=
  decide (1 ≤ p.length) && decide (p.length ≤ 5) && p.all isDigit && (parseU16 p).isSome

/-- The `end_of_host` computation of `server_name::validate`. -/
def endOfHost (x : Ext) (s : Str) : Res Nat :=
  if s.head? = some 91 then
    match find 93 s with
    | none => .err
    | some e =>
      match slice s 1 e with
      | .ok c => if x.isIpv6 c then .ok (e + 1) else .err
      | _ => .panic
  else
    let e := match find 58 s with
      | some i => i
      | none => s.length
    match sliceTo s e with
    | .ok h => if e = 0 || h.any (fun b => !hostByteOk b) then .err else .ok e
    | _ => .panic

/-- The final `if` of `server_name::validate`: nothing after the host, or `":" port`. -/
def checkPort (s : Str) (e : Nat) : Res Unit :=
  if s.length = e then .ok ()
  else match s[e]? with
    | none => .panic
    | some b =>
      if b ≠ 58 then .err
      else match sliceFrom s (e + 1) with
        | .ok p => if isValidPort p then .ok () else .err
        | _ => .panic

def serverNameValidate (x : Ext) (s : Str) : Res Unit :=
  if s = [] then .err
  else match endOfHost x s with
    | .err => .err
    | .panic => .panic
    | .ok e => checkPort s e

/-! ## `lib.rs`: `validate_id`, `parse_id`, localpart check -/

def validateId (s : Str) (sigil : Nat) : Res Unit :=
  if s.length > 255 then .err
  else if s.head? ≠ some sigil then .err
  else .ok ()

def parseId (x : Ext) (s : Str) (sigil : Nat) : Res Nat :=
  match validateId s sigil with
  | .err => .err
  | .panic => .panic
  | .ok () =>
    match find 58 s with
    | none => .err
    | some ci =>
      match sliceFrom s (ci + 1) with
      | .ok srv =>
        match serverNameValidate x srv with
        | .ok () => .ok ci
        | .err => .err
        | .panic => .panic
      | _ => .panic

/-- `localpart_is_backwards_compatible(..).is_ok()` -/
def localpartCompat (lp : Str) : Bool := !(has 58 lp || has 0 lp)

/-- Shared shape of `user_id::validate` and `room_alias_id::validate`. -/
def delimitedValidate (x : Ext) (sigil : Nat) (s : Str) : Res Unit :=
  match parseId x s sigil with
  | .err => .err
  | .panic => .panic
  | .ok ci =>
    match slice s 1 ci with
    | .ok lp => if localpartCompat lp then .ok () else .err
    | _ => .panic

def userIdValidate (x : Ext) (s : Str) : Res Unit := delimitedValidate x 64 s
def roomAliasIdValidate (x : Ext) (s : Str) : Res Unit := delimitedValidate x 35 s

def userIdCharOk (b : Nat) : Bool :=
  isDigit b || isLower b || b == 45 || b == 46 || b == 61 || b == 95 || b == 47 || b == 43

/-- `localpart_is_fully_conforming`: `Err`, `Ok(false)` (historical) or `Ok(true)`. -/
def localpartFullyConforming (lp : Str) : Res Bool :=
  if lp = [] then .err
  else if lp.all userIdCharOk then .ok true
  else if lp.any (fun b => decide (b < 33) || b == 58 || decide (b > 126)) then .err
  else .ok false

/-- `user_id::validate_strict` -/
def userIdValidateStrict (x : Ext) (s : Str) : Res Unit :=
  if s.length > 255 then .err
  else match parseId x s 64 with
    | .err => .err
    | .panic => .panic
    | .ok ci =>
      match slice s 1 ci with
      | .ok lp =>
        match localpartFullyConforming lp with
        | .ok true => .ok ()
        | .ok false => .err
        | .err => .err
        | .panic => .panic
      | _ => .panic

def roomIdValidate (s : Str) : Res Unit :=
  match validateId s 33 with
  | .err => .err
  | .panic => .panic
  | .ok () => if has 0 s then .err else .ok ()

def roomOrAliasIdValidate (x : Ext) (s : Str) : Res Unit :=
  match s.head? with
  | some 35 => roomAliasIdValidate x s
  | some 33 => roomIdValidate s
  | _ => .err

def eventIdValidate (x : Ext) (s : Str) : Res Unit :=
  if has 58 s then
    match parseId x s 36 with
    | .ok _ => .ok ()
    | .err => .err
    | .panic => .panic
  else validateId s 36

/-! ## Opaque-ish identifier types -/

/-- `s.chars().all(|c| c.is_alphanumeric() || extra(c))` for ASCII `extra`: every ASCII byte is
alphanumeric or `extra`, and every non-ASCII character is alphanumeric (the external verdict, asked
only when there is a non-ASCII byte). -/
def allUniAlnumOr (x : Ext) (extra : Nat → Bool) (s : Str) : Bool :=
  s.all (fun b => decide (128 ≤ b) || isAlnum b || extra b)
    && (s.all (fun b => decide (b < 128)) || x.uniAlnum s)

def base64PublicKeyValidate (x : Ext) (s : Str) : Res Unit :=
  if s = [] then .err
  else if !allUniAlnumOr x (fun b => b == 43 || b == 47 || b == 61) s then .err
  else .ok ()

def serverSigningKeyVersionValidate (x : Ext) (s : Str) : Res Unit :=
  if s = [] then .err
  else if !allUniAlnumOr x (fun b => b == 95) s then .err
  else .ok ()

def secretByteExtra (b : Nat) : Bool := b == 46 || b == 61 || b == 95 || b == 45

def clientSecretValidate (x : Ext) (s : Str) : Res Unit :=
  if s.length > 255 then .err
  else if !allUniAlnumOr x secretByteExtra s then .err
  else if s = [] then .err
  else .ok ()

/-- `validate_session_id` (ruma-common `session_id.rs`): ASCII only. -/
def sessionIdValidate (s : Str) : Res Unit :=
  if s.length > 255 then .err
  else if s.any (fun b => !(isAlnum b || secretByteExtra b)) then .err
  else if s = [] then .err
  else .ok ()

/-- `s.chars().count()` on valid UTF-8: the bytes that are not continuation bytes. -/
def charCount (s : Str) : Nat := (s.filter (fun b => !isCont b)).length

def roomVersionIdValidate (s : Str) : Res Unit :=
  if s = [] then .err
  else if charCount s > 32 then .err
  else if !s.all (fun b => isAlnum b || b == 46 || b == 45) then .err
  else .ok ()

/-! ## `key_id::validate`, `mxc_uri::validate` -/

/-- The `KeyName` implementations: `DeviceId`, `OneTimeKeyName`, `Base64PublicKeyOrDeviceId`,
`AnyKeyName` accept everything; `ServerSigningKeyVersion` and `Base64PublicKey` validate. -/
inductive KeyNameKind where
  | any | signingKeyVersion | base64
  deriving Repr, DecidableEq

def keyNameValidate (x : Ext) : KeyNameKind → Str → Res Unit
  | .any, _ => .ok ()
  | .signingKeyVersion, s => serverSigningKeyVersionValidate x s
  | .base64, s => base64PublicKeyValidate x s

/-- `key_id::validate::<K>`: the (non-zero) colon index. -/
def keyIdValidate (x : Ext) (k : KeyNameKind) (s : Str) : Res Nat :=
  match find 58 s with
  | none => .err
  | some ci =>
    if ci = 0 then .err
    else match sliceFrom s (ci + 1) with
      | .ok name =>
        match keyNameValidate x k name with
        | .ok () => .ok ci
        | .err => .err
        | .panic => .panic
      | _ => .panic

def mxcPrefix : Str := [109, 120, 99, 58, 47, 47]

def mediaByteOk (b : Nat) : Bool := isAlnum b || b == 45 || b == 95

/-- `mxc_uri::validate`: the (non-zero) index of the slash after the server name. -/
def mxcValidate (x : Ext) (s : Str) : Res Nat :=
  if s.take 6 ≠ mxcPrefix then .err
  else
    let uri := s.drop 6
    match find 47 uri with
    | none => .err
    | some index =>
      match sliceTo uri index, sliceFrom uri (index + 1) with
      | .ok server, .ok media =>
        if !media.all mediaByteOk then .err
        else match serverNameValidate x server with
          | .panic => .panic
          | .err => .err
          | .ok () => if index + 6 = 0 then .panic else .ok (index + 6)
      | _, _ => .panic

/-! ## Accessors (`ruma-common/src/identifiers/*.rs`) -/

/-- `colon_idx()` of `UserId` / `RoomAliasId` / `KeyId`: `find(':').unwrap()`. -/
def colonIdx (s : Str) : Res Nat :=
  match find 58 s with
  | some i => .ok i
  | none => .panic

/-- `UserId::localpart`, `RoomAliasId::alias`: `&s[1..colon_idx]`. -/
def localpart (s : Str) : Res Str :=
  match colonIdx s with
  | .ok ci => slice s 1 ci
  | _ => .panic

/-- `UserId::server_name`, `RoomAliasId::server_name`: `&s[colon_idx + 1..]`. -/
def serverNameOf (s : Str) : Res Str :=
  match colonIdx s with
  | .ok ci => sliceFrom s (ci + 1)
  | _ => .panic

/-- `EventId::localpart` -/
def eventLocalpart (s : Str) : Res Str :=
  let idx := match find 58 s with
    | some i => i
    | none => s.length
  slice s 1 idx

/-- `EventId::server_name` -/
def eventServerName (s : Str) : Res (Option Str) :=
  match find 58 s with
  | none => .ok none
  | some ci =>
    match sliceFrom s (ci + 1) with
    | .ok srv => .ok (some srv)
    | _ => .panic

/-- `RoomOrAliasId::server_name` (also `RoomId::server_name`): the part after the first colon if it
is a valid server name. -/
def roomServerName (x : Ext) (s : Str) : Res (Option Str) :=
  match find 58 s with
  | none => .ok none
  | some ci =>
    match sliceFrom s (ci + 1) with
    | .ok srv =>
      match serverNameValidate x srv with
      | .ok () => .ok (some srv)
      | .err => .ok none
      | .panic => .panic
    | _ => .panic

/-- `RoomOrAliasId::is_room_id` via `variant()`; anything else than `!`/`#` is
`unreachable_unchecked()` (modelled as panic). -/
def isRoomId (s : Str) : Res Bool :=
  match s.head? with
  | some 33 => .ok true
  | some 35 => .ok false
  | _ => .panic

/-- `ServerName::host` -/
def host (s : Str) : Res Str :=
  match find 93 s with
  | some e => sliceTo s (e + 1)
  | none =>
    let e := match find 58 s with
      | some i => i
      | none => s.length
    sliceTo s e

/-- `ServerName::port` -/
def port (s : Str) : Res (Option Nat) :=
  let e := match find 93 s with
    | some i => i + 1
    | none => match find 58 s with
      | some i => i
      | none => s.length
  if s.length = e then .ok none
  else match s[e]? with
    | none => .panic
    | some b =>
      if b ≠ 58 then .panic
      else match sliceFrom s (e + 1) with
        | .ok p =>
          match parseU16 p with
          | some v => .ok (some v)
          | none => .panic
        | _ => .panic

/-- `ServerName::is_ip_literal` -/
def isIpLiteral (x : Ext) (s : Str) : Res Bool :=
  match host s with
  | .ok h => .ok (x.isIpv4 h || s.head? = some 91)
  | _ => .panic

/-- `MxcUri::parts`: `Err(_)` when invalid, else `(&s[6..idx], &s[idx + 1..])`. -/
def mxcParts (x : Ext) (s : Str) : Res (Str × Str) :=
  match mxcValidate x s with
  | .err => .err
  | .panic => .panic
  | .ok idx =>
    match slice s 6 idx, sliceFrom s (idx + 1) with
    | .ok server, .ok media => .ok (server, media)
    | _, _ => .panic

/-- `KeyId::algorithm` (as a string): `&s[..colon_idx]`. -/
def keyAlgorithm (s : Str) : Res Str :=
  match colonIdx s with
  | .ok ci => sliceTo s ci
  | _ => .panic

/-- `KeyId::key_name`: `<&K>::try_from(&s[colon_idx + 1..]).unwrap_or_else(|_| unreachable!())`. -/
def keyName (x : Ext) (k : KeyNameKind) (s : Str) : Res Str :=
  match colonIdx s with
  | .ok ci =>
    match sliceFrom s (ci + 1) with
    | .ok name =>
      match keyNameValidate x k name with
      | .ok () => .ok name
      | _ => .panic
    | _ => .panic
  | _ => .panic

/-! ## Constructors -/

/-- `UserId::parse_with_server_name(id, server_name)`; `server` is an accepted server name. -/
def parseWithServerName (x : Ext) (id server : Str) : Res Str :=
  if id.head? = some 64 then
    match userIdValidate x id with
    | .ok () => .ok id
    | .err => .err
    | .panic => .panic
  else if !localpartCompat id then .err
  else
    let full := 64 :: (id ++ 58 :: server)
    match userIdValidate x full with
    | .ok () => .ok full
    | .err => .err
    | .panic => .panic

/-- `KeyId::from_parts(algorithm, key_name)` -/
def keyFromParts (alg name : Str) : Str := alg ++ 58 :: name

/-- `UserId::new`, `RoomId::new`, `EventId::new`: sigil, random alphanumeric localpart, server. -/
def newId (sigil : Nat) (lp server : Str) : Str := sigil :: (lp ++ 58 :: server)

/-! ## One entry point per identifier type -/

def keyKind : Kind → KeyNameKind
  | .keyVersion => .signingKeyVersion
  | .keyBase64 => .base64
  | _ => .any

/-- The validation function each identifier type is parsed with (`#[ruma_id(validate = …)]`;
`MxcUri` is unchecked at construction and validated by `MxcUri::validate`). -/
def validate (x : Ext) : Kind → Str → Res Unit
  | .user, s => userIdValidate x s
  | .room, s => roomIdValidate s
  | .alias, s => roomAliasIdValidate x s
  | .roomOrAlias, s => roomOrAliasIdValidate x s
  | .event, s => eventIdValidate x s
  | .server, s => serverNameValidate x s
  | .keyAny, s => (keyIdValidate x .any s).void
  | .keyVersion, s => (keyIdValidate x .signingKeyVersion s).void
  | .keyBase64, s => (keyIdValidate x .base64 s).void
  | .mxc, s => (mxcValidate x s).void
  | .roomVersion, s => roomVersionIdValidate s
  | .signingKeyVersion, s => serverSigningKeyVersionValidate x s
  | .base64PublicKey, s => base64PublicKeyValidate x s
  | .clientSecret, s => clientSecretValidate x s
  | .sessionId, s => sessionIdValidate s

/-! ## Names used by other properties (C11) -/

def validateServerName := serverNameValidate
def validateUserId := userIdValidate
def validateRoomAliasId := roomAliasIdValidate
def validateRoomId (_x : Ext) (s : Str) : Res Unit := roomIdValidate s
def validateEventId := eventIdValidate
def validateRoomOrAliasId := roomOrAliasIdValidate

/-- Rust `&str` contents are well-formed UTF-8 (RFC 3629, as `core::str::from_utf8` checks). -/
def utf8Valid : Str → Bool
  | [] => true
  | b :: t =>
    if b < 128 then utf8Valid t
    else if 194 ≤ b ∧ b ≤ 223 then
      match t with
      | c1 :: t1 => isCont c1 && utf8Valid t1
      | _ => false
    else if 224 ≤ b ∧ b ≤ 239 then
      match t with
      | c1 :: c2 :: t2 =>
        isCont c1 && isCont c2 && decide (b = 224 → 160 ≤ c1) && decide (b = 237 → c1 < 160)
          && utf8Valid t2
      | _ => false
    else if 240 ≤ b ∧ b ≤ 244 then
      match t with
      | c1 :: c2 :: c3 :: t3 =>
        isCont c1 && isCont c2 && isCont c3 && decide (b = 240 → 144 ≤ c1)
          && decide (b = 244 → c1 < 144) && utf8Valid t3
      | _ => false
    else false

end Ruma.Ids
