/-
  Model of crates/ruma-signatures/src/keys/compat.rs (feature `ring-compat`):
  `CompatibleDocument::from_bytes`, `is_ring`, `fix_ring_doc`, with every `assert!`, `expect`,
  index, slice and `as u8 - 2` as an explicit `panic` outcome (the subtraction is counted as a
  panic when it would underflow, as in a build with overflow checks).
-/
import RumaModel.Model.Json
namespace Ruma.RingCompat

inductive Out (α : Type) where
  | ok (a : α)
  | panic
  deriving Repr, DecidableEq

/-- `RING_TEMPLATE_CONTEXT_SPECIFIC`. -/
def template : List Nat := [0xA1, 0x23, 0x03, 0x21]

/-- `WELL_FORMED_CONTEXT_ONE_PREFIX`. -/
def wellFormedPrefix : List Nat := [0x81, 0x21]

/-- `subslice::SubsliceExt::find`: index of the first occurrence of `pat` in `s`. -/
def findSub (pat : List Nat) : List Nat → Option Nat
  | [] => if pat.isEmpty then some 0 else none
  | b :: t =>
    if pat.isPrefixOf (b :: t) then some 0
    else (findSub pat t).map (· + 1)

/-- `is_ring` (after the F14 repair: the outer-shape tests come first). -/
def isRing (bytes : List Nat) : Bool :=
  match bytes with
  | b0 :: b1 :: _ => b0 = 0x30 && b1 = bytes.length - 2 && (findSub template bytes).isSome
  | _ => false

/-- `fix_ring_doc`. -/
def fixRingDoc (doc : List Nat) : Out (List Nat) :=
  match doc with
  | [] => .panic                                   -- assert!(!doc.is_empty())
  | b0 :: rest =>
    if b0 ≠ 0x30 then .panic                       -- assert_eq!(doc[0], 0x30)
    else
      match rest with
      | [] => .panic                               -- doc[1] out of bounds
      | b1 :: _ =>
        if b1 ≠ doc.length - 2 then .panic         -- assert_eq!(doc[1] as usize, doc.len() - 2)
        else
          match findSub template doc with
          | none => .panic                         -- .expect(…)
          | some idx =>
            let suffix := doc.drop idx             -- split_off(idx)
            if suffix.length < 4 then .panic       -- &suffix[4..]
            else
              let doc' := doc.take idx ++ wellFormedPrefix ++ suffix.drop 4
              if doc'.length < 2 then .panic       -- doc[1] = …
              else if doc'.length % 256 < 2 then .panic   -- doc.len() as u8 - 2
              else .ok (doc'.set 1 (doc'.length % 256 - 2))

inductive Doc where
  | wellFormed (b : List Nat)
  | cleanedFromRing (b : List Nat)
  deriving Repr, DecidableEq

/-- `CompatibleDocument::from_bytes`. -/
def fromBytes (bytes : List Nat) : Out Doc :=
  if isRing bytes then
    match fixRingDoc bytes with
    | .ok d => .ok (.cleanedFromRing d)
    | .panic => .panic
  else .ok (.wellFormed bytes)

end Ruma.RingCompat
