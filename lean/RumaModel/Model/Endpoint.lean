/-
  Model of the endpoint metadata code of `ruma-common` (`src/api/metadata.rs`,
  `src/percent_encode.rs`, `src/api.rs`) and of the `X-Matrix` header of `ruma-federation-api`
  (`src/authentication.rs`, `ruma-common/src/http_headers.rs`), branch for branch.

  Strings are byte lists (`Str = List Nat`, every element < 256). A `MatrixVersion` is its index in
  declaration order (`V1_0 = 0 … V1_14 = 14`); the derived `Ord` and `is_superset_of` are `≥`.
  Every `expect` / `unreachable!` / `assert!` of the modelled functions is the outcome `panic`.
-/
import RumaModel.Model.Json
import RumaModel.Spec.Endpoint
namespace Ruma.Endpoint
open Ruma.Spec.Endpoint (Version percentDecode isHexDigit hexVal)

/-! ## VersionHistory -/

/-- `VersionHistory { unstable_paths, stable_paths, deprecated, removed }`. -/
structure VersionHistory where
  unstable : List Str
  stable : List (Version × Str)
  deprecated : Option Version
  removed : Option Version
  deriving Repr, DecidableEq

/-- `str::split(sep)` as (first piece, remaining pieces): the iterator is never empty. -/
def splitAux (sep : Nat) : Str → Str × List Str
  | [] => ([], [])
  | b :: t =>
    let r := splitAux sep t
    if b = sep then ([], r.1 :: r.2) else (b :: r.1, r.2)

def splitOn (sep : Nat) (s : Str) : List Str := (splitAux sep s).1 :: (splitAux sep s).2

/-- `segment.strip_prefix(':')`. -/
def stripColon : Str → Option Str
  | 58 :: t => some t
  | _ => none

/-- The names of the `:placeholder` segments of a path, in order. -/
def pathArgNames (p : Str) : List Str := (splitOn 47 p).filterMap stripColon

/-- `check_path_is_valid`: only visible ASCII. -/
def pathValid (p : Str) : Bool := p.all (fun b => decide (0x21 ≤ b) && decide (b ≤ 0x7E))

/-- Stable versions strictly ascending (the `prev_seen_version` loop of `VersionHistory::new`). -/
def ascending : List (Version × Str) → Bool
  | [] => true
  | [_] => true
  | a :: b :: t => decide (a.1 < b.1) && ascending (b :: t)

/-- The path every other path's arguments are compared with: the first unstable path, else the
first stable one (`None`: "No paths supplied"). -/
def refPath (h : VersionHistory) : Option Str :=
  match h.unstable.head?, h.stable.head? with
  | some s, _ => some s
  | none, some e => some e.2
  | none, none => none

/-- `check_path_is_valid` and `check_path_args_equal(ref_path, _)` for every path. -/
def pathsOk (h : VersionHistory) (r : Str) : Bool :=
  h.unstable.all (fun p => pathValid p && pathArgNames r == pathArgNames p)
  && h.stable.all (fun e => pathValid e.2 && pathArgNames r == pathArgNames e.2)

/-- The `deprecated` block: needs a stable path; not older than the newest stable path; equal to
it only for the legacy version 1.0. -/
def deprecatedOk (h : VersionHistory) : Bool :=
  match h.deprecated with
  | none => true
  | some d =>
    match h.stable.getLast? with
    | none => false
    | some l => !(d != 0 && l.1 == d) && !(decide (d < l.1))

/-- The `removed` block: needs `deprecated`, strictly later. -/
def removedOk (h : VersionHistory) : Bool :=
  match h.removed with
  | none => true
  | some r =>
    match h.deprecated with
    | none => false
    | some d => decide (d < r)

/-- `VersionHistory::new` returns instead of panicking (it is a `const fn`, so for the endpoint
constants this is checked at compile time). -/
def newOk (h : VersionHistory) : Bool :=
  match refPath h with
  | none => false
  | some r => pathsOk h r && ascending h.stable && deprecatedOk h && removedOk h

/-- `VersioningDecision`. -/
inductive Decision where
  | unstable
  | stable (anyDeprecated allDeprecated anyRemoved : Bool)
  | removed
  deriving Repr, DecidableEq

def geAny (vs : List Version) (x : Version) : Bool := vs.any (fun v => decide (x ≤ v))
def geAll (vs : List Version) (x : Version) : Bool := vs.all (fun v => decide (x ≤ v))

/-- `Option::is_some_and`. -/
def isSomeAnd (o : Option α) (p : α → Bool) : Bool :=
  match o with
  | some a => p a
  | none => false

/-- `VersionHistory::added_in`. -/
def addedIn (h : VersionHistory) : Option Version := h.stable.head?.map (·.1)

/-- `VersionHistory::versioning_decision_for`. -/
def versioningDecision (h : VersionHistory) (vs : List Version) : Decision :=
  if isSomeAnd h.removed (geAll vs) then .removed
  else if isSomeAnd (addedIn h) (geAny vs) then
    let allDep := isSomeAnd h.deprecated (geAll vs)
    .stable (allDep || isSomeAnd h.deprecated (geAny vs)) allDep (isSomeAnd h.removed (geAny vs))
  else .unstable

/-- `VersionHistory::stable_endpoint_for`: newest entry first. -/
def stableEndpointFor (h : VersionHistory) (vs : List Version) : Option Str :=
  (h.stable.reverse.find? (fun e => geAny vs e.1)).map (·.2)

/-- Result of the fallible functions (`IntoHttpError` classes the property speaks about). -/
inductive Out (α : Type) where
  | ok (a : α)
  | errRemoved (v : Version)
  | errNoUnstable
  | panic
  deriving Repr, DecidableEq

/-- `VersionHistory::select_path`. The `warn!` calls have no observable result; the
`unreachable!("any_removed implies *_deprecated")` arm is kept. -/
def selectPath (h : VersionHistory) (vs : List Version) : Out Str :=
  match versioningDecision h vs with
  | .removed =>
    match h.removed with
    | some r => .errRemoved r
    | none => .panic                       -- expect("VersioningDecision::Removed implies …")
  | .stable anyDep allDep anyRem =>
    if anyRem && !allDep && !anyDep then .panic   -- unreachable!("any_removed implies *_deprecated")
    else
      match stableEndpointFor h vs with
      | some p => .ok p
      | none => .panic                     -- expect("VersioningDecision::Stable implies …")
  | .unstable =>
    match h.unstable.getLast? with
    | some p => .ok p
    | none => .errNoUnstable

/-! ## Percent-encoding and `make_endpoint_url` -/

/-- `PATH_PERCENT_ENCODE_SET` (`percent_encode.rs`): C0 controls and DEL, space, `%`, `"`, `#`,
`<`, `>`, `?`, `` ` ``, `{`, `}`, `/`. -/
def pathSet (b : Nat) : Bool :=
  b < 32 || b = 127 || b = 32 || b = 37 || b = 34 || b = 35 || b = 60 || b = 62 || b = 63
  || b = 96 || b = 123 || b = 125 || b = 47

/-- The set before commit e7ac808 (finding F8): the same without `%`. -/
def pathSetNoPercent (b : Nat) : Bool := pathSet b && b != 37

def hexUpper (n : Nat) : Nat := if n < 10 then 48 + n else 55 + n

/-- `percent_encoding::utf8_percent_encode(s, set)`: every non-ASCII byte and every byte of the set
becomes `%XX` (upper-case hex). -/
def percentEncode (set : Nat → Bool) : Str → Str
  | [] => []
  | b :: t =>
    if 128 ≤ b || set b then 37 :: hexUpper (b / 16) :: hexUpper (b % 16) :: percentEncode set t
    else b :: percentEncode set t

/-- The loop over the remaining segments of `make_endpoint_url`: a `:placeholder` consumes the next
argument (`expect` when there is none), anything else is copied. -/
def substSegments (set : Nat → Bool) : List Str → List Str → Option Str
  | [], _ => some []
  | seg :: segs, args =>
    match seg with
    | 58 :: _ =>
      match args with
      | [] => none                          -- expect("number of placeholders must match …")
      | a :: args' => (substSegments set segs args').map (fun r => 47 :: percentEncode set a ++ r)
    | _ => (substSegments set segs args).map (fun r => 47 :: seg ++ r)

/-- The path part `make_endpoint_url` appends to the base URL; `none` is a panic (`assert!` that
the path starts with `/`, or too few arguments). Surplus arguments are ignored, as in the code. -/
def substPathWith (set : Nat → Bool) (path : Str) (args : List Str) : Option Str :=
  let s := splitAux 47 path
  if s.1 ≠ [] then none                     -- assert!(first_segment.is_empty())
  else substSegments set s.2 args

def substPath := substPathWith pathSet

/-- `base_url.strip_suffix('/').unwrap_or(base_url)`. -/
def stripSlashSuffix (s : Str) : Str :=
  match s.getLast? with
  | some 47 => s.dropLast
  | _ => s

/-- `Metadata::make_endpoint_url`. -/
def makeEndpointUrl (h : VersionHistory) (vs : List Version) (base : Str) (args : List Str)
    (query : Str) : Out Str :=
  match selectPath h vs with
  | .ok path =>
    match substPath path args with
    | none => .panic
    | some p => .ok (stripSlashSuffix base ++ p ++ (if query = [] then [] else 63 :: query))
  | .errRemoved v => .errRemoved v
  | .errNoUnstable => .errNoUnstable
  | .panic => .panic

/-- The receiving side (not ruma code: what every router does): split the request path on `/`,
match it against the template, percent-decode the segments standing for placeholders. -/
def routeSegments : List Str → List Str → Option (List Str)
  | [], [] => some []
  | t :: ts, s :: ss =>
    match t with
    | 58 :: _ => (routeSegments ts ss).map (fun r => percentDecode s :: r)
    | _ => if t = s then routeSegments ts ss else none
  | _, _ => none

def routeArgs (template path : Str) : Option (List Str) :=
  routeSegments (splitOn 47 template) (splitOn 47 path)

/-! ## `Metadata::authorization_header` -/

open Ruma.Spec.Endpoint (AuthScheme)

/-- `SendAccessToken<'_>`. -/
inductive SendAccessToken where
  | ifRequired (t : Str)
  | always (t : Str)
  | appservice (t : Str)
  | none
  deriving Repr, DecidableEq

def getRequiredForEndpoint : SendAccessToken → Option Str
  | .ifRequired t | .appservice t | .always t => some t
  | .none => Option.none

def getNotRequiredForEndpoint : SendAccessToken → Option Str
  | .always t => some t
  | _ => Option.none

def getRequiredForAppservice : SendAccessToken → Option Str
  | .appservice t | .always t => some t
  | _ => Option.none

inductive AuthOut where
  | noHeader
  /-- `(AUTHORIZATION, value)` -/
  | header (value : Str)
  | errNeedsAuth
  /-- `HeaderValue::try_from(String)` rejected a byte of the token -/
  | errHeaderValue
  deriving Repr, DecidableEq

/-- `http::HeaderValue` accepts a byte iff `b >= 32 && b != 127 || b == b'\t'`. -/
def headerValueOk (s : Str) : Bool := s.all (fun b => (decide (32 ≤ b) && b != 127) || b == 9)

/-- `format!("Bearer {token}").try_into()?` -/
def bearer (t : Str) : AuthOut :=
  let v := bs "Bearer " ++ t
  if headerValueOk v then .header v else .errHeaderValue

def authorizationHeader (scheme : AuthScheme) (sat : SendAccessToken) : AuthOut :=
  match scheme with
  | .none =>
    match getNotRequiredForEndpoint sat with
    | some t => bearer t
    | none => .noHeader
  | .accessToken =>
    match getRequiredForEndpoint sat with
    | some t => bearer t
    | none => .errNeedsAuth
  | .accessTokenOptional =>
    match getRequiredForEndpoint sat with
    | some t => bearer t
    | none => .noHeader
  | .appserviceToken =>
    match getRequiredForAppservice sat with
    | some t => bearer t
    | none => .errNeedsAuth
  | .appserviceTokenOptional =>
    match getRequiredForAppservice sat with
    | some t => bearer t
    | none => .noHeader
  | .serverSignatures => .noHeader

/-! ## `X-Matrix` -/

def isAlnum (b : Nat) : Bool := (48 ≤ b && b ≤ 57) || (65 ≤ b && b ≤ 90) || (97 ≤ b && b ≤ 122)

/-- `is_tchar` (RFC 9110 §5.6.2), identical in `ruma-common` and `http-auth`. -/
def isTchar (b : Nat) : Bool :=
  isAlnum b || b = 33 || b = 35 || b = 36 || b = 37 || b = 38 || b = 39 || b = 42 || b = 43
  || b = 45 || b = 46 || b = 94 || b = 95 || b = 96 || b = 124 || b = 126

/-- `value.replace('\\', "\\\\").replace('"', "\\\"")`. -/
def escapeQuoted : Str → Str
  | [] => []
  | b :: t => if b = 92 || b = 34 then 92 :: b :: escapeQuoted t else b :: escapeQuoted t

/-- `quote_ascii_string_if_required`. -/
def quoteIfRequired (v : Str) : Str :=
  if v ≠ [] && v.all isTchar then v else 34 :: escapeQuoted v ++ [34]

/-- The four fields as strings: `origin.as_str()`, `destination`, `key.as_str()`, `sig.encode()`. -/
structure XMatrix where
  origin : Str
  destination : Option Str
  key : Str
  sig : Str
  deriving Repr, DecidableEq

/-- `impl Display for XMatrix`. -/
def xmatrixFormat (x : XMatrix) : Str :=
  bs "X-Matrix "
  ++ (match x.destination with
      | some d => bs "destination=" ++ quoteIfRequired d ++ [44]
      | none => [])
  ++ bs "key=" ++ quoteIfRequired x.key
  ++ bs ",origin=" ++ quoteIfRequired x.origin
  ++ bs ",sig=" ++ quoteIfRequired x.sig

/-- `http-auth` character classes (`table.rs`; bytes ≥ 128 are in no class). -/
def isQdtext (b : Nat) : Bool := b = 9 || b = 32 || b = 33 || (35 ≤ b && b ≤ 91) || (93 ≤ b && b ≤ 126)
def isEscapable (b : Nat) : Bool := b = 9 || b = 32 || (33 ≤ b && b ≤ 126)

/-- Parser state of the `http_auth::ChallengeParser` sub-machine that reads ONE challenge of the
form `scheme SP name=value *("," name=value)` — the form `Display` writes. The real parser
additionally tolerates optional whitespace, empty list elements and several challenges; those
inputs are outside this model (answered `err` here) and are not generated by the check. -/
inductive PMode where
  | scheme (acc : Str)
  | key (acc : Str)
  | postEq (key : Str)
  | unquoted (key acc : Str)
  | quoted (key acc : Str) (bslash : Bool)
  /-- a quoted value was closed: only `,` or the end may follow -/
  | afterQuoted
  | fail
  deriving Repr, DecidableEq

structure PState where
  scheme : Str
  /-- `(name, escaped value)` in input order -/
  params : List (Str × Str)
  mode : PMode
  deriving Repr, DecidableEq

def PState.step (st : PState) (b : Nat) : PState :=
  match st.mode with
  | .scheme acc =>
    if isTchar b then { st with mode := .scheme (acc ++ [b]) }
    else if b = 32 && acc ≠ [] then { st with scheme := acc, mode := .key [] }
    else { st with mode := .fail }
  | .key acc =>
    if isTchar b then { st with mode := .key (acc ++ [b]) }
    else if b = 61 && acc ≠ [] then { st with mode := .postEq acc }
    else { st with mode := .fail }
  | .postEq k =>
    if b = 34 then { st with mode := .quoted k [] false }
    else if isTchar b then { st with mode := .unquoted k [b] }
    else { st with mode := .fail }
  | .unquoted k acc =>
    if isTchar b then { st with mode := .unquoted k (acc ++ [b]) }
    else if b = 44 then { st with params := st.params ++ [(k, acc)], mode := .key [] }
    else { st with mode := .fail }
  | .quoted k acc bslash =>
    if bslash then
      if isEscapable b then { st with mode := .quoted k (acc ++ [b]) false }
      else { st with mode := .fail }
    else if b = 92 then { st with mode := .quoted k (acc ++ [b]) true }
    else if b = 34 then { st with params := st.params ++ [(k, acc)], mode := .afterQuoted }
    else if isQdtext b then { st with mode := .quoted k (acc ++ [b]) false }
    else { st with mode := .fail }
  | .afterQuoted =>
    if b = 44 then { st with mode := .key [] } else { st with mode := .fail }
  | .fail => st

def PState.run (st : PState) (s : Str) : PState := s.foldl PState.step st

/-- End of input: a challenge is complete after a value. -/
def PState.finish (st : PState) : Option (Str × List (Str × Str)) :=
  match st.mode with
  | .unquoted k acc => some (st.scheme, st.params ++ [(k, acc)])
  | .afterQuoted => some (st.scheme, st.params)
  | _ => none

def parseChallenge (s : Str) : Option (Str × List (Str × Str)) :=
  (PState.run ⟨[], [], .scheme []⟩ s).finish

/-- `ParamValue::to_unescaped`: drop each escaping backslash. -/
def unescape : Str → Str
  | [] => []
  | 92 :: c :: t => c :: unescape t
  | b :: t => b :: unescape t

def lowerByte (b : Nat) : Nat := if 65 ≤ b && b ≤ 90 then b + 32 else b
/-- `eq_ignore_ascii_case` against a lower-case literal. -/
def eqIgnoreCase (a lit : Str) : Bool := a.map lowerByte == lit

structure XFields where
  origin : Option Str := none
  destination : Option Str := none
  key : Option Str := none
  sig : Option Str := none

/-- The parameter loop of `XMatrix::parse`; `none` = `DuplicateParameter`. Unknown names are
skipped. The per-field validators (`ServerName`, `ServerSigningKeyId`, `Base64`) are other
properties' subject (C10) and are not part of this model: the check feeds valid field values. -/
def collectFields : List (Str × Str) → XFields → Option XFields
  | [], f => some f
  | (n, v) :: t, f =>
    if eqIgnoreCase n (bs "origin") then
      if f.origin.isSome then none else collectFields t { f with origin := some (unescape v) }
    else if eqIgnoreCase n (bs "destination") then
      if f.destination.isSome then none
      else collectFields t { f with destination := some (unescape v) }
    else if eqIgnoreCase n (bs "key") then
      if f.key.isSome then none else collectFields t { f with key := some (unescape v) }
    else if eqIgnoreCase n (bs "sig") then
      if f.sig.isSome then none else collectFields t { f with sig := some (unescape v) }
    else collectFields t f

/-- `XMatrix::parse` on a header holding one challenge. -/
def xmatrixParse (s : Str) : Option XMatrix :=
  match parseChallenge s with
  | none => none
  | some (scheme, params) =>
    if !eqIgnoreCase scheme (bs "x-matrix") then none          -- NotFound
    else
      match collectFields params {} with
      | none => none
      | some f =>
        match f.origin, f.key, f.sig with
        | some o, some k, some s => some ⟨o, f.destination, k, s⟩
        | _, _, _ => none                                      -- MissingParameter

end Ruma.Endpoint
