/-
  C12 — model of push rule evaluation:
  `crates/ruma-common/src/push.rs`      `Ruleset::get_match`, `ConditionalPushRule::applies`,
                                         `PatternedPushRule::applies_to`
  `crates/ruma-common/src/push/iter.rs`  `RulesetIter::next`, `AnyPushRuleRef::applies`
  `crates/ruma-common/src/push/condition.rs`  `PushCondition::applies`, `check_event_match`
  `crates/ruma-common/src/push/condition/room_member_count_is.rs`  `RangeBounds` impl.

  Default feature set: `unstable-msc3931` / `unstable-msc3932` are not compiled in.
  Rule actions and the `default` flag are not modelled (no modelled function reads them).
-/
import RumaModel.Model.FlattenedJson
set_option linter.unusedVariables false
namespace Ruma.Push

/-- `ComparisonOperator`. -/
inductive CmpOp where
  | eq | lt | gt | ge | le
  deriving DecidableEq, Repr

/-- `std::ops::Bound<&UInt>`. -/
inductive Bound where
  | included (n : Nat)
  | excluded (n : Nat)
  | unbounded

/-- `RoomMemberCountIs`. -/
structure MemberCountIs where
  prefix_ : CmpOp
  count : Nat
  deriving DecidableEq, Repr

/-- `RangeBounds::start_bound`. -/
def MemberCountIs.startBound (r : MemberCountIs) : Bound :=
  match r.prefix_ with
  | .eq => .included r.count
  | .lt => .unbounded
  | .le => .unbounded
  | .gt => .excluded r.count
  | .ge => .included r.count

/-- `RangeBounds::end_bound`. -/
def MemberCountIs.endBound (r : MemberCountIs) : Bound :=
  match r.prefix_ with
  | .eq => .included r.count
  | .gt => .unbounded
  | .ge => .unbounded
  | .lt => .excluded r.count
  | .le => .included r.count

/-- `RangeBounds::contains` (the provided method of the std trait). -/
def MemberCountIs.contains (r : MemberCountIs) (x : Nat) : Bool :=
  (match r.startBound with
    | .included s => decide (s ≤ x)
    | .excluded s => decide (s < x)
    | .unbounded => true)
  &&
  (match r.endBound with
    | .included e => decide (x ≤ e)
    | .excluded e => decide (x < e)
    | .unbounded => true)

/-! ### `RoomMemberCountIs` as a string (`FromStr`, `Display`; the form it has in JSON) -/

/-- `u64::MAX`. -/
def u64Max : Nat := 18446744073709551615
/-- `js_int::MAX_SAFE_UINT` = 2^53 − 1. -/
def maxSafeUInt : Nat := 9007199254740991

/-- `(c as char).to_digit(10)`. -/
def digitVal (c : Char) : Option Nat :=
  if '0' ≤ c ∧ c ≤ '9' then some (c.toNat - 48) else none

/-- The digit loop of `u64::from_str_radix(_, 10)` (`result * 10 + digit`, failing on the first
character that is not an ASCII digit), without the overflow test, which `parseU64` applies to the
unbounded result. -/
def parseDigits (acc : Nat) : Text → Option Nat
  | [] => some acc
  | c :: t =>
    match digitVal c with
    | some d => parseDigits (acc * 10 + d) t
    | none => none

/-- `u64::from_str`: empty → error; a lone `+` or `-` → error; one leading `+` is skipped (`-` is
not, the type is unsigned, so it is an invalid digit); then decimal digits only; overflow → error. -/
def parseU64 (s : Text) : Option Nat :=
  match s with
  | [] => none
  | [c] => if c = '+' ∨ c = '-' then none else parseDigits 0 [c]
  | c :: c' :: rest =>
    let digits := if c = '+' then c' :: rest else c :: c' :: rest
    match parseDigits 0 digits with
    | some v => if v ≤ u64Max then some v else none
    | none => none

/-- `js_int::UInt::from_str`: `u64::from_str`, then `val > MAX_SAFE_UINT` → error. -/
def parseUInt (s : Text) : Option Nat :=
  match parseU64 s with
  | some v => if v > maxSafeUInt then none else some v
  | none => none

/-- `impl FromStr for RoomMemberCountIs`: the prefix tests in the order of the `match` arms
(`<=`, `<`, `>=`, `>`, `==`, none), then `UInt::from_str` on the rest. -/
def MemberCountIs.fromStr (s : Text) : Option MemberCountIs :=
  let (op, countStr) :=
    if "<=".toList.isPrefixOf s then (CmpOp.le, s.drop 2)
    else if "<".toList.isPrefixOf s then (CmpOp.lt, s.drop 1)
    else if ">=".toList.isPrefixOf s then (CmpOp.ge, s.drop 2)
    else if ">".toList.isPrefixOf s then (CmpOp.gt, s.drop 1)
    else if "==".toList.isPrefixOf s then (CmpOp.eq, s.drop 2)
    else (CmpOp.eq, s)
  match parseUInt countStr with
  | some n => some ⟨op, n⟩
  | none => none

/-- `impl Display for RoomMemberCountIs` (`Eq` is written without prefix). -/
def MemberCountIs.display (r : MemberCountIs) : Text :=
  (match r.prefix_ with
    | .eq => []
    | .lt => "<".toList
    | .gt => ">".toList
    | .ge => ">=".toList
    | .le => "<=".toList) ++ Nat.toDigits 10 r.count

/-- The `room_member_count` condition as it arrives in JSON with `is = s`, evaluated for a room of
`x` members: `none` = the condition fails to deserialize. -/
def memberCountStr (s : Text) (x : Nat) : Option Bool :=
  (MemberCountIs.fromStr s).map (·.contains x)

/-- `PushCondition`. -/
inductive Cond where
  | eventMatch (key pattern : Text)
  | containsDisplayName
  | roomMemberCount (is : MemberCountIs)
  | senderNotificationPermission (key : Text)
  | eventPropertyIs (key : Text) (value : Scalar)
  | eventPropertyContains (key : Text) (value : Scalar)
  /-- `_Custom`: an unknown condition kind. -/
  | custom
  deriving DecidableEq, Repr

/-- `PushConditionPowerLevelsCtx`; `users` is a `BTreeMap` (unique keys), `room` is
`notifications.room`. -/
structure PowerLevelsCtx where
  users : List (Text × Int)
  usersDefault : Int
  room : Int

/-- `PushConditionRoomCtx`. -/
structure Ctx where
  roomId : Text
  memberCount : Nat
  userId : Text
  displayName : Text
  powerLevels : Option PowerLevelsCtx

def kSender : Text := "sender".toList
def kContentBody : Text := "content.body".toList
def kRoomId : Text := "room_id".toList
def kRoom : Text := "room".toList
def idRoomNotif : Text := ".m.rule.roomnotif".toList
def idContainsDisplayName : Text := ".m.rule.contains_display_name".toList
def idContainsUserName : Text := ".m.rule.contains_user_name".toList

/-- `event.get_str("sender").is_some_and(|sender| sender == context.user_id)`. -/
def selfSent (ev : FMap) (ctx : Ctx) : Bool :=
  match ev.getStr kSender with
  | some s => s == ctx.userId
  | none => false

/-- `check_event_match`. -/
def checkEventMatch (E : Ext) (ev : FMap) (key pattern : Text) (ctx : Ctx) : Res :=
  if key = kRoomId then matchesPattern E ctx.roomId pattern (key == kContentBody)
  else
    match ev.getStr key with
    | some v => matchesPattern E v pattern (key == kContentBody)
    | none => .ok false

/-- `BTreeMap::get`. -/
def lookupLevel (users : List (Text × Int)) (u : Text) : Option Int :=
  match users with
  | [] => none
  | (k, v) :: t => if k = u then some v else lookupLevel t u

/-- `NotificationPowerLevels::get`. -/
def notificationsGet (pl : PowerLevelsCtx) (key : Text) : Option Int :=
  if key = kRoom then some pl.room else none

/-- `power_levels.users.get(sender_id).unwrap_or(&power_levels.users_default)`. -/
def userLevel (pl : PowerLevelsCtx) (u : Text) : Int :=
  match lookupLevel pl.users u with
  | some l => l
  | none => pl.usersDefault

/-- The `SenderNotificationPermission` arm of `PushCondition::applies`. -/
def senderMayNotify (E : Ext) (ev : FMap) (ctx : Ctx) (key : Text) : Bool :=
  match ctx.powerLevels with
  | none => false
  | some pl =>
    match ev.getStr kSender with
    | none => false
    | some v =>
      if !E.isUserId v then false
      else
        let senderLevel := userLevel pl v
        match notificationsGet pl key with
        | some l => decide (senderLevel ≥ l)
        | none => false

/-- `PushCondition::applies`. -/
def Cond.applies (E : Ext) (c : Cond) (ev : FMap) (ctx : Ctx) : Res :=
  if selfSent ev ctx then .ok false
  else
    match c with
    | .eventMatch key pattern => checkEventMatch E ev key pattern ctx
    | .containsDisplayName =>
      match ev.getStr kContentBody with
      | some v => containsWord E v ctx.displayName
      | none => .ok false
    | .roomMemberCount is => .ok (is.contains ctx.memberCount)
    | .senderNotificationPermission key => .ok (senderMayNotify E ev ctx key)
    | .eventPropertyIs key value =>
      .ok (match ev.get key with
        | some v => v.eqScalar value
        | none => false)
    | .eventPropertyContains key value =>
      .ok (match ev.get key with
        | some (.arr a) => a.contains value
        | _ => false)
    | .custom => .ok false

/-- `conditions.iter().all(|cond| cond.applies(event, context))`: left to right, stops at the
first `false`. -/
def allApply (E : Ext) (conds : List Cond) (ev : FMap) (ctx : Ctx) : Res :=
  match conds with
  | [] => .ok true
  | c :: rest =>
    match c.applies E ev ctx with
    | .error e => .error e
    | .ok false => .ok false
    | .ok true => allApply E rest ev ctx

/-- `ConditionalPushRule` (override and underride rules). -/
structure CondRule where
  enabled : Bool
  ruleId : Text
  conditions : List Cond
  deriving DecidableEq, Repr

/-- `PatternedPushRule` (content rules). -/
structure PatRule where
  enabled : Bool
  ruleId : Text
  pattern : Text
  deriving DecidableEq, Repr

/-- `SimplePushRule<T>` (room and sender rules; `ruleId` is the room / user id). -/
structure SimpleRule where
  enabled : Bool
  ruleId : Text
  deriving DecidableEq, Repr

/-- `ConditionalPushRule::applies`. -/
def CondRule.applies (E : Ext) (r : CondRule) (ev : FMap) (ctx : Ctx) : Res :=
  if !r.enabled then .ok false
  else if (r.ruleId = idRoomNotif || r.ruleId = idContainsDisplayName) && containsMentions ev then
    .ok false
  else allApply E r.conditions ev ctx

/-- `PatternedPushRule::applies_to`. -/
def PatRule.appliesTo (E : Ext) (r : PatRule) (key : Text) (ev : FMap) (ctx : Ctx) : Res :=
  if r.ruleId = idContainsUserName && containsMentions ev then .ok false
  else if selfSent ev ctx then .ok false
  else if !r.enabled then .ok false
  else checkEventMatch E ev key r.pattern ctx

/-- `Ruleset`: the five `IndexSet`s in their list order. -/
structure Ruleset where
  override_ : List CondRule
  content : List PatRule
  room : List SimpleRule
  sender : List SimpleRule
  underride : List CondRule

/-- `AnyPushRuleRef`. -/
inductive AnyRule where
  | override_ (r : CondRule)
  | content (r : PatRule)
  | room (r : SimpleRule)
  | sender (r : SimpleRule)
  | underride (r : CondRule)
  deriving DecidableEq, Repr

/-- `AnyPushRuleRef::applies`. -/
def AnyRule.applies (E : Ext) (r : AnyRule) (ev : FMap) (ctx : Ctx) : Res :=
  if selfSent ev ctx then .ok false
  else
    match r with
    | .override_ rule => rule.applies E ev ctx
    | .underride rule => rule.applies E ev ctx
    | .content rule => rule.appliesTo E kContentBody ev ctx
    | .room rule =>
      if !rule.enabled then .ok false else checkEventMatch E ev kRoomId rule.ruleId ctx
    | .sender rule =>
      if !rule.enabled then .ok false else checkEventMatch E ev kSender rule.ruleId ctx

/-- `RulesetIter`: what is left of the five per-kind iterators. -/
structure Iter where
  content : List PatRule
  override_ : List CondRule
  room : List SimpleRule
  sender : List SimpleRule
  underride : List CondRule

/-- `impl IntoIterator for &Ruleset`. -/
def Ruleset.iter (rs : Ruleset) : Iter :=
  { content := rs.content, override_ := rs.override_, room := rs.room, sender := rs.sender,
    underride := rs.underride }

/-- `RulesetIter::next`: the `or_else` chain. -/
def Iter.next (it : Iter) : Option (AnyRule × Iter) :=
  match it.override_ with
  | r :: t => some (.override_ r, { it with override_ := t })
  | [] =>
    match it.content with
    | r :: t => some (.content r, { it with content := t })
    | [] =>
      match it.room with
      | r :: t => some (.room r, { it with room := t })
      | [] =>
        match it.sender with
        | r :: t => some (.sender r, { it with sender := t })
        | [] =>
          match it.underride with
          | r :: t => some (.underride r, { it with underride := t })
          | [] => none

def Iter.size (it : Iter) : Nat :=
  it.content.length + it.override_.length + it.room.length + it.sender.length + it.underride.length

theorem Iter.next_size {it it' : Iter} {r : AnyRule} (h : it.next = some (r, it')) :
    it'.size < it.size := by
  unfold Iter.next at h
  unfold Iter.size
  split at h
  · simp only [Option.some.injEq, Prod.mk.injEq] at h; obtain ⟨_, rfl⟩ := h
    simp_all only [List.length_cons]; omega
  · split at h
    · simp only [Option.some.injEq, Prod.mk.injEq] at h; obtain ⟨_, rfl⟩ := h
      simp_all only [List.length_cons]; omega
    · split at h
      · simp only [Option.some.injEq, Prod.mk.injEq] at h; obtain ⟨_, rfl⟩ := h
        simp_all only [List.length_cons]; omega
      · split at h
        · simp only [Option.some.injEq, Prod.mk.injEq] at h; obtain ⟨_, rfl⟩ := h
          simp_all only [List.length_cons]; omega
        · split at h
          · simp only [Option.some.injEq, Prod.mk.injEq] at h; obtain ⟨_, rfl⟩ := h
            simp_all only [List.length_cons]; omega
          · simp at h

/-- `Iterator::find`: call `next` until the predicate holds. -/
def Iter.find (pred : AnyRule → Res) (it : Iter) : Except Panic (Option AnyRule) :=
  match h : it.next with
  | none => .ok none
  | some (r, it') =>
    match pred r with
    | .error e => .error e
    | .ok true => .ok (some r)
    | .ok false => Iter.find pred it'
termination_by it.size
decreasing_by exact Iter.next_size h

/-- `Ruleset::get_match` (on the parsed event). -/
def getMatch (E : Ext) (rs : Ruleset) (event : PJ) (ctx : Ctx) : Except Panic (Option AnyRule) :=
  let ev := flatten event
  if selfSent ev ctx then .ok none
  else rs.iter.find (fun r => r.applies E ev ctx)

/-- `Ruleset::get_actions`: `self.get_match(event, context).map(|rule| rule.actions()).unwrap_or(&[])`.
`AnyPushRuleRef::actions` is the projection of the rule's `actions` field; it is the parameter
`acts` here (no modelled function reads or changes actions). -/
def getActions {α : Type} (acts : AnyRule → List α) (E : Ext) (rs : Ruleset) (event : PJ) (ctx : Ctx) :
    Except Panic (List α) :=
  match getMatch E rs event ctx with
  | .error e => .error e
  | .ok (some r) => .ok (acts r)
  | .ok none => .ok []

end Ruma.Push
