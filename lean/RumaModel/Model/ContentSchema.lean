/-
  A schema-driven model of the per-type content code of ruma-events: what
  `serde_json::from_str::<C>(text)` followed by `serde_json::to_string(&c)` does for a content type
  `C` whose `Deserialize`/`Serialize` are produced by `#[derive(Deserialize, Serialize)]`
  (the `EventContent` derive adds no (de)serialisation code of its own: `from_parts` of a statically
  typed content is `serde_json::from_str(content.get())`,
  ruma-macros/src/events/event_content.rs `generate_static_event_content_impl`).

  Code modelled (serde_derive's expansion for a struct with named fields, read from a JSON map):

  * the entries of the object are visited in text order; a key that spells a field (its name after
    `rename`, or one of its `alias`es) selects that field; the same field selected twice fails
    ("duplicate field") whatever the two values are; a key that spells no field is skipped
    (`IgnoredAny`), or — when the struct has a `#[serde(flatten)]` map — collected into that map,
    in which a later duplicate replaces the earlier (`BTreeMap::insert`);
  * the value of a selected field is deserialised with the field's type; an error fails the whole
    struct, unless the field is read through a lenient `deserialize_with`
    (`ruma_common::serde::default_on_error`), which yields the default instead;
  * `Option<T>` reads `null` as `None`;
  * a field that was not selected is `None` for `Option<T>`, the default under `#[serde(default)]`,
    and otherwise fails the struct ("missing field");
  * serialisation writes the fields in declaration order, leaving out those whose
    `skip_serializing_if` holds; a flattened map is written after/among them entry by entry.
  * a struct-level `#[serde(tag = "k", rename = "c")]` (`Reference`, `Annotation`, …) is
    serialise-only: `k: "c"` is written first, and on input `k` is one more unknown key (`ghost`);
    NOT modelled faithfully in combination with a `#[serde(flatten)]` catch-all in the same struct:
    serde would collect the input's `k` entry into the flatten map and then write the key `k` twice
    (the constant, then the collected entry), while `known` below counts the ghost's name as claimed
    and the input's entry is dropped. No modelled type combines the two, and `WF`
    (`Spec/ContentSchema.lean`) and the check `wfb` exclude the combination;
  * a scalar type (`String`, identifiers, string enums, `Base64`, `Int`/`UInt`, `bool`, `f64`,
    `VoipVersionId`, `deserialize_v1_powerlevel`) reads one JSON scalar and writes one back, most of
    them the same one (`Schema.scalar`, instances at the end of this file; the scalar types that
    actually occur are enumerated as `Leaf` in `Model/ContentSchemaLeaves.lean`);
  * `#[serde(tag = "k")]` enums of structs (internally tagged): the string under `k` selects the
    struct (`tagged`);
  * `Vec<T>`: every element is read with `T`; `BTreeMap<K, V>`: every entry is read (key parsed
    with `K`, value with `V`, any error fails), then inserted — a later duplicate key replaces the
    earlier, the map iterates in ascending key order; `serde_json::Value` / `JsonObject`: every
    object becomes a `BTreeMap` (`Canonical.serdeValue`).

  Shape: one function `project : Schema → JVal → Option JVal`, the composition
  serialise ∘ deserialise, instead of a pair `deser`/`ser` through a typed value. Reasons:
  (1) the per-field facts of a `Schema` are EXTRACTED from the running code by observing exactly
  this composition (`from_str` → `to_string`); two Rust typings with the same observable behaviour
  (`Option<T>` with `skip_serializing_if = "Option::is_none"`, and `T: Default` with
  `#[serde(default, skip_serializing_if = "is_default")]`) cannot be told apart through it and get
  the same schema, so a typed intermediate value would be an invention of the model, not something
  tied to the code; (2) every clause of property C18 that concerns this code speaks about JSON in
  and JSON out. The typed value is the *normal form* `project s j`: `deser := project`, `ser := id`
  on normal forms, and `deser s (ser s t) = some t` for `t` in the image of `deser s` is
  `project s j = some t → project s t = some t` (`Props/C18Schema.lean`, `roundtrip_fixpoint`).

  External code, modelled as stated and exercised by T2 only: serde_derive's expansion as described
  above; serde_json's `Value` (`serdeValue`). NOT modelled: a derived struct is also readable from a
  JSON *array* (positional `visit_seq`); here an array given where a struct is expected fails, and
  the generators of `h-c18` never put an array where the schema has an object.

  Output objects list the written fields in declaration order followed by the kept unknown entries;
  `to_string` of the real struct produces the same entries (the driver and the harness compare them
  as sorted entry lists, duplicates kept).
-/
import RumaModel.Model.Json
import RumaModel.Model.Canonical
namespace Ruma.ContentSchema
open Ruma Ruma.Canonical

mutual
/-- The shape of one Rust type as serde sees it. -/
inductive Schema where
  /-- `serde_json::Value`, `JsonObject`: anything, objects become maps. -/
  | any
  /-- A type that reads one JSON scalar (string, number, boolean, `null`) and writes one back:
  `String`, identifiers, string enums, `Base64`, `js_int::Int`/`UInt`, `bool`, `f64`,
  `VoipVersionId`, the lenient power-level reader. `norm v` is `none` when the type rejects `v` and
  otherwise the scalar it writes back; for most types that is `v` itself (see `Schema.str`,
  `Schema.int`, … below). Arrays and objects are rejected. -/
  | scalar (norm : JVal → Option JVal)
  /-- `Vec<T>`. -/
  | arr (e : Schema)
  /-- `BTreeMap<K, V>` with a string-like key type accepting `keyOk`. -/
  | map (keyOk : Str → Bool) (v : Schema)
  /-- A struct with named fields; `keep`: it has a `#[serde(flatten)]` map of `Value`s that collects
  the keys no field claims. -/
  | obj (fields : List Field) (keep : Bool)
  /-- `Option<T>` in a position where `None` is written as `null` (inside a `Vec`, a map value, or a
  field without `skip_serializing_if`). -/
  | nullOr (s : Schema)
  /-- An internally tagged choice (`#[serde(tag = "…")]`, or the equivalent hand-written "read the
  discriminator, then deserialise the whole object as that struct"): the string value of key `tag`
  selects the case whose label it equals; no such case fails. -/
  | tagged (tag : Str) (cases : List Case)
/-- One named field with the facts that belong to the code, not to the specification:
`aliases` — other spellings accepted on input; `req` — absence fails; `dflt` — what is written when
the field is absent (`none`: nothing); `nullAbsent` — `null` is read like absence; `lenient` — a
value of the wrong type is read like absence instead of failing; `skip v` — the serialiser leaves
the field out when it holds normal form `v`; `ghost` — the key is not read at all (any number of
occurrences, any values) and `dflt` is always written: the constant a struct-level
`#[serde(tag = "k", rename = "c")]` adds on serialisation only. -/
inductive Field where
  | mk (name : Str) (aliases : List Str) (s : Schema) (req : Bool) (dflt : Option JVal)
      (nullAbsent lenient : Bool) (skip : JVal → Bool) (ghost : Bool)
/-- One case of a tagged choice: the discriminator's value and the struct read for it. -/
inductive Case where
  | mk (label : Str) (s : Schema)
end

def Field.name : Field → Str
  | .mk n _ _ _ _ _ _ _ _ => n
def Field.aliases : Field → List Str
  | .mk _ a _ _ _ _ _ _ _ => a
def Field.schema : Field → Schema
  | .mk _ _ s _ _ _ _ _ _ => s
def Field.req : Field → Bool
  | .mk _ _ _ r _ _ _ _ _ => r
def Field.dflt : Field → Option JVal
  | .mk _ _ _ _ d _ _ _ _ => d
def Field.nullAbsent : Field → Bool
  | .mk _ _ _ _ _ n _ _ _ => n
def Field.lenient : Field → Bool
  | .mk _ _ _ _ _ _ l _ _ => l
def Field.skip : Field → JVal → Bool
  | .mk _ _ _ _ _ _ _ s _ => s
def Field.ghost : Field → Bool
  | .mk _ _ _ _ _ _ _ _ g => g

def Case.label : Case → Str
  | .mk l _ => l
def Case.schema : Case → Schema
  | .mk _ s => s

/-- Does key `k` select this field (generated `__FieldVisitor::visit_str`: the name and every alias
are arms of one `match`). -/
def spells (name : Str) (aliases : List Str) (k : Str) : Bool := k == name || aliases.contains k

def Field.spelledBy (f : Field) (k : Str) : Bool := spells f.name f.aliases k

/-- A key some field of the struct claims. -/
def known (fs : List Field) (k : Str) : Bool := fs.any (fun f => f.spelledBy k)

/-- What the visitor has for one field after the map is consumed. -/
inductive Look where
  | absent
  | one (v : JVal)
  | dup

def pick : List (Str × JVal) → Look
  | [] => .absent
  | [e] => .one e.2
  | _ :: _ :: _ => .dup

/-- The entries that select the field, in text order. -/
def look (name : Str) (aliases : List Str) (o : Obj) : Look :=
  pick (o.filter (fun e => spells name aliases e.1))

/-- What one field contributes to the output. -/
inductive Out where
  | fail
  | nothing
  | emit (v : JVal)

def isNull : JVal → Bool
  | .null => true
  | _ => false

def isScalar : JVal → Bool
  | .arr _ => false
  | .obj _ => false
  | _ => true

/-- The field was not given (or is read as not given). -/
def absentOut (req : Bool) (dflt : Option JVal) : Out :=
  if req then .fail else
  match dflt with
  | none => .nothing
  | some d => .emit d

/-- `Some(all)` iff every element is `Some` (a `Vec`/map visitor stops at the first error). -/
def allSome : List (Option α) → Option (List α)
  | [] => some []
  | none :: _ => none
  | some x :: t =>
    match allSome t with
    | some t' => some (x :: t')
    | none => none

/-- The unique string value of key `tag` (a derived/hand-written discriminator helper struct
`{ tag: String }`: absent, duplicated or not a string fails). -/
def tagOf (tag : Str) (o : Obj) : Option Str :=
  match pick (o.filter (fun e => e.1 == tag)) with
  | .one (.str s) => some s
  | _ => none

mutual
/-- serialise ∘ deserialise under the type described by the schema; `none`: the input is rejected. -/
def project : Schema → JVal → Option JVal
  | .any, v => some (serdeValue v)
  | .scalar norm, v =>
    if isScalar v then
      match norm v with
      | some b => if isScalar b then some b else none
      | none => none
    else none
  | .arr e, .arr xs =>
    match allSome (xs.map (project e)) with
    | some ys => some (.arr ys)
    | none => none
  | .arr _, _ => none
  | .map keyOk s, .obj kvs =>
    match allSome (kvs.map (fun kv => if keyOk kv.1 then
        (match project s kv.2 with | some w => some (kv.1, w) | none => none) else none)) with
    | some l => some (.obj (Obj.ofList l))
    | none => none
  | .map _ _, _ => none
  | .obj fields keep, .obj o =>
    match projectFields fields o with
    | some out =>
      some (.obj (out ++ (if keep then Obj.ofList (serdeValueO (o.filter (fun e => !known fields e.1))) else [])))
    | none => none
  | .obj _ _, _ => none
  | .nullOr _, .null => some .null
  | .nullOr s, v => project s v
  | .tagged tag cases, .obj o =>
    match tagOf tag o with
    | some t => projectCases cases t (.obj o)
    | none => none
  | .tagged _ _, _ => none
/-- The fields in declaration order. -/
def projectFields : List Field → Obj → Option Obj
  | [], _ => some []
  | f :: fs, o =>
    match projectField f o with
    | .fail => none
    | .nothing => projectFields fs o
    | .emit v =>
      match projectFields fs o with
      | some out => some ((f.name, v) :: out)
      | none => none
def projectField : Field → Obj → Out
  | .mk name aliases s req dflt nullAbsent lenient skip ghost, o =>
    if ghost then absentOut req dflt else
    match look name aliases o with
    | .dup => .fail
    | .absent => absentOut req dflt
    | .one v =>
      if nullAbsent && isNull v then absentOut req dflt else
      match project s v with
      | some nv => if skip nv then .nothing else .emit nv
      | none => if lenient then absentOut req dflt else .fail
/-- First case with the discriminator's label. -/
def projectCases : List Case → Str → JVal → Option JVal
  | [], _, _ => none
  | .mk label s :: cs, t, v => if t = label then project s v else projectCases cs t v
end

/-! ### The scalar types that occur -/

/-- A string-like type; `norm s` is what it writes back for `s` (`s` itself for every type but
`Base64`, which re-encodes). -/
def Schema.str (norm : Str → Option Str) : Schema :=
  .scalar (fun v => match v with
    | .str s => (match norm s with | some s' => some (.str s') | none => none)
    | _ => none)

/-- `js_int::Int` / `UInt` / `MilliSecondsSinceUnixEpoch`: an integer within `lo..hi`. -/
def Schema.int (lo hi : Int) : Schema :=
  .scalar (fun v => match v with
    | .int i => if lo ≤ i ∧ i ≤ hi then some (.int i) else none
    | _ => none)

def Schema.bool : Schema :=
  .scalar (fun v => match v with
    | .bool b => some (.bool b)
    | _ => none)

/-- `f64`: any number, written as a float. -/
def Schema.float : Schema :=
  .scalar (fun v => match v with
    | .int _ => some .float
    | .float => some .float
    | _ => none)

/-- `Int` read through `ruma_common::serde::deserialize_v1_powerlevel`: an integer, or a string that
`parse` reads as one; written as the integer. -/
def Schema.intLax (lo hi : Int) (parse : Str → Option Int) : Schema :=
  .scalar (fun v => match v with
    | .int i => if lo ≤ i ∧ i ≤ hi then some (.int i) else none
    | .str s => (match parse s with
      | some i => if lo ≤ i ∧ i ≤ hi then some (.int i) else none
      | none => none)
    | _ => none)

/-- `VoipVersionId`: the number `0` or any string. -/
def Schema.voipVersion : Schema :=
  .scalar (fun v => match v with
    | .int i => if i = 0 then some (.int 0) else none
    | .str s => some (.str s)
    | _ => none)

end Ruma.ContentSchema
