/-
  C17 — model of the `multipart/mixed` body splitter of the federation media endpoints
  (`crates/ruma-federation-api/src/authenticated_media.rs`:
  `try_from_multipart_mixed_response` from "Split the body with the boundary" on, and
  `parse_multipart_body_part`). The body and the boundary come from a remote homeserver.

  Branch for branch; every `&bytes[a..b]`, the `strip_prefix(..).unwrap()` and the loop are explicit:
  * `&bytes[a..b]`               → `bytesSlice … = none` → `panic`
  * `loop { … }` of the line scan → fuel `end − headers_start + 1`, exhaustion = `hang`
  The usize additions (`+ start + 1`, `+ full_boundary.len()`) are bounded by `body.len()` plus the
  boundary length and cannot overflow.

  External code, as parameters (`Ext`): `serde_json::from_slice::<ContentMetadata>` on the first
  part's content, and `httparse::parse_headers` + the header loop (`String::from_utf8`,
  `ContentDisposition::try_from` — that parser is `Model/HttpHeaders.lean`) on the second part's
  headers. `mime::Mime` parsing of the `Content-Type` header yields the boundary, which is an input
  here; `HeaderValue::to_str` has succeeded on it, so it contains no CR (hypothesis `NoCr` of the
  theorems — without it `start > end` is reachable, see `Props/C17.lean`).
-/
import RumaModel.Model.ScanCommon
namespace Ruma.ScanMultipart
open Ruma Ruma.Scan

/-- Error classes of `MultipartMixedDeserializationError` / `DeserializationError` that the code
returns. -/
inductive Err where
  /-- `MissingBodyParts { expected: 2, found: 0 }` -/
  | parts0
  /-- `MissingBodyParts { expected: 2, found: 1 }` -/
  | parts1
  /-- `MissingBodyPartInnerSeparator` -/
  | sep
  /-- `serde_json` rejected the metadata part -/
  | json
  /-- `InvalidHeader(_)`: httparse, `String::from_utf8` or the `Content-Disposition` parser -/
  | hdr
  deriving Repr, DecidableEq

inductive Res (α : Type) where
  | ok (a : α)
  | err (e : Err)
  | panic
  | hang
  deriving Repr, DecidableEq

def Res.Returns : Res α → Prop
  | .ok _ => True
  | .err _ => True
  | .panic => False
  | .hang => False

/-- The `loop` of `parse_multipart_body_part`: find the first empty line (`\r\n` or `\n`) at or after
`line_start`; returns `(headers, content)`. -/
def lineLoop (bytes : Str) (end_ headersStart : Nat) : Nat → Nat → Res (Str × Str)
  | 0, _ => .hang
  | fuel + 1, lineStart =>
    match bytesSlice bytes lineStart end_ with
    | none => .panic                                   -- `&bytes[line_start..end]`
    | some sl =>
      match findByte 10 sl with
      | none => .err .sep                              -- `.ok_or(MissingBodyPartInnerSeparator)?`
      | some k =>
        let lineEnd := k + lineStart + 1
        match bytesSlice bytes lineStart lineEnd with
        | none => .panic                               -- `&bytes[line_start..line_end]`
        | some line =>
          if line = [13, 10] ∨ line = [10] then
            -- `Ok((&bytes[headers_start..line_start], &bytes[line_end..end]))`
            match bytesSlice bytes headersStart lineStart, bytesSlice bytes lineEnd end_ with
            | some h, some c => .ok (h, c)
            | _, _ => .panic
          else lineLoop bytes end_ headersStart fuel lineEnd

/-- `parse_multipart_body_part(bytes, start, end)`. -/
def parsePart (bytes : Str) (start end_ : Nat) : Res (Str × Str) :=
  match bytesSlice bytes start end_ with
  | none => .panic                                     -- `&bytes[start..end]`
  | some sl =>
    match findByte 10 sl with
    | none => .err .sep                                -- a part without any newline
    | some k =>
      let headersStart := k + start + 1
      lineLoop bytes end_ headersStart (end_ - headersStart + 1) headersStart

/-- What the code after the split makes of the second part's headers. -/
inductive HdrVerdict where
  /-- a header failed to parse -/
  | bad
  /-- a `Location` header was found -/
  | location
  /-- no `Location` header: the content is the file -/
  | file
  deriving Repr, DecidableEq

structure Ext where
  /-- `serde_json::from_slice::<ContentMetadata>(bytes).is_ok()` -/
  jsonOk : Str → Bool
  /-- `httparse::parse_headers` and the loop over the headers -/
  headers : Str → HdrVerdict

inductive Content where
  | file (bytes : Str)
  | location
  deriving Repr, DecidableEq

/-- `b"\r\n--" ++ boundary`. -/
def fullBoundary (boundary : Str) : Str := [13, 10, 45, 45] ++ boundary

/-- The end of `try_from_multipart_mixed_response`: what the header stage makes of the second part. -/
def finish (E : Ext) (r : Res (Str × Str)) : Res Content :=
  match r with
  | .panic => .panic
  | .hang => .hang
  | .err e => .err e
  | .ok (hdrs, file) =>
    match E.headers hdrs with
    | .bad => .err .hdr
    | .location => .ok .location
    | .file => .ok (.file file)

/-- "Look at the part containing the media content now": `content_start = metadata_end +
full_boundary.len()`, `content_end = boundaries.next()`. `bs2` is what the iterator still yields. -/
def contentPart (E : Ext) (fullLen : Nat) (body : Str) (metaEnd : Nat) (bs2 : List Nat) : Res Content :=
  match bs2 with
  | [] => .err .parts1
  | contentEnd :: _ => finish E (parsePart body (metaEnd + fullLen) contentEnd)

/-- The metadata part: split it, hand its content to `serde_json`, go on with the content part. -/
def metaPart (E : Ext) (fullLen : Nat) (body : Str) (metaStart metaEnd : Nat) (bs2 : List Nat) :
    Res Content :=
  match parsePart body metaStart metaEnd with
  | .panic => .panic
  | .hang => .hang
  | .err e => .err e
  | .ok (_hdrs, metaBytes) =>
    if !E.jsonOk metaBytes then .err .json else contentPart E fullLen body metaEnd bs2

/-- `metadata_start` and the boundary iterator after it was computed: without preamble the first
boundary may omit its CRLF and the iterator is untouched; otherwise the first match is consumed. -/
def metaStart (noCrlf full body : Str) (boundaries : List Nat) : Option (Nat × List Nat) :=
  if noCrlf.isPrefixOf body then some (noCrlf.length, boundaries)
  else match boundaries with
    | [] => none
    | p :: rest => some (p + full.length, rest)

/-- `try_from_multipart_mixed_response`, from the construction of `full_boundary` on. -/
def split (E : Ext) (boundary body : Str) : Res Content :=
  let full := fullBoundary boundary
  -- `full_boundary.strip_prefix(b"\r\n").unwrap()`
  match full with
  | 13 :: 10 :: noCrlf =>
    match metaStart noCrlf full body (findIter full body) with
    | none => .err .parts0
    | some (_, []) => .err .parts0
    | some (mStart, metaEnd :: bs2) => metaPart E full.length body mStart metaEnd bs2
  | _ => .panic

end Ruma.ScanMultipart
