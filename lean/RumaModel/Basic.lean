def hello := "world"
