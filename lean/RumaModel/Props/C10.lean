/-
  C10 — Identifier parsing is total, lossless and accepts only the spec's grammar.
  Property theorems only; helper lemmas live in `Lemmas/Ids*.lean`.

  Reading guide. `validate x k s` (`Model/Ids.lean`) is the validation function identifier type
  `k` is parsed with, on the bytes `s` of a Rust `&str`; its result is `ok`, `err` or `panic`.
  `x : Ext` holds the external code (`Ipv6Addr`/`Ipv4Addr` parsers, `char::is_alphanumeric`); all
  theorems hold for every `x`, except the converse direction ("required structure ⇒ accepted",
  `structure_implies_accept`, `accept_iff_structure`, `server_accept_iff_grammar`,
  `accepted_server_has_no_nul`), which assumes that `x.isIpv6` accepts no more than `ipv6Ref`, the
  transcription of `core::net::parser` in `Model/IdsIp.lean` that is compared with the real
  `Ipv6Addr::from_str` on every run. Rust strings are well-formed UTF-8: `utf8Valid s`. Totality is
  by construction (every model function is a total Lean function). `struct` / `gram`
  (`Spec/IdGrammar.lean`) are the required structure and the recommended grammar.

  Known findings (full statement as `…Statement`, proved part as `…_partial`, machine-checked
  counterexample): ports 65536..99999 (`grammar_not_always_accepted`; the exclusion is exact:
  `big_port_rejected`, `grammar_accept_iff`), over-long results of `UserId/RoomId/EventId::new`
  (`constructor_new_not_always_accepted`), `with_bytes(b"")` (`with_bytes_empty_panics`).
-/
import RumaModel.Lemmas.IdsIff
namespace Ruma.Props.C10
open Ruma Ruma.Ids Ruma.Spec.IdGrammar

/-! ## No panics -/

/-- Parsing any string as any identifier type never panics: every slice, index and `unwrap` in the
validators is in range and on a char boundary. -/
theorem validate_never_panics (x : Ext) (k : Kind) (s : Str) (h : utf8Valid s = true) :
    validate x k s ≠ .panic := by
  have hs := sep_of_utf8Valid s h
  cases k <;> simp only [validate]
  · exact delimitedValidate_ne_panic hs (by omega) (by omega)
  · exact roomIdValidate_ne_panic
  · exact delimitedValidate_ne_panic hs (by omega) (by omega)
  · unfold roomOrAliasIdValidate
    split
    · exact delimitedValidate_ne_panic hs (by omega) (by omega)
    · exact roomIdValidate_ne_panic
    · simp
  · exact eventIdValidate_ne_panic hs
  · exact serverNameValidate_ne_panic hs
  all_goals first
    | (have := keyIdValidate_ne_panic (x := x) (k := .any) hs
       cases hk : keyIdValidate x .any s <;> simp_all [Res.void]; done)
    | (have := keyIdValidate_ne_panic (x := x) (k := .signingKeyVersion) hs
       cases hk : keyIdValidate x .signingKeyVersion s <;> simp_all [Res.void]; done)
    | (have := keyIdValidate_ne_panic (x := x) (k := .base64) hs
       cases hk : keyIdValidate x .base64 s <;> simp_all [Res.void]; done)
    | (have := mxcValidate_ne_panic (x := x) hs
       cases hk : mxcValidate x s <;> simp_all [Res.void]; done)
    | exact roomVersionIdValidate_ne_panic
    | exact serverSigningKeyVersionValidate_ne_panic
    | exact base64PublicKeyValidate_ne_panic
    | exact clientSecretValidate_ne_panic
    | exact sessionIdValidate_ne_panic

/-- `user_id::validate_strict` never panics either. -/
theorem validate_strict_never_panics (x : Ext) (s : Str) (h : utf8Valid s = true) :
    userIdValidateStrict x s ≠ .panic := by
  have hs := sep_of_utf8Valid s h
  unfold userIdValidateStrict
  split
  · simp
  · cases hp : parseId x s 64 with
    | err => simp
    | panic => exact absurd hp (parseId_ne_panic hs)
    | ok ci =>
      obtain ⟨lp, srv, ⟨rfl, _, _, _⟩, rfl⟩ := (parseId_ok_iff hs (by omega)).1 hp
      simp only [slice_one_at hs (by omega : 64 < 128) (by omega : 58 < 128)]
      have hl : localpartFullyConforming lp ≠ .panic := by
        unfold localpartFullyConforming
        exact ite_ne_panic (by simp) (ite_ne_panic (by simp) (ite_ne_panic (by simp) (by simp)))
      cases hc : localpartFullyConforming lp with
      | ok b => cases b <;> simp
      | err => simp
      | panic => exact absurd hc hl

/-! ## Accessors: never panic, recompose to the original -/

/-- User IDs and room aliases: `localpart()`/`alias()` and `server_name()` return the two parts,
`sigil ++ localpart ++ ":" ++ server_name` is the original string, and the server name is itself an
accepted server name. -/
theorem accessors_recompose_delimited (x : Ext) (k : Kind) (s : Str) (h : utf8Valid s = true)
    (hk : k = .user ∨ k = .alias) (hv : validate x k s = .ok ()) :
    ∃ lp srv, localpart s = .ok lp ∧ serverNameOf s = .ok srv
      ∧ s = (if k = .user then 64 else 35) :: (lp ++ 58 :: srv)
      ∧ validate x .server srv = .ok () := by
  have hs := sep_of_utf8Valid s h
  rcases hk with rfl | rfl
  · obtain ⟨lp, srv, ⟨rfl, _, hlp, hsrv⟩, _⟩ :=
      (delimitedValidate_ok_iff hs (by omega) (by omega)).1 hv
    obtain ⟨h1, h2⟩ := accessors_delim hs (by omega) (by omega) hlp
    exact ⟨lp, srv, h1, h2, by simp,
      (serverNameValidate_ok_iff (by simpa using hs.tail.of_append_right.tail)).2 hsrv⟩
  · obtain ⟨lp, srv, ⟨rfl, _, hlp, hsrv⟩, _⟩ :=
      (delimitedValidate_ok_iff hs (by omega) (by omega)).1 hv
    obtain ⟨h1, h2⟩ := accessors_delim hs (by omega) (by omega) hlp
    exact ⟨lp, srv, h1, h2, by simp,
      (serverNameValidate_ok_iff (by simpa using hs.tail.of_append_right.tail)).2 hsrv⟩

/-- Event IDs: `localpart()` and `server_name()` recompose to the original, with or without a
server name. -/
theorem accessors_recompose_event (x : Ext) (s : Str) (h : utf8Valid s = true)
    (hv : validate x .event s = .ok ()) :
    ∃ lp, eventLocalpart s = .ok lp ∧
      ((eventServerName s = .ok none ∧ s = 36 :: lp) ∨
        ∃ srv, eventServerName s = .ok (some srv) ∧ s = 36 :: (lp ++ 58 :: srv)
          ∧ validate x .server srv = .ok ()) := by
  have hs := sep_of_utf8Valid s h
  rcases (eventIdValidate_ok_iff hs).1 hv with ⟨lp, srv, rfl, _, hlp, hsrv⟩ | ⟨hc, _, hhead⟩
  · obtain ⟨h1, h2⟩ := event_accessors_delim hs hlp
    exact ⟨lp, h1, .inr ⟨srv, h2, rfl,
      (serverNameValidate_ok_iff (by simpa using hs.tail.of_append_right.tail)).2 hsrv⟩⟩
  · cases s with
    | nil => simp at hhead
    | cons c t =>
      simp at hhead; subst hhead
      obtain ⟨h1, h2⟩ := event_accessors_plain hs (fun hm => hc (by simp [hm]))
      exact ⟨t, h1, .inl ⟨h2, rfl⟩⟩

/-- Room IDs and room-or-alias IDs: `server_name()` never panics and, when it returns a server
name, that is an accepted server name following the first colon; `is_room_id()` is decided by the
sigil and never reaches `unreachable_unchecked`. -/
theorem accessors_room (x : Ext) (k : Kind) (s : Str) (h : utf8Valid s = true)
    (hk : k = .room ∨ k = .roomOrAlias) (hv : validate x k s = .ok ()) :
    roomServerName x s ≠ .panic
      ∧ (∀ srv, roomServerName x s = .ok (some srv) →
          (∃ pre, s = pre ++ 58 :: srv ∧ 58 ∉ pre) ∧ validate x .server srv = .ok ())
      ∧ (isRoomId s = .ok true ∨ isRoomId s = .ok false) := by
  have hs := sep_of_utf8Valid s h
  refine ⟨roomServerName_ne_panic hs, ?_, ?_⟩
  · intro srv hsrv
    obtain ⟨pre, rfl, hn, hok⟩ := roomServerName_some hs hsrv
    exact ⟨⟨pre, rfl, hn⟩, (serverNameValidate_ok_iff hs.of_append_right.tail).2 hok⟩
  · rcases hk with rfl | rfl
    · obtain ⟨_, hh, _⟩ := roomIdValidate_ok_iff.1 hv
      left; simp [isRoomId, hh]
    · simp only [validate, roomOrAliasIdValidate] at hv
      split at hv
      · rename_i hh; right; simp [isRoomId, hh]
      · rename_i hh; left; simp [isRoomId, hh]
      · simp at hv

/-- Server names: `host()` and `port()` never panic and `host ++ (":" ++ port)?` is the original
string (the port digits parse to the returned number); `is_ip_literal()` never panics. -/
theorem accessors_recompose_server (x : Ext) (s : Str) (h : utf8Valid s = true)
    (hv : validate x .server s = .ok ()) :
    ∃ hst, host s = .ok hst ∧ isIpLiteral x s ≠ .panic ∧
      ((port s = .ok none ∧ s = hst) ∨
        ∃ p v, port s = .ok (some v) ∧ s = hst ++ 58 :: p ∧ parseU16 p = some v) := by
  have hs := sep_of_utf8Valid s h
  obtain ⟨hst, _, hh, hrest⟩ := host_port_of_serverOk hs ((serverNameValidate_ok_iff hs).1 hv)
  refine ⟨hst, hh, by simp [isIpLiteral, hh], ?_⟩
  rcases hrest with ⟨h1, h2⟩ | ⟨p, v, h1, _, h3, h4⟩
  · exact .inl ⟨h2, h1⟩
  · exact .inr ⟨p, v, h4, h1, h3⟩

/-- Key IDs: `algorithm()` and `key_name()` never panic (the `unreachable!()` in `key_name` is
unreachable) and `algorithm ++ ":" ++ key_name` is the original string. -/
theorem accessors_recompose_key (x : Ext) (k : Kind) (s : Str) (h : utf8Valid s = true)
    (hk : k = .keyAny ∨ k = .keyVersion ∨ k = .keyBase64) (hv : validate x k s = .ok ()) :
    ∃ alg name, keyAlgorithm s = .ok alg ∧ keyName x (keyKind k) s = .ok name
      ∧ s = alg ++ 58 :: name := by
  have hs := sep_of_utf8Valid s h
  have key : ∀ kk, (keyIdValidate x kk s).void = .ok () →
      ∃ alg name, keyAlgorithm s = .ok alg ∧ keyName x kk s = .ok name ∧ s = alg ++ 58 :: name := by
    intro kk hv
    cases hki : keyIdValidate x kk s with
    | err => simp [hki, Res.void] at hv
    | panic => simp [hki, Res.void] at hv
    | ok ci =>
      obtain ⟨alg, name, ⟨rfl, hn, _, hkn⟩, _⟩ := (keyIdValidate_ok_iff hs).1 hki
      obtain ⟨h1, h2⟩ := key_accessors hs hn hkn
      exact ⟨alg, name, h1, h2, rfl⟩
  rcases hk with rfl | rfl | rfl <;> exact key _ hv

/-- MXC URIs: `parts()` (hence `server_name()`, `media_id()`, `validate()`, `is_valid()`) never
panics on any string, and on a valid URI `"mxc://" ++ server_name ++ "/" ++ media_id` is the
original string with an accepted server name. -/
theorem accessors_recompose_mxc (x : Ext) (s : Str) (h : utf8Valid s = true) :
    mxcParts x s ≠ .panic ∧
      (validate x .mxc s = .ok () →
        ∃ srv media, mxcParts x s = .ok (srv, media) ∧ s = bs "mxc://" ++ (srv ++ 47 :: media)
          ∧ validate x .server srv = .ok ()) := by
  have hs := sep_of_utf8Valid s h
  refine ⟨mxcParts_ne_panic hs, ?_⟩
  intro hv
  simp only [validate] at hv
  cases hm : mxcValidate x s with
  | err => simp [hm, Res.void] at hv
  | panic => simp [hm, Res.void] at hv
  | ok idx =>
    obtain ⟨srv, media, hok, _⟩ := (mxcValidate_ok_iff hs).1 hm
    obtain ⟨rfl, _, _, hsrv⟩ := id hok
    refine ⟨srv, media, mxcParts_ok hs hok, by rw [bs_mxc], ?_⟩
    exact (serverNameValidate_ok_iff hs.of_append_right.of_append_left).2 hsrv

/-! ## Accepted ⇒ required structure -/

/-- Every accepted identifier has the structure the specification requires of its type: sigil, at
most 255 bytes; user IDs and room aliases: no NUL or colon in the localpart; room IDs: no NUL
anywhere; event IDs with a server part: no colon in the localpart (NUL is *not* excluded there,
see the example after `length_limit`); a server name that is a non-empty hostname / IPv4
literal or a bracketed IPv6 literal with an optional port of 1–5 digits; key IDs: a non-empty
colon-free algorithm and a key name valid for its type; MXC URIs: `mxc://`, such a server name, `/`, a
media ID of letters, digits, `-`, `_`; room versions: 1–32 code points of `[a-zA-Z0-9.-]`; session
IDs: 1–255 bytes of `[0-9a-zA-Z.=_-]`; client secrets, signing key versions, base64 public keys:
non-empty (client secrets at most 255 bytes) with every ASCII character in the specified set
(`Spec.IdGrammar.struct`). -/
theorem accept_implies_structure (x : Ext) (k : Kind) (s : Str) (h : utf8Valid s = true)
    (hv : validate x k s = .ok ()) : struct x.isIpv6 k s = true := by
  have hs := sep_of_utf8Valid s h
  have key : ∀ kk, (keyIdValidate x kk s).void = .ok () →
      ∃ alg name, KeyOk x kk s alg name := by
    intro kk hv
    cases hki : keyIdValidate x kk s with
    | err => simp [hki, Res.void] at hv
    | panic => simp [hki, Res.void] at hv
    | ok ci =>
      obtain ⟨alg, name, hok, _⟩ := (keyIdValidate_ok_iff hs).1 hki
      exact ⟨alg, name, hok⟩
  have algOk : ∀ alg : Str, alg ≠ [] → 58 ∉ alg → (!alg.isEmpty && alg.all (· != 58)) = true := by
    intro alg h1 h2
    simp only [Bool.and_eq_true, all_ne_iff.2 h2, and_true]
    cases alg <;> simp_all
  cases k <;> simp only [validate] at hv <;> simp only [struct]
  · -- user
    obtain ⟨lp, srv, hd, h0⟩ := (delimitedValidate_ok_iff hs (by omega) (by omega)).1 hv
    exact struct_delim hd h0
  · -- room
    obtain ⟨h1, h2, h3⟩ := roomIdValidate_ok_iff.1 hv
    simp [structRoom, max255, h1, h2, all_ne_iff.2 h3]
  · -- alias
    obtain ⟨lp, srv, hd, h0⟩ := (delimitedValidate_ok_iff hs (by omega) (by omega)).1 hv
    exact struct_delim hd h0
  · -- room or alias
    unfold roomOrAliasIdValidate at hv
    split at hv
    · obtain ⟨lp, srv, hd, h0⟩ := (delimitedValidate_ok_iff hs (by omega) (by omega)).1 hv
      rw [Bool.or_eq_true]; right; exact struct_delim hd h0
    · obtain ⟨h1, h2, h3⟩ := roomIdValidate_ok_iff.1 hv
      rw [Bool.or_eq_true]; left
      simp [structRoom, max255, h1, h2, all_ne_iff.2 h3]
    · simp at hv
  · -- event
    rcases (eventIdValidate_ok_iff hs).1 hv with ⟨lp, srv, he, hlen, hlp, hsrv⟩ | ⟨hc, hlen, hh⟩
    · have hd : delimited 36 (fun lp => lp.all (· != 58)) (structServerName x.isIpv6) s = true :=
        delimited_iff.2 ⟨lp, srv, he, all_ne_iff.2 hlp, structServerName_of_serverOk hsrv⟩
      have hh : s.head? = some 36 := by rw [he]; rfl
      simp only [Bool.and_eq_true, Bool.or_eq_true, max255, decide_eq_true_eq]
      exact ⟨⟨hlen, hh⟩, .inr hd⟩
    · simp only [Bool.and_eq_true, Bool.or_eq_true, max255, decide_eq_true_eq]
      exact ⟨⟨hlen, hh⟩, .inl (all_ne_iff.2 hc)⟩
  · -- server
    exact structServerName_of_serverOk ((serverNameValidate_ok_iff hs).1 hv)
  · -- key (any)
    obtain ⟨alg, name, rfl, hn, hne, _⟩ := key _ hv
    exact cutAt_iff.2 ⟨alg, name, rfl, algOk alg hne hn, rfl⟩
  · -- key (signing key version)
    obtain ⟨alg, name, rfl, hn, hne, hkn⟩ := key _ hv
    exact cutAt_iff.2 ⟨alg, name, rfl, algOk alg hne hn, struct_signingKeyVersion hkn⟩
  · -- key (base64)
    obtain ⟨alg, name, rfl, hn, hne, hkn⟩ := key _ hv
    exact cutAt_iff.2 ⟨alg, name, rfl, algOk alg hne hn, struct_base64PublicKey hkn⟩
  · -- mxc
    cases hm : mxcValidate x s with
    | err => simp [hm, Res.void] at hv
    | panic => simp [hm, Res.void] at hv
    | ok idx =>
      obtain ⟨srv, media, ⟨rfl, hn, hmed, hsrv⟩, _⟩ := (mxcValidate_ok_iff hs).1 hm
      have ht : (mxcPrefix ++ (srv ++ 47 :: media)).take 6 = mxcPrefix := List.take_left' rfl
      have hd : (mxcPrefix ++ (srv ++ 47 :: media)).drop 6 = srv ++ 47 :: media :=
        List.drop_left' rfl
      simp only [mxc, ht, hd, bs_mxc, beq_self_eq_true, Bool.true_and]
      refine cutAt_iff.2 ⟨srv, media, rfl, structServerName_of_serverOk hsrv, ?_⟩
      rw [all_congr mediaChar_eq]; exact hmed
  · exact struct_roomVersion hv
  · exact struct_signingKeyVersion hv
  · exact struct_base64PublicKey hv
  · exact struct_clientSecret hv
  · exact struct_sessionId hv

/-- Where the code enforces a length limit, an accepted identifier is within it: 255 bytes for
user, room, alias, room-or-alias and event IDs, client secrets and session IDs; 32 code points for
room versions. (Server names, key IDs and MXC URIs have no limit in the code.) -/
theorem length_limit (x : Ext) (k : Kind) (s : Str) (h : utf8Valid s = true)
    (hv : validate x k s = .ok ()) :
    (k ∈ [Kind.user, .room, .alias, .roomOrAlias, .event, .clientSecret, .sessionId] →
        s.length ≤ 255)
      ∧ (k = .roomVersion → codePoints s ≤ 32) := by
  have hst := accept_implies_structure x k s h hv
  constructor
  · intro hk
    simp only [List.mem_cons, List.not_mem_nil, or_false] at hk
    rcases hk with rfl | rfl | rfl | rfl | rfl | rfl | rfl <;>
      simp only [struct, structRoom, structAlias, max255, Bool.and_eq_true, Bool.or_eq_true,
        decide_eq_true_eq] at hst
    · exact hst.1
    · exact hst.1.1
    · exact hst.1
    · rcases hst with hst | hst
      · exact hst.1.1
      · exact hst.1
    · exact hst.1.1
    · exact hst.1.2
    · exact hst.2
  · rintro rfl
    simp only [struct, Bool.and_eq_true, decide_eq_true_eq] at hst
    exact hst.2

/-- What the structure of an event ID does **not** include: NUL-freeness. `"$\0:a"` is an accepted
event ID of the model (and of the real `event_id::validate`, which like the model only looks for
the sigil, the length, and — when a colon is present — a valid server name after the first colon).
The specification gives no character set for the opaque part of a v1/v2 event ID, so this is
recorded as an observation, not as a finding. -/
example : validate ⟨fun _ => false, fun _ => false, fun _ => false⟩ .event [36, 0, 58, 97] = .ok () ∧
    struct (fun _ => false) .event [36, 0, 58, 97] = true := by decide

/-! ## Recommended grammar ⇒ accepted -/

/-- Full-strength statement: every identifier in the specification's recommended grammar is
accepted. It is FALSE for the code as it is (see `grammar_not_always_accepted`). -/
def grammar_implies_acceptStatement : Prop :=
  ∀ (x : Ext) (k : Kind) (s : Str), utf8Valid s = true → gram x.isIpv6 k s = true →
    validate x k s = .ok ()

/-- Proved part: every identifier in the recommended grammar is accepted, EXCEPT when its server
name carries a port whose value exceeds 65535 (`hasBigPort`). Missing relative to the full
statement: exactly those identifiers (known finding F10, fourth item). -/
theorem grammar_implies_accept_partial (x : Ext) (k : Kind) (s : Str) (h : utf8Valid s = true)
    (hg : gram x.isIpv6 k s = true) (hp : hasBigPort x.isIpv6 k s = false) :
    validate x k s = .ok () := by
  have hs := sep_of_utf8Valid s h
  cases k <;> simp only [gram] at hg <;> simp only [hasBigPort] at hp <;> simp only [validate]
  · -- user
    simp only [Bool.and_eq_true] at hg
    obtain ⟨lp, srv, hd, h0⟩ := delimOk_of_gram (fun l hl => userIdChar_facts hl) hg.1 hg.2 hp
    exact (delimitedValidate_ok_iff hs (by omega) (by omega)).2 ⟨lp, srv, hd, h0⟩
  · exact gram_room hg
  · exact gram_alias hs hg hp
  · -- room or alias: the sigil selects the validator
    rw [Bool.or_eq_true] at hg
    unfold roomOrAliasIdValidate
    rcases hg with hg | hg
    · have hv := gram_room hg
      obtain ⟨_, hh, _⟩ := roomIdValidate_ok_iff.1 hv
      rw [hh]; exact hv
    · have hv := gram_alias hs hg hp
      obtain ⟨lp, srv, ⟨rfl, _⟩, _⟩ := (delimitedValidate_ok_iff hs (by omega) (by omega)).1 hv
      exact hv
  · exact gram_event hs hg hp
  · exact (serverNameValidate_ok_iff hs).2 (serverOk_of_gram hg hp)
  · exact gram_key hs (fun _ _ => rfl) hg
  · exact gram_key hs (fun n hn => gram_signingKeyVersion hn) hg
  · exact gram_key hs (fun n hn => gram_base64PublicKey hn) hg
  · exact gram_mxc hs hg hp
  · exact gram_roomVersion hg
  · exact gram_signingKeyVersion hg
  · exact gram_base64PublicKey hg
  · exact gram_clientSecret hg
  · exact gram_sessionId hg

/-- Negation witness (machine-checked finding): `a:99999` is a server name of the recommended
grammar (`1*5DIGIT` port) and is rejected, so the full-strength statement is false. -/
theorem grammar_not_always_accepted : ¬ grammar_implies_acceptStatement := by
  intro h
  have e : bs "a:99999" = [97, 58, 57, 57, 57, 57, 57] := by decide
  have := h ⟨fun _ => false, fun _ => false, fun _ => false⟩ .server (bs "a:99999")
    (by rw [e]; decide +kernel) (by rw [e]; decide +kernel)
  rw [e] at this
  revert this
  decide +kernel

/-- The witness is exactly the excluded case, and the hypotheses of the partial theorem are
satisfiable on non-trivial inputs (a user ID with an IPv6 literal and a port; the largest port). -/
example : hasBigPort (fun _ => false) .server [97, 58, 57, 57, 57, 57, 57] = true := by
  decide +kernel
-- "@alice:[::1]:8448"
example :
    gram (fun c => c == [58, 58, 49]) .user
        [64, 97, 108, 105, 99, 101, 58, 91, 58, 58, 49, 93, 58, 56, 52, 52, 56] = true
    ∧ hasBigPort (fun c => c == [58, 58, 49]) .user
        [64, 97, 108, 105, 99, 101, 58, 91, 58, 58, 49, 93, 58, 56, 52, 52, 56] = false := by
  decide +kernel
-- "a:65535"
example : gram (fun _ => false) .server [97, 58, 54, 53, 53, 51, 53] = true
    ∧ hasBigPort (fun _ => false) .server [97, 58, 54, 53, 53, 51, 53] = false := by
  decide +kernel

/-- The exclusion of `grammar_implies_accept_partial` is exact: an identifier whose server name
carries a port above 65535 is rejected (for every behaviour of the external code). Together: an
identifier of the recommended grammar is accepted if and only if it has no such port. -/
theorem big_port_rejected (x : Ext) (k : Kind) (s : Str) (h : utf8Valid s = true)
    (hb : hasBigPort x.isIpv6 k s = true) : validate x k s ≠ .ok () := by
  have hs := sep_of_utf8Valid s h
  intro hv
  cases k <;> simp only [hasBigPort] at hb <;> simp only [validate] at hv
  · obtain ⟨lp, srv, hd, _⟩ := (delimitedValidate_ok_iff hs (by omega) (by omega)).1 hv
    rw [delimOk_not_bigPort hd] at hb; cases hb
  · cases hb
  · obtain ⟨lp, srv, hd, _⟩ := (delimitedValidate_ok_iff hs (by omega) (by omega)).1 hv
    rw [delimOk_not_bigPort hd] at hb; cases hb
  · unfold roomOrAliasIdValidate at hv
    split at hv
    · obtain ⟨lp, srv, hd, _⟩ := (delimitedValidate_ok_iff hs (by omega) (by omega)).1 hv
      rw [delimOk_not_bigPort hd] at hb; cases hb
    · rename_i hh
      obtain ⟨l, t, rfl, _⟩ := delimited_iff.1 hb
      simp at hh
    · simp at hv
  · rcases (eventIdValidate_ok_iff hs).1 hv with ⟨lp, srv, hd⟩ | ⟨hc, _, _⟩
    · rw [delimOk_not_bigPort hd] at hb; cases hb
    · obtain ⟨l, t, rfl, _⟩ := delimited_iff.1 hb
      exact hc (by simp)
  · rw [serverOk_not_bigPort ((serverNameValidate_ok_iff hs).1 hv)] at hb; cases hb
  all_goals first
    | cases hb
    | (cases hm : mxcValidate x s with
       | err => simp [hm, Res.void] at hv
       | panic => simp [hm, Res.void] at hv
       | ok idx =>
         obtain ⟨srv, media, hok, _⟩ := (mxcValidate_ok_iff hs).1 hm
         rw [mxcOk_not_bigPort_of (fun A hA => gramHost_no_slash hA) hok] at hb; cases hb)

/-- For identifiers of the recommended grammar: accepted ⇔ no port above 65535. -/
theorem grammar_accept_iff (x : Ext) (k : Kind) (s : Str) (h : utf8Valid s = true)
    (hg : gram x.isIpv6 k s = true) :
    validate x k s = .ok () ↔ hasBigPort x.isIpv6 k s = false := by
  constructor
  · intro hv
    cases hb : hasBigPort x.isIpv6 k s with
    | false => rfl
    | true => exact absurd hv (big_port_rejected x k s h hb)
  · exact grammar_implies_accept_partial x k s h hg

/-- An identifier in the recommended user ID grammar also passes `validate_strict`. -/
theorem grammar_implies_strict (x : Ext) (s : Str) (h : utf8Valid s = true)
    (hg : gram x.isIpv6 .user s = true) (hp : hasBigPort x.isIpv6 .user s = false) :
    userIdValidateStrict x s = .ok () := by
  have hs := sep_of_utf8Valid s h
  simp only [gram, Bool.and_eq_true] at hg
  simp only [hasBigPort] at hp
  obtain ⟨l, srv, he, h1, _⟩ := delimited_iff.1 hg.2
  obtain ⟨lp, srv', ⟨he', hlen, hlp, hsrv⟩, _⟩ :=
    delimOk_of_gram (fun l hl => userIdChar_facts hl) hg.1 hg.2 hp
  -- the two cuts are the same cut (first colon)
  have hl : l = lp ∧ srv = srv' := by
    have e : (64 :: l) ++ 58 :: srv = (64 :: lp) ++ 58 :: srv' := by
      simpa using he.symm.trans he'
    have h58 : 58 ∉ (64 :: l) := by simp [(userIdChar_facts h1).1]
    have h58' : 58 ∉ (64 :: lp) := by simp [hlp]
    have f1 := find_append (c := 58) (post := srv) h58
    have f2 := find_append (c := 58) (post := srv') h58'
    rw [e, f2] at f1
    have hlen : lp.length = l.length := by simpa using f1
    have e2 : l ++ 58 :: srv = lp ++ 58 :: srv' := by simpa using e
    have := List.append_inj e2 hlen.symm
    exact ⟨this.1, by simpa using this.2⟩
  obtain ⟨rfl, rfl⟩ := hl
  subst he
  unfold userIdValidateStrict
  rw [if_neg (by omega), (parseId_ok_iff hs (by omega)).2 ⟨l, srv, ⟨rfl, hlen, hlp, hsrv⟩, rfl⟩]
  simp only [slice_one_at hs (by omega : 64 < 128) (by omega : 58 < 128)]
  obtain ⟨hne, hall⟩ := nonEmptyAll_iff.1 h1
  have hch : l.all userIdCharOk = true := by
    rw [List.all_eq_true]
    intro b hb
    have := hall b hb
    simp only [userIdChar, oneOf, bs, Bool.or_eq_true] at this
    simp only [userIdCharOk, Bool.or_eq_true]
    rcases this with (h1 | h1) | h1
    · rw [isDigit_eq] at h1; simp [h1]
    · have : isLower b = true := by simpa [lower, isLower] using h1
      simp [this]
    · simp at h1
      rcases h1 with rfl | rfl | rfl | rfl | rfl | rfl <;> simp
  simp [localpartFullyConforming, hne, hch]

/-! ## Constructors -/

/-- Whatever `UserId::parse_with_server_name` returns is accepted by the user ID parser; and when
the argument is a bare localpart the result is `"@" ++ id ++ ":" ++ server`. -/
theorem constructor_accepted_parse_with_server_name (x : Ext) (id server r : Str)
    (hr : parseWithServerName x id server = .ok r) :
    validate x .user r = .ok () ∧ (id.head? ≠ some 64 → r = 64 :: (id ++ 58 :: server)) := by
  unfold parseWithServerName at hr
  by_cases h1 : id.head? = some 64
  · simp only [h1, if_true] at hr
    cases hu : userIdValidate x id with
    | ok u => cases u; simp only [hu, Res.ok.injEq] at hr; subst hr; exact ⟨hu, fun h => absurd h1 h⟩
    | err => simp [hu] at hr
    | panic => simp [hu] at hr
  · simp only [h1, if_false] at hr
    by_cases h2 : localpartCompat id = true
    · simp only [h2, Bool.not_true, Bool.false_eq_true, if_false] at hr
      cases hu : userIdValidate x (64 :: (id ++ 58 :: server)) with
      | ok u =>
        cases u
        simp only [hu, Res.ok.injEq] at hr
        subst hr
        exact ⟨hu, fun _ => by simp⟩
      | err => simp [hu] at hr
      | panic => simp [hu] at hr
    · simp [h2] at hr

/-- `parse_with_server_name` never panics, and completes a bare localpart (no `:`/NUL) with an
accepted server name whenever the result fits in 255 bytes. -/
theorem parse_with_server_name_total (x : Ext) (id server : Str) (h : utf8Valid id = true)
    (hsrv : utf8Valid server = true) :
    parseWithServerName x id server ≠ .panic
      ∧ (id.head? ≠ some 64 → localpartCompat id = true → validate x .server server = .ok () →
          id.length + server.length + 2 ≤ 255 →
          parseWithServerName x id server = .ok (64 :: (id ++ 58 :: server))) := by
  have hs1 := sep_of_utf8Valid id h
  have hs2 := sep_of_utf8Valid server hsrv
  -- the completed string is `Sep` too: its pieces are, and the joints are ASCII
  have hfull : Sep (64 :: (id ++ 58 :: server)) := by
    intro i b c hb hlt hc
    cases i with
    | zero =>
      simp at hb; subst hb
      cases id with
      | nil => simp at hc; subst hc; rfl
      | cons a t =>
        simp at hc; subst hc
        exact not_isCont_head_of_utf8Valid h
    | succ j =>
      simp only [List.getElem?_cons_succ] at hb hc
      by_cases hj : j + 1 < id.length
      · rw [List.getElem?_append_left (by omega)] at hb
        rw [List.getElem?_append_left hj] at hc
        exact hs1 j b c hb hlt hc
      · by_cases hj2 : j < id.length
        · have : j + 1 = id.length := by omega
          rw [List.getElem?_append_right (by omega), this] at hc
          simp at hc; subst hc; rfl
        · rw [List.getElem?_append_right (by omega)] at hb
          rw [List.getElem?_append_right (by omega)] at hc
          by_cases hj3 : j = id.length
          · subst hj3
            simp at hb; subst hb
            simp only [Nat.add_sub_cancel_left, List.getElem?_cons_succ] at hc
            cases server with
            | nil => simp at hc
            | cons a t =>
              simp at hc; subst hc
              exact not_isCont_head_of_utf8Valid hsrv
          · obtain ⟨m, hm⟩ : ∃ m, j - id.length = m + 1 := ⟨j - id.length - 1, by omega⟩
            have hm2 : j + 1 - id.length = m + 2 := by omega
            rw [hm] at hb; rw [hm2] at hc
            simp only [List.getElem?_cons_succ] at hb hc
            exact hs2 m b c hb hlt hc
  constructor
  · unfold parseWithServerName
    by_cases h1 : id.head? = some 64
    · simp only [h1, if_true]
      have := delimitedValidate_ne_panic (x := x) (sigil := 64) hs1 (by omega) (by omega)
      cases hu : userIdValidate x id with
      | ok u => cases u; simp
      | err => simp
      | panic => exact absurd hu this
    · simp only [h1, if_false]
      by_cases h2 : localpartCompat id = true
      · simp only [h2, Bool.not_true, Bool.false_eq_true, if_false]
        have := delimitedValidate_ne_panic (x := x) (sigil := 64) hfull (by omega) (by omega)
        cases hu : userIdValidate x (64 :: (id ++ 58 :: server)) with
        | ok u => cases u; simp
        | err => simp
        | panic => exact absurd hu this
      · simp [h2]
  · intro h1 h2 h3 h4
    unfold parseWithServerName
    simp only [h1, if_false, h2, Bool.not_true, Bool.false_eq_true]
    have hok : userIdValidate x (64 :: (id ++ 58 :: server)) = .ok () := by
      obtain ⟨hc, h0⟩ := localpartCompat_iff.1 h2
      exact (delimitedValidate_ok_iff hfull (by omega) (by omega)).2
        ⟨id, server, ⟨rfl, by simp; omega, hc, (serverNameValidate_ok_iff hs2).1 h3⟩, h0⟩
    rw [hok]

/-- `KeyId::from_parts(algorithm, key_name)` with a non-empty colon-free algorithm name and a valid
key name is accepted by the key ID parser, and its accessors return the two parts. -/
theorem constructor_accepted_key_from_parts (x : Ext) (k : Kind) (alg name : Str)
    (h : utf8Valid (keyFromParts alg name) = true)
    (hk : k = .keyAny ∨ k = .keyVersion ∨ k = .keyBase64)
    (halg : alg ≠ []) (hcol : 58 ∉ alg) (hname : keyNameValidate x (keyKind k) name = .ok ()) :
    validate x k (keyFromParts alg name) = .ok ()
      ∧ keyAlgorithm (keyFromParts alg name) = .ok alg
      ∧ keyName x (keyKind k) (keyFromParts alg name) = .ok name := by
  have hs := sep_of_utf8Valid _ h
  unfold keyFromParts at hs ⊢
  obtain ⟨h1, h2⟩ := key_accessors hs hcol hname
  refine ⟨?_, h1, h2⟩
  have hv := (keyIdValidate_ok_iff (ci := alg.length) hs).2 ⟨alg, name, ⟨rfl, hcol, halg, hname⟩, rfl⟩
  rcases hk with rfl | rfl | rfl <;> simp only [validate] <;> (simp only [keyKind] at hv; rw [hv]; rfl)

/-- Full-strength statement: `UserId::new`, `RoomId::new`, `EventId::new` (sigil, a random
alphanumeric localpart, `:`, the given accepted server name) build identifiers the parser of the same
type accepts. It is FALSE for the code as it is (see `constructor_new_not_always_accepted`): server
names have no length limit and the constructors do not check the 255-byte limit of the result.
(`0 ∉ server` for room IDs only restricts the external parameter `x.isIpv6`: a host of an accepted
server name consists of letters, digits, `-`, `.` or is a bracketed literal `x.isIpv6` accepted, and
`Ipv6Addr::from_str` accepts no NUL — see `ipv6Ref_chars`.) -/
def constructor_accepted_newStatement : Prop :=
  ∀ (x : Ext) (k : Kind) (lp server : Str),
    utf8Valid (newId (newSigil k) lp server) = true → (k = .user ∨ k = .room ∨ k = .event) →
    (∀ b ∈ lp, isAlnum b = true) → validate x .server server = .ok () → utf8Valid server = true →
    (k = .room → 0 ∉ server) →
    validate x k (newId (newSigil k) lp server) = .ok ()

/-- Proved part: the identifiers built by `UserId::new`, `RoomId::new`, `EventId::new` are accepted
PROVIDED the result fits in 255 bytes (`hlen`). Missing relative to the full statement: server names
of 242 bytes or more (user IDs, 12-character localpart) / 236 bytes or more (room and event IDs,
18-character localpart) — recorded as a known finding. -/
theorem constructor_accepted_new_partial (x : Ext) (k : Kind) (lp server : Str)
    (h : utf8Valid (newId (newSigil k) lp server) = true)
    (hk : k = .user ∨ k = .room ∨ k = .event)
    (hlp : ∀ b ∈ lp, isAlnum b = true) (hsrv : validate x .server server = .ok ())
    (hsu : utf8Valid server = true) (h0 : k = .room → 0 ∉ server)
    (hlen : lp.length + server.length + 2 ≤ 255) :
    validate x k (newId (newSigil k) lp server) = .ok () := by
  have hs := sep_of_utf8Valid _ h
  have hok := (serverNameValidate_ok_iff (sep_of_utf8Valid _ hsu)).1 hsrv
  have hc : 58 ∉ lp := by
    intro hm; have := hlp 58 hm; simp [isAlnum, isDigit, isLower, isUpper] at this
  have hn : 0 ∉ lp := by
    intro hm; have := hlp 0 hm; simp [isAlnum, isDigit, isLower, isUpper] at this
  rcases hk with rfl | rfl | rfl
  · simp only [newSigil, newId] at hs ⊢
    exact (delimitedValidate_ok_iff hs (by omega) (by omega)).2
      ⟨lp, server, ⟨rfl, by simp; omega, hc, hok⟩, hn⟩
  · simp only [newSigil, newId] at hs ⊢
    refine roomIdValidate_ok_iff.2 ⟨by simp; omega, rfl, ?_⟩
    simp [hn, h0 rfl]
  · simp only [newSigil, newId] at hs ⊢
    exact (eventIdValidate_ok_iff hs).2 (.inl ⟨lp, server, rfl, by simp; omega, hc, hok⟩)

/-- Negation witness (machine-checked finding): `UserId::new` with the 242-byte server name
`aaa…a` builds `@` + 12 alphanumerics + `:` + server = 256 bytes, which `UserId::parse` rejects. -/
theorem constructor_new_not_always_accepted : ¬ constructor_accepted_newStatement := by
  intro h
  have := h ⟨fun _ => false, fun _ => false, fun _ => false⟩ .user
    (List.replicate 12 97) (List.replicate 242 97)
    (by decide +kernel) (.inl rfl) (by decide +kernel) (by decide +kernel) (by decide +kernel)
    (by intro hk; cases hk)
  revert this
  decide +kernel

/-- The hypotheses of the partial theorem are satisfiable at the boundary: a 241-byte server name
gives a 255-byte user ID. -/
example : validate ⟨fun _ => false, fun _ => false, fun _ => false⟩ .user
    (newId (newSigil .user) (List.replicate 12 97) (List.replicate 241 97)) = .ok () := by
  decide +kernel

/-- Full-strength statement: `OwnedBase64PublicKey::with_bytes` never panics and its result is
accepted by the `Base64PublicKey` parser. FALSE for the code as it is (`with_bytes_empty_panics`). -/
def constructor_with_bytesStatement : Prop :=
  ∀ (x : Ext) (bytes : List Nat),
    ∃ t, withBytes x bytes = .ok t ∧ validate x .base64PublicKey t = .ok ()

/-- Proved part: for every NON-EMPTY byte string `with_bytes` returns its unpadded base64 text, and
that text is accepted by the parser. Missing relative to the full statement: the empty byte string. -/
theorem constructor_with_bytes_partial (x : Ext) (bytes : List Nat) (hne : bytes ≠ []) :
    withBytes x bytes = .ok (b64 bytes) ∧ validate x .base64PublicKey (b64 bytes) = .ok () := by
  have hv : base64PublicKeyValidate x (b64 bytes) = .ok () := by
    apply gram_base64PublicKey
    rw [nonEmptyAll_iff]
    exact ⟨b64_ne_nil hne, b64_all bytes⟩
  exact ⟨by simp [withBytes, hv], hv⟩

/-- Negation witness (machine-checked finding): `with_bytes(b"")` encodes to the empty text, which
`base64_public_key::validate` rejects (`Error::Empty`), and the constructor reaches
`unreachable!()`: a panic. -/
theorem with_bytes_empty_panics : ¬ constructor_with_bytesStatement := by
  intro h
  obtain ⟨t, ht, _⟩ := h ⟨fun _ => false, fun _ => false, fun _ => false⟩ []
  revert ht
  simp [withBytes, b64, base64PublicKeyValidate]

example (x : Ext) : withBytes x [] = .panic := by simp [withBytes, b64, base64PublicKeyValidate]

/-- `ClientSecret::new()` builds the "simple" form of a UUID: 32 lower-case hexadecimal digits. Every
such string is accepted by the client secret parser. -/
theorem constructor_accepted_client_secret (x : Ext) (s : Str) (hlen : s.length = 32)
    (hhex : ∀ b ∈ s, isDigit b = true ∨ (97 ≤ b ∧ b ≤ 102)) :
    validate x .clientSecret s = .ok () := by
  apply gram_clientSecret
  rw [Bool.and_eq_true, nonEmptyAll_iff]
  refine ⟨⟨by intro h; simp [h] at hlen, ?_⟩, by simp [max255]; omega⟩
  intro b hb
  rcases hhex b hb with h | h
  · simp [alnum_eq, isAlnum, h]
  · have : isLower b = true := by simp [isLower]; omega
    simp [alnum_eq, isAlnum, this]

/-! ## `RoomOrAliasId` from / to `RoomId` and `RoomAliasId` -/

/-- An accepted room alias starts with `#`. -/
theorem alias_accepted_head (x : Ext) (s : Str) (h : validate x .alias s = .ok ()) : s.head? = some 35 := by
  simp only [validate, roomAliasIdValidate, delimitedValidate, parseId] at h
  cases hv : validateId s 35 with
  | ok u => exact (validateId_ok_iff.mp hv).2
  | err => simp [hv] at h
  | panic => simp [hv] at h

/-- An accepted room ID starts with `!`. -/
theorem room_accepted_head (x : Ext) (s : Str) (h : validate x .room s = .ok ()) : s.head? = some 33 := by
  simp only [validate, roomIdValidate] at h
  cases hv : validateId s 33 with
  | ok u => exact (validateId_ok_iff.mp hv).2
  | err => simp [hv] at h
  | panic => simp [hv] at h

/-- **`From<&RoomId>` / `From<OwnedRoomId> for RoomOrAliasId`** (`from_borrowed(room_id.as_str())`,
unchecked): every string the room ID parser accepts is accepted by the room-or-alias parser, so the
conversion cannot produce a `RoomOrAliasId` that `parse` would refuse. -/
theorem constructor_accepted_room_or_alias_from_room (x : Ext) (s : Str)
    (h : validate x .room s = .ok ()) : validate x .roomOrAlias s = .ok () := by
  have hh := room_accepted_head x s h
  simp only [validate, roomOrAliasIdValidate, hh]
  exact h

/-- **`From<&RoomAliasId>` / `From<OwnedRoomAliasId> for RoomOrAliasId`**: every string the room
alias parser accepts is accepted by the room-or-alias parser. -/
theorem constructor_accepted_room_or_alias_from_alias (x : Ext) (s : Str)
    (h : validate x .alias s = .ok ()) : validate x .roomOrAlias s = .ok () := by
  have hh := alias_accepted_head x s h
  simp only [validate, roomOrAliasIdValidate, hh]
  exact h

/-- **`TryFrom<&RoomOrAliasId> for &RoomId` / `&RoomAliasId`** (`variant()` looks at the first
byte and the string is reinterpreted unchecked): an accepted room-or-alias ID is an accepted room ID
when it starts with `!` and an accepted room alias when it starts with `#`, and it starts with one
of the two. -/
theorem room_or_alias_accepted_split (x : Ext) (s : Str) (h : validate x .roomOrAlias s = .ok ()) :
    (s.head? = some 33 ∧ validate x .room s = .ok ()) ∨
    (s.head? = some 35 ∧ validate x .alias s = .ok ()) := by
  simp only [validate, roomOrAliasIdValidate] at h
  cases hh : s.head? with
  | none => simp [hh] at h
  | some b =>
    by_cases h35 : b = 35
    · subst h35
      simp only [hh] at h
      exact Or.inr ⟨rfl, h⟩
    · by_cases h33 : b = 33
      · subst h33
        simp only [hh] at h
        exact Or.inl ⟨rfl, h⟩
      · rw [hh] at h
        split at h
        · rename_i heq; injection heq with heq; exact absurd heq h35
        · rename_i heq; injection heq with heq; exact absurd heq h33
        · cases h

/-- The hypothesis is satisfiable: `!r:a` is an accepted room ID (hence a room-or-alias ID). -/
example (x : Ext) :
    validate x .room (bs "!r:a") = .ok () ∧ validate x .roomOrAlias (bs "!r:a") = .ok () := by
  have h : validate x .room (bs "!r:a") = .ok () := by
    show roomIdValidate (bs "!r:a") = .ok ()
    decide
  exact ⟨h, constructor_accepted_room_or_alias_from_room x _ h⟩

/-! ## `UserId` conformance accessors -/

/-- On an accepted user ID the conformance accessors never panic; `validate_strict()` (the method)
agrees with the free function `user_id::validate_strict`; it succeeds exactly when the localpart is in
the specification's current user ID grammar (`1*user_id_char`); and `is_historical()` is true exactly
when `validate_historical()` succeeds and `validate_strict()` does not. -/
theorem accessors_user_conformance (x : Ext) (s : Str) (h : utf8Valid s = true)
    (hv : validate x .user s = .ok ()) :
    ∃ lp srv, s = 64 :: (lp ++ 58 :: srv)
      ∧ userFullyConforming s = localpartFullyConforming lp
      ∧ userFullyConforming s ≠ .panic
      ∧ userStrict s = userIdValidateStrict x s
      ∧ (userStrict s = .ok () ↔ nonEmptyAll userIdChar lp = true)
      ∧ (userIsHistorical s = .ok true ↔ (userHistoricalOk s = .ok () ∧ userStrict s ≠ .ok ())) := by
  have hs := sep_of_utf8Valid s h
  obtain ⟨lp, srv, ⟨rfl, hlen, hlp, hsrv⟩, h0⟩ :=
    (delimitedValidate_ok_iff hs (by omega) (by omega)).1 hv
  obtain ⟨h1, _⟩ := accessors_delim hs (by omega) (by omega) hlp
  have hfc : userFullyConforming (64 :: (lp ++ 58 :: srv)) = localpartFullyConforming lp := by
    unfold userFullyConforming
    rw [if_neg (by omega), h1]
  have hnp := localpartFullyConforming_ne_panic lp
  refine ⟨lp, srv, rfl, hfc, by rw [hfc]; exact hnp, ?_, ?_, ?_⟩
  · unfold userStrict userIdValidateStrict
    rw [hfc, if_neg (by omega),
      (parseId_ok_iff hs (by omega)).2 ⟨lp, srv, ⟨rfl, hlen, hlp, hsrv⟩, rfl⟩]
    simp only [slice_one_at hs (by omega : 64 < 128) (by omega : 58 < 128)]
    cases localpartFullyConforming lp with
    | ok c => cases c <;> rfl
    | err => rfl
    | panic => rfl
  · unfold userStrict
    rw [hfc, nonEmptyAll_iff, ← List.all_eq_true, all_congr userIdChar_eq]
    unfold localpartFullyConforming
    by_cases he : lp = []
    · simp [he]
    · by_cases ha : lp.all userIdCharOk = true
      · simp [he, ha]
      · by_cases hb : lp.any (fun b => decide (b < 33) || b == 58 || decide (b > 126)) = true
        · simp [he, ha, hb]
        · simp [he, ha, hb]
  · unfold userIsHistorical userHistoricalOk userStrict
    rw [hfc]
    cases hc : localpartFullyConforming lp with
    | ok c => cases c <;> simp [Res.void]
    | err => simp [Res.void]
    | panic => exact absurd hc hnp

/-! ## The IPv6 parameter -/

/-- Every string the reference transcription of `Ipv6Addr::from_str` (`Model/IdsIp.lean`, compared
with the real parser on every run) accepts is `2*45IPv6char` of the specification's server-name
grammar: 2 to 45 bytes, each a hex digit, `:` or `.`. -/
theorem ipv6_reference_in_spec_grammar (c : Str) (h : ipv6Ref c = true) :
    c.all ipv6Char = true ∧ 2 ≤ c.length ∧ c.length ≤ 45 := by
  obtain ⟨h1, h2, h3⟩ := ipv6Ref_chars h
  exact ⟨List.all_eq_true.2 h1, h2, h3⟩

/-- With an IPv6 parser that accepts no more than the reference, a server name of at most 255 bytes
is accepted EXACTLY when it is in the specification's grammar and its port fits `u16` (the known
finding): "accepts only the spec's grammar" and "accepts every identifier in the grammar" in one
statement. (Longer server names: the code has no length limit, the grammar caps DNS names at 255.) -/
theorem server_accept_iff_grammar (x : Ext) (hx : ∀ c, x.isIpv6 c = true → ipv6Ref c = true)
    (s : Str) (h : utf8Valid s = true) (hl : s.length ≤ 255) :
    validate x .server s = .ok () ↔
      (gram x.isIpv6 .server s = true ∧ hasBigPort x.isIpv6 .server s = false) := by
  have hs := sep_of_utf8Valid s h
  constructor
  · intro hv
    have hok := (serverNameValidate_ok_iff hs).1 hv
    exact ⟨gramServerName_of_serverOk hx hok hl, serverOk_not_bigPort hok⟩
  · rintro ⟨hg, hp⟩
    exact grammar_implies_accept_partial x .server s h hg hp

/-- With such an IPv6 parser an accepted server name contains no NUL (this discharges the side
condition of `constructor_accepted_new_partial` for room IDs). -/
theorem accepted_server_has_no_nul (x : Ext) (hx : ∀ c, x.isIpv6 c = true → ipv6Ref c = true)
    (s : Str) (h : utf8Valid s = true) (hv : validate x .server s = .ok ()) : 0 ∉ s :=
  serverOk_no_nul hx ((serverNameValidate_ok_iff (sep_of_utf8Valid s h)).1 hv)

-- the hypotheses are satisfiable: "[2001:db8::1]:8448" with the reference parser itself
example : validate ⟨ipv6Ref, ipv4Ref, fun _ => false⟩ .server
    (bs "[2001:db8::1]:8448") = .ok () := by
  have e : bs "[2001:db8::1]:8448"
      = [91, 50, 48, 48, 49, 58, 100, 98, 56, 58, 58, 49, 93, 58, 56, 52, 52, 56] := by decide
  rw [e]; decide +kernel

/-! ## Required structure ⇒ accepted (the structure predicate is tight) -/

/-- Converse of `accept_implies_structure`: with an IPv6 parser that accepts no more than the
reference, every string with the required structure of a user, room, alias, room-or-alias, event ID,
server name, device key ID, MXC URI, room version or session ID is accepted, unless its server name
carries a port above 65535 (`structBigPort`, the known finding). So for these types the parser
accepts exactly the required structure: nothing the specification's structure allows is refused for
another reason. -/
theorem structure_implies_accept (x : Ext) (hx : ∀ c, x.isIpv6 c = true → ipv6Ref c = true)
    (k : Kind)
    (hk : k ∈ [Kind.user, .room, .alias, .roomOrAlias, .event, .server, .keyAny, .mxc,
      .roomVersion, .sessionId])
    (s : Str) (h : utf8Valid s = true) (hst : struct x.isIpv6 k s = true)
    (hp : structBigPort x.isIpv6 k s = false) : validate x k s = .ok () := by
  have hs := sep_of_utf8Valid s h
  simp only [List.mem_cons, List.not_mem_nil, or_false] at hk
  rcases hk with rfl | rfl | rfl | rfl | rfl | rfl | rfl | rfl | rfl | rfl <;>
    simp only [struct] at hst <;> simp only [structBigPort] at hp <;> simp only [validate]
  · exact struct_user_accept hx hs (by omega) (by omega) hst hp
  · exact struct_room_accept hst
  · exact struct_user_accept hx hs (by omega) (by omega) hst hp
  · rw [Bool.or_eq_true] at hst
    unfold roomOrAliasIdValidate
    rcases hst with hr | ha
    · have hv := struct_room_accept hr
      obtain ⟨_, hh, _⟩ := roomIdValidate_ok_iff.1 hv
      rw [hh]; exact hv
    · have hv : roomAliasIdValidate x s = .ok () :=
        struct_user_accept hx hs (by omega) (by omega) ha hp
      obtain ⟨lp, srv, ⟨rfl, _⟩, _⟩ := (delimitedValidate_ok_iff hs (by omega) (by omega)).1 hv
      exact hv
  · exact struct_event_accept hx hs hst hp
  · exact (serverNameValidate_ok_iff hs).2 (serverOk_of_struct hx hst hp)
  · exact struct_keyAny_accept hs hst
  · exact struct_mxc_accept hx hs hst hp
  · exact struct_roomVersion_accept hst
  · exact struct_sessionId_accept hst

/-- The same for the types whose validators ask Unicode `char::is_alphanumeric` (signing key
versions, base64 public keys, client secrets, and key IDs with such key names), on ASCII strings,
where that question is never asked. -/
theorem structure_implies_accept_ascii (x : Ext) (k : Kind)
    (hk : k ∈ [Kind.signingKeyVersion, .base64PublicKey, .clientSecret, .keyVersion, .keyBase64])
    (s : Str) (hascii : ∀ b ∈ s, b < 128) (h : utf8Valid s = true)
    (hst : struct x.isIpv6 k s = true) : validate x k s = .ok () := by
  have hs := sep_of_utf8Valid s h
  simp only [List.mem_cons, List.not_mem_nil, or_false] at hk
  rcases hk with rfl | rfl | rfl | rfl | rfl <;> simp only [struct] at hst <;> simp only [validate]
  · exact struct_signingKeyVersion_accept hascii hst
  · exact struct_base64PublicKey_accept hascii hst
  · exact struct_clientSecret_accept hascii hst
  · exact struct_key_accept hs hascii (fun n hn hok => struct_signingKeyVersion_accept hn hok) hst
  · exact struct_key_accept hs hascii (fun n hn hok => struct_base64PublicKey_accept hn hok) hst

/-- Exact characterisation: with an IPv6 parser that accepts no more than the reference, for user,
room, alias, room-or-alias and event IDs, server names, device key IDs, MXC URIs, room versions and
session IDs a string is accepted IF AND ONLY IF it has the required structure and no cut of it has a
server name with a port above 65535 (the port finding is the only gap between the required structure
and what the parser accepts). -/
theorem accept_iff_structure (x : Ext) (hx : ∀ c, x.isIpv6 c = true → ipv6Ref c = true) (k : Kind)
    (hk : k ∈ [Kind.user, .room, .alias, .roomOrAlias, .event, .server, .keyAny, .mxc,
      .roomVersion, .sessionId])
    (s : Str) (h : utf8Valid s = true) :
    validate x k s = .ok () ↔
      (struct x.isIpv6 k s = true ∧ structBigPort x.isIpv6 k s = false) := by
  have hs := sep_of_utf8Valid s h
  constructor
  · intro hv
    refine ⟨accept_implies_structure x k s h hv, ?_⟩
    simp only [List.mem_cons, List.not_mem_nil, or_false] at hk
    rcases hk with rfl | rfl | rfl | rfl | rfl | rfl | rfl | rfl | rfl | rfl <;>
      simp only [structBigPort] <;> simp only [validate] at hv
    · obtain ⟨lp, srv, hd, _⟩ := (delimitedValidate_ok_iff hs (by omega) (by omega)).1 hv
      exact delimOk_not_bigPort hd
    · obtain ⟨lp, srv, hd, _⟩ := (delimitedValidate_ok_iff hs (by omega) (by omega)).1 hv
      exact delimOk_not_bigPort hd
    · unfold roomOrAliasIdValidate at hv
      split at hv
      · obtain ⟨lp, srv, hd, _⟩ := (delimitedValidate_ok_iff hs (by omega) (by omega)).1 hv
        exact delimOk_not_bigPort hd
      · rename_i hh
        rw [Bool.eq_false_iff]
        intro hb
        obtain ⟨l, t, rfl, _⟩ := delimited_iff.1 hb
        simp at hh
      · simp at hv
    · rcases (eventIdValidate_ok_iff hs).1 hv with ⟨lp, srv, hd⟩ | ⟨hc, _, _⟩
      · exact delimOk_not_bigPort hd
      · rw [Bool.eq_false_iff]
        intro hb
        obtain ⟨l, t, rfl, _⟩ := delimited_iff.1 hb
        exact hc (by simp)
    · exact serverOk_not_bigPort ((serverNameValidate_ok_iff hs).1 hv)
    · cases hm : mxcValidate x s with
      | err => simp [hm, Res.void] at hv
      | panic => simp [hm, Res.void] at hv
      | ok idx =>
        obtain ⟨srv, media, hok, _⟩ := (mxcValidate_ok_iff hs).1 hm
        exact mxcOk_not_bigPort hx hok
  · rintro ⟨hst, hp⟩
    exact structure_implies_accept x hx k hk s h hst hp

-- the hypotheses are satisfiable: "@a:[::1]:80" has the required structure and no big port
example : struct ipv6Ref .user (bs "@a:[::1]:80") = true
    ∧ structBigPort ipv6Ref .user (bs "@a:[::1]:80") = false := by
  have e : bs "@a:[::1]:80" = [64, 97, 58, 91, 58, 58, 49, 93, 58, 56, 48] := by decide
  rw [e]; decide +kernel

#print axioms validate_never_panics
#print axioms validate_strict_never_panics
#print axioms accessors_recompose_delimited
#print axioms accessors_recompose_event
#print axioms accessors_room
#print axioms accessors_recompose_server
#print axioms accessors_recompose_key
#print axioms accessors_recompose_mxc
#print axioms accept_implies_structure
#print axioms length_limit
#print axioms grammar_implies_accept_partial
#print axioms grammar_not_always_accepted
#print axioms big_port_rejected
#print axioms grammar_accept_iff
#print axioms grammar_implies_strict
#print axioms constructor_accepted_parse_with_server_name
#print axioms parse_with_server_name_total
#print axioms constructor_accepted_key_from_parts
#print axioms constructor_accepted_new_partial
#print axioms constructor_new_not_always_accepted
#print axioms constructor_with_bytes_partial
#print axioms with_bytes_empty_panics
#print axioms constructor_accepted_client_secret
#print axioms alias_accepted_head
#print axioms room_accepted_head
#print axioms constructor_accepted_room_or_alias_from_room
#print axioms constructor_accepted_room_or_alias_from_alias
#print axioms room_or_alias_accepted_split
#print axioms accessors_user_conformance
#print axioms ipv6_reference_in_spec_grammar
#print axioms server_accept_iff_grammar
#print axioms accepted_server_has_no_nul
#print axioms structure_implies_accept
#print axioms structure_implies_accept_ascii
#print axioms accept_iff_structure
end Ruma.Props.C10
