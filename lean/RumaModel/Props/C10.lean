import RumaModel.Model.Ids
namespace Ruma.Props.C10
open Ruma Ruma.Ids

/-- placeholder while the tie is being built -/
theorem witness_big_port (x : Ext) : serverNameValidate x (bs "a:99999") = .err := by
  simp [serverNameValidate, endOfHost, bs, find, sliceTo, sliceFrom, isBoundary, isCont, hostByteOk, isAlnum, isDigit, isLower, isUpper, isValidPort, parseU16, digitsVal]

#print axioms witness_big_port
end Ruma.Props.C10
