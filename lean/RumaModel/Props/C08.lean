/-
  C08 — event authorization decides exactly as the spec's rules in every room version.

  Part 1: T1 (the rule flags per room version are those the spec implies).
  Part 2: security corollaries, stated outright on the model of `auth_check`, for ALL rule sets
          (all nine flags arbitrary — in particular every room version), all states and all
          power-level contents.
  Part 3: the model decides exactly as `Spec.Auth.authorize` (see `Lemmas/AuthSpec*.lean`).
-/
import RumaModel.Lemmas.Auth
import RumaModel.Lemmas.AuthSpecRules
import RumaModel.Spec.AuthRules
import RumaModel.Generated.C08
namespace Ruma.Props.C08
open Ruma Ruma.Auth Ruma.Ident

/-! ## Part 1 — T1 -/

/-- T1. The nine `AuthorizationRules` flags the implementation uses for each room version
(`RoomVersionId::V<n>.rules().authorization`, extracted from the running code on every run) are the
ones the specification's per-version rule variants imply. -/
theorem rules_table_eq_spec :
    Generated.C08.rulesTable = Spec.Auth.versions.map (fun v => (v, Spec.Auth.rulesOf v)) := by
  decide

/-- The model's version table (`AuthorizationRules::V1 … V11` by room version) is that table too. -/
theorem ofVersion_eq_spec :
    ∀ v ∈ Spec.Auth.versions, AuthRules.ofVersion? v = some (Spec.Auth.rulesOf v) := by
  decide

/-! ## Part 2 — security corollaries -/

/-- **A banned user cannot join.** In every rule set (all nine flags arbitrary), for every state and
every power-level content: a `join` event whose target is currently banned is rejected — unless it
is the room's very first join (its only previous event is the create event), the one case the rules
allow without looking at the membership. -/
theorem banned_cannot_join (rules : AuthRules) (ev : Event) (f : Fetch) (target : Str)
    (hty : ev.type = tMember) (hsk : ev.stateKey = some target)
    (hm : contentMembership ev.content = .ok mJoin)
    (hprev : ∀ create, f tCreate [] = some create → ev.prevEvents ≠ [create.eventId])
    (hban : userMembership f target = .ok mBan) :
    authCheck rules ev f = false := by
  rw [authCheck_false]
  intro h
  obtain ⟨create, hc, -, h⟩ := member_join_inv hty hsk hm h
  have hp : (ev.prevEvents == [create.eventId]) = false := by simpa using hprev create hc
  simp [checkMemberJoin, hp, hban] at h

/-- **A join respects the join rule.** An accepted `join` (other than the room's first) is sent by
the joining user, who is not banned, and the room's join rule lets them in: `public`; or
`invite` (where knocking exists: or `knock`) and they are invited or joined already; or `restricted`
(`knock_restricted`) in a rule set that has it and they are joined/invited already or name, in
`join_authorised_via_users_server`, a joined user whose power level is at least the invite level.
No other way in exists, whatever the power levels say. -/
theorem join_respects_join_rule (rules : AuthRules) (ev : Event) (f : Fetch) (target : Str)
    (hty : ev.type = tMember) (hsk : ev.stateKey = some target)
    (hm : contentMembership ev.content = .ok mJoin)
    (hprev : ∀ create, f tCreate [] = some create → ev.prevEvents ≠ [create.eventId])
    (h : authCheck rules ev f = true) :
    ev.sender = target ∧
    ∃ cur jr, userMembership f target = .ok cur ∧ cur ≠ mBan ∧ joinRule f = .ok jr ∧
      (jr = jrPublic
       ∨ ((jr = jrInvite ∨ (rules.knocking = true ∧ jr = jrKnock)) ∧ (cur = mInvite ∨ cur = mJoin))
       ∨ (((rules.restrictedJoinRule = true ∧ jr = jrRestricted)
            ∨ (rules.knockRestrictedJoinRule = true ∧ jr = jrKnockRestricted))
          ∧ ((cur = mJoin ∨ cur = mInvite)
             ∨ ∃ create creator u ul il, f tCreate [] = some create ∧
                 createCreator rules create = .ok creator ∧
                 contentJoinAuthorised ev.content = .ok (some u) ∧
                 userMembership f u = .ok mJoin ∧
                 plUserLevel rules (fetchPowerLevels f) u creator = .ok ul ∧
                 plIntOrDefault rules (fetchPowerLevels f) .invite = .ok il ∧ ul ≥ il))) := by
  rw [authCheck_true] at h
  obtain ⟨create, hc, -, h⟩ := member_join_inv hty hsk hm h
  have hp : (ev.prevEvents == [create.eventId]) = false := by simpa using hprev create hc
  simp only [checkMemberJoin, hp, Bool.false_and, Bool.false_eq_true, if_false, bind_eq_ok, require_eq_ok] at h
  obtain ⟨creator, hcr, -, hst, cur, hcur, -, hnb, jr, hjr, h⟩ := h
  refine ⟨by simpa using hst, cur, jr, hcur, by simpa using hnb, hjr, ?_⟩
  split at h
  · rename_i hc1
    right; left
    simpa using hc1
  · split at h
    · rename_i hc2
      right; right
      refine ⟨by simpa using hc2, ?_⟩
      split at h
      · rename_i hc3
        left; simpa using hc3
      · right
        simp only [bind_eq_ok] at h
        obtain ⟨via, hvia, h⟩ := h
        cases via with
        | none => simp at h
        | some u =>
          simp only [bind_eq_ok, require_eq_ok] at h
          obtain ⟨um, hum, -, humj, ul, hul, il, hil, hge⟩ := h
          have : um = mJoin := by simpa using humj
          subst this
          exact ⟨create, creator, u, ul, il, hc, hcr, hvia, hum, hul, hil, by simpa using hge⟩
    · left
      simpa using h

/-- **Banning needs strictly greater power.** An accepted `ban` comes from a joined sender whose
power level is at least the ban level and strictly greater than the target's. -/
theorem ban_needs_strictly_greater_power (rules : AuthRules) (ev : Event) (f : Fetch) (target : Str)
    (hty : ev.type = tMember) (hsk : ev.stateKey = some target)
    (hm : contentMembership ev.content = .ok mBan)
    (h : authCheck rules ev f = true) :
    userMembership f ev.sender = .ok mJoin ∧
    ∃ create creator sl tl bl, f tCreate [] = some create ∧ createCreator rules create = .ok creator ∧
      plUserLevel rules (fetchPowerLevels f) ev.sender creator = .ok sl ∧
      plUserLevel rules (fetchPowerLevels f) target creator = .ok tl ∧
      plIntOrDefault rules (fetchPowerLevels f) .ban = .ok bl ∧
      tl < sl ∧ bl ≤ sl := by
  rw [authCheck_true] at h
  obtain ⟨create, hc, -, h⟩ := member_ban_inv hty hsk hm h
  simp only [checkMemberBan, bind_eq_ok, require_eq_ok] at h
  obtain ⟨sm, hsm, -, hj, creator, hcr, sl, hsl, bl, hbl, tl, htl, hcond⟩ := h
  have : sm = mJoin := by simpa using hj
  subst this
  simp at hcond
  exact ⟨hsm, create, creator, sl, tl, bl, hc, hcr, hsl, htl, hbl, hcond.2, hcond.1⟩

/-- **Kicking (and unbanning) needs strictly greater power.** An accepted `leave` aimed at another
user comes from a joined sender whose power level is at least the kick level and strictly greater
than the target's — and at least the ban level when the target is banned. -/
theorem kick_needs_strictly_greater_power (rules : AuthRules) (ev : Event) (f : Fetch) (target : Str)
    (hty : ev.type = tMember) (hsk : ev.stateKey = some target)
    (hm : contentMembership ev.content = .ok mLeave) (hother : ev.sender ≠ target)
    (h : authCheck rules ev f = true) :
    userMembership f ev.sender = .ok mJoin ∧
    ∃ create creator sl tl kl bl tm, f tCreate [] = some create ∧ createCreator rules create = .ok creator ∧
      plUserLevel rules (fetchPowerLevels f) ev.sender creator = .ok sl ∧
      plUserLevel rules (fetchPowerLevels f) target creator = .ok tl ∧
      plIntOrDefault rules (fetchPowerLevels f) .kick = .ok kl ∧
      plIntOrDefault rules (fetchPowerLevels f) .ban = .ok bl ∧
      userMembership f target = .ok tm ∧
      tl < sl ∧ kl ≤ sl ∧ (tm = mBan → bl ≤ sl) := by
  rw [authCheck_true] at h
  obtain ⟨create, hc, -, h⟩ := member_leave_inv hty hsk hm h
  have hne : (ev.sender == target) = false := by simpa using hother
  simp only [checkMemberLeave, hne, Bool.false_eq_true, if_false, bind_eq_ok, require_eq_ok] at h
  obtain ⟨sm, hsm, -, hj, creator, hcr, tm, htm, sl, hsl, bl, hbl, -, hunban, kl, hkl, tl, htl, hcond⟩ := h
  have : sm = mJoin := by simpa using hj
  subst this
  simp at hcond hunban
  refine ⟨hsm, create, creator, sl, tl, kl, bl, tm, hc, hcr, hsl, htl, hkl, hbl, htm, hcond.2, hcond.1, ?_⟩
  intro hb
  rcases hunban with hn | hl
  · exact absurd hb hn
  · exact hl

/-- **The required power level is enforced.** Any accepted event other than `m.room.create`,
`m.room.member` and (where that special case exists) `m.room.aliases` comes from a joined sender
whose power level is at least the invite level (`m.room.third_party_invite`) or at least the level
required for the event's type (all other types), and does not carry another user's id as state key. -/
theorem required_power_enforced (rules : AuthRules) (ev : Event) (f : Fetch)
    (h1 : ev.type ≠ tCreate) (h2 : ev.type ≠ tMember)
    (h3 : ¬ (rules.specialCaseRoomAliases = true ∧ ev.type = tAliases))
    (h : authCheck rules ev f = true) :
    userMembership f ev.sender = .ok mJoin ∧
    ∃ create creator sl, f tCreate [] = some create ∧ createCreator rules create = .ok creator ∧
      plUserLevel rules (fetchPowerLevels f) ev.sender creator = .ok sl ∧
      (ev.type = tThirdPartyInvite →
        ∃ il, plIntOrDefault rules (fetchPowerLevels f) .invite = .ok il ∧ il ≤ sl) ∧
      (ev.type ≠ tThirdPartyInvite →
        ∃ req, plEventLevel rules (fetchPowerLevels f) ev.type ev.stateKey.isSome = .ok req ∧ req ≤ sl ∧
          foreignUserStateKey ev = false) := by
  rw [authCheck_true] at h
  obtain ⟨create, creator, sl, hc, hsm, hcr, hsl, h⟩ := authCheckR_general h1 h2 h3 h
  refine ⟨hsm, create, creator, sl, hc, hcr, hsl, ?_, ?_⟩
  · intro ht
    simp only [ht, beq_self_eq_true, if_true, bind_eq_ok, require_eq_ok] at h
    obtain ⟨il, hil, hge⟩ := h
    exact ⟨il, hil, by simpa using hge⟩
  · intro ht
    have e : (ev.type == tThirdPartyInvite) = false := by simpa using ht
    simp only [e, Bool.false_eq_true, if_false, bind_eq_ok, require_eq_ok] at h
    obtain ⟨req, hreq, -, hge, -, hfk, -⟩ := h
    exact ⟨req, hreq, by simpa using hge, by simpa using hfk⟩

/-- **No self-promotion.** When a power-levels event is accepted over an existing one, every entry
of its `users` map — the sender's own included — and of `events` (and of `notifications` where that
is checked) either is unchanged or is at most the sender's current level; and every one of the
seven integer properties is unchanged or, read through its default, at most the sender's level.
Holds for all contents and all rule sets. -/
theorem no_self_promotion (rules : AuthRules) (ev : Event) (f : Fetch) (cur : Event)
    (hty : ev.type = tPowerLevels) (hcur : fetchPowerLevels f = some cur)
    (h : authCheck rules ev f = true) :
    ∃ sl, (∀ creator, plUserLevel rules (some cur) ev.sender creator = .ok sl) ∧
      (∃ newUsers curUsers, plUsers rules ev.content = .ok newUsers ∧ plUsers rules cur.content = .ok curUsers ∧
        ∀ u n, newUsers.bind (lastGet · u) = some n → curUsers.bind (lastGet · u) = some n ∨ n ≤ sl) ∧
      (∃ newEvents curEvents, plEvents rules ev.content = .ok newEvents ∧ plEvents rules cur.content = .ok curEvents ∧
        ∀ t n, newEvents.bind (lastGet · t) = some n → curEvents.bind (lastGet · t) = some n ∨ n ≤ sl) ∧
      (rules.limitNotificationsPowerLevels = true →
        ∃ newN curN, plNotifications rules ev.content = .ok newN ∧ plNotifications rules cur.content = .ok curN ∧
          ∀ k n, newN.bind (lastGet · k) = some n → curN.bind (lastGet · k) = some n ∨ n ≤ sl) ∧
      (∀ fld, ∃ c n, getAsInt rules cur.content fld = .ok c ∧ getAsInt rules ev.content fld = .ok n ∧
        (c = n ∨ n.getD fld.default ≤ sl)) := by
  rw [authCheck_true] at h
  have h1 : ev.type ≠ tCreate := by rw [hty]; exact tPowerLevels_ne_tCreate
  have h2 : ev.type ≠ tMember := by rw [hty]; exact tPowerLevels_ne_tMember
  have h3 : ¬ (rules.specialCaseRoomAliases = true ∧ ev.type = tAliases) := by
    rw [hty]; intro hh; exact tPowerLevels_ne_tAliases hh.2
  obtain ⟨create, creator, sl, hc, hsm, hcr, hsl, h⟩ := authCheckR_general h1 h2 h3 h
  have e1 : (ev.type == tThirdPartyInvite) = false := by
    rw [hty]; simpa using tPowerLevels_ne_tThirdPartyInvite
  have e2 : (ev.type == tPowerLevels) = true := by simp [hty]
  simp only [e1, e2, Bool.false_eq_true, if_false, if_true, bind_eq_ok, require_eq_ok, hcur] at h
  obtain ⟨req, -, -, -, -, -, h⟩ := h
  obtain ⟨newInts, newEvents, newN, newUsers, curEvents, curUsers, i1, i2, i3, i4, i5, i6, i7, i8, i9, i10⟩ :=
    checkRoomPowerLevels_inv h
  rw [hcur] at hsl
  refine ⟨sl, ?_, ⟨newUsers, curUsers, i4, i9, (checkPowerLevelMaps_inv i10).1⟩,
    ⟨newEvents, curEvents, i2, i6, (checkPowerLevelMaps_inv i7).1⟩, ?_, ?_⟩
  · intro c
    simpa [plUserLevel] using hsl
  · intro hl
    obtain ⟨curN, j1, j2⟩ := i8 hl
    exact ⟨newN, curN, i3, j1, (checkPowerLevelMaps_inv j2).1⟩
  · intro fld
    obtain ⟨c, hcg, hor⟩ := checkIntFields_inv i5 fld (PLField.mem_all fld)
    obtain ⟨n, hng, hget⟩ := intFieldsMap_get i1 PLField.all_nodup fld (PLField.mem_all fld)
    refine ⟨c, n, hcg, hng, ?_⟩
    rw [hget] at hor
    rcases hor with h | h
    · exact Or.inl h
    · exact Or.inr h.2

/-- **Knocking requires a knock rule.** An accepted `knock` needs a rule set with knocking and a join
rule that is `knock`, or `knock_restricted` in a rule set that has it. (This is the statement the
code violated before the F2 repair: in v7–v9 any join rule was accepted.) -/
theorem knock_requires_knock_rule (rules : AuthRules) (ev : Event) (f : Fetch) (target : Str)
    (hty : ev.type = tMember) (hsk : ev.stateKey = some target)
    (hm : contentMembership ev.content = .ok mKnock)
    (h : authCheck rules ev f = true) :
    rules.knocking = true ∧ ev.sender = target ∧
    ∃ jr, joinRule f = .ok jr ∧
      (jr = jrKnock ∨ (rules.knockRestrictedJoinRule = true ∧ jr = jrKnockRestricted)) := by
  rw [authCheck_true] at h
  obtain ⟨-, hk, h⟩ := member_knock_inv hty hsk hm h
  simp only [checkMemberKnock, bind_eq_ok, require_eq_ok] at h
  obtain ⟨jr, hjr, -, hcond, -, hst, -⟩ := h
  exact ⟨hk, by simpa using hst, jr, hjr, by simpa using hcond⟩

/-- The same per room version number (every `v : Nat`, not only 1–11: the specification's rule
variants are functions of the number): in v7–v9 the join rule must be `knock`; from v10 `knock` or
`knock_restricted`; before v7 no knock is ever accepted. -/
theorem knock_requires_knock_rule_by_version (v : Nat) (ev : Event) (f : Fetch)
    (target : Str) (hty : ev.type = tMember) (hsk : ev.stateKey = some target)
    (hm : contentMembership ev.content = .ok mKnock)
    (h : authCheck (Spec.Auth.rulesOf v) ev f = true) :
    7 ≤ v ∧ ∃ jr, joinRule f = .ok jr ∧ (jr = jrKnock ∨ (10 ≤ v ∧ jr = jrKnockRestricted)) := by
  obtain ⟨hk, -, jr, hjr, hor⟩ := knock_requires_knock_rule _ ev f target hty hsk hm h
  have h7 : 7 ≤ v := by simpa [Spec.Auth.rulesOf, Spec.Auth.hasKnock] using hk
  refine ⟨h7, jr, hjr, ?_⟩
  rcases hor with h | ⟨hkr, h⟩
  · exact Or.inl h
  · exact Or.inr ⟨by simpa [Spec.Auth.rulesOf, Spec.Auth.hasKnockRestricted] using hkr, h⟩

/-- **Kick / ban need strictly greater power** (both statements together). -/
theorem kick_ban_need_strictly_greater_power (rules : AuthRules) (ev : Event) (f : Fetch) (target : Str)
    (hty : ev.type = tMember) (hsk : ev.stateKey = some target)
    (hm : contentMembership ev.content = .ok mBan ∨
          (contentMembership ev.content = .ok mLeave ∧ ev.sender ≠ target))
    (h : authCheck rules ev f = true) :
    userMembership f ev.sender = .ok mJoin ∧
    ∃ create creator sl tl, f tCreate [] = some create ∧ createCreator rules create = .ok creator ∧
      plUserLevel rules (fetchPowerLevels f) ev.sender creator = .ok sl ∧
      plUserLevel rules (fetchPowerLevels f) target creator = .ok tl ∧ tl < sl := by
  rcases hm with hm | ⟨hm, hne⟩
  · obtain ⟨h1, create, creator, sl, tl, bl, hc, hcr, hsl, htl, -, hlt, -⟩ :=
      ban_needs_strictly_greater_power rules ev f target hty hsk hm h
    exact ⟨h1, create, creator, sl, tl, hc, hcr, hsl, htl, hlt⟩
  · obtain ⟨h1, create, creator, sl, tl, kl, bl, tm, hc, hcr, hsl, htl, -, -, -, hlt, -⟩ :=
      kick_needs_strictly_greater_power rules ev f target hty hsk hm hne h
    exact ⟨h1, create, creator, sl, tl, hc, hcr, hsl, htl, hlt⟩

/-- **Nobody lowers an equal or higher user.** When a power-levels event is accepted over an existing
one, every entry of the current `users` map is kept, or belongs to the sender, or is strictly below
the sender's level. -/
theorem cannot_lower_equal_or_higher_user (rules : AuthRules) (ev : Event) (f : Fetch) (cur : Event)
    (hty : ev.type = tPowerLevels) (hcur : fetchPowerLevels f = some cur)
    (h : authCheck rules ev f = true) :
    ∃ sl newUsers curUsers, (∀ creator, plUserLevel rules (some cur) ev.sender creator = .ok sl) ∧
      plUsers rules ev.content = .ok newUsers ∧ plUsers rules cur.content = .ok curUsers ∧
      ∀ u c, curUsers.bind (lastGet · u) = some c →
        newUsers.bind (lastGet · u) = some c ∨ u = ev.sender ∨ c < sl := by
  rw [authCheck_true] at h
  have h1 : ev.type ≠ tCreate := by rw [hty]; exact tPowerLevels_ne_tCreate
  have h2 : ev.type ≠ tMember := by rw [hty]; exact tPowerLevels_ne_tMember
  have h3 : ¬ (rules.specialCaseRoomAliases = true ∧ ev.type = tAliases) := by
    rw [hty]; intro hh; exact tPowerLevels_ne_tAliases hh.2
  obtain ⟨create, creator, sl, hc, hsm, hcr, hsl, h⟩ := authCheckR_general h1 h2 h3 h
  have e1 : (ev.type == tThirdPartyInvite) = false := by
    rw [hty]; simpa using tPowerLevels_ne_tThirdPartyInvite
  have e2 : (ev.type == tPowerLevels) = true := by simp [hty]
  simp only [e1, e2, Bool.false_eq_true, if_false, if_true, bind_eq_ok, require_eq_ok, hcur] at h
  obtain ⟨req, -, -, -, -, -, h⟩ := h
  obtain ⟨newInts, newEvents, newN, newUsers, curEvents, curUsers, i1, i2, i3, i4, i5, i6, i7, i8, i9, i10⟩ :=
    checkRoomPowerLevels_inv h
  rw [hcur] at hsl
  refine ⟨sl, newUsers, curUsers, ?_, i4, i9, ?_⟩
  · intro c
    simpa [plUserLevel] using hsl
  · intro u c hu
    rcases (checkPowerLevelMaps_inv i10).2 u c hu with h | h
    · exact Or.inl h
    · right
      simp at h
      by_cases hus : u = ev.sender
      · exact Or.inl hus
      · exact Or.inr (h hus)

/-! ## Part 3 — the model decides exactly as the specification -/

open Ruma.AuthSpec (InSpecDomain PLOk PLContentOk TpiSigsOk SigsOk Allows)
open Ruma.Spec.Auth (rulesOf orReject)

/-- The full-strength statement: for every room version, event and state, model = spec. -/
def authCheck_eq_specStatement : Prop :=
  ∀ v ∈ Spec.Auth.versions, ∀ (ev : Event) (f : Fetch),
    authCheck (rulesOf v) ev f = Spec.Auth.authorize v ev f

/-- **Model = spec** for every room version 1–11, every event and every state of the comparison
domain `InSpecDomain`: the model of `auth_check`, run with the rule flags the implementation uses for
that version, accepts exactly when the specification's authorization rules accept.
What `_partial` leaves out, against `authCheck_eq_specStatement` (both refuted below as stated):
(1) power-levels contents whose `events` map uses the spelling
`org.matrix.call.sdp_stream_metadata_changed` (ruma's `TimelineEventType` identifies it with
`m.call.sdp_stream_metadata_changed`; the spec compares type strings);
(2) third-party invites whose `signed.signatures` has an entity that is not an object (the
implementation's answer then depends on the order of the entities).
The remaining condition of `InSpecDomain` — the level maps have pairwise different keys — holds
for every JSON object. -/
theorem authCheck_eq_spec_partial (v : Nat) (hv : v ∈ Spec.Auth.versions) (rules : AuthRules)
    (hr : AuthRules.ofVersion? v = some rules) (ev : Event) (f : Fetch) (h : InSpecDomain ev f) :
    authCheck rules ev f = Spec.Auth.authorize v ev f := by
  have : rules = rulesOf v := by
    have := ofVersion_eq_spec v hv
    rw [hr] at this
    exact Option.some.inj this
  subst this
  exact (AuthSpec.authCheck_eq_authorize v ev f h).symm

/-- Rule 1 (`m.room.create`). -/
theorem create_eq_spec (v : Nat) (ev : Event) :
    Spec.Auth.rule1 v ev = .allow ↔ checkRoomCreate (rulesOf v) ev = .ok () :=
  AuthSpec.create_eq_spec v ev

/-- Rule 4.3 (join, including restricted joins). -/
theorem member_join_eq_spec (v : Nat) (ev : Event) (target : Str) (create : Event) (f : Fetch)
    (hpl : PLOk (fetchPowerLevels f)) :
    orReject (Spec.Auth.rule4_3 v ev target create f) = .allow ↔
      checkMemberJoin (rulesOf v) ev target create f = .ok () :=
  AuthSpec.member_join_eq_spec v ev target create f hpl

/-- Rule 4.4 (invite, including third-party invites). -/
theorem member_invite_eq_spec (v : Nat) (ev : Event) (target : Str) (create : Event) (f : Fetch)
    (hpl : PLOk (fetchPowerLevels f)) (hs : TpiSigsOk ev) :
    orReject (Spec.Auth.rule4_4 v ev target create f) = .allow ↔
      checkMemberInvite (rulesOf v) ev target create f = .ok () :=
  AuthSpec.member_invite_eq_spec v ev target create f hpl hs

/-- Rule 4.5 (leave, kick, unban). -/
theorem member_leave_eq_spec (v : Nat) (ev : Event) (target : Str) (create : Event) (f : Fetch)
    (hpl : PLOk (fetchPowerLevels f)) :
    orReject (Spec.Auth.rule4_5 v ev target create f) = .allow ↔
      checkMemberLeave (rulesOf v) ev target create f = .ok () :=
  AuthSpec.member_leave_eq_spec v ev target create f hpl

/-- Rule 4.6 (ban). -/
theorem member_ban_eq_spec (v : Nat) (ev : Event) (target : Str) (create : Event) (f : Fetch)
    (hpl : PLOk (fetchPowerLevels f)) :
    orReject (Spec.Auth.rule4_6 v ev target create f) = .allow ↔
      checkMemberBan (rulesOf v) ev target create f = .ok () :=
  AuthSpec.member_ban_eq_spec v ev target create f hpl

/-- Rule 4.7 (knock). -/
theorem member_knock_eq_spec (v : Nat) (ev : Event) (target : Str) (f : Fetch) :
    orReject (Spec.Auth.rule4_7 v ev target f) = .allow ↔
      checkMemberKnock (rulesOf v) ev target f = .ok () :=
  AuthSpec.member_knock_eq_spec v ev target f

/-- Rule 9 (power-level changes). -/
theorem power_levels_eq_spec (v : Nat) (ev : Event) (pl : Option Event) (sl : Int)
    (hpl : PLOk pl) (hev : PLContentOk ev.content) :
    orReject (Spec.Auth.rule9 v ev pl sl) = .allow ↔ checkRoomPowerLevels (rulesOf v) ev pl sl = .ok () :=
  AuthSpec.power_levels_eq_spec v ev pl sl hpl hev

/-- Rule 10a (redaction, v1–v2). -/
theorem redaction_eq_spec (v : Nat) (ev : Event) (pl : Option Event) (sl : Int) :
    orReject (Spec.Auth.rule10a v ev pl sl) = .allow ↔ checkRoomRedaction (rulesOf v) ev pl sl = .ok () :=
  AuthSpec.redaction_eq_spec v ev pl sl

/-! ### Concrete rooms: the hypotheses above are satisfiable, and the two exclusions are necessary -/

section Examples

def exCreator : Str := bs "@creator:s1"
def exAlice : Str := bs "@alice:s1"
def exBob : Str := bs "@bob:s1"

def exCreate : Event :=
  { eventId := bs "$create", roomId := bs "!room:s1", sender := exCreator, type := tCreate,
    stateKey := some [], content := [(bs "creator", .str exCreator)] }

def exMember (user membership : Str) : Event :=
  { eventId := bs "$m", roomId := bs "!room:s1", sender := user, type := tMember, stateKey := some user,
    content := [(bs "membership", .str membership)], authEvents := [bs "$create"] }

def exJoinRules (rule : Str) : Event :=
  { eventId := bs "$jr", roomId := bs "!room:s1", sender := exCreator, type := tJoinRules, stateKey := some [],
    content := [(bs "join_rule", .str rule)], authEvents := [bs "$create"] }

def exPowerLevels (content : Obj) : Event :=
  { eventId := bs "$pl", roomId := bs "!room:s1", sender := exCreator, type := tPowerLevels, stateKey := some [],
    content := content, authEvents := [bs "$create"] }

/-- A state as a list of state events. -/
def exState (l : List Event) : Fetch :=
  fun t k => l.find? (fun e => e.type == t && e.stateKey == some k)

/-- Alice, banned, tries to join a public room. -/
def exBannedJoin : Event := { exMember exAlice mJoin with eventId := bs "$ev", prevEvents := [bs "$x"] }
def exBannedState : Fetch := exState [exCreate, exJoinRules jrPublic, exMember exAlice mBan]

example : authCheck AuthRules.v7 exBannedJoin exBannedState = false := by decide +kernel
example : userMembership exBannedState exAlice = .ok mBan := rfl

/-- Alice knocks on a public room: rejected in every version (accepted in v7–v9 before the F2 repair). -/
def exKnock : Event := { exMember exAlice mKnock with eventId := bs "$ev", prevEvents := [bs "$x"] }
def exPublicState : Fetch := exState [exCreate, exJoinRules jrPublic, exMember exCreator mJoin]
def exKnockState : Fetch := exState [exCreate, exJoinRules jrKnock, exMember exCreator mJoin]

example : ∀ v ∈ Spec.Auth.versions, authCheck (rulesOf v) exKnock exPublicState = false := by decide +kernel
example : authCheck AuthRules.v7 exKnock exKnockState = true := by decide +kernel
example : Spec.Auth.authorize 7 exKnock exPublicState = false := by decide +kernel

/-- Alice (level 50) raises Bob to 50: allowed; to 51: rejected. -/
def exPl (bob : Int) : Obj :=
  [(bs "users", .obj [(exAlice, .int 50), (exBob, .int bob)])]
def exPlState : Fetch :=
  exState [exCreate, exMember exAlice mJoin, exPowerLevels [(bs "users", .obj [(exAlice, .int 50)])]]
def exPlChange (bob : Int) : Event :=
  { exPowerLevels (exPl bob) with eventId := bs "$ev", sender := exAlice, prevEvents := [bs "$x"] }

example : authCheck AuthRules.v11 (exPlChange 50) exPlState = true := by decide +kernel
example : authCheck AuthRules.v11 (exPlChange 51) exPlState = false := by decide +kernel
example : Spec.Auth.authorize 11 (exPlChange 51) exPlState = false := by decide +kernel

/-- Allowed events that satisfy the hypotheses of the corollaries: a join into a public room, a kick
and a ban by the creator (level 100 without a power-levels event), an ordinary message. -/
def exJoin : Event := { exMember exAlice mJoin with eventId := bs "$ev", prevEvents := [bs "$x"] }
def exJoinedState : Fetch :=
  exState [exCreate, exJoinRules jrPublic, exMember exCreator mJoin, exMember exAlice mJoin]
def exKick : Event :=
  { exMember exAlice mLeave with eventId := bs "$ev", sender := exCreator, prevEvents := [bs "$x"] }
def exBan : Event :=
  { exMember exAlice mBan with eventId := bs "$ev", sender := exCreator, prevEvents := [bs "$x"] }
def exMessage : Event :=
  { eventId := bs "$ev", roomId := bs "!room:s1", sender := exAlice, type := bs "m.room.message",
    stateKey := none, content := [], authEvents := [bs "$create"], prevEvents := [bs "$x"] }

example : authCheck AuthRules.v1 exJoin exPublicState = true := by decide +kernel
example : authCheck AuthRules.v6 exKick exJoinedState = true := by decide +kernel
example : authCheck AuthRules.v6 exBan exJoinedState = true := by decide +kernel
example : authCheck AuthRules.v11 exMessage exJoinedState = true := by decide +kernel
/-- Alice (level 0) cannot kick the creator. -/
example : authCheck AuthRules.v6
    { exMember exCreator mLeave with eventId := bs "$ev", sender := exAlice, prevEvents := [bs "$x"] }
    exJoinedState = false := by decide +kernel

/-- Exclusion (1) is necessary: with the alias spelling as a key of `events`, model and spec differ. -/
def exAliasType : Str := bs "org.matrix.call.sdp_stream_metadata_changed"
def exAliasState : Fetch :=
  exState [exCreate, exMember exAlice mJoin, exPowerLevels [(bs "events", .obj [(exAliasType, .int 100)])]]
def exAliasEvent : Event :=
  { eventId := bs "$ev", roomId := bs "!room:s1", sender := exAlice,
    type := bs "m.call.sdp_stream_metadata_changed", stateKey := none, content := [],
    authEvents := [bs "$create"], prevEvents := [bs "$x"] }

theorem alias_witness :
    authCheck (rulesOf 11) exAliasEvent exAliasState = false ∧
    Spec.Auth.authorize 11 exAliasEvent exAliasState = true := by decide +kernel

/-- Exclusion (2) is necessary: an entity of `signatures` that is not an object, sorted before the
entity with the verifying signature, makes the implementation reject what the rule allows. -/
def exTpiSigned : JVal :=
  .obj [(bs "mxid", .str exBob),
        (bs "signatures", .obj [(bs "a", .int 5), (bs "id.s1", .obj [(bs "ed25519:1", .str (bs "SIG"))])]),
        (bs "token", .str (bs "tok"))]
def exTpiInvite : Event :=
  { eventId := bs "$ev", roomId := bs "!room:s1", sender := exAlice, type := tMember, stateKey := some exBob,
    content := [(bs "membership", .str mInvite), (bs "third_party_invite", .obj [(bs "signed", exTpiSigned)])],
    authEvents := [bs "$create"], prevEvents := [bs "$x"],
    tpiVerified := [(bs "ed25519:1", bs "SIG", bs "KEY")] }
def exTpiState : Fetch :=
  exState [exCreate, exMember exAlice mJoin,
    { eventId := bs "$tpi", roomId := bs "!room:s1", sender := exAlice, type := tThirdPartyInvite,
      stateKey := some (bs "tok"), content := [(bs "public_key", .str (bs "KEY"))] }]

theorem signature_entity_witness :
    authCheck (rulesOf 11) exTpiInvite exTpiState = false ∧
    Spec.Auth.authorize 11 exTpiInvite exTpiState = true := by decide +kernel

/-- Hence the unrestricted statement does not hold of the code as it is. -/
theorem authCheck_eq_specStatement_refuted : ¬ authCheck_eq_specStatement := by
  intro h
  have := h 11 (by decide) exAliasEvent exAliasState
  rw [alias_witness.1, alias_witness.2] at this
  exact absurd this (by decide)

/-- The comparison domain is inhabited by the rooms above. -/
example : InSpecDomain (exPlChange 50) exPlState := by
  refine ⟨?_, ?_, ?_⟩
  · intro e he
    have : e = exPowerLevels [(bs "users", .obj [(exAlice, .int 50)])] := by
      have h2 : fetchPowerLevels exPlState = some (exPowerLevels [(bs "users", .obj [(exAlice, .int 50)])]) :=
        rfl
      rw [h2] at he; exact (Option.some.inj he).symm
    subst this
    refine ⟨?_, ?_⟩
    · intro name kvs hk
      simp only [exPowerLevels, Obj.get] at hk
      split at hk
      · simp at hk; subst hk; decide +kernel
      · simp at hk
    · intro kvs hk; simp [exPowerLevels, Obj.get] at hk; exact absurd hk.1 (by decide)
  · intro _
    refine ⟨?_, ?_⟩
    · intro name kvs hk
      simp only [exPlChange, exPowerLevels, exPl, Obj.get] at hk
      split at hk
      · simp at hk; subst hk; decide +kernel
      · simp at hk
    · intro kvs hk; simp [exPlChange, exPowerLevels, exPl, Obj.get] at hk; exact absurd hk.1 (by decide)
  · intro signed sigs hc
    have : contentThirdPartyInvite (exPlChange 50).content = .ok none := rfl
    rw [this] at hc; simp at hc

end Examples

end Ruma.Props.C08

#print axioms Ruma.Props.C08.rules_table_eq_spec
#print axioms Ruma.Props.C08.ofVersion_eq_spec
#print axioms Ruma.Props.C08.banned_cannot_join
#print axioms Ruma.Props.C08.join_respects_join_rule
#print axioms Ruma.Props.C08.ban_needs_strictly_greater_power
#print axioms Ruma.Props.C08.kick_needs_strictly_greater_power
#print axioms Ruma.Props.C08.kick_ban_need_strictly_greater_power
#print axioms Ruma.Props.C08.required_power_enforced
#print axioms Ruma.Props.C08.no_self_promotion
#print axioms Ruma.Props.C08.cannot_lower_equal_or_higher_user
#print axioms Ruma.Props.C08.knock_requires_knock_rule
#print axioms Ruma.Props.C08.knock_requires_knock_rule_by_version
#print axioms Ruma.Props.C08.authCheck_eq_spec_partial
#print axioms Ruma.Props.C08.create_eq_spec
#print axioms Ruma.Props.C08.member_join_eq_spec
#print axioms Ruma.Props.C08.member_invite_eq_spec
#print axioms Ruma.Props.C08.member_leave_eq_spec
#print axioms Ruma.Props.C08.member_ban_eq_spec
#print axioms Ruma.Props.C08.member_knock_eq_spec
#print axioms Ruma.Props.C08.power_levels_eq_spec
#print axioms Ruma.Props.C08.redaction_eq_spec
#print axioms Ruma.Props.C08.alias_witness
#print axioms Ruma.Props.C08.signature_entity_witness
#print axioms Ruma.Props.C08.authCheck_eq_specStatement_refuted
