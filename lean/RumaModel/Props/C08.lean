/-
  C08 — event authorization decides exactly as the spec's rules in every room version.
  (work in progress: T1 first; the security corollaries and model = spec follow)
-/
import RumaModel.Model.Auth
import RumaModel.Spec.AuthRules
import RumaModel.Generated.C08
namespace Ruma.Props.C08
open Ruma Ruma.Auth

/-- T1. The nine `AuthorizationRules` flags the implementation uses for each room version
(`RoomVersionId::V<n>.rules().authorization`, extracted on every run) are the ones the
specification's per-version rule variants imply. -/
theorem rules_table_eq_spec :
    Generated.C08.rulesTable = Spec.Auth.versions.map (fun v => (v, Spec.Auth.rulesOf v)) := by
  decide

/-- The model's version table (`AuthorizationRules::V1 … V11` by room version) is that table too. -/
theorem ofVersion_eq_spec :
    ∀ v ∈ Spec.Auth.versions, AuthRules.ofVersion? v = some (Spec.Auth.rulesOf v) := by
  decide

end Ruma.Props.C08

#print axioms Ruma.Props.C08.rules_table_eq_spec
#print axioms Ruma.Props.C08.ofVersion_eq_spec
