/-
  C15 — HTML sanitization is idempotent and leaves already-clean documents unchanged; deprecated
  elements and attributes are rewritten to their documented replacements.
  Property theorems only; helper lemmas live in `Lemmas/Html*.lean`.

  Reading guide. Same model as C14 (`Model/Html.lean`): `clean L c roots` is
  `SanitizerConfig::clean` on the children of a parsed fragment, `L` the private static lists, `c`
  a `SanitizerConfig` with every builder field. `Clean L c d f` (`Spec/HtmlPolicy.lean`) is the
  predicate sanitization establishes, each element at its true depth; `Allowed m rrf d f`
  (`Spec/HtmlDoc.lean`) is "a document of the allow-list grammar" in the words of the Matrix
  spec's lists; `rewriteDeprecatedL` is the documented rewriting (`font` → `span` with `color` →
  `data-mx-color`, `strike` → `s`). `Settled L c` (`Lemmas/HtmlIdem.lean`) is the explicit
  hypothesis on the replacement tables under which idempotence holds; it is decidable
  (`settledB`), holds for the standard configurations (`standard_settled`), and is needed
  (`not_idempotent_chained_replacement`).

  The theorems are about trees. "Sanitizing already-sanitized output equals a plain
  parse-and-reserialize of it" additionally involves html5ever's serializer and parser, which are
  parameters: that part is checked on every run against the real code (T3), not proven.
-/
import RumaModel.Lemmas.HtmlIdem
import RumaModel.Lemmas.HtmlSorted
import RumaModel.Spec.HtmlDoc
import RumaModel.Lemmas.HtmlPlain
import RumaModel.Lemmas.HtmlTables15
namespace Ruma.Props.C15
open Ruma Ruma.Html Ruma.Spec.HtmlPolicy Ruma.Spec.HtmlDoc Ruma.Lemmas.Html
open Ruma.Spec.HtmlAllow (lists elemAllowed attrAllowed valueAllowed classAllowed maxDepth
  elemReplacement attrReplacement deprecatedAttrs deprecatedElements)
open Ruma.Lemmas.HtmlTables15 (implLists)

/-! ## For every configuration -/

/-- An element that `node_action` keeps with `d` element ancestors is kept with fewer: the first
pass counts ignored ancestors, a second pass no longer sees them. -/
theorem nodeAction_mono (L : Lists) (c : Cfg) (n : Str) (as : List Attr) (d d' : Nat)
    (h : d' ≤ d) (ha : nodeAction L c n as d = .none) : nodeAction L c n as d' = .none :=
  nodeAction_none_mono L c n as d d' h ha

/-- A forest that satisfies the predicate sanitization establishes — every element, at its true
depth, allowed, within the depth limit, with allowed attributes, values and classes, and not the
subject of a replacement; no comments — is returned unchanged. -/
theorem clean_fixes_allowed (L : Lists) (c : Cfg) (d : Nat) (f : List Node) (h : Clean L c d f) :
    cleanList L c d f = f :=
  cleanList_fix L c f d h.1 h.2

/-- If the forest with the configuration's replacements applied (`rewriteL`: element and
attribute names only, everything else untouched) consists of elements that are kept as they
are, sanitization does exactly that rewriting and nothing else. -/
theorem clean_only_rewrites (L : Lists) (c : Cfg) (f : List Node)
    (h : AllElemsL (Keeps L c) 0 (rewriteL L c f)) (ho : NoOtherL f) :
    clean L c f = rewriteL L c f :=
  cleanList_rewrites L c f 0 h ho

/-- For a configuration with settled replacement tables, the output of sanitization satisfies
`Clean` (each element at its depth in the OUTPUT, which is at most the depth the pass counted). -/
theorem clean_establishes_clean (L : Lists) (c : Cfg) (hs : Settled L c) (roots : List Node) :
    Clean L c 0 (clean L c roots) :=
  ⟨cleanList_all L c (CleanElem L c)
      (fun dOut dIn n as hle h => cleanElem_of_none L c hs dOut dIn n as hle h) roots 0 0 (Nat.le_refl 0),
    cleanList_noOther L c roots 0⟩

/-- Idempotence, for every configuration whose replacement tables are settled (decidable:
`settledB`) and every forest: sanitizing the output again changes nothing. -/
theorem clean_idempotent_of (L : Lists) (c : Cfg) (hs : Settled L c) (roots : List Node) :
    clean L c (clean L c roots) = clean L c roots :=
  clean_fixes_allowed L c 0 _ (clean_establishes_clean L c hs roots)

/-- Idempotence in general form. Attribute lists are ordered sets (`SortedTree`: what the parser
hands over — the element's `BTreeSet<Attribute>`); the configuration's replacement tables are
settled in the weaker sense `SettledW`: an element that may remain is not itself replaced, none of
the attributes that may remain on it is renamed, `class` carries no scheme restriction (decidable:
`settledWB`; implied by `Settled`). Then sanitizing the output again changes nothing. This covers
builder configurations with attribute replacement tables on allowed elements. -/
theorem clean_idempotent_of_sorted (L : Lists) (c : Cfg) (hs : SettledW L c) (roots : List Node)
    (hw : SortedTree roots) : clean L c (clean L c roots) = clean L c roots :=
  clean_fixes_allowed L c 0 _ (clean_clean_of_sorted L c hs roots hw)

/-- The general hypotheses on a configuration of the public builder that is not settled in the
strong sense: strict mode with `replace_attributes(span: color → data-mx-color, Add)` and
`replace_elements(center → div, Add)`; and on a tree: `<span color="red" title="t">`. -/
example :
    let c : Cfg := { mode := some Mode.strict, replaceAttrs := some ⟨false, [(bs "span", [(bs "color", bs "data-mx-color")])]⟩, replaceElements := some ⟨false, [(bs "center", bs "div")]⟩ }
    settledWB lists c = true ∧ settledB lists c = false ∧
    sortedForestB [.elem (bs "span") [⟨none, [], bs "color", bs "red"⟩, ⟨none, [], bs "title", bs "t"⟩] []] = true ∧
    clean lists c [.elem (bs "span") [⟨none, [], bs "color", bs "red"⟩, ⟨none, [], bs "title", bs "t"⟩] []] =
      [.elem (bs "span") [⟨none, [], bs "data-mx-color", bs "red"⟩] []] := by
  refine ⟨?_, ?_, ?_, ?_⟩ <;> decide +kernel

/-- `Settled` implies `SettledW`, so the general form covers the standard configurations too. -/
theorem settled_implies_general (L : Lists) (c : Cfg) (h : Settled L c) : SettledW L c :=
  settledW_of_settled L c h

/-- html5ever as a parameter. `reparse` stands for "serialize, then parse again" (external code,
not modelled); the only assumption used is that it maps a clean forest to a clean forest — what
the re-parse oracle checks on every generated case. Then sanitizing the re-parsed first output
removes and rewrites nothing: it equals the plain parse-and-reserialize of that output. -/
theorem clean_reparse_fixpoint (L : Lists) (c : Cfg) (hs : Settled L c)
    (reparse : List Node → List Node)
    (hp : ∀ t, Clean L c 0 t → Clean L c 0 (reparse t)) (roots : List Node) :
    clean L c (reparse (clean L c roots)) = reparse (clean L c roots) :=
  clean_fixes_allowed L c 0 _ (hp _ (clean_establishes_clean L c hs roots))

/-- The assumption on `reparse` is satisfiable (trivially by the identity: a serializer/parser
pair that round-trips clean trees exactly). -/
example (L : Lists) (c : Cfg) (hs : Settled L c) (roots : List Node) :
    clean L c (id (clean L c roots)) = id (clean L c roots) :=
  clean_reparse_fixpoint L c hs id (fun _ h => h) roots

/-- The hypothesis is satisfiable on a non-trivial configuration of the public builder: compat
mode, reply-fallback removal, `center` replaced by `div`, `u` removed, `span[style]` allowed. -/
example : Settled lists
    { mode := some .compat, removeReplyFallback := true,
      replaceElements := some ⟨false, [(bs "center", bs "div")]⟩,
      removeElements := some [bs "u"],
      allowAttrs := some ⟨false, [(bs "span", [bs "style"])]⟩ } :=
  settled_of_settledB _ _ (by decide +kernel)

/-- The hypothesis is needed: with a chained replacement (`big` → `b`, `b` → `strong`, a
configuration the public builder accepts) the first pass yields `<b>`, a second pass `<strong>`;
the configuration is not settled. -/
theorem not_idempotent_chained_replacement :
    let c : Cfg := { replaceElements := some ⟨false, [(bs "big", bs "b"), (bs "b", bs "strong")]⟩ }
    clean lists c [.elem (bs "big") [] [.text (bs "t")]] = [.elem (bs "b") [] [.text (bs "t")]] ∧
    clean lists c [.elem (bs "b") [] [.text (bs "t")]] = [.elem (bs "strong") [] [.text (bs "t")]] ∧
    ¬ Settled lists c := by
  refine ⟨by decide +kernel, by decide +kernel, ?_⟩
  intro h
  have := (h (bs "b") (by decide +kernel)).1
  revert this
  decide +kernel

/-! ## The standard configurations -/

/-- `strict()`, `compat()` and `new()`, with and without `remove_reply_fallback()` — what
`sanitize_html` and `remove_html_reply_fallback` use — are settled, at the spec's lists and at the
lists extracted from the running implementation on this run. -/
theorem standard_settled (mo : Option Mode) (rrf : Bool) :
    Settled lists (plain mo rrf) ∧ Settled implLists (plain mo rrf) :=
  ⟨settled_of_settledB _ _ (Lemmas.HtmlTables15.settledB_spec mo rrf),
   settled_of_settledB _ _ (Lemmas.HtmlTables15.settledB_impl mo rrf)⟩

/-- The static lists do not contradict themselves (an allowed element is not a deprecated one; no
scheme list on `class`): the spec's lists and the extracted ones. -/
theorem spec_lists_consistent : consistent lists = true ∧ consistent implLists = true :=
  Lemmas.HtmlTables15.consistent_both

/-- **Idempotence** in strict and compat mode (and without a mode), with and without
reply-fallback removal, for every forest: sanitizing sanitized output changes nothing. -/
theorem clean_idempotent (mo : Option Mode) (rrf : Bool) (roots : List Node) :
    clean lists (plain mo rrf) (clean lists (plain mo rrf) roots) = clean lists (plain mo rrf) roots :=
  clean_idempotent_of _ _ (standard_settled mo rrf).1 roots

/-- The same with the lists the running implementation uses (extracted on this run). -/
theorem clean_idempotent_lists (mo : Option Mode) (rrf : Bool) (roots : List Node) :
    clean implLists (plain mo rrf) (clean implLists (plain mo rrf) roots) =
      clean implLists (plain mo rrf) roots :=
  clean_idempotent_of _ _ (standard_settled mo rrf).2 roots

/-! ## Documents of the allow-list grammar -/

/-- For the standard configurations, "an element of the allow-list grammar" (in the spec's words)
is exactly "an element that is kept as it is and is not the subject of a replacement". -/
theorem elemFine_iff_cleanElem (m : Mode) (rrf : Bool) (d : Nat) (n : Str) (as : List Attr) :
    ElemFine m rrf d n as ↔ CleanElem lists (plain (some m) rrf) d n as := by
  have hl : attrListed (plain (some m) rrf) = true := by simp [attrListed, plain, Cfg.useStrict]
  constructor
  · rintro ⟨he, hr, hd, ha⟩
    have hok : elemOk lists (plain (some m) rrf) n = true := by
      rw [plain_elemOk_spec, he]
      cases rrf
      · rfl
      · have : (n == replyName) = false := by simpa using hr rfl
        simp [this]
    obtain ⟨hn, hra, _⟩ := (standard_settled (some m) rrf).1 n hok
    refine ⟨⟨hok, ?_, ?_⟩, hn, replaceAttrsOf_of_not _ _ _ _ hra⟩
    · intro m' hm
      rw [plain_maxDepth_spec] at hm
      cases hm; exact hd
    · intro a h
      obtain ⟨h1, h2, h3, h4⟩ := ha a h
      refine ⟨⟨by rw [plain_attrOk_spec]; exact h2, fun _ => h1⟩,
        by rw [plain_valueOk_spec]; exact h3, ?_⟩
      intro hc cl hcl
      rw [plain_classOk_spec]; exact h4 hc cl hcl
  · rintro ⟨⟨hok, hd, ha⟩, _, _⟩
    rw [plain_elemOk_spec] at hok
    simp only [Bool.and_eq_true, Bool.not_eq_true', Bool.and_eq_false_iff] at hok
    refine ⟨hok.1, ?_, hd 100 (plain_maxDepth_spec m rrf), ?_⟩
    · intro hr hn
      rcases hok.2 with h | h
      · rw [hr] at h; cases h
      · simp [hn] at h
    · intro a h
      obtain ⟨⟨h1, h1'⟩, h2, h3⟩ := ha a h
      refine ⟨h1' hl, by rw [← plain_attrOk_spec m rrf]; exact h1,
        by rw [← plain_valueOk_spec m rrf]; exact h2, ?_⟩
      intro hc cl hcl
      rw [← plain_classOk_spec m rrf]; exact h3 hc cl hcl

/-- A well-nested document built only from allowed elements, attributes, schemes and classes
within the depth limit (`mx-reply` excluded under reply-fallback removal) is returned unchanged,
in strict and compat mode. -/
theorem allowed_grammar_unchanged (m : Mode) (rrf : Bool) (f : List Node) (h : Allowed m rrf 0 f) :
    clean lists (plain (some m) rrf) f = f :=
  clean_fixes_allowed _ _ 0 f
    ⟨(allElemsL_congr _ _ (elemFine_iff_cleanElem m rrf) f 0).1 h.1, h.2⟩

/-- … and these are the only documents that are returned unchanged. -/
theorem unchanged_iff_allowed (m : Mode) (rrf : Bool) (f : List Node) :
    clean lists (plain (some m) rrf) f = f ↔ Allowed m rrf 0 f := by
  constructor
  · intro h
    have hc := clean_establishes_clean lists (plain (some m) rrf) (standard_settled (some m) rrf).1 f
    rw [h] at hc
    exact ⟨(allElemsL_congr _ _ (elemFine_iff_cleanElem m rrf) f 0).2 hc.1, hc.2⟩
  · exact allowed_grammar_unchanged m rrf f

/-- The same in the spec's words for strict and compat mode: if re-parsing the serialization of a
document of the allow-list grammar yields a document of the grammar (the assumption on html5ever
that the re-parse oracle checks), sanitizing sanitized output is a plain parse-and-reserialize. -/
theorem sanitized_output_reparse_unchanged (m : Mode) (rrf : Bool)
    (reparse : List Node → List Node)
    (hp : ∀ t, Allowed m rrf 0 t → Allowed m rrf 0 (reparse t)) (roots : List Node) :
    clean lists (plain (some m) rrf) (reparse (clean lists (plain (some m) rrf) roots)) =
      reparse (clean lists (plain (some m) rrf) roots) := by
  apply allowed_grammar_unchanged
  apply hp
  exact (unchanged_iff_allowed m rrf _).1 (clean_idempotent (some m) rrf roots)

/-- The hypothesis of `allowed_grammar_unchanged` on a concrete non-trivial document:
`<a href="https://x" target="_blank"><code class="language-rust x">t</code></a>` is NOT in the
grammar (class `x`), `<… class="language-rust">` is. -/
example :
    allowedB .strict true 0 [.elem (bs "a") [⟨none, [], bs "href", bs "https://x"⟩, ⟨none, [], bs "target", bs "_blank"⟩]
      [.elem (bs "code") [⟨none, [], className, bs "language-rust"⟩] [.text (bs "t")]]] = true ∧
    allowedB .strict true 0 [.elem (bs "a") [⟨none, [], bs "href", bs "https://x"⟩, ⟨none, [], bs "target", bs "_blank"⟩]
      [.elem (bs "code") [⟨none, [], className, bs "language-rust x"⟩] [.text (bs "t")]]] = false := by
  constructor <;> decide +kernel

mutual
theorem allowedNodeB_iff (m : Mode) (rrf : Bool) : ∀ (node : Node) (d : Nat),
    allowedNodeB m rrf d node = true ↔ AllElems (ElemFine m rrf) d node ∧ NoOther node
  | .text _, _ => by simp [allowedNodeB, AllElems, NoOther]
  | .other, _ => by simp [allowedNodeB, NoOther]
  | .elem n as cs, d => by
    have ih := allowedB_iff_aux m rrf cs (d + 1)
    simp only [allowedNodeB, Bool.and_eq_true, ih, AllElems, NoOther]
    have he : elemFineB m rrf d n as = true ↔ ElemFine m rrf d n as := by
      simp only [elemFineB, ElemFine, Bool.and_eq_true, Bool.not_eq_true', Bool.and_eq_false_iff,
        decide_eq_true_eq, List.all_eq_true, Bool.or_eq_true, bne_iff_ne, ne_eq, List.isEmpty_iff]
      constructor
      · rintro ⟨⟨⟨h1, h2⟩, h3⟩, h4⟩
        refine ⟨h1, ?_, h3, ?_⟩
        · intro hr hn
          rcases h2 with h | h
          · rw [hr] at h; cases h
          · simp [hn] at h
        · intro a ha
          obtain ⟨⟨⟨g1, g2⟩, g3⟩, g4⟩ := h4 a ha
          refine ⟨g1, g2, g3, ?_⟩
          intro hc cl hcl
          rcases g4 with g | g
          · exact absurd hc g
          · exact g cl hcl
      · rintro ⟨h1, h2, h3, h4⟩
        refine ⟨⟨⟨h1, ?_⟩, h3⟩, ?_⟩
        · cases rrf
          · left; rfl
          · right; simpa using h2 rfl
        · intro a ha
          obtain ⟨g1, g2, g3, g4⟩ := h4 a ha
          refine ⟨⟨⟨g1, g2⟩, g3⟩, ?_⟩
          by_cases hc : a.name = className
          · right; exact g4 hc
          · left; exact hc
    rw [he]
    constructor
    · rintro ⟨a, b, c⟩; exact ⟨⟨a, b⟩, c⟩
    · rintro ⟨⟨a, b⟩, c⟩; exact ⟨a, b, c⟩
theorem allowedB_iff_aux (m : Mode) (rrf : Bool) : ∀ (l : List Node) (d : Nat),
    allowedB m rrf d l = true ↔ AllElemsL (ElemFine m rrf) d l ∧ NoOtherL l
  | [], _ => by simp [allowedB, AllElemsL, NoOtherL]
  | n :: t, d => by
    simp only [allowedB, Bool.and_eq_true, allowedNodeB_iff m rrf n d, allowedB_iff_aux m rrf t d,
      AllElemsL, NoOtherL]
    constructor
    · rintro ⟨⟨a, b⟩, c, e⟩; exact ⟨⟨a, c⟩, b, e⟩
    · rintro ⟨⟨a, c⟩, b, e⟩; exact ⟨⟨a, b⟩, c, e⟩
end

/-- The executable recogniser of grammar documents (used by the driver as the SPEC answer to
"is this document returned unchanged?") decides `Allowed`. -/
theorem allowedB_iff (m : Mode) (rrf : Bool) (d : Nat) (f : List Node) :
    allowedB m rrf d f = true ↔ Allowed m rrf d f :=
  allowedB_iff_aux m rrf f d

/-! ## Deprecated elements and attributes -/

theorem replaceNameOf_plain (m : Mode) (rrf : Bool) (n : Str) :
    replaceNameOf lists (plain (some m) rrf) n = elemReplacement n := by
  simp only [replaceNameOf, plain, isOverride, Cfg.useStrict, elemReplacement, lists,
    Option.bind_none, Option.isSome_some, Bool.not_false, Bool.and_self, if_true]
  cases mapGet deprecatedElements n <;> rfl

theorem replaceAttrsOf_plain (m : Mode) (rrf : Bool) (n : Str) (as : List Attr) :
    replaceAttrsOf lists (plain (some m) rrf) n as = rewriteAttrs n as := by
  simp only [replaceAttrsOf, plain, isOverride, Cfg.useStrict, rewriteAttrs, lists,
    Option.bind_none, Option.isSome_some, Bool.not_false, Bool.and_self, if_true,
    Option.isSome_none, Bool.false_or]
  cases h : mapGet deprecatedAttrs n with
  | none => simp
  | some r =>
    simp only [Option.isSome_some, if_true]
    congr 1

mutual
theorem rewrite_plain (m : Mode) (rrf : Bool) : ∀ (node : Node),
    rewrite lists (plain (some m) rrf) node = rewriteDeprecated node
  | .text _ => by simp [rewrite, rewriteDeprecated]
  | .other => by simp [rewrite, rewriteDeprecated]
  | .elem n as cs => by
    simp only [rewrite, rewriteDeprecated, replaceNameOf_plain, replaceAttrsOf_plain,
      rewriteL_plain m rrf cs]
theorem rewriteL_plain (m : Mode) (rrf : Bool) : ∀ (l : List Node),
    rewriteL lists (plain (some m) rrf) l = rewriteDeprecatedL l
  | [] => by simp [rewriteL, rewriteDeprecatedL]
  | n :: t => by simp only [rewriteL, rewriteDeprecatedL, rewrite_plain m rrf n, rewriteL_plain m rrf t]
end

/-- Deprecated elements and attributes are rewritten to their documented replacements and
nothing else happens: if the document contains no comments or other non-element, non-text nodes
(`ho`) and the document with `font` → `span`, `font[color]` → `data-mx-color`,
`strike` → `s` applied is a document of the allow-list grammar, the output of sanitization in
strict or compat mode is exactly that rewritten document — children and all other attributes as
they were (`rewrite_preserves`) — and it is a fixpoint of sanitization. -/
theorem deprecated_rewritten (m : Mode) (rrf : Bool) (f : List Node) (ho : NoOtherL f)
    (h : Allowed m rrf 0 (rewriteDeprecatedL f)) :
    clean lists (plain (some m) rrf) f = rewriteDeprecatedL f ∧
    clean lists (plain (some m) rrf) (rewriteDeprecatedL f) = rewriteDeprecatedL f := by
  refine ⟨?_, allowed_grammar_unchanged m rrf _ h⟩
  rw [← rewriteL_plain m rrf f]
  apply clean_only_rewrites _ _ f _ ho
  rw [rewriteL_plain m rrf f]
  have := (allElemsL_congr _ _ (elemFine_iff_cleanElem m rrf) _ 0).1 h.1
  exact ((allElemsL_and _ _ _ 0).1 this).1

/-- The hypothesis of `deprecated_rewritten` on a concrete document, and the rewriting it yields:
`<font color="#f00" data-mx-bg-color="#000"><strike>t</strike></font>` →
`<span data-mx-bg-color="#000" data-mx-color="#f00"><s>t</s></span>`. -/
example :
    let f := [Node.elem (bs "font") [⟨none, [], bs "color", bs "#f00"⟩, ⟨none, [], bs "data-mx-bg-color", bs "#000"⟩]
      [.elem (bs "strike") [] [.text (bs "t")]]]
    allowedB .strict false 0 (rewriteDeprecatedL f) = true ∧
    clean lists (plain (some .strict) false) f =
      [.elem (bs "span") [⟨none, [], bs "data-mx-bg-color", bs "#000"⟩, ⟨none, [], bs "data-mx-color", bs "#f00"⟩]
        [.elem (bs "s") [] [.text (bs "t")]]] := by
  constructor <;> decide +kernel

mutual
theorem rewriteDeprecated_text : ∀ (node : Node), textOf (rewriteDeprecated node) = textOf node
  | .text _ => by simp [rewriteDeprecated]
  | .other => by simp [rewriteDeprecated]
  | .elem n as cs => by simp only [rewriteDeprecated, textOf, rewriteDeprecatedL_text cs]
theorem rewriteDeprecatedL_text : ∀ (l : List Node), textOfL (rewriteDeprecatedL l) = textOfL l
  | [] => by simp [rewriteDeprecatedL]
  | n :: t => by simp only [rewriteDeprecatedL, textOfL, rewriteDeprecated_text n, rewriteDeprecatedL_text t]
end

/-- What the documented rewriting preserves: the text; for an element, the number of children
(each rewritten in place); every attribute, with its namespace and value, under its replacement
name — and nothing else appears. -/
theorem rewrite_preserves (f : List Node) (n : Str) (as : List Attr) (cs : List Node) :
    textOfL (rewriteDeprecatedL f) = textOfL f ∧
    (rewriteDeprecatedL f).length = f.length ∧
    rewriteDeprecated (.elem n as cs) =
      .elem (elemReplacement n) (rewriteAttrs n as) (rewriteDeprecatedL cs) ∧
    (∀ b, b ∈ rewriteAttrs n as ↔ ∃ a ∈ as, b = { a with name := attrReplacement n a.name }) := by
  refine ⟨rewriteDeprecatedL_text f, ?_, rfl, ?_⟩
  · induction f with
    | nil => rfl
    | cons x t ih => simp [rewriteDeprecatedL, ih]
  · intro b
    unfold rewriteAttrs attrReplacement
    cases h : mapGet deprecatedAttrs n with
    | none =>
      simp only [Option.bind_none, Option.getD_none]
      constructor
      · intro hb; exact ⟨b, hb, rfl⟩
      · rintro ⟨a, ha, rfl⟩; exact ha
    | some r =>
      simp only [mem_setCollect, List.mem_map, Option.bind_some]
      constructor
      · rintro ⟨a, ha, rfl⟩
        refine ⟨a, ha, ?_⟩
        cases mapGet r a.name <;> rfl
      · rintro ⟨a, ha, rfl⟩
        refine ⟨a, ha, ?_⟩
        cases mapGet r a.name <;> rfl

end Ruma.Props.C15
#print axioms Ruma.Props.C15.nodeAction_mono
#print axioms Ruma.Props.C15.clean_fixes_allowed
#print axioms Ruma.Props.C15.clean_only_rewrites
#print axioms Ruma.Props.C15.clean_establishes_clean
#print axioms Ruma.Props.C15.clean_idempotent_of
#print axioms Ruma.Props.C15.clean_idempotent_of_sorted
#print axioms Ruma.Props.C15.settled_implies_general
#print axioms Ruma.Props.C15.clean_reparse_fixpoint
#print axioms Ruma.Props.C15.not_idempotent_chained_replacement
#print axioms Ruma.Props.C15.standard_settled
#print axioms Ruma.Props.C15.spec_lists_consistent
#print axioms Ruma.Props.C15.clean_idempotent
#print axioms Ruma.Props.C15.clean_idempotent_lists
#print axioms Ruma.Props.C15.elemFine_iff_cleanElem
#print axioms Ruma.Props.C15.allowed_grammar_unchanged
#print axioms Ruma.Props.C15.unchanged_iff_allowed
#print axioms Ruma.Props.C15.sanitized_output_reparse_unchanged
#print axioms Ruma.Props.C15.allowedB_iff
#print axioms Ruma.Props.C15.deprecated_rewritten
#print axioms Ruma.Props.C15.rewrite_preserves
