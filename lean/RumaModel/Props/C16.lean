/-
  C16 — Endpoint requests and responses survive the HTTP wire format unchanged; path selection
  follows the version history.
  Property theorems only; helper lemmas live in `Lemmas/Endpoint*.lean`.

  Reading guide. `VersionHistory`, `newOk` (= `VersionHistory::new` does not panic), `selectPath`,
  `makeEndpointUrl`, `substPath`, `authorizationHeader`, `xmatrixFormat`/`xmatrixParse` are the
  model of the code (`Model/Endpoint.lean`); `Selects`/`select`, `authExpect`, `percentDecode`,
  `segmentUnsafe` are the specification (`Spec/Endpoint.lean`); `routeArgs` is what a receiving
  server does with a request path. `Generated.C16.histories` are the version histories of every
  endpoint constant of the five API crates, re-extracted from the running code on every check.

  The second half of the file is about the code the `#[request]` / `#[response]` macros generate
  (`Model/EndpointGlue.lean`): `request_roundtrip_partial`, `response_roundtrip_partial`,
  `glue_no_panic`, the reference query-string codec, and the recorded findings G17–G19 as
  full-strength statement / `_partial` theorem / machine-checked witness on the model. (G17–G19
  were called F17–F19 in C16's files until the audit; renamed because DESIGN.md uses F17 for a
  finding of property C17.) The last section brings the REAL endpoints under the hypotheses:
  `Generated.C16.realReq` / `realResp` are the descriptions of every `#[request]` / `#[response]`
  struct of the five API crates, re-read from the source text on every check;
  `real_endpoints_under_model` decides `macroAccepts`, `testsPass`, the history conditions and the
  header-name `Nodup` for each, `real_g17_endpoints` which of them have the shape of G17.
  What is NOT proven: that the model is the code (that is the differential check, see
  `props/C16.json`), and the libraries behind the parameters (`serde_json`, `serde_html_form`,
  `http`) beyond the reference form codec and the C01-based JSON codec `canonJson`.
-/
import RumaModel.Lemmas.Endpoint
import RumaModel.Lemmas.EndpointUrl
import RumaModel.Lemmas.EndpointXMatrix
import RumaModel.Lemmas.EndpointNoPanic
import RumaModel.Lemmas.EndpointGlueResp
import RumaModel.Lemmas.EndpointGlueReal
import RumaModel.Generated.C16
namespace Ruma.Props.C16
open Ruma Ruma.Endpoint Ruma.Spec.Endpoint Ruma.Glue

/-! ## Path selection -/

/-- T1: every extracted history satisfies the invariants `VersionHistory::new` enforces, mentions
only the 15 known versions, and all its paths start with `/` and consist of `/` and bytes that
are safe inside a URI path segment. -/
theorem generated_histories_valid :
    Generated.C16.histories.all (fun h =>
      newOk h
      && h.stable.all (fun e => decide (e.1 < 15))
      && (h.unstable ++ h.stable.map (·.2)).all (fun p =>
            p.head? == some 47 && p.all (fun b => b == 47 || !segmentUnsafe b))) = true := by
  decide +kernel

/-- For EVERY history accepted by `VersionHistory::new` and EVERY list of supported versions
(any order, duplicates, empty): `select_path` does not panic and its result is the one the rule
prescribes — `EndpointRemoved` iff a removal version is set and every supported version is at or
past it; otherwise the path of the greatest stable entry that some supported version offers;
otherwise the last unstable path, or `NoUnstablePath` when there is none. -/
theorem selectPath_spec (h : VersionHistory) (vs : List Version) (hnew : newOk h = true) :
    ∃ s, (selectPath h vs).toSelection? = some s ∧ Selects (toSpec h) vs s :=
  selectPath_spec' h vs (newOk_inv h hnew)

/-- The declarative rule determines its result (stable versions are distinct), and the executable
form of the rule that answers the check's `c16.spec.*` requests computes it. -/
theorem spec_select_is_the_rule (h : History) (vs : List Version) :
    Selects h vs (select h vs) ∧
    (h.stable.Pairwise (fun a b => a.1 ≠ b.1) → ∀ s, Selects h vs s → s = select h vs) :=
  ⟨select_selects h vs, fun hd s hs => selects_unique h vs hd s _ hs (select_selects h vs)⟩

/-- Hence model and executable rule agree on every valid history and every version list. -/
theorem selectPath_eq_spec_select (h : VersionHistory) (vs : List Version)
    (hnew : newOk h = true) : (selectPath h vs).toSelection? = some (select (toSpec h) vs) :=
  selectPath_eq_select' h vs (newOk_inv h hnew)

/-- A reported removal names the history's removal version. -/
theorem selectPath_removed_version (h : VersionHistory) (vs : List Version) (r : Version)
    (hr : selectPath h vs = .errRemoved r) : h.removed = some r := by
  unfold selectPath at hr
  split at hr
  · split at hr
    · rename_i r' hr'; cases hr; exact hr'
    · cases hr
  · split at hr
    · cases hr
    · split at hr <;> cases hr
  · split at hr <;> cases hr

/-- `expect("VersioningDecision::Stable implies that a stable path exists")` cannot fire: for any
history at all, a `Stable` decision comes with a path from `stable_endpoint_for`. -/
theorem stable_decision_has_path (h : VersionHistory) (vs : List Version) (a b c : Bool)
    (hd : versioningDecision h vs = .stable a b c) : ∃ p, stableEndpointFor h vs = some p :=
  stable_decision_has_path' h vs a b c hd

/-- None of the three panic sites of `select_path` (`expect` on `removed`, the `unreachable!`,
`expect` on the stable path) is reachable for a history `VersionHistory::new` accepted. -/
theorem selectPath_no_panic (h : VersionHistory) (vs : List Version) (hnew : newOk h = true) :
    selectPath h vs ≠ .panic := by
  obtain ⟨s, hs, _⟩ := selectPath_spec h vs hnew
  intro hp
  rw [hp] at hs
  cases hs

/-- The hypotheses are satisfiable on a non-trivial history (two unstable paths, three stable
ones, deprecated and removed), and the rule picks what one expects. -/
example :
    let h : VersionHistory :=
      ⟨[bs "/u1/:a", bs "/u2/:a"], [(1, bs "/v1/:a"), (4, bs "/v2/:a"), (9, bs "/v3/:a")], some 11, some 12⟩
    newOk h = true
    ∧ selectPath h [0] = .ok (bs "/u2/:a")
    ∧ selectPath h [0, 5] = .ok (bs "/v2/:a")
    ∧ selectPath h [3, 2, 3] = .ok (bs "/v1/:a")
    ∧ selectPath h [13, 3, 3] = .ok (bs "/v3/:a")
    ∧ selectPath h [14, 12] = .errRemoved 12
    ∧ selectPath h [] = .errRemoved 12
    ∧ selectPath ⟨[], [(3, bs "/v")], none, none⟩ [1] = .errNoUnstable := by decide

/-- Reading recorded in DESIGN.md: "a supported version offers a path" is `v ≥ path.version`, as
the code documents. Under the stricter reading (`… ∧ v < removed`) this selection would be wrong:
the versions {1.1, 1.5} select the stable path although 1.1 predates it and 1.5 has removed it.
Kept as a witness, not claimed as a defect. -/
example :
    let h : VersionHistory := ⟨[bs "/u"], [(2, bs "/s")], some 3, some 4⟩
    newOk h = true ∧ selectPath h [1, 5] = .ok (bs "/s") := by decide

/-! ## Path arguments on the wire -/

/-- Percent-decoding is a left inverse of percent-encoding with a set that leaves the hex digits
alone **iff** the set contains `%` — which is why `PATH_PERCENT_ENCODE_SET` must contain it (F8). -/
theorem percent_roundtrip_iff (set : Nat → Bool) (hhex : ∀ d, isHexDigit d = true → set d = false) :
    (∀ s, IsBytes s → percentDecode (percentEncode set s) = s) ↔ set 37 = true :=
  percent_roundtrip_iff' set hhex

/-- The set the code uses qualifies, the pre-fix set does not; the concrete F8 witness on the
model: `a%41` was sent verbatim and decoded to `aA`. -/
example : (∀ d, isHexDigit d = true → pathSet d = false) ∧ pathSet 37 = true
    ∧ pathSetNoPercent 37 = false
    ∧ percentDecode (percentEncode pathSetNoPercent (bs "a%41")) = bs "aA"
    ∧ percentDecode (percentEncode pathSet (bs "a%41")) = bs "a%41" := by
  refine ⟨?_, by decide, by decide, by decide, by decide⟩
  intro d hd
  have : d < 128 := by
    unfold isHexDigit at hd
    simp only [Bool.or_eq_true, Bool.and_eq_true, decide_eq_true_eq] at hd
    omega
  revert hd
  revert d
  decide

/-- For every path template, and every list of argument strings (arbitrary bytes: any Unicode,
`/ % ? # + & =`, spaces, empty) with one argument per placeholder: if `make_endpoint_url`'s
substitution produces the path `p`, then a server that splits `p` on `/` and percent-decodes the
placeholder segments gets back exactly the arguments, and `p` has as many segments as the
template. -/
theorem path_args_roundtrip (tmpl : Str) (args : List Str) (p : Str)
    (hargs : ∀ a ∈ args, IsBytes a) (hlen : args.length = (pathArgNames tmpl).length)
    (h : substPath tmpl args = some p) :
    routeArgs tmpl p = some args ∧ (splitOn 47 p).length = (splitOn 47 tmpl).length :=
  path_args_roundtrip' tmpl args p hargs hlen h

/-- …and the substitution does produce a path (neither the `assert!` on the leading `/` nor the
`expect` on the argument count fires) whenever the template starts with `/` and there are at
least as many arguments as placeholders. -/
theorem substPath_no_panic (tmpl : Str) (args : List Str) (hslash : tmpl.head? = some 47)
    (hlen : (pathArgNames tmpl).length ≤ args.length) : ∃ p, substPath tmpl args = some p :=
  substPath_some tmpl args hslash hlen

/-- `make_endpoint_url` is: selected path, arguments substituted, after the base URL without its
trailing slash, then `?query` unless the query is empty. -/
theorem makeEndpointUrl_shape (h : VersionHistory) (vs : List Version) (base query : Str)
    (args : List Str) (url : Str) :
    makeEndpointUrl h vs base args query = .ok url ↔
      ∃ tmpl p, selectPath h vs = .ok tmpl ∧ substPath tmpl args = some p ∧
        url = stripSlashSuffix base ++ p ++ (if query = [] then [] else 63 :: query) := by
  unfold makeEndpointUrl
  cases hsel : selectPath h vs with
  | ok tmpl =>
    simp only
    cases hp : substPath tmpl args with
    | none =>
      simp only [reduceCtorEq, false_iff]
      rintro ⟨tmpl', p, ht, hp', _⟩
      cases ht
      rw [hp] at hp'; cases hp'
    | some p =>
      simp only [Out.ok.injEq]
      constructor
      · intro hu; exact ⟨tmpl, p, rfl, hp, hu.symm⟩
      · rintro ⟨tmpl', p', ht, hp', hu⟩
        cases ht
        rw [hp] at hp'; cases hp'
        exact hu.symm
  | errRemoved v => simp
  | errNoUnstable => simp
  | panic => simp

/-- `make_endpoint_url` as a whole has no reachable panic site (the three of `select_path`, the
`assert!` on the leading `/`, the `expect` on the argument count) for a history
`VersionHistory::new` accepted whose paths all start with `/` — which `generated_histories_valid`
establishes for every endpoint constant — when at least as many arguments as placeholders are
supplied (the macros pass one per path field; the generated `path_parameters` tests pin the
count). -/
theorem makeEndpointUrl_no_panic (h : VersionHistory) (vs : List Version) (base query : Str)
    (args : List Str) (hnew : newOk h = true)
    (hslash : ∀ p ∈ allPaths h, p.head? = some 47)
    (hlen : ∀ r, refPath h = some r → (pathArgNames r).length ≤ args.length) :
    makeEndpointUrl h vs base args query ≠ .panic :=
  makeEndpointUrl_no_panic' h vs base query args hnew hslash hlen

example : substPath (bs "/r/:room_id/e/:event_id") [bs "!a%41/b:x", bs "$?#+ " ++ [195, 169]]
      = some (bs "/r/!a%2541%2Fb:x/e/$%3F%23+%20%C3%A9")
    ∧ routeArgs (bs "/r/:room_id/e/:event_id") (bs "/r/!a%2541%2Fb:x/e/$%3F%23+%20%C3%A9")
      = some [bs "!a%41/b:x", bs "$?#+ " ++ [195, 169]] := by
  constructor <;> decide +kernel

/-- The produced path contains no stray delimiter: if the template consists of `/` and bytes that
are safe in a URI path segment, so does the path with the arguments filled in — no raw `?`, `#`,
space, control or non-ASCII byte, and no `/` beyond the template's. -/
theorem url_no_stray_delims (tmpl : Str) (args : List Str) (p : Str)
    (htmpl : ∀ b ∈ tmpl, b = 47 ∨ segmentUnsafe b = false) (hargs : ∀ a ∈ args, IsBytes a)
    (h : substPath tmpl args = some p) :
    (∀ b ∈ p, b = 47 ∨ segmentUnsafe b = false)
    ∧ (args.length = (pathArgNames tmpl).length → (splitOn 47 p).length = (splitOn 47 tmpl).length) :=
  ⟨url_no_stray_delims' tmpl args p htmpl hargs h,
   fun hlen => (path_args_roundtrip' tmpl args p hargs hlen h).2⟩

/-! ## Authorization header -/

/-- What a `SendAccessToken` offers. -/
def kindOf : SendAccessToken → TokenKind
  | .ifRequired _ => .ifRequired
  | .always _ => .always
  | .appservice _ => .appservice
  | .none => .none

def tokenOf : SendAccessToken → Str
  | .ifRequired t | .always t | .appservice t => t
  | .none => []

/-- For each of the 6 authentication schemes × 4 `SendAccessToken` kinds, `authorization_header`
does what the specification table says: the bearer header built from the caller's token, no
header, or the `NeedsAuthentication` error. -/
theorem authorization_header_table (s : AuthScheme) (sat : SendAccessToken) :
    authorizationHeader s sat =
      match authExpect s (kindOf sat) with
      | .bearer => bearer (tokenOf sat)
      | .noHeader => .noHeader
      | .needsAuth => .errNeedsAuth := by
  cases s <;> cases sat <;> rfl

/-- The bearer header is `Authorization: Bearer <token>`, produced exactly when the token consists
of bytes an HTTP header value may hold (otherwise the conversion to `HeaderValue` fails). -/
theorem bearer_header (t : Str) :
    bearer t = if headerValueOk t then .header (bs "Bearer " ++ t) else .errHeaderValue := by
  unfold bearer
  have : headerValueOk (bs "Bearer " ++ t) = headerValueOk t := by
    unfold headerValueOk
    rw [List.all_append]
    have : (bs "Bearer ").all (fun b => (decide (32 ≤ b) && b != 127) || b == 9) = true := by decide
    rw [this, Bool.true_and]
  simp only [this]

/-- The table itself, cell by cell (scheme order: None, AccessToken, AccessTokenOptional,
AppserviceToken, AppserviceTokenOptional, ServerSignatures; columns IfRequired, Always,
Appservice, None). -/
example :
    ([AuthScheme.none, .accessToken, .accessTokenOptional, .appserviceToken,
      .appserviceTokenOptional, .serverSignatures].map fun s =>
      [TokenKind.ifRequired, .always, .appservice, .none].map (authExpect s))
    = [[.noHeader, .bearer, .noHeader, .noHeader],
       [.bearer, .bearer, .bearer, .needsAuth],
       [.bearer, .bearer, .bearer, .noHeader],
       [.needsAuth, .bearer, .bearer, .needsAuth],
       [.noHeader, .bearer, .bearer, .noHeader],
       [.noHeader, .noHeader, .noHeader, .noHeader]] := by decide

/-! ## X-Matrix -/

/-- Formatting an `X-Matrix` value and parsing the text gives back the same origin, destination
(present or absent), key and signature — for all field strings made of bytes that may stand in a
quoted string (tab, space, visible ASCII; server names, key IDs and unpadded base64 are such
strings), including strings that need quoting and escaping (`"`, `\`, `:`, `/`, `,`, `=`, empty). -/
theorem xmatrix_roundtrip (x : XMatrix) (ho : x.origin.all isQuotable = true)
    (hd : ∀ d, x.destination = some d → d.all isQuotable = true)
    (hk : x.key.all isQuotable = true) (hs : x.sig.all isQuotable = true) :
    xmatrixParse (xmatrixFormat x) = some x :=
  xmatrix_roundtrip' x ho hd hk hs

example :
    xmatrixFormat ⟨bs "origin.hs.example.com", some (bs "[::1]:8448"), bs "ed25519:key1", bs "ABC/+"⟩
      = bs "X-Matrix destination=\"[::1]:8448\",key=\"ed25519:key1\",origin=origin.hs.example.com,sig=\"ABC/+\""
    ∧ xmatrixParse (bs "X-Matrix sig=\"a\\\"b\",ORIGIN=o.example,key=\"ed25519:1\"")
      = some ⟨bs "o.example", none, bs "ed25519:1", bs "a\"b"⟩ := by
  constructor <;> decide

/-! ## The macro-generated request/response glue

`ReqDesc` / `RespDesc` describe an endpoint the way `#[request]` / `#[response]` see it (ordered
fields with their `#[ruma_api(..)]` kind); `tryIntoHttpRequest`, `tryFromHttpRequest`,
`tryIntoHttpResponse`, `tryFromHttpResponse` are the model of the generated code
(`Model/EndpointGlue.lean`); `deliver` is what lies between sender and receiver (cut the base URL
off, split path and query, route the path, percent-decode the arguments). `FormCodec`, `JsonCodec`,
`HttpLib` stand for `serde_html_form`, `serde_json` and `http::Uri` and are quantified over — every
theorem holds for all implementations satisfying the stated laws. `refForm` is the executable
reference form codec, proved to satisfy its law. -/

/-! ### The query-string codec -/

/-- **All byte strings.** The reference `application/x-www-form-urlencoded` parser (split on `&`,
first `=`, `+` → space, `%XX`) reads back every list of pairs of arbitrary byte strings from what
the reference serializer (`* - . _ 0-9 A-Z a-z` kept, space → `+`, the rest `%XX`) wrote: keys and
values with `& = + % # ?`, spaces, controls, NUL, bytes that are not UTF-8, empty strings, the
empty list, repeated keys. -/
theorem query_roundtrip_all_bytes (ps : List (Str × Str))
    (hb : ∀ p ∈ ps, IsBytes p.1 ∧ IsBytes p.2) : formParseBytes (formSerialize ps) = ps :=
  formParseBytes_formSerialize ps hb

/-- `String::from_utf8_lossy` (the step `form_urlencoded::parse` adds on top) changes nothing on
well-formed UTF-8, so the parser as `serde_html_form` uses it reads back all Rust strings. -/
theorem form_codec_lawful (ps : List (Str × Str))
    (ht : ∀ p ∈ ps, utf8Valid p.1 = true ∧ utf8Valid p.2 = true) :
    formParse (formSerialize ps) = ps ∧ 35 ∉ formSerialize ps :=
  ⟨refForm_lawful.law ps ht, refForm_lawful.no_hash ps⟩

example : formSerialize [(bs "a b", bs "x&y=z"), (bs "", bs "100%"), (bs "k", [195, 169]), (bs "k", bs "+#?")]
      = bs "a+b=x%26y%3Dz&=100%25&k=%C3%A9&k=%2B%23%3F"
    ∧ formParse (bs "a+b=x%26y%3Dz&=100%25&&k=%C3%A9&k=%2B%23%3F&novalue&%zz=%4")
      = [(bs "a b", bs "x&y=z"), (bs "", bs "100%"), (bs "k", [195, 169]), (bs "k", bs "+#?"),
         (bs "novalue", []), (bs "%zz", bs "%4")]
    -- a percent escape that is not UTF-8 arrives as U+FFFD
    ∧ formParse (bs "k=%FF%C3") = [(bs "k", [239, 191, 189, 239, 191, 189])]
    ∧ utf8Valid [240, 159, 152, 128] = true ∧ utf8Valid [237, 160, 128] = false
    ∧ utf8Valid [192, 128] = false := by
  refine ⟨by decide +kernel, by decide +kernel, by decide +kernel, by decide, by decide, by decide⟩

/-! ### Requests -/

/-- The property for requests, at full strength: for every endpoint description within the model
(`inModel`: no flattened body field) that the macro accepts (and whose generated tests pass), every value made of wire forms of values, and every message the
encoder produces for it: the receiving side, after routing, reads back the value (and so its
re-encoding is the identical message). **This does not hold** — see `request_statement_false`:
findings G17 and G19 and descriptions with two header fields of one name are counterexamples. -/
def RequestRoundtripStatement : Prop :=
  ∀ (F : FormCodec) (J : JsonCodec) (H : HttpLib) (d : ReqDesc) (v : ReqVal) (base : Str)
    (sat : SendAccessToken) (vs : List Version) (m : HttpRequest),
    F.Lawful → J.Lawful → newOk d.history = true →
    (∀ p ∈ allPaths d.history, ∀ b ∈ p, b = 47 ∨ segmentUnsafe b = false) →
    d.inModel = true → d.macroAccepts = true → d.testsPass = true → v.Canon d → v.Text F d →
    tryIntoHttpRequest F J H d v base sat vs = .ok m →
    ∃ tmpl a, selectPath d.history vs = .ok tmpl ∧ deliver base tmpl m = some a
      ∧ tryFromHttpRequest F J d a = .ok v

/-- What is proved. For EVERY implementation of the form, JSON and URI libraries satisfying the
stated laws, EVERY endpoint description `d` expressible in the model (`hmodel`: any mix of path,
query / `query_all`, header (mandatory or `Option`), body, newtype-body and raw-body fields, but NO
body field with `#[serde(flatten)]` — such descriptions are outside the model) that `#[request]`
accepts (`macroAccepts`), whose generated tests pass (`testsPass`: path fields = placeholders, no
body on `GET`, distinct field names — these are `#[test]` functions the macro emits, run by ruma's
own `cargo test`, not by the compiler) and whose history `VersionHistory::new` accepts (`hnew`)
with paths made of `/` and URI-safe bytes (`hsafe`),
EVERY value `v` whose field contents are wire forms of values of the fields' types (`Canon`) and
Rust strings where they pass through text (`Text`), every base URL, access token and list of
supported versions: if `try_into_http_request` produces the message `m`, then a server that routes
`m` by the selected path template and hands it to `try_from_http_request` obtains exactly `v`.
(The last conjunct — re-encoding what was obtained gives `m` again — adds nothing: it is the
third conjunct plus the fact that the encoder is a function. It is kept because the property is
worded that way. The direction that starts from an ARRIVED message — decode, re-encode, deliver,
decode again — is not a theorem here: it needs the codecs to be idempotent and the form library to
produce text, which are not among the laws assumed.)

Excluded, spelled out:
 * `hhn`  — two header fields with the same header name (the second `insert` overwrites the first);
 * `hvis` — **G19**: a header value with a byte that is not visible ASCII / space / tab
            (`HeaderValue::from_str` accepts bytes ≥ 128, `to_str` on the receiving side refuses);
 * `himp` — **G17**: an `Option` header field that is `None` while the generated code sets that
            header itself (`Content-Type: application/json` whenever there is a body,
            `Authorization` when a token is sent): it is read back as `Some(..)`.
Finding **G18** lives one level below (`QueryFieldTypesStatement`): `Some("")` in an
`Option<String>` query field is not the wire form of a value, so `Canon` does not hold for it. -/
theorem request_roundtrip_partial (F : FormCodec) (J : JsonCodec) (H : HttpLib) (d : ReqDesc)
    (v : ReqVal) (base : Str) (sat : SendAccessToken) (vs : List Version) (m : HttpRequest)
    (hF : F.Lawful) (hJ : J.Lawful)
    (hnew : newOk d.history = true)
    (hsafe : ∀ p ∈ allPaths d.history, ∀ b ∈ p, b = 47 ∨ segmentUnsafe b = false)
    (_hmodel : d.inModel = true)
    (hmacro : d.macroAccepts = true) (htests : d.testsPass = true)
    (hcanon : v.Canon d) (htext : v.Text F d)
    (hhn : (d.headerFields.map (·.header)).Nodup)
    (hvis : ∀ s, some s ∈ v.header → headerToStrOk s = true)
    (himp : ∀ f, (f, none) ∈ d.headerFields.zip v.header → f.header ∉ implicitHeaders d sat)
    (henc : tryIntoHttpRequest F J H d v base sat vs = .ok m) :
    ∃ tmpl a, selectPath d.history vs = .ok tmpl ∧ deliver base tmpl m = some a
      ∧ tryFromHttpRequest F J d a = .ok v
      ∧ ∀ v', tryFromHttpRequest F J d a = .ok v' →
          tryIntoHttpRequest F J H d v' base sat vs = .ok m := by
  obtain ⟨tmpl, a, h1, h2, h3⟩ :=
    request_roundtrip' F hF J hJ H d v base sat vs m hnew hsafe hmacro htests hhn hcanon htext hvis himp henc
  refine ⟨tmpl, a, h1, h2, h3, ?_⟩
  intro v' hv'
  rw [h3] at hv'
  cases hv'
  exact henc

/-- No modelled panic site of the generated code is reachable: for a description within the model
whose generated tests pass, a history `VersionHistory::new` accepted with paths starting in `/`, and any value of
the struct, `try_into_http_request` ends in a message or in an `IntoHttpError` — never in one of
the `expect`/`assert!`/`unreachable!` of `make_endpoint_url` / `select_path`. (The receiving side
and both response conversions contain no `unwrap`/`expect`/index at all: their models have no
`panic` outcome.) -/
theorem glue_no_panic (F : FormCodec) (J : JsonCodec) (H : HttpLib) (d : ReqDesc) (v : ReqVal)
    (base : Str) (sat : SendAccessToken) (vs : List Version)
    (hnew : newOk d.history = true) (hslash : ∀ p ∈ allPaths d.history, p.head? = some 47)
    (_hmodel : d.inModel = true)
    (htests : d.testsPass = true) (hshape : v.shapeOk d = true) :
    tryIntoHttpRequest F J H d v base sat vs ≠ .panic
    ∧ tryIntoHttpRequest F J H d v base sat vs ≠ .illTyped := by
  rcases tryInto_no_panic' F J H d v base sat vs hnew hslash htests hshape with ⟨m, h⟩ | ⟨e, h⟩
  · rw [h]; constructor <;> (intro h'; cases h')
  · rw [h]; constructor <;> (intro h'; cases h')

/-- The receiving side's method rule: a `HEAD` request is accepted for a `GET` endpoint; any other
method than the endpoint's is `MethodMismatch`, before anything else is looked at. -/
theorem method_rule (F : FormCodec) (J : JsonCodec) (d : ReqDesc) (a : Arrived) :
    (a.method ≠ d.method → ¬(a.method = mHEAD ∧ d.method = mGET) →
      tryFromHttpRequest F J d a = .methodMismatch)
    ∧ (d.method = mGET → tryFromHttpRequest F J d { a with method := mHEAD }
        = tryFromHttpRequest F J d { a with method := mGET }) := by
  constructor
  · intro h1 h2
    unfold tryFromHttpRequest
    have : (decide (a.method = d.method) || (decide (a.method = mHEAD) && decide (d.method = mGET))) = false := by
      simp only [Bool.or_eq_false_iff, decide_eq_false_iff_not, Bool.and_eq_false_imp,
        decide_eq_true_eq]
      exact ⟨h1, fun h3 h4 => h2 ⟨h3, h4⟩⟩
    simp [this]
  · intro hg
    unfold tryFromHttpRequest
    simp [hg]

/-- The empty-body rule: by an endpoint WITHOUT a raw body field (`hraw`; with one, the body bytes
are the field's value and nothing is substituted), a request without any body bytes is read
exactly like the body `{}`. -/
theorem empty_body_is_empty_object (F : FormCodec) (J : JsonCodec) (d : ReqDesc) (a : Arrived)
    (_hmodel : d.inModel = true) (hraw : d.hasRawBody = false) :
    tryFromHttpRequest F J d { a with body := [] }
      = tryFromHttpRequest F J d { a with body := bs "{}" } := by
  unfold tryFromHttpRequest decodeJsonBody bodyOrEmptyObject
  simp [hraw]

/-! ### Witnesses: the model reproduces the recorded defects -/

/-- A `JsonCodec` that refuses to write anything (lawful, trivially): enough for the witnesses
below, none of which has a JSON body. -/
def noJson : JsonCodec where
  ser := fun _ => none
  parse := fun b => if b = bs "{}" then some (.obj []) else none

theorem noJson_lawful : noJson.Lawful where
  law := by intro v b h; cases h
  ser_ne := by intro v b h; cases h
  empty_obj := by simp [noJson]

def anyUri : HttpLib := ⟨fun _ => true⟩

/-- `media::create_content`-like: raw body and an optional `Content-Type` header field. -/
def dG17 : ReqDesc :=
  ⟨bs "POST", .none, ⟨[bs "/_synthetic/upload"], [], none, none⟩,
   [⟨bs "content_type", .header contentType true Ty.str⟩, ⟨bs "file", .rawBody⟩]⟩

/-- **G17 on the model.** `content_type: None` is sent with the macros' own
`Content-Type: application/json` and read back as `Some("application/json")`. -/
theorem g17_witness :
    let v : ReqVal := { header := [none], raw := [[1, 2, 3]] }
    let m : HttpRequest := ⟨bs "POST", bs "https://h/_synthetic/upload",
      [(contentType, applicationJson)], [1, 2, 3]⟩
    dG17.macroAccepts = true ∧ dG17.testsPass = true ∧ newOk dG17.history = true
    ∧ tryIntoHttpRequest refForm noJson anyUri dG17 v (bs "https://h") .none [] = .ok m
    ∧ deliver (bs "https://h") (bs "/_synthetic/upload") m = some ⟨bs "POST", [], m.headers, m.body, []⟩
    ∧ tryFromHttpRequest refForm noJson dG17 ⟨bs "POST", [], m.headers, m.body, []⟩
        = .ok { header := [some applicationJson], raw := [[1, 2, 3]] } := by
  refine ⟨by decide, by decide, by decide, by rfl, by rfl, by rfl⟩

/-- A mandatory `String` header field. -/
def dG19 : ReqDesc :=
  ⟨bs "GET", .none, ⟨[bs "/_synthetic/h"], [], none, none⟩,
   [⟨bs "h", .header (bs "if-match") false Ty.str⟩]⟩

/-- **G19 on the model.** The header value `é` (bytes C3 A9) is accepted when sending and is a
deserialization error when receiving. -/
theorem g19_witness :
    let v : ReqVal := { header := [some [195, 169]] }
    let m : HttpRequest := ⟨bs "GET", bs "https://h/_synthetic/h", [(bs "if-match", [195, 169])], []⟩
    tryIntoHttpRequest refForm noJson anyUri dG19 v (bs "https://h") .none [] = .ok m
    ∧ deliver (bs "https://h") (bs "/_synthetic/h") m = some ⟨bs "GET", [], m.headers, [], []⟩
    ∧ (match tryFromHttpRequest refForm noJson dG19 ⟨bs "GET", [], m.headers, [], []⟩ with
       | .deser => true | _ => false) = true := by
  refine ⟨by rfl, by rfl, by rfl⟩

/-- The full-strength statement is false: the G17 description and value satisfy all its
hypotheses, and the receiving side reads a different value. -/
theorem request_statement_false : ¬ RequestRoundtripStatement := by
  intro h
  obtain ⟨hm, ht, hn, henc, hdel, hdec⟩ := g17_witness
  have hcanon : ReqVal.Canon dG17 { header := [none], raw := [[1, 2, 3]] } :=
    ⟨trivial, trivial, trivial, ⟨rfl, trivial⟩, trivial, trivial⟩
  have htext : ReqVal.Text refForm dG17 { header := [none], raw := [[1, 2, 3]] } := by
    constructor
    · intro a ha; cases ha
    · intro f hf; cases hf
    · intro x hx; cases hx
    · intro x hx; cases hx
  obtain ⟨tmpl, a, hsel, hd, hdec'⟩ := h refForm noJson anyUri dG17 _ (bs "https://h") .none [] _
    refForm_lawful noJson_lawful hn
    (by decide) (by decide) hm ht hcanon htext henc
  have : tmpl = bs "/_synthetic/upload" := by
    have : selectPath dG17.history [] = .ok (bs "/_synthetic/upload") := by decide
    rw [this] at hsel
    cases hsel
    rfl
  subst this
  rw [hdel] at hd
  cases hd
  rw [hdec] at hdec'
  have := congrArg (fun o => match o with | FromOut.ok v => v.header | _ => []) hdec'
  simp at this

/-! ### G18: one level below, the field types -/

/-- Typed contents of a query field, for the string types the check's endpoints use. -/
inductive QVal where
  | str (s : Str)                  -- `String`
  | optStr (o : Option Str)        -- `Option<String>`
  | vecStr (l : List Str)          -- `Vec<String>` (`default`, `skip_serializing_if = "Vec::is_empty"`)

/-- What `serde_html_form` writes under the field's key. -/
def QVal.wire : QVal → List Str
  | .str s => [s]
  | .optStr none => []
  | .optStr (some s) => [s]
  | .vecStr l => l

def QVal.codec : QVal → Codec (List Str)
  | .str _ => Ty.qStr
  | .optStr _ => Ty.qOptStr
  | .vecStr _ => Ty.qVecStr

/-- Full strength: whatever a query field holds, what is written for it is read back as the same
content. **False**: G18. -/
def QueryFieldTypesStatement : Prop := ∀ a : QVal, a.codec.Canon a.wire

/-- All contents of `String`, `Option<String>` and `Vec<String>` query fields — every string, the
empty string, any number of values — are read back unchanged, **except** `Some("")` in an
`Option<String>` field. -/
theorem query_field_types_partial (a : QVal) (h : a ≠ .optStr (some [])) : a.codec.Canon a.wire := by
  cases a with
  | str s => rfl
  | vecStr l => rfl
  | optStr o =>
    cases o with
    | none => rfl
    | some s =>
      have hs : s ≠ [] := fun e => h (by rw [e])
      simp [QVal.codec, QVal.wire, Codec.Canon, Ty.qOptStr, hs]

/-- **G18 on the model.** `Some("")` is written as `name=` and read back as `None`. -/
theorem g18_witness :
    (QVal.optStr (some [])).codec.norm (QVal.optStr (some [])).wire = some (QVal.optStr none).wire
    ∧ ¬ QueryFieldTypesStatement := by
  refine ⟨rfl, fun h => ?_⟩
  have := h (.optStr (some []))
  simp [QVal.codec, QVal.wire, Codec.Canon, Ty.qOptStr] at this

/-- …and end to end: an endpoint with one `Option<String>` query field sends `?oq=` for
`Some("")`, and the receiving side obtains `None`. -/
example :
    let d : ReqDesc := ⟨bs "GET", .none, ⟨[bs "/_synthetic/q"], [], none, none⟩,
      [⟨bs "oq", .query Ty.qOptStr⟩]⟩
    let m : HttpRequest := ⟨bs "GET", bs "https://h/_synthetic/q?oq=", [], []⟩
    tryIntoHttpRequest refForm noJson anyUri d { query := [[[]]] } (bs "https://h") .none [] = .ok m
    ∧ deliver (bs "https://h") (bs "/_synthetic/q") m = some ⟨bs "GET", bs "oq=", [], [], []⟩
    ∧ tryFromHttpRequest refForm noJson d ⟨bs "GET", bs "oq=", [], [], []⟩ = .ok { query := [[]] } := by
  refine ⟨by rfl, by rfl, by rfl⟩

/-! ### Responses -/

/-- The property for responses at full strength (false for the same two reasons as for requests:
G19, and G17's response-side twin — an `Option` header field named `Content-Type` that is `None`). -/
def ResponseRoundtripStatement : Prop :=
  ∀ (J : JsonCodec) (d : RespDesc) (v : RespVal) (r : HttpResponse),
    J.Lawful → d.inModel = true → d.macroAccepts = true → d.supported = true → d.status < 400 →
    v.Canon d →
    tryIntoHttpResponse J d v = .ok r → tryFromHttpResponse J d r = .ok v

/-- For EVERY lawful JSON library, EVERY response description within the model (`hmodel`: header,
body, newtype-body, raw-body fields; `status = ..`; `manual_body_serde`; NO body field with
`#[serde(flatten)]`) that `#[response]` accepts (`hmacro`), that carries a value (`hsup`: distinct
field names, and not `manual_body_serde` without any body field) and has a success status
(`hstatus`), and EVERY value made of wire forms of values: what `try_into_http_response` produces
is read back by `try_from_http_response` as the same value (and so, the encoder being a function,
re-encoding that gives the identical response: status, headers, body bytes — the second conjunct
adds nothing beyond determinism). Excluded, spelled out: two header fields of one name (`hhn`),
header values that are not visible ASCII (`hvis`, **G19**), and an `Option` header field named
`Content-Type` holding `None` (`himp`, the response-side form of **G17**: the builder always sets
`Content-Type: application/json`). -/
theorem response_roundtrip_partial (J : JsonCodec) (d : RespDesc) (v : RespVal) (r : HttpResponse)
    (hJ : J.Lawful) (_hmodel : d.inModel = true) (hmacro : d.macroAccepts = true)
    (hsup : d.supported = true) (hstatus : d.status < 400)
    (hcanon : v.Canon d)
    (hhn : (d.headerFields.map (·.header)).Nodup)
    (hvis : ∀ s, some s ∈ v.header → headerToStrOk s = true)
    (himp : ∀ f, (f, none) ∈ d.headerFields.zip v.header → f.header ≠ contentType)
    (henc : tryIntoHttpResponse J d v = .ok r) :
    tryFromHttpResponse J d r = .ok v
    ∧ ∀ v', tryFromHttpResponse J d r = .ok v' → tryIntoHttpResponse J d v' = .ok r := by
  have h := response_roundtrip' J hJ d v r hmacro hsup hstatus hhn hcanon hvis himp henc
  refine ⟨h, ?_⟩
  intro v' hv'
  rw [h] at hv'
  cases hv'
  exact henc

/-- The error path: a status of 400 or above is never read as a value of the endpoint — it goes to
the endpoint's error type (`FromHttpResponseError::Server`), whatever headers and body it has; and
a status below 400 is never taken for a server error. -/
theorem response_error_path (J : JsonCodec) (d : RespDesc) (r : HttpResponse) :
    (400 ≤ r.status → tryFromHttpResponse J d r = .server)
    ∧ (r.status < 400 → tryFromHttpResponse J d r ≠ .server) := by
  constructor
  · intro h
    unfold tryFromHttpResponse
    simp [Nat.not_lt.2 h]
  · intro h
    unfold tryFromHttpResponse
    simp only [h, if_true]
    cases decodeRespBody J d r.body with
    | methodMismatch => simp
    | deser => simp
    | outside => simp
    | ok p =>
      obtain ⟨b, w⟩ := p
      simp only
      cases decodeRespHeaders r.headers d.headerFields <;> simp

/-- The response-side witness: `Content-Type` as an optional header field holding `None`. -/
theorem response_statement_false : ¬ ResponseRoundtripStatement := by
  intro h
  let d : RespDesc := ⟨200, none, [⟨bs "content_type", .header contentType true Ty.str⟩, ⟨bs "file", .rawBody⟩]⟩
  let v : RespVal := { header := [none], raw := [[7]] }
  have henc : tryIntoHttpResponse noJson d v = .ok ⟨200, [(contentType, applicationJson)], [7]⟩ := by rfl
  have hdec : tryFromHttpResponse noJson d ⟨200, [(contentType, applicationJson)], [7]⟩
      = .ok { header := [some applicationJson], raw := [[7]] } := by rfl
  have := h noJson d v _ noJson_lawful (by decide) (by decide) (by decide) (by decide)
    ⟨⟨rfl, trivial⟩, trivial⟩ henc
  rw [hdec] at this
  have := congrArg (fun o => match o with | FromResp.ok v => v.header | _ => []) this
  simp [v] at this

/-! ### The hypotheses are satisfiable: a description with every kind of field -/

/-- `PUT /_synthetic/v1/all/:a/x/:b?q=..&oq=..&mq=..&mq=..` with two path fields, three query fields,
a mandatory and an optional header, three body fields. -/
def dAll : ReqDesc :=
  ⟨bs "PUT", .accessToken,
   ⟨[bs "/_synthetic/unstable/all/:a/x/:b"], [(1, bs "/_synthetic/v1/all/:a/x/:b")], none, none⟩,
   [⟨bs "a", .path Ty.str⟩, ⟨bs "q", .query Ty.qStr⟩, ⟨bs "lang", .header (bs "content-language") false Ty.str⟩,
    ⟨bs "s", .body Ty.bStr⟩, ⟨bs "b", .path Ty.str⟩, ⟨bs "oq", .query Ty.qOptStr⟩,
    ⟨bs "o", .body Ty.bOptStr⟩, ⟨bs "mq", .query Ty.qVecStr⟩, ⟨bs "h", .header (bs "if-match") true Ty.str⟩,
    ⟨bs "v", .body Ty.bVecStr⟩]⟩

def vAll : ReqVal :=
  { path := [bs "a%41/b", bs "?#+ " ++ [195, 169]], query := [[bs "x&y=z"], [], [bs "", bs "1 2"]],
    header := [some (bs "en, fr"), none],
    body := [some (.str (bs "s\"")), none, some (.arr [.str (bs "1")])] }

/-- The hypotheses of `request_roundtrip_partial` and `glue_no_panic`, discharged for `dAll` / `vAll`
(a fact about one description, not a property theorem). -/
theorem dAll_hypotheses :
    dAll.macroAccepts = true ∧ dAll.testsPass = true ∧ newOk dAll.history = true
    ∧ (∀ p ∈ allPaths dAll.history, ∀ b ∈ p, b = 47 ∨ segmentUnsafe b = false)
    ∧ (∀ p ∈ allPaths dAll.history, p.head? = some 47)
    ∧ (dAll.headerFields.map (·.header)).Nodup ∧ vAll.shapeOk dAll = true
    ∧ vAll.Canon dAll ∧ vAll.Text refForm dAll
    ∧ (∀ s, some s ∈ vAll.header → headerToStrOk s = true)
    ∧ (∀ f, (f, none) ∈ dAll.headerFields.zip vAll.header →
        f.header ∉ implicitHeaders dAll (.ifRequired (bs "tok"))) := by
  refine ⟨by decide, by decide, by decide, by decide +kernel, by decide, by decide, by decide, ?_, ?_, ?_, ?_⟩
  · exact ⟨⟨rfl, rfl, trivial⟩, ⟨rfl, rfl, rfl, trivial⟩, trivial, ⟨rfl, rfl, trivial⟩,
      ⟨rfl, rfl, rfl, trivial⟩, trivial⟩
  · constructor
    · intro a ha
      simp only [vAll, List.mem_cons, List.mem_nil_iff, or_false] at ha
      rcases ha with rfl | rfl <;> (intro b hb; revert b; decide)
    · show ∀ f ∈ [(bs "q", Ty.qStr), (bs "oq", Ty.qOptStr), (bs "mq", Ty.qVecStr)], utf8Valid f.1 = true
      intro f hf
      simp only [List.mem_cons, List.mem_nil_iff, or_false] at hf
      rcases hf with rfl | rfl | rfl <;> decide
    · show ∀ vs ∈ [[bs "x&y=z"], [], [bs "", bs "1 2"]], ∀ s ∈ vs, utf8Valid s = true
      decide
    · intro ps hps; cases hps
  · intro s hs
    simp only [vAll, List.mem_cons, Option.some.injEq, reduceCtorEq, List.mem_nil_iff, or_false] at hs
    subst hs
    decide
  · intro f hf
    have : f.header = bs "if-match" := by
      simp only [dAll, vAll, ReqDesc.headerFields, List.filterMap, ReqField.asHeader, List.zip,
        List.zipWith, List.mem_cons, Prod.mk.injEq, reduceCtorEq, and_false, false_or,
        List.mem_nil_iff, or_false, and_true] at hf
      rw [hf]
    rw [this]
    decide

/-- A non-trivial lawful JSON library exists: C01's canonical encoder (refusing what is not
canonical) with the decoder of the canonical grammar — lawful by `Props/C01.decode_encode`. -/
theorem canon_json_lawful : canonJson.Lawful := canonJson_lawful

/-- What `try_into_http_request` writes for `vAll` through that JSON library. -/
def mAll : HttpRequest :=
  ⟨bs "PUT", bs "https://h/_synthetic/v1/all/a%2541%2Fb/x/%3F%23+%20%C3%A9?q=x%26y%3Dz&mq=&mq=1+2",
   [(contentType, applicationJson), (bs "content-language", bs "en, fr"), (authorization, bs "Bearer tok")],
   bs "{\"s\":\"s\\\"\",\"v\":[\"1\"]}"⟩

/-- ALL hypotheses of `request_roundtrip_partial` at once, on a description with every kind of
field and a JSON body: the form library `refForm` (lawful), the JSON library `canonJson` (lawful),
`dAll`, `vAll`, and `henc` — the encoder does produce a message, `mAll`, computed by the kernel —,
and hence the theorem's conclusion for them. -/
example :
    tryIntoHttpRequest refForm canonJson anyUri dAll vAll (bs "https://h") (.ifRequired (bs "tok")) [3]
      = .ok mAll
    ∧ ∃ tmpl a, selectPath dAll.history [3] = .ok tmpl ∧ deliver (bs "https://h") tmpl mAll = some a
        ∧ tryFromHttpRequest refForm canonJson dAll a = .ok vAll := by
  have henc : tryIntoHttpRequest refForm canonJson anyUri dAll vAll (bs "https://h")
      (.ifRequired (bs "tok")) [3] = .ok mAll := by decide +kernel
  obtain ⟨hm, ht, hn, hsafe, _, hhn, _, hcanon, htext, hvis, himp⟩ := dAll_hypotheses
  obtain ⟨tmpl, a, h1, h2, h3, _⟩ :=
    request_roundtrip_partial refForm canonJson anyUri dAll vAll (bs "https://h") (.ifRequired (bs "tok"))
      [3] mAll refForm_lawful canon_json_lawful hn hsafe (by decide) hm ht hcanon htext hhn hvis himp henc
  exact ⟨henc, tmpl, a, h1, h2, h3⟩

/-- The same kinds of values through an endpoint without a JSON body, computed: the message the
sender writes, what arrives after routing, what the receiver reads. -/
example :
    let d : ReqDesc := ⟨bs "POST", .accessTokenOptional,
      ⟨[bs "/_synthetic/unstable/raw/:name/upload"], [], none, none⟩,
      [⟨bs "name", .path Ty.str⟩, ⟨bs "q", .query Ty.qStr⟩, ⟨bs "mq", .query Ty.qVecStr⟩,
       ⟨bs "content_type", .header contentType false Ty.str⟩, ⟨bs "file", .rawBody⟩]⟩
    let v : ReqVal := { path := [bs "a%41/b ?"], query := [[bs "x&y=z"], [bs "", bs "1 2"]],
                        header := [some (bs "image/png")], raw := [[0, 255]] }
    let m : HttpRequest := ⟨bs "POST",
      bs "https://h/_synthetic/unstable/raw/a%2541%2Fb%20%3F/upload?q=x%26y%3Dz&mq=&mq=1+2",
      [(contentType, bs "image/png"), (authorization, bs "Bearer tok")], [0, 255]⟩
    tryIntoHttpRequest refForm noJson anyUri d v (bs "https://h/") (.ifRequired (bs "tok")) [3] = .ok m
    ∧ deliver (bs "https://h/") (bs "/_synthetic/unstable/raw/:name/upload") m
        = some ⟨bs "POST", bs "q=x%26y%3Dz&mq=&mq=1+2", m.headers, [0, 255], [bs "a%41/b ?"]⟩
    ∧ (match tryFromHttpRequest refForm noJson d
          ⟨bs "POST", bs "q=x%26y%3Dz&mq=&mq=1+2", m.headers, [0, 255], [bs "a%41/b ?"]⟩ with
       | .ok v' => (v'.path, v'.query, v'.queryAll, v'.header, v'.raw, v'.body.length, v'.newtype.length)
                    == (v.path, v.query, v.queryAll, v.header, v.raw, 0, 0)
       | _ => false) = true := by
  refine ⟨by decide +kernel, by decide +kernel, by decide +kernel⟩

/-- A response description with every kind of field, and a value. -/
example :
    let d : RespDesc := ⟨201, none, [⟨bs "etag", .header (bs "etag") true Ty.str⟩, ⟨bs "s", .body Ty.bStr⟩,
      ⟨bs "loc", .header (bs "location") false Ty.str⟩, ⟨bs "o", .body Ty.bOptStr⟩]⟩
    let v : RespVal := { header := [none, some (bs "/x")], body := [some (.str (bs "s")), none] }
    d.macroAccepts = true ∧ d.supported = true ∧ d.status < 400 ∧ v.Canon d ∧ v.shapeOk d = true
    ∧ (d.headerFields.map (·.header)).Nodup := by
  refine ⟨by decide, by decide, by decide, ⟨⟨rfl, rfl, trivial⟩, ⟨rfl, rfl, trivial⟩⟩, by decide, by decide⟩

/-! ### The synthetic endpoints of the differential check satisfy the hypotheses -/

/-- T1 for the harness' OWN seven endpoints `glue::g_*` (not ruma's — those are
`real_endpoints_under_model` below): every request and response description the harness extracted
from the stringified input of the real `#[request]` / `#[response]` macros is within the model, one the macro accepts, passes
the generated tests, has a history `VersionHistory::new` accepts with URI-safe paths starting in
`/`, and distinct header names — so `request_roundtrip_partial`, `response_roundtrip_partial` and
`glue_no_panic` apply to each of them. -/
theorem generated_glue_descriptors_accepted :
    Generated.C16.glueReq.all (fun d =>
      d.inModel && d.macroAccepts && d.testsPass && newOk d.history
      && (allPaths d.history).all (fun p => p.head? == some 47 && p.all (fun b => b == 47 || !segmentUnsafe b))
      && decide (d.headerFields.map (·.header)).Nodup) = true
    ∧ Generated.C16.glueResp.all (fun d =>
      d.inModel && d.macroAccepts && d.supported && decide (d.status < 400)
      && decide (d.headerFields.map (·.header)).Nodup) = true := by
  constructor <;> decide +kernel

/-! ### The real endpoints

`Generated.C16.realReq` / `realResp`: one entry per endpoint module of the five API crates, in the
order of `Generated.C16.endpoints`; `some d` — the description read from the source text of the
`#[request]` / `#[response]` struct (field order, `#[ruma_api(..)]` kind, header constant,
`Option`-ness, serde name, `flatten`; method, authentication and history from the `METADATA`
constant), with the identity codecs —, or `none` when the endpoint has no macro-generated
conversions or the parser does not understand its definition (`Generated.C16.realOutside`; nothing
is claimed for those). None of the predicates decided below looks at a codec
(`real_endpoint_codecs_irrelevant`). -/

/-- Every real endpoint with a description: `#[request]` / `#[response]` accept it
(`macroAccepts`), the generated `#[test]`s pass (`testsPass`: path fields are the placeholders in
order, no body on `GET`, distinct names), its history is one `VersionHistory::new` accepts with
paths made of `/` and URI-safe bytes, no two header fields share a header name (`hhn`), the
response carries a value and has a success status — i.e. the hypotheses `hmacro`, `htests`, `hnew`,
`hsafe`/`hslash`, `hhn`, `hsup`, `hstatus` of `request_roundtrip_partial`,
`response_roundtrip_partial` and `glue_no_panic` hold for each of them, for whatever codecs their
field types have. (`hmodel` is `real_flatten_endpoints`, `himp` is `real_g17_endpoints`.) -/
theorem real_endpoints_under_model :
    (Generated.C16.realReq.filterMap id).all (fun d =>
      d.macroAccepts && d.testsPass && newOk d.history
      && (allPaths d.history).all (fun p => p.head? == some 47 && p.all (fun b => b == 47 || !segmentUnsafe b))
      && decide (d.headerFields.map (·.header)).Nodup) = true
    ∧ (Generated.C16.realResp.filterMap id).all (fun d =>
      d.macroAccepts && d.supported && decide (d.status < 400)
      && decide (d.headerFields.map (·.header)).Nodup) = true := by
  constructor <;> decide +kernel

/-- The position of every entry of a list satisfying `p`. -/
def indicesWhere {α} (p : α → Bool) (l : List α) : List Nat :=
  (l.zipIdx.filter (fun x => p x.1)).map (·.2)

/-- Which real endpoints are outside the model: those without a description are exactly
`Generated.C16.realOutside`, and those whose request or response has a flattened body field
(`inModel = false`) are exactly `Generated.C16.realFlatten` — for all others `hmodel` holds. -/
theorem real_flatten_endpoints :
    Generated.C16.realReq.length = Generated.C16.realResp.length
    ∧ indicesWhere (fun d : Option ReqDesc => d.isNone) Generated.C16.realReq = Generated.C16.realOutside
    ∧ indicesWhere (fun d : Option RespDesc => d.isNone) Generated.C16.realResp = Generated.C16.realOutside
    ∧ indicesWhere (fun x : Option ReqDesc × Option RespDesc =>
          x.1.any (fun d => !d.inModel) || x.2.any (fun d => !d.inModel))
        (Generated.C16.realReq.zip Generated.C16.realResp) = Generated.C16.realFlatten := by
  refine ⟨by decide +kernel, by decide +kernel, by decide +kernel, by decide +kernel⟩

/-- Which real endpoints have the shape of finding G17 — an `Option` header field whose header the
generated code sets by itself: exactly the requests listed in `Generated.C16.realReqG17` and the
responses listed in `Generated.C16.realRespG17` (the call sites `findings/C16.json` names). -/
theorem real_g17_endpoints :
    indicesWhere (fun d : Option ReqDesc => d.any (fun d => !d.g17Fields.isEmpty)) Generated.C16.realReq
      = Generated.C16.realReqG17
    ∧ indicesWhere (fun d : Option RespDesc => d.any (fun d => !d.g17Fields.isEmpty)) Generated.C16.realResp
      = Generated.C16.realRespG17 := by
  constructor <;> decide +kernel

/-- …and for every description WITHOUT that shape (any codecs, any value made of wire forms of
values, any token) the exclusion `himp` of `request_roundtrip_partial` /
`response_roundtrip_partial` is met: finding G17 concerns the listed endpoints only. -/
theorem g17_free_himp (d : ReqDesc) (v : ReqVal) (sat : SendAccessToken) (p : RespDesc) (w : RespVal) :
    (d.g17Fields = [] → v.Canon d →
      ∀ f, (f, none) ∈ d.headerFields.zip v.header → f.header ∉ implicitHeaders d sat)
    ∧ (p.g17Fields = [] → w.Canon p →
      ∀ f, (f, none) ∈ p.headerFields.zip w.header → f.header ≠ contentType) :=
  ⟨g17_free_himp' d v sat, respG17_free_himp' p w⟩

/-- None of these predicates looks at a codec: they are functions of the ERASED description (every
codec replaced by the one that rejects everything — what is left is what the macro sees). So a
description `d` of a real endpoint with the true codecs of its field types, whatever they are,
satisfies `macroAccepts`, `testsPass`, `inModel`, the header-name `Nodup` and has the G17 shape
exactly when the extracted description `g` with the identity codecs does (`d.erase = g.erase`:
same method, authentication, history, and field by field the same name, kind, header constant and
`Option`-ness). The same for response descriptions (`macroAccepts`, `supported`, `inModel`, the
G17 shape, header names, status). -/
theorem real_endpoint_codecs_irrelevant :
    (∀ d g : ReqDesc, d.erase = g.erase →
      d.macroAccepts = g.macroAccepts ∧ d.testsPass = g.testsPass ∧ d.inModel = g.inModel
      ∧ d.g17Fields = g.g17Fields
      ∧ d.headerFields.map (·.header) = g.headerFields.map (·.header) ∧ d.history = g.history)
    ∧ (∀ d g : RespDesc, d.erase = g.erase →
      d.macroAccepts = g.macroAccepts ∧ d.supported = g.supported ∧ d.inModel = g.inModel
      ∧ d.g17Fields = g.g17Fields
      ∧ d.headerFields.map (·.header) = g.headerFields.map (·.header) ∧ d.status = g.status) := by
  constructor
  · intro d g h
    obtain ⟨a1, a2, a3, a4, a5, a6⟩ := erase_invariant d
    obtain ⟨b1, b2, b3, b4, b5, b6⟩ := erase_invariant g
    rw [h] at a1 a2 a3 a4 a5 a6
    exact ⟨a1.trans b1.symm, a2.trans b2.symm, a3.trans b3.symm, a4.trans b4.symm, a5.trans b5.symm,
      a6.trans b6.symm⟩
  · intro d g h
    obtain ⟨a1, a2, a3, a4, a5, a6⟩ := resp_erase_invariant d
    obtain ⟨b1, b2, b3, b4, b5, b6⟩ := resp_erase_invariant g
    rw [h] at a1 a2 a3 a4 a5 a6
    exact ⟨a1.trans b1.symm, a2.trans b2.symm, a3.trans b3.symm, a4.trans b4.symm, a5.trans b5.symm,
      a6.trans b6.symm⟩

#print axioms generated_histories_valid
#print axioms selectPath_spec
#print axioms spec_select_is_the_rule
#print axioms selectPath_eq_spec_select
#print axioms selectPath_removed_version
#print axioms stable_decision_has_path
#print axioms selectPath_no_panic
#print axioms percent_roundtrip_iff
#print axioms path_args_roundtrip
#print axioms substPath_no_panic
#print axioms makeEndpointUrl_shape
#print axioms makeEndpointUrl_no_panic
#print axioms url_no_stray_delims
#print axioms authorization_header_table
#print axioms bearer_header
#print axioms xmatrix_roundtrip
#print axioms query_roundtrip_all_bytes
#print axioms form_codec_lawful
#print axioms request_roundtrip_partial
#print axioms glue_no_panic
#print axioms method_rule
#print axioms empty_body_is_empty_object
#print axioms g17_witness
#print axioms g19_witness
#print axioms request_statement_false
#print axioms query_field_types_partial
#print axioms g18_witness
#print axioms response_roundtrip_partial
#print axioms response_error_path
#print axioms response_statement_false

#print axioms generated_glue_descriptors_accepted
#print axioms canon_json_lawful
#print axioms real_endpoints_under_model
#print axioms real_flatten_endpoints
#print axioms real_g17_endpoints
#print axioms g17_free_himp
#print axioms real_endpoint_codecs_irrelevant

end Ruma.Props.C16
