/-
  C16 — Endpoint requests and responses survive the HTTP wire format unchanged; path selection
  follows the version history.
  Property theorems only; helper lemmas live in `Lemmas/Endpoint*.lean`.

  Reading guide. `VersionHistory`, `newOk` (= `VersionHistory::new` does not panic), `selectPath`,
  `makeEndpointUrl`, `substPath`, `authorizationHeader`, `xmatrixFormat`/`xmatrixParse` are the
  model of the code (`Model/Endpoint.lean`); `Selects`/`select`, `authExpect`, `percentDecode`,
  `segmentUnsafe` are the specification (`Spec/Endpoint.lean`); `routeArgs` is what a receiving
  server does with a request path. `Generated.C16.histories` are the version histories of every
  endpoint constant of the five API crates, re-extracted from the running code on every check.

  What is NOT proven here: the macro-generated `try_into_http_request` / `try_from_http_request`
  / response glue (query strings, headers, bodies). That part of the property is covered by
  round-trip oracles on the real code only (see `props/C16.json`).
-/
import RumaModel.Lemmas.Endpoint
import RumaModel.Lemmas.EndpointUrl
import RumaModel.Lemmas.EndpointXMatrix
import RumaModel.Lemmas.EndpointNoPanic
import RumaModel.Generated.C16
namespace Ruma.Props.C16
open Ruma Ruma.Endpoint Ruma.Spec.Endpoint

/-! ## Path selection -/

/-- T1: every extracted history satisfies the invariants `VersionHistory::new` enforces, mentions
only the 15 known versions, and all its paths start with `/` and consist of `/` and bytes that
are safe inside a URI path segment. -/
theorem generated_histories_valid :
    Generated.C16.histories.all (fun h =>
      newOk h
      && h.stable.all (fun e => decide (e.1 < 15))
      && (h.unstable ++ h.stable.map (·.2)).all (fun p =>
            p.head? == some 47 && p.all (fun b => b == 47 || !segmentUnsafe b))) = true := by
  decide +kernel

/-- For EVERY history accepted by `VersionHistory::new` and EVERY list of supported versions
(any order, duplicates, empty): `select_path` does not panic and its result is the one the rule
prescribes — `EndpointRemoved` iff a removal version is set and every supported version is at or
past it; otherwise the path of the greatest stable entry that some supported version offers;
otherwise the last unstable path, or `NoUnstablePath` when there is none. -/
theorem selectPath_spec (h : VersionHistory) (vs : List Version) (hnew : newOk h = true) :
    ∃ s, (selectPath h vs).toSelection? = some s ∧ Selects (toSpec h) vs s :=
  selectPath_spec' h vs (newOk_inv h hnew)

/-- The declarative rule determines its result (stable versions are distinct), and the executable
form of the rule that answers the check's `c16.spec.*` requests computes it. -/
theorem spec_select_is_the_rule (h : History) (vs : List Version) :
    Selects h vs (select h vs) ∧
    (h.stable.Pairwise (fun a b => a.1 ≠ b.1) → ∀ s, Selects h vs s → s = select h vs) :=
  ⟨select_selects h vs, fun hd s hs => selects_unique h vs hd s _ hs (select_selects h vs)⟩

/-- Hence model and executable rule agree on every valid history and every version list. -/
theorem selectPath_eq_spec_select (h : VersionHistory) (vs : List Version)
    (hnew : newOk h = true) : (selectPath h vs).toSelection? = some (select (toSpec h) vs) :=
  selectPath_eq_select' h vs (newOk_inv h hnew)

/-- A reported removal names the history's removal version. -/
theorem selectPath_removed_version (h : VersionHistory) (vs : List Version) (r : Version)
    (hr : selectPath h vs = .errRemoved r) : h.removed = some r := by
  unfold selectPath at hr
  split at hr
  · split at hr
    · rename_i r' hr'; cases hr; exact hr'
    · cases hr
  · split at hr
    · cases hr
    · split at hr <;> cases hr
  · split at hr <;> cases hr

/-- `expect("VersioningDecision::Stable implies that a stable path exists")` cannot fire: for any
history at all, a `Stable` decision comes with a path from `stable_endpoint_for`. -/
theorem stable_decision_has_path (h : VersionHistory) (vs : List Version) (a b c : Bool)
    (hd : versioningDecision h vs = .stable a b c) : ∃ p, stableEndpointFor h vs = some p :=
  stable_decision_has_path' h vs a b c hd

/-- None of the three panic sites of `select_path` (`expect` on `removed`, the `unreachable!`,
`expect` on the stable path) is reachable for a history `VersionHistory::new` accepted. -/
theorem selectPath_no_panic (h : VersionHistory) (vs : List Version) (hnew : newOk h = true) :
    selectPath h vs ≠ .panic := by
  obtain ⟨s, hs, _⟩ := selectPath_spec h vs hnew
  intro hp
  rw [hp] at hs
  cases hs

/-- The hypotheses are satisfiable on a non-trivial history (two unstable paths, three stable
ones, deprecated and removed), and the rule picks what one expects. -/
example :
    let h : VersionHistory :=
      ⟨[bs "/u1/:a", bs "/u2/:a"], [(1, bs "/v1/:a"), (4, bs "/v2/:a"), (9, bs "/v3/:a")], some 11, some 12⟩
    newOk h = true
    ∧ selectPath h [0] = .ok (bs "/u2/:a")
    ∧ selectPath h [0, 5] = .ok (bs "/v2/:a")
    ∧ selectPath h [3, 2, 3] = .ok (bs "/v1/:a")
    ∧ selectPath h [13, 3, 3] = .ok (bs "/v3/:a")
    ∧ selectPath h [14, 12] = .errRemoved 12
    ∧ selectPath h [] = .errRemoved 12
    ∧ selectPath ⟨[], [(3, bs "/v")], none, none⟩ [1] = .errNoUnstable := by decide

/-- Reading recorded in DESIGN.md: "a supported version offers a path" is `v ≥ path.version`, as
the code documents. Under the stricter reading (`… ∧ v < removed`) this selection would be wrong:
the versions {1.1, 1.5} select the stable path although 1.1 predates it and 1.5 has removed it.
Kept as a witness, not claimed as a defect. -/
example :
    let h : VersionHistory := ⟨[bs "/u"], [(2, bs "/s")], some 3, some 4⟩
    newOk h = true ∧ selectPath h [1, 5] = .ok (bs "/s") := by decide

/-! ## Path arguments on the wire -/

/-- Percent-decoding is a left inverse of percent-encoding with a set that leaves the hex digits
alone **iff** the set contains `%` — which is why `PATH_PERCENT_ENCODE_SET` must contain it (F8). -/
theorem percent_roundtrip_iff (set : Nat → Bool) (hhex : ∀ d, isHexDigit d = true → set d = false) :
    (∀ s, IsBytes s → percentDecode (percentEncode set s) = s) ↔ set 37 = true :=
  percent_roundtrip_iff' set hhex

/-- The set the code uses qualifies, the pre-fix set does not; the concrete F8 witness on the
model: `a%41` was sent verbatim and decoded to `aA`. -/
example : (∀ d, isHexDigit d = true → pathSet d = false) ∧ pathSet 37 = true
    ∧ pathSetNoPercent 37 = false
    ∧ percentDecode (percentEncode pathSetNoPercent (bs "a%41")) = bs "aA"
    ∧ percentDecode (percentEncode pathSet (bs "a%41")) = bs "a%41" := by
  refine ⟨?_, by decide, by decide, by decide, by decide⟩
  intro d hd
  have : d < 128 := by
    unfold isHexDigit at hd
    simp only [Bool.or_eq_true, Bool.and_eq_true, decide_eq_true_eq] at hd
    omega
  revert hd
  revert d
  decide

/-- For every path template, and every list of argument strings (arbitrary bytes: any Unicode,
`/ % ? # + & =`, spaces, empty) with one argument per placeholder: if `make_endpoint_url`'s
substitution produces the path `p`, then a server that splits `p` on `/` and percent-decodes the
placeholder segments gets back exactly the arguments, and `p` has as many segments as the
template. -/
theorem path_args_roundtrip (tmpl : Str) (args : List Str) (p : Str)
    (hargs : ∀ a ∈ args, IsBytes a) (hlen : args.length = (pathArgNames tmpl).length)
    (h : substPath tmpl args = some p) :
    routeArgs tmpl p = some args ∧ (splitOn 47 p).length = (splitOn 47 tmpl).length :=
  path_args_roundtrip' tmpl args p hargs hlen h

/-- …and the substitution does produce a path (neither the `assert!` on the leading `/` nor the
`expect` on the argument count fires) whenever the template starts with `/` and there are at
least as many arguments as placeholders. -/
theorem substPath_no_panic (tmpl : Str) (args : List Str) (hslash : tmpl.head? = some 47)
    (hlen : (pathArgNames tmpl).length ≤ args.length) : ∃ p, substPath tmpl args = some p :=
  substPath_some tmpl args hslash hlen

/-- `make_endpoint_url` is: selected path, arguments substituted, after the base URL without its
trailing slash, then `?query` unless the query is empty. -/
theorem makeEndpointUrl_shape (h : VersionHistory) (vs : List Version) (base query : Str)
    (args : List Str) (url : Str) :
    makeEndpointUrl h vs base args query = .ok url ↔
      ∃ tmpl p, selectPath h vs = .ok tmpl ∧ substPath tmpl args = some p ∧
        url = stripSlashSuffix base ++ p ++ (if query = [] then [] else 63 :: query) := by
  unfold makeEndpointUrl
  cases hsel : selectPath h vs with
  | ok tmpl =>
    simp only
    cases hp : substPath tmpl args with
    | none =>
      simp only [reduceCtorEq, false_iff]
      rintro ⟨tmpl', p, ht, hp', _⟩
      cases ht
      rw [hp] at hp'; cases hp'
    | some p =>
      simp only [Out.ok.injEq]
      constructor
      · intro hu; exact ⟨tmpl, p, rfl, hp, hu.symm⟩
      · rintro ⟨tmpl', p', ht, hp', hu⟩
        cases ht
        rw [hp] at hp'; cases hp'
        exact hu.symm
  | errRemoved v => simp
  | errNoUnstable => simp
  | panic => simp

/-- `make_endpoint_url` as a whole has no reachable panic site (the three of `select_path`, the
`assert!` on the leading `/`, the `expect` on the argument count) for a history
`VersionHistory::new` accepted whose paths all start with `/` — which `generated_histories_valid`
establishes for every endpoint constant — when at least as many arguments as placeholders are
supplied (the macros pass one per path field; the generated `path_parameters` tests pin the
count). -/
theorem makeEndpointUrl_no_panic (h : VersionHistory) (vs : List Version) (base query : Str)
    (args : List Str) (hnew : newOk h = true)
    (hslash : ∀ p ∈ allPaths h, p.head? = some 47)
    (hlen : ∀ r, refPath h = some r → (pathArgNames r).length ≤ args.length) :
    makeEndpointUrl h vs base args query ≠ .panic :=
  makeEndpointUrl_no_panic' h vs base query args hnew hslash hlen

example : substPath (bs "/r/:room_id/e/:event_id") [bs "!a%41/b:x", bs "$?#+ " ++ [195, 169]]
      = some (bs "/r/!a%2541%2Fb:x/e/$%3F%23+%20%C3%A9")
    ∧ routeArgs (bs "/r/:room_id/e/:event_id") (bs "/r/!a%2541%2Fb:x/e/$%3F%23+%20%C3%A9")
      = some [bs "!a%41/b:x", bs "$?#+ " ++ [195, 169]] := by
  constructor <;> decide +kernel

/-- The produced path contains no stray delimiter: if the template consists of `/` and bytes that
are safe in a URI path segment, so does the path with the arguments filled in — no raw `?`, `#`,
space, control or non-ASCII byte, and no `/` beyond the template's. -/
theorem url_no_stray_delims (tmpl : Str) (args : List Str) (p : Str)
    (htmpl : ∀ b ∈ tmpl, b = 47 ∨ segmentUnsafe b = false) (hargs : ∀ a ∈ args, IsBytes a)
    (h : substPath tmpl args = some p) :
    (∀ b ∈ p, b = 47 ∨ segmentUnsafe b = false)
    ∧ (args.length = (pathArgNames tmpl).length → (splitOn 47 p).length = (splitOn 47 tmpl).length) :=
  ⟨url_no_stray_delims' tmpl args p htmpl hargs h,
   fun hlen => (path_args_roundtrip' tmpl args p hargs hlen h).2⟩

/-! ## Authorization header -/

/-- What a `SendAccessToken` offers. -/
def kindOf : SendAccessToken → TokenKind
  | .ifRequired _ => .ifRequired
  | .always _ => .always
  | .appservice _ => .appservice
  | .none => .none

def tokenOf : SendAccessToken → Str
  | .ifRequired t | .always t | .appservice t => t
  | .none => []

/-- For each of the 6 authentication schemes × 4 `SendAccessToken` kinds, `authorization_header`
does what the specification table says: the bearer header built from the caller's token, no
header, or the `NeedsAuthentication` error. -/
theorem authorization_header_table (s : AuthScheme) (sat : SendAccessToken) :
    authorizationHeader s sat =
      match authExpect s (kindOf sat) with
      | .bearer => bearer (tokenOf sat)
      | .noHeader => .noHeader
      | .needsAuth => .errNeedsAuth := by
  cases s <;> cases sat <;> rfl

/-- The bearer header is `Authorization: Bearer <token>`, produced exactly when the token consists
of bytes an HTTP header value may hold (otherwise the conversion to `HeaderValue` fails). -/
theorem bearer_header (t : Str) :
    bearer t = if headerValueOk t then .header (bs "Bearer " ++ t) else .errHeaderValue := by
  unfold bearer
  have : headerValueOk (bs "Bearer " ++ t) = headerValueOk t := by
    unfold headerValueOk
    rw [List.all_append]
    have : (bs "Bearer ").all (fun b => (decide (32 ≤ b) && b != 127) || b == 9) = true := by decide
    rw [this, Bool.true_and]
  simp only [this]

/-- The table itself, cell by cell (scheme order: None, AccessToken, AccessTokenOptional,
AppserviceToken, AppserviceTokenOptional, ServerSignatures; columns IfRequired, Always,
Appservice, None). -/
example :
    ([AuthScheme.none, .accessToken, .accessTokenOptional, .appserviceToken,
      .appserviceTokenOptional, .serverSignatures].map fun s =>
      [TokenKind.ifRequired, .always, .appservice, .none].map (authExpect s))
    = [[.noHeader, .bearer, .noHeader, .noHeader],
       [.bearer, .bearer, .bearer, .needsAuth],
       [.bearer, .bearer, .bearer, .noHeader],
       [.needsAuth, .bearer, .bearer, .needsAuth],
       [.noHeader, .bearer, .bearer, .noHeader],
       [.noHeader, .noHeader, .noHeader, .noHeader]] := by decide

/-! ## X-Matrix -/

/-- Formatting an `X-Matrix` value and parsing the text gives back the same origin, destination
(present or absent), key and signature — for all field strings made of bytes that may stand in a
quoted string (tab, space, visible ASCII; server names, key IDs and unpadded base64 are such
strings), including strings that need quoting and escaping (`"`, `\`, `:`, `/`, `,`, `=`, empty). -/
theorem xmatrix_roundtrip (x : XMatrix) (ho : x.origin.all isQuotable = true)
    (hd : ∀ d, x.destination = some d → d.all isQuotable = true)
    (hk : x.key.all isQuotable = true) (hs : x.sig.all isQuotable = true) :
    xmatrixParse (xmatrixFormat x) = some x :=
  xmatrix_roundtrip' x ho hd hk hs

example :
    xmatrixFormat ⟨bs "origin.hs.example.com", some (bs "[::1]:8448"), bs "ed25519:key1", bs "ABC/+"⟩
      = bs "X-Matrix destination=\"[::1]:8448\",key=\"ed25519:key1\",origin=origin.hs.example.com,sig=\"ABC/+\""
    ∧ xmatrixParse (bs "X-Matrix sig=\"a\\\"b\",ORIGIN=o.example,key=\"ed25519:1\"")
      = some ⟨bs "o.example", none, bs "ed25519:1", bs "a\"b"⟩ := by
  constructor <;> decide

#print axioms generated_histories_valid
#print axioms selectPath_spec
#print axioms spec_select_is_the_rule
#print axioms selectPath_eq_spec_select
#print axioms selectPath_removed_version
#print axioms stable_decision_has_path
#print axioms selectPath_no_panic
#print axioms percent_roundtrip_iff
#print axioms path_args_roundtrip
#print axioms substPath_no_panic
#print axioms makeEndpointUrl_shape
#print axioms makeEndpointUrl_no_panic
#print axioms url_no_stray_delims
#print axioms authorization_header_table
#print axioms bearer_header
#print axioms xmatrix_roundtrip

end Ruma.Props.C16
