/-
  C11 — Matrix URIs round-trip through text and parsing them never panics.
  Property theorems only; helper lemmas live in `Lemmas/MatrixUri*.lean`.

  Reading guide. `Model/MatrixUri.lean` models `matrix_uri.rs` and `percent_encode.rs` on bytes:
  `percentEncode set`, `percentDecode`, `parseWithSigil`, `parseWithType`, `toStringWithSigil`,
  `toStringWithType`, `parseTo`/`formatTo` (`MatrixToUri::parse` / `Display`), `parseUri`/`formatUri`
  (`MatrixUri::parse` / `Display`). `Res` has the outcomes `ok`, `err`, `panic`.
  Parameters: `V : Validators` (the identifier parsers; the theorems hold for *every* `V`) and
  `U : UrlParser` (`url::Url::parse`; assumptions `UrlKeepsSafeText`, `UrlReturnsBytes` from
  `Spec/MatrixUri.lean`, both proven for the reference `urlParseRef` that the check compares with the
  real `Url::parse` on every run). `ToUriOk V u` / `UriOk V u` (`Spec/MatrixUri.lean`) say that a
  value is one the library's types can hold: identifiers accepted by `V`, carrying their sigil,
  valid UTF-8; servers accepted by `V.server`; a custom action is not `join`/`chat`.
-/
import RumaModel.Lemmas.MatrixUriUrl
namespace Ruma.Props.C11
open Ruma Ruma.MatrixUri Ruma.Spec.MatrixUri

/-! ## Percent-coding -/

/-- For an arbitrary encode set: decoding inverts encoding on every byte string **iff** `%` is in
the set or every hex digit is in the set. (With `%` left bare and some hex digit left bare,
`%` + that digit twice is a counterexample; if all hex digits are always escaped, a bare `%` can
never be followed by two hex digits.) -/
theorem percent_roundtrip_iff (set : Nat → Bool) :
    (∀ b, Bytes b → percentDecode (percentEncode set b) = b) ↔
      (set 37 = true ∨ ∀ c, (hexVal c).isSome = true → set c = true) := by
  constructor
  · intro h
    cases h37 : set 37 with
    | true => exact Or.inl rfl
    | false =>
      refine Or.inr (fun c hc => ?_)
      cases hs : set c with
      | true => rfl
      | false =>
        obtain ⟨x, hx⟩ := Option.isSome_iff_exists.mp hc
        have hlt := hexVal_lt_128 c x hx
        exact absurd (h [37, c, c] (by intro y hy; simp at hy; rcases hy with rfl | rfl <;> omega))
          (percent_roundtrip_fails set c x hx h37 hs)
  · rintro (h | h)
    · exact percent_roundtrip_of_pct set h
    · exact percent_roundtrip_of_hex set h

/-- The form in DESIGN.md: for every encode set that leaves at least one hex digit unescaped (every
set in use does), decoding inverts encoding **iff `%` is in the set**. -/
theorem percent_roundtrip (set : Nat → Bool) (c : Nat) (hc : (hexVal c).isSome = true)
    (hfree : set c = false) :
    (∀ b, Bytes b → percentDecode (percentEncode set b) = b) ↔ set 37 = true := by
  rw [percent_roundtrip_iff]
  constructor
  · rintro (h | h)
    · exact h
    · rw [h c hc] at hfree; cases hfree
  · exact Or.inl

/-- The repaired `PATH_PERCENT_ENCODE_SET` and the `QUERY_VALUE_PERCENT_ENCODE_SET`: decoding
inverts encoding, unconditionally. -/
theorem percent_roundtrip_path (b : Str) (hb : Bytes b) :
    percentDecode (percentEncode pathSet b) = b :=
  (percent_roundtrip pathSet 65 (by decide) (by decide)).mpr (by decide) b hb

theorem percent_roundtrip_query (b : Str) (hb : Bytes b) :
    percentDecode (percentEncode queryValueSet b) = b :=
  (percent_roundtrip queryValueSet 65 (by decide) (by decide)).mpr (by decide) b hb

/-- Why the set before repair F8 failed: it has no `%`, so by `percent_roundtrip` some byte string
does not survive; `%41` is one (it comes back as `A`). -/
theorem percent_roundtrip_old_set_fails :
    ¬ (∀ b, Bytes b → percentDecode (percentEncode pathSetOld b) = b) ∧
    percentDecode (percentEncode pathSetOld (bs "%41")) = bs "A" := by
  refine ⟨fun h => ?_, by decide⟩
  have := (percent_roundtrip pathSetOld 65 (by decide) (by decide)).mp h
  revert this; decide

/-- An encoded path segment or query value contains no `/`, `?`, `#` and no non-ASCII byte
(nor, for query values, `&`, `+`, `=`): it cannot be mistaken for a delimiter of the URI. -/
theorem encoded_has_no_delims (s : Str) (hs : Bytes s) :
    (∀ c ∈ percentEncode pathSet s, isDelim c = false ∧ c < 128) ∧
    (∀ c ∈ percentEncode queryValueSet s, isDelim c = false ∧ c < 128 ∧ c ≠ 38 ∧ c ≠ 43 ∧ c ≠ 61) := by
  constructor
  · intro c hc
    have := encPath_byte s hs c hc
    have h1 := this.1; have h2 := this.2
    simp [urlSafe] at h1
    simp [isDelim]; omega
  · intro c hc
    have := encQuery_byte s hs c hc
    have h1 := this.1
    simp [urlSafe] at h1
    simp [isDelim]; omega

/-- The model's percent-decoding agrees with RFC 3986's reading of a percent-encoded text. -/
theorem percentDecode_denotes (t b : Str) (h : PctDenotes t b) : percentDecode t = b := by
  induction h with
  | nil => rfl
  | lit c hc _ ih => rw [percentDecode_cons_ne c _ hc, ih]
  | esc h l x y hx hy _ ih => rw [percentDecode_escape h l x y _ hx hy, ih]

/-- What the encoder writes with the repaired sets is a percent-encoding of its input in the sense
of RFC 3986 (no bare `%`). -/
theorem percentEncode_is_rfc3986 (b : Str) (hb : Bytes b) :
    PctDenotes (percentEncode pathSet b) b ∧ PctDenotes (percentEncode queryValueSet b) b :=
  ⟨percentEncode_denotes pathSet (by decide) b hb, percentEncode_denotes queryValueSet (by decide) b hb⟩

/-! ## The `type` table of the `matrix:` scheme -/

/-- The types **read** by `parse_with_type` (the model's `sigilOfType`) are the Matrix spec's table
(`u` ↔ `@`, `r` ↔ `#`, `roomid` ↔ `!`, `e` ↔ `$`), plus the legacy spellings. The write side
(`to_string_with_type`) is `written_types_eq_spec` below. -/
theorem type_table_eq_spec :
    (∀ sg ty, typeOfSigil sg = some ty → sigilOfType ty = some sg) ∧
    sigilOfType (bs "user") = some sigilUser ∧ sigilOfType (bs "room") = some sigilAlias ∧
    sigilOfType (bs "event") = some sigilEvent := by
  refine ⟨?_, by decide, by decide, by decide⟩
  intro sg ty h
  unfold typeOfSigil at h
  repeat' split at h
  all_goals first | (cases h; subst_vars; decide) | cases h

/-- The types **written** by `to_string_with_type` are the Matrix spec's table: for an identifier
carrying its sigil (any rest `t`, `e`), the text is the spec's type for that sigil, `/`, and the
percent-encoded identifier without its sigil; an event is written after its room (`!` or `#`) as
`/` + the spec's type for `$` + `/` + the encoded event id without sigil. -/
theorem written_types_eq_spec (t e : Str) :
    (∃ ty, typeOfSigil sigilUser = some ty ∧
      toStringWithType (.user (sigilUser :: t)) = .ok (ty ++ 47 :: encPath t)) ∧
    (∃ ty, typeOfSigil sigilAlias = some ty ∧
      toStringWithType (.roomAlias (sigilAlias :: t)) = .ok (ty ++ 47 :: encPath t)) ∧
    (∃ ty, typeOfSigil sigilRoomId = some ty ∧
      toStringWithType (.room (sigilRoomId :: t)) = .ok (ty ++ 47 :: encPath t)) ∧
    (∃ ty te, typeOfSigil sigilRoomId = some ty ∧ typeOfSigil sigilEvent = some te ∧
      toStringWithType (.event (sigilRoomId :: t) (sigilEvent :: e)) =
        .ok (ty ++ 47 :: encPath t ++ 47 :: te ++ 47 :: encPath e)) ∧
    (∃ ty te, typeOfSigil sigilAlias = some ty ∧ typeOfSigil sigilEvent = some te ∧
      toStringWithType (.event (sigilAlias :: t) (sigilEvent :: e)) =
        .ok (ty ++ 47 :: encPath t ++ 47 :: te ++ 47 :: encPath e)) := by
  refine ⟨⟨bs "u", by decide, rfl⟩, ⟨bs "r", by decide, rfl⟩, ⟨bs "roomid", by decide, rfl⟩,
    ⟨bs "roomid", bs "e", by decide, by decide, ?_⟩, ⟨bs "r", bs "e", by decide, by decide, ?_⟩⟩
  · simp [toStringWithType, sigilRoomId, bs]
  · simp [toStringWithType, sigilAlias, bs]

/-! ## Round trips -/

/-- `matrix.to`: formatting a well-formed value and parsing the text gives the value back — for
every validator record `V`, every identifier it accepts (any bytes: reserved, `%`, non-ASCII),
any list of via servers. -/
theorem matrixTo_roundtrip (V : Validators) (u : ToUri) (h : ToUriOk V u) :
    parseTo V (formatTo u) = .ok u :=
  parseTo_formatTo V u h

/-- `matrix:`: formatting a well-formed value does not panic, and parsing the text gives the value
back — for every `V`, any via servers, any action; `Url::parse` enters through `UrlKeepsSafeText`. -/
theorem matrixUri_roundtrip (U : UrlParser) (hU : UrlKeepsSafeText U) (V : Validators) (u : Uri)
    (h : UriOk V u) :
    ∃ text, formatUri u = .ok text ∧ parseUri U V text = .ok u :=
  parseUri_formatUri U hU V u h

/-- Parsing never panics: for every byte string, every `V`, every behaviour of `Url::parse`.
Reading note: the model's parse functions have almost no `.panic` arm (the Rust parse paths contain
no index/slice/unwrap site that the model had to render as one; only the dead `splitOn … = []` arm),
so on the model this holds nearly by construction. That the real parsers do not panic on the
generated and mutated texts is checked by the T2/T3 tie (a panic of the real code is a violation). -/
theorem parse_never_panics (U : UrlParser) (V : Validators) (s : Str) :
    parseTo V s ≠ .panic ∧ parseUri U V s ≠ .panic ∧
    parseWithSigil V s ≠ .panic ∧ parseWithType V s ≠ .panic :=
  ⟨parseTo_ne_panic V s, parseUri_ne_panic U V s, parseWithSigil_ne_panic V s,
    parseWithType_ne_panic V s⟩

/-- Formatting a well-formed `matrix:` value never reaches `[1..]` on an empty identifier nor the
`unreachable` in `RoomOrAliasId::variant` (formatting `matrix.to` has no such site). -/
theorem format_never_panics (V : Validators) (u : Uri) (h : UriOk V u) :
    formatUri u ≠ .panic ∧ formatUri u ≠ .err := by
  rw [formatUri_eq V u h.1]
  exact ⟨fun e => (by cases e), fun e => (by cases e)⟩

/-- What a successful parse returns is a well-formed value. -/
theorem parsed_is_wellformed (U : UrlParser) (hUb : UrlReturnsBytes U) (V : Validators) (s : Str)
    (hs : Bytes s) :
    (∀ u, parseTo V s = .ok u → ToUriOk V u) ∧ (∀ u, parseUri U V s = .ok u → UriOk V u) :=
  ⟨fun u h => parseTo_ok V s u hs h, fun u h => parseUri_ok U hUb V s u h⟩

/-- A successfully parsed URI re-formats to text that parses to the same value. -/
theorem parse_format_parse (U : UrlParser) (hU : UrlKeepsSafeText U) (hUb : UrlReturnsBytes U)
    (V : Validators) (s : Str) (hs : Bytes s) :
    (∀ u, parseTo V s = .ok u → parseTo V (formatTo u) = .ok u) ∧
    (∀ u, parseUri U V s = .ok u → ∃ text, formatUri u = .ok text ∧ parseUri U V text = .ok u) :=
  ⟨fun u h => parseTo_format_parse V s u hs h,
    fun u h => parseUri_format_parse U hU hUb V s u h⟩

/-- The two assumptions about `Url::parse` are satisfiable: the executable reference (compared with
the real `Url::parse` on every run, request `c11.url`) meets both. -/
theorem url_assumptions_hold_for_reference :
    UrlKeepsSafeText urlParseRef ∧ UrlReturnsBytes urlParseRef :=
  ⟨urlParseRef_keeps, urlParseRef_bytes⟩

/-! ## The hypotheses are satisfiable on non-trivial inputs -/

/-- Validators that only look at the sigil (any server accepted). -/
def exV : Validators :=
  ⟨fun s => s.head? == some 64, fun s => s.head? == some 33, fun s => s.head? == some 35,
    fun s => s.head? == some 36, fun _ => true⟩

/-- Event `$e/+=` in room alias `#é/?%:h`, two via servers, custom action `a&b=c d`. -/
def exUri : Uri :=
  ⟨.event ([35, 195, 169] ++ bs "/?%:h") (bs "$e/+="), [bs "[::1]:80", bs "h"],
    some (.custom (bs "a&b=c d"))⟩

def exTo : ToUri := ⟨exUri.id, exUri.via⟩

theorem exUri_ok : UriOk exV exUri := by
  have hb : ∀ s : Str, s.all (· < 256) = true → Bytes s :=
    fun s h b hb => by simpa using List.all_eq_true.mp h b hb
  refine ⟨⟨Or.inr ⟨⟨hb _ (by decide), by decide⟩, by decide, by decide⟩,
    ⟨hb _ (by decide), by decide⟩, by decide, by decide⟩, ?_, ?_⟩
  · intro s hs
    simp [exUri] at hs
    rcases hs with rfl | rfl <;> exact ⟨⟨hb _ (by decide), by decide⟩, rfl⟩
  · intro a ha
    simp [exUri] at ha; subst ha
    exact ⟨⟨hb _ (by decide), by decide⟩, by decide, by decide⟩

example : ToUriOk exV exTo := ⟨exUri_ok.1, exUri_ok.2.1⟩

/-- The conclusions on that value, computed: the texts are what `Display` writes. -/
example : formatTo exTo = bs "https://matrix.to/#/%23%C3%A9%2F%3F%25:h/$e%2F+=?via=[::1]:80&via=h" := by
  decide
example : formatUri exUri =
    .ok (bs "matrix:r/%C3%A9%2F%3F%25:h/e/e%2F+=?via=[::1]:80&via=h&action=a%26b%3Dc%20d") := by
  decide
example : parseUri urlParseRef exV
    (bs "matrix:r/%C3%A9%2F%3F%25:h/e/e%2F+=?via=[::1]:80&via=h&action=a%26b%3Dc%20d") = .ok exUri := by
  decide

/-- `parse_format_parse` is not vacuous: a text that parses, with an escaped `&` in the action. -/
example : parseUri urlParseRef exV (bs "matrix:u/a:h?action=a%26b&via=h") =
    .ok ⟨.user (bs "@a:h"), [bs "h"], some (.custom (bs "a&b"))⟩ := by decide
example : parseTo exV (bs "https://matrix.to/#/$e/%23a:h?via=h") =
    .ok ⟨.event (bs "#a:h") (bs "$e"), [bs "h"]⟩ := by decide
/-- The F7 witnesses on the model: an error, not a panic. -/
example : parseTo exV (bs "https://matrix.to/#///$e") = .err := by decide
example : parseTo exV (bs "https://matrix.to/#/!r:x///") = .err := by decide
/-- The F16 witness: the room id `!` round-trips through `matrix:roomid/`. -/
example : formatUri ⟨.room (bs "!"), [], none⟩ = .ok (bs "matrix:roomid/") := by decide
example : parseUri urlParseRef exV (bs "matrix:roomid/") = .ok ⟨.room (bs "!"), [], none⟩ := by decide

#print axioms percent_roundtrip_iff
#print axioms percent_roundtrip
#print axioms percent_roundtrip_path
#print axioms percent_roundtrip_query
#print axioms percent_roundtrip_old_set_fails
#print axioms encoded_has_no_delims
#print axioms percentDecode_denotes
#print axioms percentEncode_is_rfc3986
#print axioms type_table_eq_spec
#print axioms written_types_eq_spec
#print axioms matrixTo_roundtrip
#print axioms matrixUri_roundtrip
#print axioms parse_never_panics
#print axioms format_never_panics
#print axioms parsed_is_wellformed
#print axioms parse_format_parse
#print axioms url_assumptions_hold_for_reference
end Ruma.Props.C11
