/-
  C11 — Matrix URIs round-trip through text and parsing them never panics. (preliminary)
-/
import RumaModel.Lemmas.MatrixUriId
namespace Ruma.Props.C11
open Ruma Ruma.MatrixUri Ruma.Spec.MatrixUri

theorem percent_roundtrip_path (b : Str) (hb : Bytes b) :
    percentDecode (percentEncode pathSet b) = b :=
  percent_roundtrip_of_pct pathSet (by decide) b hb

#print axioms percent_roundtrip_path
end Ruma.Props.C11
