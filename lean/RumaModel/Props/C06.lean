/-
  C06 — State resolution is deterministic and independent of input and hash-map order.
  Property theorems only; helper lemmas live in `Lemmas/StateRes*.lean`.

  Reading guide. Every `HashMap`/`HashSet` of `lib.rs` is a list in the model; wherever the code
  iterates one, the model applies an arbitrary permuting function (`Orders`, `psh`, `GraphPerm`).
  "For all `Orders` that are `Valid`" therefore reads "for all hash-iteration orders".
-/
import RumaModel.Lemmas.StateResTopo
namespace Ruma.Props.C06
open Ruma Ruma.StateRes Ruma.Spec.StateResV2

/-- **extractMin_perm.** Popping a binary heap whose order is a strict total order: the popped
element, and the remaining heap up to storage order, do not depend on the order in which the
elements are stored. -/
theorem extractMin_perm {lt : α → α → Bool} (h : StrictTotal lt) {l l' : List α}
    (hp : l.Perm l') {m : α} {rest : List α} (hpop : popMin lt l = some (m, rest)) :
    ∃ rest', popMin lt l' = some (m, rest') ∧ rest.Perm rest' :=
  popMin_perm_invariant h hp hpop

/-- The code's `TieBreaker` order (power desc, ts asc, id asc) is a strict total order, so the
hypothesis of `extractMin_perm` holds for the heap of the sort. -/
theorem tieBreaker_strictTotal : StrictTotal TB.lt := tbLt_strictTotal

/-- **lexTopoSort_perm.** Permuting the node list and every adjacency list of the graph (any other
iteration order of the same `HashMap<Id, HashSet<Id>>`), and iterating the internal
`reverse_graph` sets in any order, does not change the output of the sort — for every graph with
distinct node keys (cycles and dangling edges included) and every total key function. -/
theorem lexTopoSort_perm {g g' : Graph} (hg : g.nodes.Nodup) (hp : GraphPerm g g')
    {psh psh' : Id → List Id → List Id} (hpsh : ∀ n l, (psh n l).Perm l)
    (hpsh' : ∀ n l, (psh' n l).Perm l) {key : Id → Option (Int × Int)} {kf : Id → Int × Int}
    (hk : ∀ n, key n = some (kf n)) :
    lexTopoSort psh' g' key = lexTopoSort psh g key := by
  rw [lexTopoSort_eq_lexTopo hg hpsh hk, lexTopoSort_eq_lexTopo (hp.nodes.symm.nodup hg) hpsh' hk,
    lexTopo_perm hg hp]

end Ruma.Props.C06
#print axioms Ruma.Props.C06.extractMin_perm
#print axioms Ruma.Props.C06.tieBreaker_strictTotal
#print axioms Ruma.Props.C06.lexTopoSort_perm
