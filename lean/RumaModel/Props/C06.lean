/-
  C06 — State resolution is deterministic and independent of input and hash-map order.
  Property theorems only; helper lemmas live in `Lemmas/StateRes*.lean`.

  Reading guide. Every `HashMap`/`HashSet` of `lib.rs` is a list in the model; wherever the code
  iterates one, the model applies an arbitrary permuting function (`Orders`, `psh`, `GraphPerm`).
  "For all `Orders` that are `Valid`" therefore reads "for all hash-iteration orders".
-/
import RumaModel.Lemmas.StateResStages
import RumaModel.Lemmas.StateResWitness
namespace Ruma.Props.C06
open Ruma Ruma.StateRes Ruma.Spec.StateResV2

/-- **extractMin_perm.** Popping a binary heap whose order is a strict total order: the popped
element, and the remaining heap up to storage order, do not depend on the order in which the
elements are stored. -/
theorem extractMin_perm {lt : α → α → Bool} (h : StrictTotal lt) {l l' : List α}
    (hp : l.Perm l') {m : α} {rest : List α} (hpop : popMin lt l = some (m, rest)) :
    ∃ rest', popMin lt l' = some (m, rest') ∧ rest.Perm rest' :=
  popMin_perm_invariant h hp hpop

/-- The code's `TieBreaker` order (power desc, ts asc, id asc) is a strict total order, so the
hypothesis of `extractMin_perm` holds for the heap of the sort. -/
theorem tieBreaker_strictTotal : StrictTotal TB.lt := tbLt_strictTotal

/-- **lexTopoSort_perm.** Permuting the node list and every adjacency list of the graph (any other
iteration order of the same `HashMap<Id, HashSet<Id>>`), and iterating the internal
`reverse_graph` sets in any order, does not change the output of the sort — for every graph with
distinct node keys (cycles and dangling edges included) and every key function that is defined on
every node of the graph (hypothesis `hk`: `key n = some (kf n)` for each node, i.e. the
`(power level, origin_server_ts)` look-up succeeds for every node; where it fails the code returns
an error, which is not what this theorem is about). -/
theorem lexTopoSort_perm {g g' : Graph} (hg : g.nodes.Nodup) (hp : GraphPerm g g')
    {psh psh' : Id → List Id → List Id} (hpsh : ∀ n l, (psh n l).Perm l)
    (hpsh' : ∀ n l, (psh' n l).Perm l) {key : Id → Option (Int × Int)} {kf : Id → Int × Int}
    (hk : ∀ n ∈ g.nodes, key n = some (kf n)) :
    lexTopoSort psh' g' key = lexTopoSort psh g key := by
  rw [lexTopoSort_eq_lexTopo hg hpsh hk,
    lexTopoSort_eq_lexTopo (hp.nodes.symm.nodup hg) hpsh' (fun n hn => hk n (hp.nodes.mem_iff.mp hn)),
    lexTopo_perm hg hp]

/-- **separate_perm.** Passing the state sets in another order, storing each of them in another
order and iterating `occurrences` in any order gives the same unconflicted map (same lookups) and
the same set of conflicted event ids. -/
theorem separate_perm {o o' : Orders} (ho : o.Valid) (ho' : o'.Valid) {sets sets' : List StateMap}
    (wf : SetsWF sets) (σ : StateMap → StateMap) (hσ : ∀ s, (σ s).Perm s)
    (hp : sets'.Perm (sets.map σ)) :
    StEq (separate o sets).1 (separate o' sets').1 ∧
    ∀ id, id ∈ confIds (separate o sets).2 ↔ id ∈ confIds (separate o' sets').2 := by
  have wf' := wf.of_perm σ hσ hp
  have hs := SetsEquiv.of_perm σ hσ hp
  constructor
  · intro k
    apply option_ext
    intro v
    rw [separate_clean ho wf, separate_clean ho' wf', hs.unconf wf]
  · intro id
    rw [separate_conf ho wf, separate_conf ho' wf']
    constructor
    · rintro ⟨k, h1, h2⟩
      exact ⟨k, (hs.has wf k id).mp h1, fun u => h2 ((hs.unconf wf k id).mpr u)⟩
    · rintro ⟨k, h1, h2⟩
      exact ⟨k, (hs.has wf k id).mpr h1, fun u => h2 ((hs.unconf wf k id).mp u)⟩

/-- **authChainDiff_perm.** The auth-chain difference is the same set (here: lists that are
permutations of each other) whatever the order of the chain arguments, of each chain's elements and
of `id_counts`. -/
theorem authChainDiff_perm {o o' : Orders} (ho : o.Valid) (ho' : o'.Valid) {chains chains' : List (List Id)}
    (hn : ∀ c ∈ chains, c.Nodup) (τ : List Id → List Id) (hτ : ∀ c, (τ c).Perm c)
    (hp : chains'.Perm (chains.map τ)) :
    (authChainDiff o chains).Perm (authChainDiff o' chains') := by
  rw [List.perm_ext_iff_of_nodup (nodup_authChainDiff ho _) (nodup_authChainDiff ho' _)]
  intro id
  rw [mem_authChainDiff ho hn, mem_authChainDiff ho' (chains_nodup_of_perm τ hτ hp hn),
    (ChainsEquiv.of_perm τ hτ hp).diff]

/-- **mainlineSort_perm.** The mainline sort of a duplicate-free list of event ids does not depend on
the order of the list nor on the iteration order of `order_map`. -/
theorem mainlineSort_perm {o o' : Orders} (ho : o.Valid) (ho' : o'.Valid) (fetch : Id → Option Event)
    (fuel : Nat) {l l' : List Id} (hn : l.Nodup) (hp : l.Perm l') (pl : Option Id) :
    mainlineSort o fetch fuel l pl = mainlineSort o' fetch fuel l' pl :=
  StateRes.mainlineSort_perm ho ho' fetch fuel hn hp pl

/-- **powerSort_perm** (under `WF`: every event of the full conflicted set `A` is known, cites the
room's create event `c0` and at most one power-levels event — so the create event is not in `A`).
The reverse topological power sort gives the same list whatever the order of `A`, of the graph's
node and edge sets, of `reverse_graph`, and therefore whichever node fills the creator cache. -/
theorem powerSort_perm (p : Params) {o o' : Orders} (ho : o.Valid) (ho' : o'.Valid)
    {fetch : Id → Option Event} {A A' : List Id} (hA : A.Nodup) (hp : A.Perm A') {c0 : Event}
    (hwf : ∀ n ∈ A, ∃ e, fetch n = some e ∧ EventWF fetch c0 e) (q : Id → Bool) :
    powerSort p o fetch A (A.filter q) = powerSort p o' fetch A' (A'.filter q) := by
  have hA' : A'.Nodup := hp.nodup hA
  have hAA : ∀ x, x ∈ A ↔ x ∈ A' := fun x => hp.mem_iff
  have hctl : ∀ c ∈ A.filter q, c ∈ A := fun c hc => (List.mem_filter.mp hc).1
  have hctl' : ∀ c ∈ A'.filter q, c ∈ A' := fun c hc => (List.mem_filter.mp hc).1
  have inv0 : GInv fetch A [] := ⟨by simp [Graph.nodes], by intro n es h; cases h⟩
  have cl0 : Closed fetch A [] [] := by intro n hn; simp [Graph.nodes] at hn
  obtain ⟨G, hb⟩ := buildGraph_total hA _ [] hctl inv0 cl0
  obtain ⟨inv, _, hnodes⟩ := buildGraph_ok _ [] G hb inv0 cl0
  have hGn : ∀ n, n ∈ G.nodes ↔ ∃ r ∈ A.filter q, Path fetch A r n := by
    intro n; rw [hnodes]; simp [Graph.nodes]
  have hGe : ∀ n es, (n, es) ∈ G → ∀ x, x ∈ es ↔ x ∈ children fetch A n :=
    fun n es h x => (inv.edges n es h).2 x
  have hGn' : ∀ n, n ∈ G.nodes ↔ ∃ r ∈ A'.filter q, Path fetch A' r n := by
    intro n; rw [hGn]
    constructor
    · rintro ⟨r, hr, hpth⟩
      obtain ⟨h1, h2⟩ := List.mem_filter.mp hr
      exact ⟨r, List.mem_filter.mpr ⟨(hAA r).mp h1, h2⟩, hpth.congr hAA⟩
    · rintro ⟨r, hr, hpth⟩
      obtain ⟨h1, h2⟩ := List.mem_filter.mp hr
      exact ⟨r, List.mem_filter.mpr ⟨(hAA r).mpr h1, h2⟩, hpth.congr (fun x => (hAA x).symm)⟩
  have hGe' : ∀ n es, (n, es) ∈ G → ∀ x, x ∈ es ↔ x ∈ children fetch A' n := by
    intro n es h x; rw [← children_congr _ hAA]; exact hGe n es h x
  rw [powerSort_eq ho hA hctl hwf G inv.nodup hGn hGe,
    powerSort_eq ho' hA' hctl' (fun n hn => hwf n ((hAA n).mpr hn)) G inv.nodup hGn' hGe']

/-- The per-event hypothesis `EventWF` of `powerSort_perm` is satisfiable: a topic event citing the
create event, a membership and a power-levels event. (`RoomWF` of a whole room: next example.) -/
example :
    let c0 : Event := { eventId := bs "$c", roomId := bs "!r", sender := bs "@a", type := tCreate,
                        stateKey := some [], content := [] }
    let m : Event := { eventId := bs "$m", roomId := bs "!r", sender := bs "@a", type := tMember,
                       stateKey := some (bs "@a"), content := [], authEvents := [bs "$c"] }
    let pl : Event := { eventId := bs "$p", roomId := bs "!r", sender := bs "@a", type := tPowerLevels,
                        stateKey := some [], content := [], authEvents := [bs "$c", bs "$m"] }
    let t : Event := { eventId := bs "$t", roomId := bs "!r", sender := bs "@a", type := bs "m.room.topic",
                       stateKey := some [], content := [], authEvents := [bs "$p", bs "$c", bs "$m"] }
    EventWF (fetchOf [c0, m, pl, t]) c0 t := by
  intro c0 m pl t
  exact ⟨⟨by decide, by decide⟩, by rfl⟩

/-- The room hypothesis `RoomWF` of `resolve_perm` (together with `SetsWF` and duplicate-free
chains) is satisfiable on a room in which there really is something to resolve: the F4 witness room
(`Lemmas/StateResWitness.lean`: two state sets that disagree on the topic, `$t1` against `$t2`) has
the non-empty full conflicted set `[$t1, $t2]` and satisfies all three hypotheses. -/
example :
    RoomWF F4Witness.store F4Witness.sets F4Witness.chains F4Witness.c ∧
    fullConflictedSet (fetchOf F4Witness.store) F4Witness.sets F4Witness.chains = [bs "$t1", bs "$t2"] ∧
    SetsWF F4Witness.sets ∧ (∀ c ∈ F4Witness.chains, c.Nodup) :=
  ⟨F4Witness.roomWF, F4Witness.fullConf_eq, F4Witness.setsWF, by decide +kernel⟩

/-- **resolve_perm.** For every room that satisfies `WF` (`RoomWF`), all iteration orders `o`, `o'`
of the hash containers, every permutation of the state-set argument and of each state map, and
every permutation of the auth-chain argument and of each chain: `resolve` fails in the same way or
returns state maps with the same lookups. -/
theorem resolve_perm (p : Params) {o o' : Orders} (ho : o.Valid) (ho' : o'.Valid) (store : List Event)
    {sets sets' : List StateMap} (wf : SetsWF sets)
    (σ : StateMap → StateMap) (hσ : ∀ s, (σ s).Perm s) (hps : sets'.Perm (sets.map σ))
    {chains chains' : List (List Id)} (hcn : ∀ c ∈ chains, c.Nodup)
    (τ : List Id → List Id) (hτ : ∀ c, (τ c).Perm c) (hpc : chains'.Perm (chains.map τ))
    {c0 : Event} (hwf : RoomWF store sets chains c0) :
    ResEq (resolve p o store sets chains) (resolve p o' store sets' chains') :=
  resolve_congr p ho ho' store wf (wf.of_perm σ hσ hps) (SetsEquiv.of_perm σ hσ hps) hcn
    (chains_nodup_of_perm τ hτ hpc hcn) (ChainsEquiv.of_perm τ hτ hpc) hwf

/-- **resolve_single.** Resolving one state set returns it: the result has exactly its lookups
(whatever the auth chains, the store and the iteration orders; no conflict branch is entered). -/
theorem resolve_single (p : Params) {o : Orders} (ho : o.Valid) (store : List Event) {s : StateMap}
    (hs : (AL.keys s).Nodup) (chains : List (List Id)) :
    ∃ m, resolve p o store [s] chains = .ok m ∧ StEq m s := by
  have wf : SetsWF [s] := by intro s' h; simp at h; subst h; exact hs
  have hu := unconf_of_identical (sets := [s]) hs (by simp) (by intro s' h; simp at h; subst h; exact .refl _)
  obtain ⟨m, h1, h2⟩ := resolve_noconflict p ho store wf chains (by
    rintro k id ⟨s', hs', hg⟩; simp at hs'; subst hs'; exact (hu k id).mpr hg)
  refine ⟨m, h1, fun k => option_ext (fun v => ?_)⟩
  rw [h2, hu]

/-- **resolve_identical.** Resolving n ≥ 1 copies of one state set (each possibly stored in a
different order) returns that set. -/
theorem resolve_identical (p : Params) {o : Orders} (ho : o.Valid) (store : List Event) {s : StateMap}
    (hs : (AL.keys s).Nodup) {sets : List StateMap} (hne : sets ≠ []) (hall : ∀ s' ∈ sets, s'.Perm s)
    (chains : List (List Id)) :
    ∃ m, resolve p o store sets chains = .ok m ∧ StEq m s := by
  have wf : SetsWF sets := by
    intro s' h
    have : (AL.keys s').Perm (AL.keys s) := (hall s' h).map _
    exact this.symm.nodup hs
  have hu := unconf_of_identical hs hne hall
  obtain ⟨m, h1, h2⟩ := resolve_noconflict p ho store wf chains (by
    rintro k id ⟨s', hs', hg⟩
    rw [hu, AL.get_perm hs (hall s' hs').symm]; exact hg)
  refine ⟨m, h1, fun k => option_ext (fun v => ?_)⟩
  rw [h2, hu]

end Ruma.Props.C06
#print axioms Ruma.Props.C06.extractMin_perm
#print axioms Ruma.Props.C06.tieBreaker_strictTotal
#print axioms Ruma.Props.C06.lexTopoSort_perm
#print axioms Ruma.Props.C06.separate_perm
#print axioms Ruma.Props.C06.authChainDiff_perm
#print axioms Ruma.Props.C06.mainlineSort_perm
#print axioms Ruma.Props.C06.powerSort_perm
#print axioms Ruma.Props.C06.resolve_perm
#print axioms Ruma.Props.C06.resolve_single
#print axioms Ruma.Props.C06.resolve_identical
