/-
  C01 — Canonical JSON is the spec's unique, order-independent, lossless encoding.
  Property theorems only; helper lemmas live in `Lemmas/Canonical*.lean`.

  Reading guide.
  * `normalize` is the model of `TryFrom<serde_json::Value> for CanonicalJsonValue`, `normalizeMap`
    of `try_from_json_map`, `encode` of the compact serialiser behind `to_string` / `Display` /
    `ruma_signatures::canonical_json` (`Model/Canonical.lean`). Strings are UTF-8 byte lists, an
    object is the list of its entries: *in text order, duplicates possible* for an input, ascending
    by key for a canonical value. `serdeValue` models serde_json's own `Map` construction in front
    of ruma's code (external; a later duplicate replaces an earlier one).
  * `Spec/CanonicalJson.lean` is the Matrix specification's side: `IntInRange`, `IsCanonical`
    (value level, strings as bytes), `CVal` / `CVal.WF` / `text` / `canonicalBytes` (the grammar, on
    code points), `CharText` (the ABNF's `char` production), `NoInsignificantWhitespace`,
    `Representable`, `utf8Encode`.
-/
import RumaModel.Lemmas.CanonicalSurj
namespace Ruma.Props.C01
open Ruma Ruma.Canonical Ruma.Spec.CanonicalJson

/-! ## The canonical value: sorted, duplicate-free, integers only, at every depth -/

/-- Whatever `normalize` accepts comes out canonical: at every depth the keys of every object are
strictly ascending (hence no key occurs twice), every number is an integer within ±(2^53−1), and no
non-integer number is left. -/
theorem normalize_sorted (v c : JVal) (h : normalize v = .ok c) : IsCanonical c :=
  normalize_isCanonical v c h

/-- The same for `try_from_json_map`. -/
theorem normalizeMap_sorted (kvs : List (Str × JVal)) (o : Obj) (h : normalizeMap kvs = .ok o) :
    IsCanonical (.obj o) := by
  unfold normalizeMap at h
  cases hn : normalizeO kvs with
  | error e => rw [hn] at h; cases h
  | ok l =>
    rw [hn] at h
    injection h with h
    subst h
    exact normalize_isCanonical (.obj kvs) _ (normalize_obj_ok.mpr ⟨l, hn, rfl⟩)

/-- Strictly ascending keys have no duplicates (spelled out for the top level). -/
theorem normalize_keys_nodup (kvs : List (Str × JVal)) (o : Obj) (h : normalize (.obj kvs) = .ok (.obj o)) :
    List.Pairwise (· < ·) (Obj.keys o) ∧ (Obj.keys o).Nodup := by
  have := normalize_sorted _ _ h
  exact ⟨this.1, sorted_keys_nodup this.1⟩

/-! ## The result does not depend on the order of the entries -/

/-- Top level: two objects whose entries are permutations of each other (distinct keys) are
converted to the same result — the same canonical value, or both are rejected. -/
theorem normalize_perm (kvs kvs' : List (Str × JVal)) (hp : kvs.Perm kvs') (hnd : (Obj.keys kvs).Nodup) :
    normalize (.obj kvs) = normalize (.obj kvs') :=
  normalize_obj_perm hp hnd

/-- Every depth: `Shuffled v w` says that `w` is `v` with the entries of any objects, at any depth,
reordered (each reordered object having distinct keys). Such values are converted alike. -/
theorem normalize_perm_deep (v w : JVal) (h : Shuffled v w) : normalize v = normalize w :=
  shuffled_normalize h

/-- The hypothesis is satisfiable on a non-trivial input: an object reordered at two depths. -/
example : Shuffled
    (.obj [(bs "a", .obj [(bs "x", .int 1), (bs "y", .int 2)]), (bs "b", .arr [.null])])
    (.obj [(bs "b", .arr [.null]), (bs "a", .obj [(bs "y", .int 2), (bs "x", .int 1)])]) := by
  refine .obj (mid := [(bs "a", .obj [(bs "y", .int 2), (bs "x", .int 1)]), (bs "b", .arr [.null])])
    (.cons ?_ (.cons (.atom _) .nil)) (List.Perm.swap _ _ _) (by decide)
  exact .obj (mid := [(bs "x", .int 1), (bs "y", .int 2)])
    (.cons (.atom _) (.cons (.atom _) .nil)) (List.Perm.swap _ _ _) (by decide)

/-- `try_from_json_map` likewise. -/
theorem normalizeMap_perm' (kvs kvs' : List (Str × JVal)) (hp : kvs.Perm kvs') (hnd : (Obj.keys kvs).Nodup) :
    normalizeMap kvs = normalizeMap kvs' :=
  normalizeMap_perm hp hnd

/-- Hence the bytes depend only on the value, not on the order of the text. -/
theorem canonical_bytes_order_independent (v w : JVal) (h : Shuffled v w) :
    (normalize v).map encode = (normalize w).map encode := by
  rw [normalize_perm_deep v w h]

/-! ## Duplicate keys: the last one decides -/

/-- If the entries are `pre ++ (k, v) :: post` and `k` does not occur again in `post`, the canonical
object holds under `k` the converted `v` — whatever earlier entries with key `k` said. -/
theorem normalize_dup_last_wins (pre post : List (Str × JVal)) (k : Str) (v : JVal) (o : Obj)
    (hk : k ∉ Obj.keys post) (h : normalize (.obj (pre ++ (k, v) :: post)) = .ok (.obj o)) :
    ∃ v', normalize v = .ok v' ∧ Obj.get o k = some v' := by
  obtain ⟨l, h1, h2⟩ := normalize_obj_ok.mp h
  injection h2 with h2
  subst h2
  obtain ⟨v', hv, hg⟩ := (normalizeO_getLast _ l k h1).1 v (getLast_append_cons pre post k v hk)
  exact ⟨v', hv, by rw [get_ofList]; exact hg⟩

example : normalize (.obj ([(bs "a", .int 1)] ++ (bs "a", .int 2) :: [(bs "b", .null)]))
    = .ok (.obj [(bs "a", .int 2), (bs "b", .null)]) := by rfl

/-- Said directly: an entry whose key occurs again later in the text can be deleted from the input
without changing the result (provided its own value is representable; serde_json drops it before
ruma sees it in any case, see `normalize_after_serde`). -/
theorem normalize_shadowed_duplicate_irrelevant (pre rest : List (Str × JVal)) (k : Str) (v0 c0 : JVal)
    (h0 : normalize v0 = .ok c0) (hk : k ∈ Obj.keys rest) :
    normalize (.obj (pre ++ (k, v0) :: rest)) = normalize (.obj (pre ++ rest)) :=
  normalize_drop_shadowed pre rest k v0 c0 h0 hk

/-- A key that does not occur in the input does not occur in the output. -/
theorem normalize_no_new_keys (kvs : List (Str × JVal)) (o : Obj) (k : Str)
    (hk : k ∉ Obj.keys kvs) (h : normalize (.obj kvs) = .ok (.obj o)) : Obj.get o k = none := by
  obtain ⟨l, h1, h2⟩ := normalize_obj_ok.mp h
  injection h2 with h2
  subst h2
  rw [get_ofList]
  exact (normalizeO_getLast _ l k h1).2 (getLast_none_of_not_mem kvs k hk)

/-- Together with sortedness these two facts determine the canonical object completely: two
strictly sorted objects with the same lookups are the same object. -/
theorem canonical_object_determined_by_lookups (o o' : Obj) (h : Obj.Sorted o) (h' : Obj.Sorted o')
    (hl : ∀ k, Obj.get o k = Obj.get o' k) : o = o' :=
  sorted_ext o o' h h' hl

/-- serde_json's own duplicate handling in front (`serdeValue`: a later duplicate replaces) changes
nothing whenever the conversion of the raw entries succeeds. -/
theorem normalize_after_serde (v c : JVal) (h : normalize v = .ok c) : normalize (serdeValue v) = .ok c :=
  normalize_serdeValue v c h

/-! ## Numbers: accepted iff representable, never altered -/

/-- An integer is accepted iff it lies in [−(2^53−1), 2^53−1], and it is then unchanged. -/
theorem normalize_int_iff (i : Int) (c : JVal) :
    normalize (.int i) = .ok c ↔ (-(2 ^ 53 - 1) ≤ i ∧ i ≤ 2 ^ 53 - 1) ∧ c = .int i := by
  rw [normalize]
  by_cases hi : intOk i = true
  · have := (intOk_iff i).mp hi
    simp only [hi, if_true, Except.ok.injEq]
    exact ⟨fun h => ⟨this, h.symm⟩, fun h => h.2.symm⟩
  · have : ¬ IntInRange i := fun h => hi ((intOk_iff i).mpr h)
    simp only [hi]
    constructor
    · intro h; cases h
    · intro h; exact absurd h.1 this

/-- A number that is not an i64 integer for serde_json is rejected. This holds by the construction of
the model's `JVal.float` ("every number for which `as_i64` answers `None`"); *that* fractions,
exponents, `-0` and numbers above u64 are such numbers is serde_json's number classification
(external code) and is checked by the differential correspondence (T2) only, not by a theorem. -/
theorem normalize_float_rejected : normalize .float = .error .intConvert := rfl

/-- In general: a value is accepted iff every number in it, at any depth, is an integer within
range (`Representable`); a single unrepresentable number anywhere rejects the whole value. -/
theorem normalize_ok_iff_representable (v : JVal) : (∃ c, normalize v = .ok c) ↔ Representable v :=
  normalize_ok_iff v

example : normalize (.arr [.obj [(bs "deep", .int 9007199254740992)]]) = .error .intConvert := by rfl
example : normalize (.arr [.obj [(bs "deep", .int (-9007199254740991))]])
    = .ok (.arr [.obj [(bs "deep", .int (-9007199254740991))]]) := by rfl

/-! ## Idempotence -/

/-- Converting a canonical value gives that value: nothing is reordered, dropped or changed. -/
theorem normalize_idempotent (c : JVal) (h : IsCanonical c) : normalize c = .ok c :=
  normalize_of_isCanonical c h

/-- In particular converting twice is converting once. -/
theorem normalize_twice (v c : JVal) (h : normalize v = .ok c) : normalize c = .ok c :=
  normalize_idempotent c (normalize_sorted v c h)

/-! ## Escapes are minimal and are the grammar's -/

/-- A byte of a string is written raw iff it is not `"`, `\` or a C0 control; these three kinds are
escaped (the escape starts with `\`). In particular U+007F and every byte of a multi-byte UTF-8
sequence are raw. -/
theorem escape_minimal (b : Nat) :
    (escapeByte b = [b] ↔ ¬ (b = 34 ∨ b = 92 ∨ b < 32)) ∧
    ((b = 34 ∨ b = 92 ∨ b < 32) → ∃ rest, escapeByte b = 92 :: rest ∧ rest ≠ []) :=
  ⟨escapeByte_raw_iff b, escapeByte_escaped b⟩

/-- What is written for a code point below U+0080 is exactly the grammar's `char` production
(short escapes `\b \f \n \r \t \" \\`, `\u00xx` lower-case for the other controls). -/
theorem escape_matches_grammar (b : Nat) (h : b ≤ 0x10FFFF) : CharText b (escapeByte b) := by
  rw [escapeByte_eq_charText]; exact charText_sound b h

/-- The grammar allows exactly one spelling per code point. -/
theorem grammar_char_unique (c : Nat) (t t' : List Nat) (h : CharText c t) (h' : CharText c t') : t = t' := by
  rw [charText_complete h, charText_complete h']

/-! ## No insignificant whitespace -/

/-- Outside string literals the output consists of structural bytes only (`{}[]:,`, digits, `-`,
the letters of `true false null`): no space, tab or line break between tokens. (The statement also
covers values containing `float`, which are not canonical and which `normalize` never returns; for
them `encode` is the empty placeholder `[]` of `Model/Canonical.lean`, so this theorem and the next
say nothing of interest about them.) -/
theorem encode_no_whitespace (v : JVal) : NoInsignificantWhitespace (encode v) := by
  intro x hx
  have := outside_encode v [] x (by rw [List.append_nil]; exact hx)
  rcases this with h | h
  · exact h
  · simp [outsideStrings] at h

/-- No byte of the output is below 0x20 at all (inside strings controls are escaped). -/
theorem encode_no_control_bytes (v : JVal) : ∀ x ∈ encode v, 32 ≤ x := encode_ge v

/-! ## UTF-8 byte order is code point order -/

/-- Byte-lexicographic order of UTF-8 encodings equals code-point-lexicographic order. This is what
makes the order of `BTreeMap<String, _>` (bytes) the order the specification asks for (code
points) — for all code points, astral ones included. -/
theorem utf8_lex_iff_codepoint_lex (a b : List Nat) : utf8Encode a < utf8Encode b ↔ a < b :=
  utf8Encode_lt_iff a b

/-- Different code point sequences have different UTF-8 encodings (so distinct keys stay distinct). -/
theorem utf8_injective (a b : List Nat) (h : utf8Encode a = utf8Encode b) : a = b :=
  utf8Encode_inj a b h

/-- UTF-16 code unit order is a different order (so an implementation sorting by UTF-16 would not
be canonical): U+FFFF < U+10000 as code points and in UTF-8, but not in UTF-16. -/
example : [0xFFFF] < [0x10000] ∧ utf8Encode [0xFFFF] < utf8Encode [0x10000] ∧
    ¬ ([0xFFFF].flatMap utf16EncodeChar < [0x10000].flatMap utf16EncodeChar) := by decide

/-- A well-formed specification value (keys ascending by code point), held in memory with UTF-8
strings, is canonical in the byte order the implementation uses. -/
theorem spec_value_is_canonical (v : CVal) (h : v.WF) : IsCanonical v.toJVal :=
  toJVal_isCanonical v h

/-! ## The bytes are the specification's -/

/-- The serialiser's output for a specification value is the UTF-8 encoding of the grammar's text
of that value: sorted members, no whitespace, the grammar's escapes, decimal integers. -/
theorem encode_eq_spec (v : CVal) : encode v.toJVal = canonicalBytes v :=
  encode_toJVal v

/-- Converting a well-formed specification value and serialising it yields canonical JSON in the
specification's sense. -/
theorem canonical_of_spec_value (v : CVal) (h : v.WF) :
    (normalize v.toJVal).map encode = .ok (canonicalBytes v) ∧ IsCanonicalJson (canonicalBytes v) := by
  rw [normalize_idempotent _ (spec_value_is_canonical v h)]
  exact ⟨congrArg _ (encode_eq_spec v), v, h, rfl⟩

/-- Any reordering, at any depth, of the in-memory form of a well-formed specification value is
converted and serialised to the specification's bytes of that value. -/
theorem canonical_of_any_reordering (v : CVal) (h : v.WF) (w : JVal) (hs : Shuffled v.toJVal w) :
    (normalize w).map encode = .ok (canonicalBytes v) := by
  rw [← normalize_perm_deep _ _ hs]
  exact (canonical_of_spec_value v h).1

/-- The three theorems above speak about in-memory values of the form `v.toJVal` (or reorderings
of one). This one closes the gap for *every* input: whatever `normalize` accepts, if the strings
and keys of the input are valid UTF-8 (`StringsUtf8`: each is the UTF-8 encoding of a sequence of
Unicode scalar values — the invariant of a Rust `String`), the serialised result is canonical JSON
in the specification's sense, i.e. it is the specification's byte string of some well-formed
specification value. Uses that `CVal.toJVal` is onto the canonical values with valid UTF-8 strings
(`toJVal_surjective`, `Lemmas/CanonicalSurj.lean`). -/
theorem canonical_of_normalize (v c : JVal) (h : normalize v = .ok c) (hu : StringsUtf8 v) :
    IsCanonicalJson (encode c) :=
  encode_isCanonicalJson c (normalize_sorted v c h) (normalize_stringsUtf8 v c h hu)

/-- The same for any canonical in-memory value (however it was obtained). -/
theorem canonical_of_canonical_value (c : JVal) (h : IsCanonical c) (hu : StringsUtf8 c) :
    IsCanonicalJson (encode c) :=
  encode_isCanonicalJson c h hu

/-- `StringsUtf8` holds on a non-trivial input (an astral character in a key and in a value,
entries out of order, a duplicate key), and `normalize` accepts it. -/
example : StringsUtf8 (.obj [(bs "b", .str [240, 159, 152, 128]), ([240, 144, 128, 128], .arr [.int 1]),
      (bs "b", .null)]) ∧
    normalize (.obj [(bs "b", .str [240, 159, 152, 128]), ([240, 144, 128, 128], .arr [.int 1]),
      (bs "b", .null)]) = .ok (.obj [(bs "b", .null), ([240, 144, 128, 128], .arr [.int 1])]) := by
  refine ⟨⟨⟨[0x62], ?_, by decide⟩, ⟨[0x1F600], ?_, by decide⟩, ⟨[0x10000], ?_, by decide⟩, ⟨trivial, trivial⟩,
    ⟨[0x62], ?_, by decide⟩, trivial, trivial⟩, by rfl⟩ <;>
  · intro c hc; simp at hc; subst hc; unfold IsScalar; omega

example : (CVal.obj [([0xFFFF], .int 2), ([0x10000], .str [0x1F600, 10])]).WF := by
  refine ⟨by unfold KeysAscending; decide, ?_, ?_, ?_, ?_, trivial⟩
  · intro c hc; simp at hc; subst hc; unfold IsScalar; omega
  · unfold CVal.WF IntInRange; omega
  · intro c hc; simp at hc; subst hc; unfold IsScalar; omega
  · intro c hc; simp at hc; rcases hc with hc | hc <;> subst hc <;> unfold IsScalar <;> omega

/-! ## Lossless: parsing it back gives an equal value -/

/-- `decodeCanon` (a reader for the canonical grammar, `Lemmas/CanonicalDecode.lean`) applied to
the serialised form of a canonical value returns that value. -/
theorem decode_encode (c : JVal) (h : IsCanonical c) : decodeCanon (encode c) = some c :=
  decodeCanon_encode c h

/-- Hence different canonical values have different bytes. -/
theorem encode_injective (c c' : JVal) (h : IsCanonical c) (h' : IsCanonical c')
    (he : encode c = encode c') : c = c' := by
  have h1 := decode_encode c h
  rw [he, decode_encode c' h'] at h1
  injection h1 with h1
  exact h1.symm

/-- Reading back what was produced from any accepted input gives the canonical value. -/
theorem decode_encode_normalize (v c : JVal) (h : normalize v = .ok c) : decodeCanon (encode c) = some c :=
  decode_encode c (normalize_sorted v c h)

example : IsCanonical (.obj [(bs "a", .arr [.int (-5), .str [34, 10, 240, 159, 152, 128]]), (bs "b", .obj [])]) := by
  refine ⟨by unfold Obj.Sorted; decide, ⟨⟨?_, trivial, trivial⟩, ⟨by unfold Obj.Sorted; decide, trivial⟩, trivial⟩⟩
  unfold IsCanonical IntInRange; omega

#print axioms normalize_sorted
#print axioms normalizeMap_sorted
#print axioms normalize_keys_nodup
#print axioms normalize_perm
#print axioms normalize_perm_deep
#print axioms normalizeMap_perm'
#print axioms canonical_bytes_order_independent
#print axioms normalize_dup_last_wins
#print axioms normalize_shadowed_duplicate_irrelevant
#print axioms normalize_no_new_keys
#print axioms canonical_object_determined_by_lookups
#print axioms normalize_after_serde
#print axioms normalize_int_iff
#print axioms normalize_float_rejected
#print axioms normalize_ok_iff_representable
#print axioms normalize_idempotent
#print axioms normalize_twice
#print axioms escape_minimal
#print axioms escape_matches_grammar
#print axioms grammar_char_unique
#print axioms encode_no_whitespace
#print axioms encode_no_control_bytes
#print axioms utf8_lex_iff_codepoint_lex
#print axioms utf8_injective
#print axioms spec_value_is_canonical
#print axioms encode_eq_spec
#print axioms canonical_of_spec_value
#print axioms canonical_of_any_reordering
#print axioms canonical_of_normalize
#print axioms canonical_of_canonical_value
#print axioms decode_encode
#print axioms encode_injective
#print axioms decode_encode_normalize

end Ruma.Props.C01
